#!/bin/bash
# Offline setup: pre-warm the Go build cache for the registered checks. Builds only from files on disk.
set -u
cd "$(dirname "${BASH_SOURCE[0]}")/lab" || exit 1
export GOFLAGS=-mod=mod GOPROXY=off GOSUMDB=off GOTOOLCHAIN=local
[ -f go.sum ] || cp /repo/go.sum go.sum
PKGS="./vc ./spec ./gen ./dslprint ./pipeline ./rt/... ./oracle ./cases ./valgen ./vtree ./cmd/lab"
for m in cmd/mon-c*; do [ -f "$m/main.go" ] && PKGS="$PKGS ./$m"; done
rc=0
for p in $PKGS; do
  go build -tags verif -o /dev/null $p 2>/dev/null || go build -o /dev/null $p 2>/dev/null || { echo "setup: cannot build $p (check will report it)"; }
done
# race-instrumented standard library and goa packages (C17 C19 C20 build with -race)
go build -race -tags verif -o /dev/null ./cmd/mon-c17 ./cmd/mon-c19 2>/dev/null || true
echo setup ok
exit $rc
