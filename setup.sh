#!/bin/bash
# Offline setup: pre-warm the Go build cache for the monitors. Builds only from files on disk.
set -u
cd "$(dirname "${BASH_SOURCE[0]}")/lab" || exit 1
export GOFLAGS=-mod=mod GOPROXY=off GOSUMDB=off GOTOOLCHAIN=local
[ -f go.sum ] || cp /repo/go.sum go.sum
go build -tags verif ./... || go build ./... || exit 1
echo setup ok
