package vc

import (
	"regexp"
	"runtime/debug"
	"strings"
)

func debugStack() []byte { return debug.Stack() }

var frameRe = regexp.MustCompile(`^\t(\S+\.go):(\d+)`)

// PanicSite extracts the first frame of a panic stack located in a file whose
// path contains one of the given substrings (e.g. "/repo/"), as "relpath:line".
func PanicSite(stack string, within ...string) string {
	lines := strings.Split(stack, "\n")
	seenPanic := false
	for _, l := range lines {
		if strings.HasPrefix(l, "panic(") {
			seenPanic = true
			continue
		}
		if !seenPanic {
			continue
		}
		m := frameRe.FindStringSubmatch(l)
		if m == nil {
			continue
		}
		for _, w := range within {
			if i := strings.Index(m[1], w); i >= 0 {
				return m[1][i+len(w):] + ":" + m[2]
			}
		}
	}
	return "unknown"
}
