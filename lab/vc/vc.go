// Package vc is the small common runtime of every check: deterministic PRNG,
// verdict accounting (held / violated / inconclusive), known-finding
// suppression, replay files, evidence files and exit codes.
package vc

import (
	"crypto/sha256"
	"encoding/hex"
	"encoding/json"
	"flag"
	"fmt"
	"os"
	"path/filepath"
	"sort"
	"strconv"
	"strings"
	"sync"
	"time"
)

// ---------------------------------------------------------------- PRNG

// Rand is a splitmix64 stream.
type Rand struct{ s uint64 }

func mix(z uint64) uint64 {
	z += 0x9e3779b97f4a7c15
	z = (z ^ (z >> 30)) * 0xbf58476d1ce4e5b9
	z = (z ^ (z >> 27)) * 0x94d049bb133111eb
	return z ^ (z >> 31)
}

// NewRand derives a stream from a seed and any number of indices.
func NewRand(seed uint64, idx ...uint64) *Rand {
	s := mix(seed)
	for _, i := range idx {
		s = mix(s ^ mix(i+0x51ed2701))
	}
	return &Rand{s}
}

func (r *Rand) Uint64() uint64 {
	r.s += 0x9e3779b97f4a7c15
	z := r.s
	z = (z ^ (z >> 30)) * 0xbf58476d1ce4e5b9
	z = (z ^ (z >> 27)) * 0x94d049bb133111eb
	return z ^ (z >> 31)
}

// Intn returns a value in [0,n). n<=0 returns 0.
func (r *Rand) Intn(n int) int {
	if n <= 0 {
		return 0
	}
	return int(r.Uint64() % uint64(n))
}

// Range returns a value in [lo,hi].
func (r *Rand) Range(lo, hi int) int {
	if hi <= lo {
		return lo
	}
	return lo + r.Intn(hi-lo+1)
}

func (r *Rand) Bool() bool { return r.Uint64()&1 == 1 }

// Chance is true with probability num/den.
func (r *Rand) Chance(num, den int) bool { return r.Intn(den) < num }

func (r *Rand) Float() float64 { return float64(r.Uint64()>>11) / (1 << 53) }

// Pick returns one of the strings.
func (r *Rand) Pick(xs ...string) string { return xs[r.Intn(len(xs))] }

// Perm returns a permutation of [0,n).
func (r *Rand) Perm(n int) []int {
	p := make([]int, n)
	for i := range p {
		p[i] = i
	}
	for i := n - 1; i > 0; i-- {
		j := r.Intn(i + 1)
		p[i], p[j] = p[j], p[i]
	}
	return p
}

// Fork derives an independent stream.
func (r *Rand) Fork(i uint64) *Rand { return NewRand(r.Uint64(), i) }

// Derive derives an independent stream from the current state WITHOUT advancing r: decisions drawn
// from it do not shift what r yields afterwards (used to add optional features to a generator
// without changing what it generates when the feature is not chosen).
func (r *Rand) Derive(i uint64) *Rand { return NewRand(mix(r.s^0x6a09e667f3bcc909), i) }

// ---------------------------------------------------------------- findings

// Finding is one entry of /verif/known_findings.json.
type Finding struct {
	Property string `json:"property"`
	Key      string `json:"key"`
	Status   string `json:"status"` // open | fixed
	Commit   string `json:"commit,omitempty"`
	What     string `json:"what"`
}

// Root returns the /verif directory.
func Root() string {
	if r := os.Getenv("VERIF_ROOT"); r != "" {
		return r
	}
	return "/verif"
}

func loadFindings() []Finding {
	b, err := os.ReadFile(filepath.Join(Root(), "known_findings.json"))
	if err != nil {
		return nil
	}
	var fs []Finding
	if err := json.Unmarshal(b, &fs); err != nil {
		fmt.Fprintf(os.Stderr, "known_findings.json: %v\n", err)
		os.Exit(2)
	}
	return fs
}

// ---------------------------------------------------------------- run

type violation struct {
	Key     string `json:"key"`
	What    string `json:"what"`
	Witness any    `json:"witness"`
	path    string
}

// Run accumulates what one check observed.
type Run struct {
	Prop   string
	Tier   string
	Seed   uint64
	Replay string
	Level  string

	mu          sync.Mutex
	start       time.Time
	evals       int64
	inconcl     int64
	inconclWhy  map[string]int64
	distinct    map[string]struct{}
	samples     []any
	maxSamples  int
	counters    map[string]int64
	sets        map[string]map[string]struct{}
	assumptions []string
	rule        string
	exhaustive  *bool
	extra       map[string]any
	viol        []violation
	violKeys    map[string]int
	known       map[string]Finding
	knownHits   map[string]int64
	floor       int64
	infra       []string
}

// New parses the common flags (--tier, --replay, --seed) and environment
// (VERIF_SEED, VERIF_TIER). Extra flags may be registered on flag.CommandLine
// before calling New.
func New(prop string) *Run {
	tier := flag.String("tier", envOr("VERIF_TIER", "quick"), "quick|thorough")
	replay := flag.String("replay", "", "replay file")
	seedS := flag.String("seed", envOr("VERIF_SEED", "1"), "seed")
	flag.Parse()
	seed, err := strconv.ParseUint(strings.TrimSpace(*seedS), 10, 64)
	if err != nil {
		// any string is accepted as a seed: hash it
		h := sha256.Sum256([]byte(*seedS))
		for i := 0; i < 8; i++ {
			seed = seed<<8 | uint64(h[i])
		}
		seed &= 0x7fffffffffffffff
	}
	if *tier != "quick" && *tier != "thorough" {
		fmt.Fprintf(os.Stderr, "bad tier %q\n", *tier)
		os.Exit(2)
	}
	r := &Run{Prop: prop, Tier: *tier, Seed: seed, Replay: *replay, Level: "exploration",
		start: time.Now(), distinct: map[string]struct{}{}, counters: map[string]int64{},
		sets: map[string]map[string]struct{}{}, extra: map[string]any{}, violKeys: map[string]int{},
		known: map[string]Finding{}, knownHits: map[string]int64{}, maxSamples: 6,
		inconclWhy: map[string]int64{}, floor: 2}
	for _, f := range loadFindings() {
		if f.Property == prop && f.Status == "open" {
			r.known[f.Key] = f
		}
	}
	return r
}

func envOr(k, d string) string {
	if v := os.Getenv(k); v != "" {
		return v
	}
	return d
}

// Thorough reports whether the thorough tier was requested.
func (r *Run) Thorough() bool { return r.Tier == "thorough" }

// N picks the quick or thorough bound.
func (r *Run) N(quick, thorough int) int {
	if r.Thorough() {
		return thorough
	}
	return quick
}

// Rand derives a PRNG stream from the run seed and indices.
func (r *Run) Rand(idx ...uint64) *Rand { return NewRand(r.Seed, idx...) }

// Eval counts n evaluated cases.
func (r *Run) Eval(n int) {
	r.mu.Lock()
	r.evals += int64(n)
	r.mu.Unlock()
}

// Distinct records the signature of a non-trivial case.
func (r *Run) Distinct(sig string) {
	r.mu.Lock()
	if len(sig) > 80 {
		h := sha256.Sum256([]byte(sig))
		sig = hex.EncodeToString(h[:12])
	}
	r.distinct[sig] = struct{}{}
	r.mu.Unlock()
}

// Inconclusive counts a case that could not be decided.
func (r *Run) Inconclusive(why string) {
	r.mu.Lock()
	r.inconcl++
	r.inconclWhy[why]++
	r.mu.Unlock()
}

// Sample keeps a few evaluated cases for the evidence file.
func (r *Run) Sample(v any) {
	r.mu.Lock()
	if len(r.samples) < r.maxSamples {
		r.samples = append(r.samples, v)
	}
	r.mu.Unlock()
}

// Count adds to a named observation counter.
func (r *Run) Count(name string, n int) {
	r.mu.Lock()
	r.counters[name] += int64(n)
	r.mu.Unlock()
}

// Counter returns the current value of a named observation counter.
func (r *Run) Counter(name string) int64 {
	r.mu.Lock()
	defer r.mu.Unlock()
	return r.counters[name]
}

// Max keeps the maximum of a named observation.
func (r *Run) Max(name string, n int) {
	r.mu.Lock()
	if int64(n) > r.counters[name] {
		r.counters[name] = int64(n)
	}
	r.mu.Unlock()
}

// Seen adds a member to a named set of distinct observations (reported as its size).
func (r *Run) Seen(set, member string) {
	r.mu.Lock()
	m := r.sets[set]
	if m == nil {
		m = map[string]struct{}{}
		r.sets[set] = m
	}
	m[member] = struct{}{}
	r.mu.Unlock()
}

func (r *Run) Assume(s ...string)    { r.assumptions = append(r.assumptions, s...) }
func (r *Run) Rule(s string)         { r.rule = s }
func (r *Run) Exhaustive(b bool)     { r.exhaustive = &b }
func (r *Run) Extra(k string, v any) { r.mu.Lock(); r.extra[k] = v; r.mu.Unlock() }

// Floor sets the minimum number of distinct non-trivial cases below which the
// run is inconclusive (exit 2).
func (r *Run) Floor(n int) { r.floor = int64(n) }

// Infra records an infrastructure failure: the run will exit 2.
func (r *Run) Infra(format string, a ...any) {
	r.mu.Lock()
	r.infra = append(r.infra, fmt.Sprintf(format, a...))
	r.mu.Unlock()
}

// Violation records a violated case. key identifies the specific failing
// thing (used for known-finding suppression and de-duplication); witness must
// contain everything needed to replay.
func (r *Run) Violation(key, what string, witness any) {
	r.mu.Lock()
	defer r.mu.Unlock()
	if _, ok := r.known[key]; ok {
		r.knownHits[key]++
		return
	}
	r.violKeys[key]++
	if r.violKeys[key] > 2 || len(r.viol) >= 150 {
		return // keep at most 3 witnesses per key, 40 per run
	}
	r.viol = append(r.viol, violation{Key: key, What: what, Witness: witness})
}

// Violations returns the number of distinct unsuppressed violation keys so far.
func (r *Run) Violations() int {
	r.mu.Lock()
	defer r.mu.Unlock()
	return len(r.violKeys)
}

// KnownHit reports whether a key is an open known finding.
func (r *Run) IsKnown(key string) bool { _, ok := r.known[key]; return ok }

// Finish writes the evidence file, prints the verdict lines and exits.
func (r *Run) Finish() {
	r.mu.Lock()
	defer r.mu.Unlock()
	root := Root()
	// replay files
	nviol := 0
	for k := range r.violKeys {
		_ = k
		nviol++
	}
	if len(r.viol) > 0 {
		_ = os.MkdirAll(filepath.Join(root, "replays"), 0o755)
	}
	for i := range r.viol {
		v := &r.viol[i]
		doc := map[string]any{"property": r.Prop, "tier": r.Tier, "seed": r.Seed, "key": v.Key, "what": v.What, "witness": v.Witness}
		b, _ := json.MarshalIndent(doc, "", " ")
		h := sha256.Sum256(b)
		v.path = filepath.Join(root, "replays", fmt.Sprintf("%s-%s.json", r.Prop, hex.EncodeToString(h[:6])))
		_ = os.WriteFile(v.path, b, 0o644)
	}
	// evidence
	cov := map[string]any{}
	for k, v := range r.extra {
		cov[k] = v
	}
	obs := map[string]any{}
	for k, v := range r.counters {
		obs[k] = v
	}
	for k, v := range r.sets {
		obs["distinct_"+k] = len(v)
	}
	cov["observed"] = obs
	cov["evaluations"] = r.evals
	cov["distinct_nontrivial"] = len(r.distinct)
	cov["rule"] = r.rule
	samples := r.samples
	if len(samples) == 0 {
		samples = []any{map[string]any{"note": "no case was sampled by this run", "evaluations": r.evals}}
	}
	cov["samples"] = samples
	cov["inconclusive"] = r.inconcl
	if len(r.inconclWhy) > 0 {
		cov["inconclusive_reasons"] = r.inconclWhy
	}
	if r.exhaustive != nil {
		cov["exhaustive"] = *r.exhaustive
	}
	kh := map[string]int64{}
	for k := range r.known {
		kh[k] = r.knownHits[k]
	}
	cov["known_finding_hits"] = kh
	vk := []string{}
	for k := range r.violKeys {
		vk = append(vk, k)
	}
	sort.Strings(vk)
	cov["violation_keys"] = vk
	ev := map[string]any{
		"property_id": r.Prop, "tier": r.Tier, "seed": r.Seed, "level": r.Level,
		"coverage": cov, "assumptions": r.assumptions, "wall_s": time.Since(r.start).Seconds(),
		"violations": nviol,
	}
	if r.assumptions == nil {
		ev["assumptions"] = []string{}
	}
	if r.Replay == "" {
		evdir := filepath.Join(root, "evidence")
		if vr := os.Getenv("VERIF_REPO"); vr != "" && vr != "/repo" {
			// calibration against another checkout: never overwrite the evidence of the real tree
			evdir = filepath.Join(root, "evidence", "calibration")
		}
		_ = os.MkdirAll(evdir, 0o755)
		b, _ := json.MarshalIndent(ev, "", " ")
		if err := os.WriteFile(filepath.Join(evdir, r.Prop+".json"), append(b, '\n'), 0o644); err != nil {
			fmt.Fprintf(os.Stderr, "evidence: %v\n", err)
			os.Exit(2)
		}
	}
	// verdict lines
	keys := make([]string, 0, len(r.known))
	for k := range r.known {
		keys = append(keys, k)
	}
	sort.Strings(keys)
	for _, k := range keys {
		f := r.known[k]
		fmt.Printf("KNOWN-FINDING: property=%s key=%s observed=%d %s\n", r.Prop, k, r.knownHits[k], f.What)
	}
	for _, v := range r.viol {
		fmt.Printf("VIOLATION property=%s replay=%s key=%s %s\n", r.Prop, v.path, v.Key, oneLine(v.What))
	}
	fmt.Printf("SUMMARY property=%s tier=%s seed=%d evaluations=%d distinct_nontrivial=%d inconclusive=%d violations=%d wall_s=%.1f\n",
		r.Prop, r.Tier, r.Seed, r.evals, len(r.distinct), r.inconcl, nviol, time.Since(r.start).Seconds())
	if nviol > 0 {
		os.Exit(1)
	}
	if len(r.infra) > 0 {
		for _, s := range r.infra {
			fmt.Printf("INCONCLUSIVE property=%s reason=%s\n", r.Prop, oneLine(s))
		}
		os.Exit(2)
	}
	if r.Replay == "" && int64(len(r.distinct)) < r.floor {
		fmt.Printf("INCONCLUSIVE property=%s reason=only %d distinct non-trivial cases (floor %d)\n", r.Prop, len(r.distinct), r.floor)
		os.Exit(2)
	}
	os.Exit(0)
}

func oneLine(s string) string {
	s = strings.ReplaceAll(s, "\n", " | ")
	if len(s) > 400 {
		s = s[:400] + "…"
	}
	return s
}

// LoadReplay reads the witness of a replay file into v.
func (r *Run) LoadReplay(v any) error {
	b, err := os.ReadFile(r.Replay)
	if err != nil {
		return err
	}
	var doc struct {
		Witness json.RawMessage `json:"witness"`
	}
	if err := json.Unmarshal(b, &doc); err != nil {
		return err
	}
	return json.Unmarshal(doc.Witness, v)
}

// Try runs f and converts a panic into a string (empty if none) plus the stack.
func Try(f func()) (pan string, stack string) {
	defer func() {
		if x := recover(); x != nil {
			pan = fmt.Sprint(x)
			if pan == "" {
				pan = "panic"
			}
			stack = string(debugStack())
		}
	}()
	f()
	return
}
