package pbrt

import (
	"context"
	"fmt"
	"io"
	"runtime/debug"
	"strings"
	"sync"
	"sync/atomic"

	"google.golang.org/grpc"
	"google.golang.org/grpc/codes"
	"google.golang.org/grpc/credentials/insecure"
	"google.golang.org/grpc/metadata"
	"google.golang.org/grpc/status"
	"google.golang.org/protobuf/proto"

	spb "google.golang.org/genproto/googleapis/rpc/status"
)

// LabConn is the minimal contract a connection must honour for the stand-in
// clients to run in loopback mode: it hands out the server implementation
// (a value implementing the generated <Service>Server interface) registered for
// a fully-qualified protobuf service name ("pkg.Service"), or nil.
type LabConn interface {
	LabServer(serviceName string) any
}

// Event is what a Conn reports to its Tap, in the order things would cross the wire.
type Event struct {
	FullMethod string // "/pkg.Service/Method"
	// Kind: "req_md" (request metadata as the server sees it), "req" (request message as
	// decoded by the server), "resp" (response message as decoded by the client), "header",
	// "trailer" (as received by the client), "status" (final status as received by the
	// client), "panic" (the server handler panicked; Text holds value and stack).
	Kind   string
	Msg    any
	MD     metadata.MD
	Status *status.Status
	Text   string
}

// Conn is a loopback connection: register generated servers on it with the
// generated Register<Service>Server(conn, impl), build generated clients with
// New<Service>Client(conn) — or, for code that insists on a *grpc.ClientConn
// (goa's generated NewClient does), with conn.ClientConn().
type Conn struct {
	mu       sync.Mutex
	services map[string]*service
	// Tap, when set, observes every wire event. It is called synchronously.
	Tap func(Event)
	// Fallback, when set, supplies server implementations that were not registered with RegisterService.
	Fallback LabConn

	cc     *grpc.ClientConn
	target string
}

type service struct {
	desc *grpc.ServiceDesc
	impl any
}

var (
	regMu   sync.Mutex
	targets = map[string]*Conn{}             // ClientConn target -> loopback
	descs   = map[string]*grpc.ServiceDesc{} // service name -> descriptor (registered by generated init functions)
	connSeq atomic.Int64
)

// NewConn returns an empty loopback connection.
func NewConn() *Conn { return &Conn{services: map[string]*service{}} }

// RegisterDesc records the descriptor of a generated service (called from the init
// function of every stand-in *_grpc.pb.go) so that implementations obtained through
// LabConn.LabServer can be dispatched too.
func RegisterDesc(d *grpc.ServiceDesc) {
	regMu.Lock()
	descs[d.ServiceName] = d
	regMu.Unlock()
}

// RegisterService implements grpc.ServiceRegistrar.
func (c *Conn) RegisterService(desc *grpc.ServiceDesc, impl any) {
	c.mu.Lock()
	defer c.mu.Unlock()
	if _, dup := c.services[desc.ServiceName]; dup {
		panic(fmt.Sprintf("pbrt: RegisterService found duplicate service registration for %q", desc.ServiceName))
	}
	c.services[desc.ServiceName] = &service{desc: desc, impl: impl}
}

// LabServer implements LabConn.
func (c *Conn) LabServer(name string) any {
	c.mu.Lock()
	defer c.mu.Unlock()
	if s := c.services[name]; s != nil {
		return s.impl
	}
	if c.Fallback != nil {
		return c.Fallback.LabServer(name)
	}
	return nil
}

// ClientConn returns a real, never-connected *grpc.ClientConn whose target is bound to
// this loopback: stand-in clients created from it dispatch in-process.
func (c *Conn) ClientConn() *grpc.ClientConn {
	c.mu.Lock()
	defer c.mu.Unlock()
	if c.cc != nil {
		return c.cc
	}
	c.target = fmt.Sprintf("passthrough:///pbrt-loopback-%d", connSeq.Add(1))
	cc, err := grpc.NewClient(c.target, grpc.WithTransportCredentials(insecure.NewCredentials()))
	if err != nil {
		panic("pbrt: grpc.NewClient: " + err.Error())
	}
	c.cc = cc
	regMu.Lock()
	targets[cc.Target()] = c
	regMu.Unlock()
	return cc
}

// Close releases the ClientConn created by ClientConn.
func (c *Conn) Close() {
	c.mu.Lock()
	cc := c.cc
	c.cc = nil
	c.mu.Unlock()
	if cc != nil {
		regMu.Lock()
		delete(targets, cc.Target())
		regMu.Unlock()
		_ = cc.Close()
	}
}

// Loopback is called by every generated New<Service>Client(cc): it returns the
// loopback connection behind cc (cc itself if it is a *Conn, the Conn that issued
// it if cc came from Conn.ClientConn, a fresh Conn wrapping cc if cc implements
// LabConn), or cc unchanged when it has nothing to do with the lab.
func Loopback(cc grpc.ClientConnInterface) grpc.ClientConnInterface {
	switch x := cc.(type) {
	case *Conn:
		return x
	case interface{ Target() string }:
		regMu.Lock()
		c := targets[x.Target()]
		regMu.Unlock()
		if c != nil {
			return c
		}
	}
	if lc, ok := cc.(LabConn); ok {
		c := NewConn()
		c.Fallback = lc
		return c
	}
	return cc
}

func (c *Conn) tap(e Event) {
	if c.Tap != nil {
		c.Tap(e)
	}
}

func (c *Conn) lookup(fullMethod string) (*service, string, error) {
	if !strings.HasPrefix(fullMethod, "/") {
		return nil, "", status.Errorf(codes.Unimplemented, "malformed method name: %q", fullMethod)
	}
	i := strings.LastIndexByte(fullMethod, '/')
	if i <= 0 {
		return nil, "", status.Errorf(codes.Unimplemented, "malformed method name: %q", fullMethod)
	}
	sn, mn := fullMethod[1:i], fullMethod[i+1:]
	c.mu.Lock()
	s := c.services[sn]
	fb := c.Fallback
	c.mu.Unlock()
	if s == nil && fb != nil {
		if impl := fb.LabServer(sn); impl != nil {
			regMu.Lock()
			d := descs[sn]
			regMu.Unlock()
			if d != nil {
				s = &service{desc: d, impl: impl}
			}
		}
	}
	if s == nil {
		return nil, "", status.Errorf(codes.Unimplemented, "unknown service %v", sn)
	}
	return s, mn, nil
}

// ---------------------------------------------------------------- metadata rules

// reserved reports header names a gRPC transport never forwards from user metadata
// (google.golang.org/grpc/internal/transport: isReservedHeader).
func reserved(k string) bool {
	if k != "" && k[0] == ':' {
		return true
	}
	switch k {
	case "content-type", "user-agent", "grpc-message-type", "grpc-encoding", "grpc-message", "grpc-status", "grpc-timeout", "te":
		return true
	}
	return false
}

// validateStrict is grpc's internal/metadata.Validate: the rule applied to outgoing
// request metadata and to stream headers.
func validateStrict(md metadata.MD) error {
	for k, vals := range md {
		if k == "" {
			return fmt.Errorf("there is an empty key in the header")
		}
		if k[0] == ':' {
			continue
		}
		for i := 0; i < len(k); i++ {
			r := k[i]
			if !(r >= 'a' && r <= 'z') && !(r >= '0' && r <= '9') && r != '.' && r != '-' && r != '_' {
				return fmt.Errorf("header key %q contains illegal characters not in [0-9a-z-_.]", k)
			}
		}
		if strings.HasSuffix(k, "-bin") {
			continue
		}
		for _, v := range vals {
			for i := 0; i < len(v); i++ {
				if v[i] < 0x20 || v[i] > 0x7E {
					return fmt.Errorf("header key %q contains value with non-printable ASCII characters", k)
				}
			}
		}
	}
	return nil
}

// validateTransport is what the HTTP/2 framing layer enforces where grpc itself does
// not validate (unary response headers and all trailers): lower-case token names and
// values without control characters.
func validateTransport(md metadata.MD) error {
	for k, vals := range md {
		if k == "" {
			return fmt.Errorf("empty header name")
		}
		for i := 0; i < len(k); i++ {
			r := k[i]
			if r <= 0x20 || r >= 0x7F || (r >= 'A' && r <= 'Z') || strings.IndexByte("\"(),/:;<=>?@[\\]{}", r) >= 0 {
				return fmt.Errorf("invalid header field name %q", k)
			}
		}
		if strings.HasSuffix(k, "-bin") {
			continue
		}
		for _, v := range vals {
			for i := 0; i < len(v); i++ {
				if (v[i] < 0x20 && v[i] != '\t') || v[i] == 0x7F {
					return fmt.Errorf("invalid header field value for %q", k)
				}
			}
		}
	}
	return nil
}

// forward copies user metadata as a transport would: reserved names are dropped.
func forward(md metadata.MD) metadata.MD {
	out := metadata.MD{}
	for k, vs := range md {
		if reserved(k) {
			continue
		}
		out[k] = append([]string(nil), vs...)
	}
	return out
}

// ---------------------------------------------------------------- server side state

// call is the state shared by the two ends of one RPC.
type call struct {
	conn       *Conn
	fullMethod string
	strict     bool // stream API (validates headers with grpc's rule)

	mu         sync.Mutex
	header     metadata.MD
	trailer    metadata.MD
	headerSent bool
	done       bool
	headerCh   chan struct{} // closed when the header is sent or the call ends
}

func newCall(c *Conn, fm string, strict bool) *call {
	return &call{conn: c, fullMethod: fm, strict: strict, headerCh: make(chan struct{})}
}

var errIllegalHeaderWrite = status.Error(codes.Internal, "transport: SendHeader called multiple times")

func (c *call) check(md metadata.MD) error {
	var err error
	if c.strict {
		err = validateStrict(md)
	} else {
		err = validateTransport(md)
	}
	if err != nil {
		return status.Error(codes.Internal, err.Error())
	}
	return nil
}

// Method, SetHeader, SendHeader and SetTrailer implement grpc.ServerTransportStream.
func (c *call) Method() string { return c.fullMethod }

func (c *call) SetHeader(md metadata.MD) error {
	if md.Len() == 0 {
		return nil
	}
	if err := c.check(md); err != nil {
		return err
	}
	c.mu.Lock()
	defer c.mu.Unlock()
	if c.headerSent || c.done {
		return errIllegalHeaderWrite
	}
	c.header = metadata.Join(c.header, md)
	return nil
}

func (c *call) SendHeader(md metadata.MD) error {
	if err := c.check(md); err != nil {
		return err
	}
	c.mu.Lock()
	defer c.mu.Unlock()
	if c.headerSent || c.done {
		return errIllegalHeaderWrite
	}
	c.header = metadata.Join(c.header, md)
	c.headerSent = true
	close(c.headerCh)
	return nil
}

func (c *call) SetTrailer(md metadata.MD) error {
	if md.Len() == 0 {
		return nil
	}
	c.mu.Lock()
	defer c.mu.Unlock()
	if c.done {
		return errIllegalHeaderWrite
	}
	c.trailer = metadata.Join(c.trailer, md)
	return nil
}

// implicitHeader marks the header as sent by the first message.
func (c *call) implicitHeader() {
	c.mu.Lock()
	if !c.headerSent && !c.done {
		c.headerSent = true
		close(c.headerCh)
	}
	c.mu.Unlock()
}

// finish ends the call and returns what the client receives: header, trailer, status.
func (c *call) finish(st *status.Status) (metadata.MD, metadata.MD, *status.Status) {
	c.mu.Lock()
	if !c.done {
		c.done = true
		if !c.headerSent {
			c.headerSent = true
			close(c.headerCh)
		}
	}
	h, t := forward(c.header), forward(c.trailer)
	c.mu.Unlock()
	// what the framing layer would refuse surfaces as an Internal error at the client
	if err := validateTransport(h); err != nil {
		return metadata.MD{}, metadata.MD{}, status.New(codes.Internal, "stream terminated by RST_STREAM with error code: PROTOCOL_ERROR ("+err.Error()+")")
	}
	if err := validateTransport(t); err != nil {
		return received(h), metadata.MD{}, status.New(codes.Internal, "stream terminated by RST_STREAM with error code: PROTOCOL_ERROR ("+err.Error()+")")
	}
	return received(h), t, wireStatus(st)
}

// received adds what a gRPC client always finds in the response header block.
func received(h metadata.MD) metadata.MD {
	h["content-type"] = []string{"application/grpc"}
	return h
}

func (c *call) sentHeader() metadata.MD {
	c.mu.Lock()
	defer c.mu.Unlock()
	return received(forward(c.header))
}

// wireStatus keeps what a transport carries of a status: code, message (made valid
// UTF-8) and details (already serialised).
func wireStatus(st *status.Status) *status.Status {
	if st == nil || st.Code() == codes.OK {
		return status.New(codes.OK, "")
	}
	p := proto.Clone(st.Proto()).(*spb.Status)
	p.Message = strings.ToValidUTF8(p.Message, "�")
	return status.FromProto(p)
}

// appStatus converts the error returned by a server handler as grpc.Server does.
func appStatus(err error) *status.Status {
	if err == nil {
		return status.New(codes.OK, "")
	}
	if st, ok := status.FromError(err); ok {
		return st
	}
	return status.FromContextError(err)
}

// serverContext builds the context a server handler runs with: no values of the
// client's context travel, only its deadline and cancellation.
func serverContext(cctx context.Context, md metadata.MD, c *call) (context.Context, context.CancelFunc) {
	base := context.Background()
	var cancels []context.CancelFunc
	if dl, ok := cctx.Deadline(); ok {
		var cf context.CancelFunc
		base, cf = context.WithDeadline(base, dl)
		cancels = append(cancels, cf)
	}
	sctx, cancel := context.WithCancel(base)
	stop := context.AfterFunc(cctx, cancel)
	sctx = metadata.NewIncomingContext(sctx, md)
	sctx = grpc.NewContextWithServerTransportStream(sctx, c)
	return sctx, func() {
		stop()
		cancel()
		for _, cf := range cancels {
			cf()
		}
	}
}

func outgoing(ctx context.Context) (metadata.MD, error) {
	md, _ := metadata.FromOutgoingContext(ctx) // joins pairs added with AppendToOutgoingContext; keys lower-cased
	if err := validateStrict(md); err != nil {
		return nil, status.Error(codes.Internal, err.Error())
	}
	return forward(md), nil
}

func applyOpts(opts []grpc.CallOption, h, t metadata.MD, err error) {
	for _, o := range opts {
		switch o := o.(type) {
		case grpc.HeaderCallOption:
			if o.HeaderAddr != nil {
				*o.HeaderAddr = h.Copy()
			}
		case grpc.TrailerCallOption:
			if o.TrailerAddr != nil {
				*o.TrailerAddr = t.Copy()
			}
		case grpc.OnFinishCallOption:
			if o.OnFinish != nil {
				o.OnFinish(err)
			}
		}
	}
}

func marshalErr(err error) error {
	return status.Errorf(codes.Internal, "grpc: error while marshaling: %v", err)
}

// protect runs a server handler, turning a panic into an Internal status (reported to the Tap).
func (c *Conn) protect(fm string, f func() error) (err error) {
	defer func() {
		if x := recover(); x != nil {
			text := fmt.Sprintf("%v\n%s", x, debug.Stack())
			c.tap(Event{FullMethod: fm, Kind: "panic", Text: text})
			err = status.Errorf(codes.Internal, "pbrt: server handler panicked: %v", x)
		}
	}()
	return f()
}

// ---------------------------------------------------------------- unary

// Invoke implements grpc.ClientConnInterface for unary methods.
func (c *Conn) Invoke(ctx context.Context, method string, args, reply any, opts ...grpc.CallOption) (err error) {
	var h, t metadata.MD
	defer func() { applyOpts(opts, h, t, err) }()
	if e := ctx.Err(); e != nil {
		return status.FromContextError(e).Err()
	}
	md, err := outgoing(ctx)
	if err != nil {
		return err
	}
	svc, mn, err := c.lookup(method)
	if err != nil {
		return err
	}
	var desc *grpc.MethodDesc
	for i := range svc.desc.Methods {
		if svc.desc.Methods[i].MethodName == mn {
			desc = &svc.desc.Methods[i]
		}
	}
	if desc == nil {
		return status.Errorf(codes.Unimplemented, "unknown method %v for service %v", mn, svc.desc.ServiceName)
	}
	req, nerr := Normalize(args)
	if nerr != nil {
		return marshalErr(nerr)
	}
	cl := newCall(c, method, false)
	sctx, cancel := serverContext(ctx, md, cl)
	defer cancel()
	c.tap(Event{FullMethod: method, Kind: "req_md", MD: md.Copy()})
	var resp any
	herr := c.protect(method, func() error {
		var e error
		resp, e = desc.Handler(svc.impl, sctx, func(v any) error {
			if e := CopyInto(v, req); e != nil {
				return status.Errorf(codes.Internal, "grpc: error unmarshalling request: %v", e)
			}
			c.tap(Event{FullMethod: method, Kind: "req", Msg: v})
			return nil
		}, nil)
		return e
	})
	st := appStatus(herr)
	var out any
	if st.Code() == codes.OK {
		// the reply is marshalled before the status is written: a failure replaces the status
		if out, nerr = Normalize(resp); nerr != nil {
			st = status.Convert(marshalErr(nerr))
		}
	}
	var wst *status.Status
	h, t, wst = cl.finish(st)
	c.tap(Event{FullMethod: method, Kind: "header", MD: h.Copy()})
	if wst.Code() == codes.OK {
		if e := CopyInto(reply, out); e != nil {
			wst = status.New(codes.Internal, "grpc: failed to unmarshal the received message: "+e.Error())
		} else {
			c.tap(Event{FullMethod: method, Kind: "resp", Msg: reply})
		}
	}
	c.tap(Event{FullMethod: method, Kind: "trailer", MD: t.Copy()})
	c.tap(Event{FullMethod: method, Kind: "status", Status: wst})
	if e := ctx.Err(); e != nil && wst.Code() == codes.OK {
		// the caller went away while the handler ran
		return status.FromContextError(e).Err()
	}
	return wst.Err()
}

// ---------------------------------------------------------------- streams

type queue struct {
	mu     sync.Mutex
	items  []any
	closed bool
	wake   chan struct{}
}

func newQueue() *queue { return &queue{wake: make(chan struct{}, 1)} }

func (q *queue) put(v any) bool {
	q.mu.Lock()
	defer q.mu.Unlock()
	if q.closed {
		return false
	}
	q.items = append(q.items, v)
	select {
	case q.wake <- struct{}{}:
	default:
	}
	return true
}

func (q *queue) close() {
	q.mu.Lock()
	q.closed = true
	q.mu.Unlock()
	select {
	case q.wake <- struct{}{}:
	default:
	}
}

// get returns the next item, io.EOF once the queue is closed and drained, or ctx's error.
func (q *queue) get(ctx context.Context) (any, error) {
	for {
		q.mu.Lock()
		if len(q.items) > 0 {
			v := q.items[0]
			q.items = q.items[1:]
			q.mu.Unlock()
			return v, nil
		}
		closed := q.closed
		q.mu.Unlock()
		if closed {
			return nil, io.EOF
		}
		select {
		case <-q.wake:
		case <-ctx.Done():
			return nil, ctx.Err()
		}
	}
}

type stream struct {
	*call
	desc   *grpc.StreamDesc
	cctx   context.Context
	sctx   context.Context
	cancel context.CancelFunc
	opts   []grpc.CallOption
	c2s    *queue
	s2c    *queue

	handlerDone chan struct{}
	final       *status.Status // status returned by the handler (valid after handlerDone)

	cmu        sync.Mutex
	sendClosed bool
	finished   bool
	rHeader    metadata.MD
	rTrailer   metadata.MD
}

// NewStream implements grpc.ClientConnInterface for streaming methods.
func (c *Conn) NewStream(ctx context.Context, desc *grpc.StreamDesc, method string, opts ...grpc.CallOption) (grpc.ClientStream, error) {
	if e := ctx.Err(); e != nil {
		return nil, status.FromContextError(e).Err()
	}
	md, err := outgoing(ctx)
	if err != nil {
		return nil, err
	}
	s := &stream{call: newCall(c, method, true), desc: desc, cctx: ctx, opts: opts, c2s: newQueue(), s2c: newQueue(), handlerDone: make(chan struct{})}
	s.sctx, s.cancel = serverContext(ctx, md, s.call)
	svc, mn, lerr := c.lookup(method)
	var sd *grpc.StreamDesc
	if lerr == nil {
		for i := range svc.desc.Streams {
			if svc.desc.Streams[i].StreamName == mn {
				sd = &svc.desc.Streams[i]
			}
		}
		if sd == nil {
			lerr = status.Errorf(codes.Unimplemented, "unknown method %v for service %v", mn, svc.desc.ServiceName)
		}
	}
	c.tap(Event{FullMethod: method, Kind: "req_md", MD: md.Copy()})
	go func() {
		err := lerr
		if err == nil {
			err = c.protect(method, func() error { return sd.Handler(svc.impl, &serverStream{s}) })
		}
		s.final = appStatus(err)
		s.s2c.close()
		close(s.handlerDone)
		s.cancel()
	}()
	return &clientStream{s}, nil
}

// ---- client end

type clientStream struct{ s *stream }

func (cs *clientStream) Context() context.Context { return cs.s.cctx }

func (cs *clientStream) Header() (metadata.MD, error) {
	s := cs.s
	select {
	case <-s.headerCh:
	case <-s.cctx.Done():
		err := status.FromContextError(s.cctx.Err()).Err()
		cs.finish(err)
		return nil, err
	}
	return s.sentHeader(), nil
}

func (cs *clientStream) Trailer() metadata.MD {
	cs.s.cmu.Lock()
	defer cs.s.cmu.Unlock()
	return cs.s.rTrailer.Copy()
}

func (cs *clientStream) CloseSend() error {
	s := cs.s
	s.cmu.Lock()
	s.sendClosed = true
	s.cmu.Unlock()
	s.c2s.close()
	return nil
}

func (cs *clientStream) SendMsg(m any) error {
	s := cs.s
	s.cmu.Lock()
	closed, fin := s.sendClosed, s.finished
	s.cmu.Unlock()
	if fin {
		return io.EOF
	}
	if closed {
		return status.Error(codes.Internal, "SendMsg called after CloseSend")
	}
	select {
	case <-s.handlerDone:
		return io.EOF // the status is delivered by RecvMsg
	default:
	}
	if e := s.cctx.Err(); e != nil {
		err := status.FromContextError(e).Err()
		cs.finish(err)
		return err
	}
	n, err := Normalize(m)
	if err != nil {
		err = marshalErr(err)
		cs.finish(err)
		return err
	}
	s.c2s.put(n)
	if !s.desc.ClientStreams {
		_ = cs.CloseSend()
	}
	return nil
}

// finish records the end of the RPC at the client: call options are honoured and the server is released.
func (cs *clientStream) finish(err error) {
	s := cs.s
	s.cmu.Lock()
	if s.finished {
		s.cmu.Unlock()
		return
	}
	s.finished = true
	var h, t metadata.MD
	select {
	case <-s.handlerDone:
		var wst *status.Status
		h, t, wst = s.call.finish(s.final)
		if err == nil || err == io.EOF {
			err = wst.Err()
		}
	default:
		// the client gives up before the server is done (cancellation, local error)
		h, t, _ = s.call.finish(status.New(codes.Canceled, "context canceled"))
		t = metadata.MD{}
	}
	s.rHeader, s.rTrailer = h, t
	s.cmu.Unlock()
	s.c2s.close()
	s.cancel()
	s.conn.tap(Event{FullMethod: s.fullMethod, Kind: "header", MD: h.Copy()})
	s.conn.tap(Event{FullMethod: s.fullMethod, Kind: "trailer", MD: t.Copy()})
	s.conn.tap(Event{FullMethod: s.fullMethod, Kind: "status", Status: status.Convert(err)})
	applyOpts(s.opts, h, t, err)
}

// end returns the error RecvMsg reports once the server side is over.
func (cs *clientStream) end() error {
	s := cs.s
	<-s.handlerDone
	_, _, wst := s.call.finish(s.final)
	cs.finish(wst.Err())
	if wst.Code() == codes.OK {
		return io.EOF
	}
	return wst.Err()
}

func (cs *clientStream) RecvMsg(m any) error {
	s := cs.s
	s.cmu.Lock()
	fin := s.finished
	s.cmu.Unlock()
	if fin {
		select {
		case <-s.handlerDone:
			_, _, wst := s.call.finish(s.final)
			if wst.Code() == codes.OK {
				return io.EOF
			}
			return wst.Err()
		default:
			return status.Error(codes.Canceled, "grpc: the client connection is closing")
		}
	}
	v, err := s.s2c.get(s.cctx)
	switch {
	case err == io.EOF:
		return cs.end()
	case err != nil:
		e := status.FromContextError(err).Err()
		cs.finish(e)
		return e
	}
	if e := CopyInto(m, v); e != nil {
		e = status.Errorf(codes.Internal, "grpc: failed to unmarshal the received message: %v", e)
		cs.finish(e)
		return e
	}
	s.conn.tap(Event{FullMethod: s.fullMethod, Kind: "resp", Msg: m})
	if s.desc.ServerStreams {
		return nil
	}
	// single response: the next thing on the wire must be the end of the stream
	_, err = s.s2c.get(s.cctx)
	switch {
	case err == io.EOF:
		if e := cs.end(); e != io.EOF {
			return e
		}
		return nil
	case err != nil:
		e := status.FromContextError(err).Err()
		cs.finish(e)
		return e
	}
	e := status.Error(codes.Internal, "cardinality violation: expected <EOF> for non server-streaming RPCs, but received another message")
	cs.finish(e)
	return e
}

// ---- server end

type serverStream struct{ s *stream }

func (ss *serverStream) Context() context.Context        { return ss.s.sctx }
func (ss *serverStream) SetHeader(md metadata.MD) error  { return ss.s.call.SetHeader(md) }
func (ss *serverStream) SendHeader(md metadata.MD) error { return ss.s.call.SendHeader(md) }
func (ss *serverStream) SetTrailer(md metadata.MD) {
	_ = ss.s.call.SetTrailer(md) // invalid trailers are only logged by grpc; the framing layer decides at the end
}

func (ss *serverStream) SendMsg(m any) error {
	s := ss.s
	if e := s.sctx.Err(); e != nil {
		return status.FromContextError(e).Err()
	}
	n, err := Normalize(m)
	if err != nil {
		return marshalErr(err)
	}
	s.implicitHeader()
	if !s.s2c.put(n) {
		return status.Error(codes.Internal, "transport: the stream is done")
	}
	return nil
}

func (ss *serverStream) RecvMsg(m any) error {
	s := ss.s
	v, err := s.c2s.get(s.sctx)
	switch {
	case err == io.EOF:
		return io.EOF
	case err != nil:
		return status.FromContextError(err).Err()
	}
	if e := CopyInto(m, v); e != nil {
		return status.Errorf(codes.Internal, "grpc: failed to unmarshal the received message: %v", e)
	}
	s.conn.tap(Event{FullMethod: s.fullMethod, Kind: "req", Msg: m})
	return nil
}
