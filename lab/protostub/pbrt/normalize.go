// Package pbrt is the runtime of the stand-in protobuf/gRPC code written by the
// lab's stand-in `protoc` (verif.local/lab/cmd/protoc, DESIGN §3.3).
//
// It provides (1) the proto3 WIRE NORMALISER: a deep copy of a stand-in message
// that keeps exactly the information the proto3 wire format carries, and (2) the
// LOOPBACK connection: a grpc.ClientConnInterface + grpc.ServiceRegistrar that
// dispatches calls in-process to the registered server implementation with the
// observable semantics of a real gRPC transport (metadata, headers, trailers,
// status-only errors, streaming, cancellation). See ../README.md.
package pbrt

import (
	"fmt"
	"reflect"
	"sort"
	"strings"
	"unicode/utf8"

	"google.golang.org/protobuf/proto"
)

var errInvalidUTF8 = fmt.Errorf("string field contains invalid UTF-8")

// Normalize returns the message a peer would decode after m went over a proto3
// wire:
//
//   - every message is deep-copied (no aliasing between the two sides);
//   - a repeated or map field with no element becomes nil; so does a non-optional
//     `bytes` field of length 0 (proto3 does not transmit them);
//   - an unset message field (nil) stays nil, a set one stays set (even if empty);
//   - a non-optional scalar keeps its value (zero included: zero and "absent"
//     are the same thing in proto3, both sides read zero);
//   - an `optional` field keeps presence and value (`optional bytes` keeps the
//     distinction between nil and empty);
//   - values that ARE present on the wire are materialised: a nil element of a
//     repeated message field or a nil message map value decodes as an empty
//     message, a nil `bytes` element / map value / oneof member as empty bytes;
//   - an unset oneof (nil interface or typed nil wrapper) stays nil;
//   - fields that are not protobuf fields (no `protobuf` struct tag) are dropped;
//   - a string (field, element, map key or value) that is not valid UTF-8 is an
//     error, as it is for the real marshaller.
//
// m must be a pointer to a stand-in message struct (or a real proto.Message,
// e.g. a well-known type, which is cloned). A nil pointer normalises to an
// empty message, as proto.Marshal encodes it as zero bytes.
func Normalize(m any) (any, error) {
	if m == nil {
		return nil, fmt.Errorf("pbrt: cannot marshal a nil interface")
	}
	v := reflect.ValueOf(m)
	if v.Kind() != reflect.Ptr || v.Type().Elem().Kind() != reflect.Struct {
		return nil, fmt.Errorf("pbrt: %T is not a protobuf message", m)
	}
	if v.IsNil() {
		return reflect.New(v.Type().Elem()).Interface(), nil
	}
	out, err := normMsg(v)
	if err != nil {
		return nil, err
	}
	return out.Interface(), nil
}

// CopyInto stores the (already normalised) message src into *dst, which must have the same type.
func CopyInto(dst, src any) error {
	dv, sv := reflect.ValueOf(dst), reflect.ValueOf(src)
	if dv.Kind() != reflect.Ptr || dv.IsNil() {
		return fmt.Errorf("pbrt: cannot unmarshal into %T", dst)
	}
	if dv.Type() != sv.Type() {
		return fmt.Errorf("pbrt: message type mismatch: have %T, want %T", src, dst)
	}
	if pm, ok := src.(proto.Message); ok {
		proto.Reset(dst.(proto.Message))
		proto.Merge(dst.(proto.Message), pm)
		return nil
	}
	dv.Elem().Set(sv.Elem())
	return nil
}

func normMsg(v reflect.Value) (reflect.Value, error) {
	if pm, ok := v.Interface().(proto.Message); ok {
		return reflect.ValueOf(proto.Clone(pm)), nil
	}
	t := v.Type().Elem()
	out := reflect.New(t)
	for i := 0; i < t.NumField(); i++ {
		sf := t.Field(i)
		if !sf.IsExported() {
			continue
		}
		src, dst := v.Elem().Field(i), out.Elem().Field(i)
		if _, ok := sf.Tag.Lookup("protobuf_oneof"); ok {
			if err := normOneof(src, dst); err != nil {
				return out, fmt.Errorf("%s.%s: %w", t.Name(), sf.Name, err)
			}
			continue
		}
		tag, ok := sf.Tag.Lookup("protobuf")
		if !ok {
			continue
		}
		optional := strings.HasSuffix(tag, ",oneof") || strings.Contains(tag, ",oneof,")
		if err := normField(src, dst, optional); err != nil {
			return out, fmt.Errorf("%s.%s: %w", t.Name(), sf.Name, err)
		}
	}
	return out, nil
}

func isBytes(t reflect.Type) bool {
	return t.Kind() == reflect.Slice && t.Elem().Kind() == reflect.Uint8
}

func isMsgPtr(t reflect.Type) bool {
	return t.Kind() == reflect.Ptr && t.Elem().Kind() == reflect.Struct
}

// normField copies a singular/repeated/map field.
func normField(src, dst reflect.Value, optional bool) error {
	t := src.Type()
	switch {
	case isMsgPtr(t):
		if src.IsNil() {
			return nil
		}
		c, err := normMsg(src)
		if err != nil {
			return err
		}
		dst.Set(c)
	case t.Kind() == reflect.Ptr: // optional scalar
		if src.IsNil() {
			return nil
		}
		p := reflect.New(t.Elem())
		if err := normScalar(src.Elem(), p.Elem()); err != nil {
			return err
		}
		dst.Set(p)
	case isBytes(t):
		if src.IsNil() || (src.Len() == 0 && !optional) {
			return nil
		}
		dst.Set(cloneBytes(src))
	case t.Kind() == reflect.Slice:
		if src.Len() == 0 {
			return nil
		}
		s := reflect.MakeSlice(t, src.Len(), src.Len())
		for i := 0; i < src.Len(); i++ {
			if err := normPresent(src.Index(i), s.Index(i)); err != nil {
				return err
			}
		}
		dst.Set(s)
	case t.Kind() == reflect.Map:
		if src.Len() == 0 {
			return nil
		}
		m := reflect.MakeMapWithSize(t, src.Len())
		it := src.MapRange()
		for it.Next() {
			k := reflect.New(t.Key()).Elem()
			if err := normScalar(it.Key(), k); err != nil {
				return err
			}
			e := reflect.New(t.Elem()).Elem()
			if err := normPresent(it.Value(), e); err != nil {
				return err
			}
			m.SetMapIndex(k, e)
		}
		dst.Set(m)
	default:
		return normScalar(src, dst)
	}
	return nil
}

// normPresent copies a value that is explicitly present on the wire (repeated
// element, map value, oneof member): nil message / bytes decode as empty ones.
func normPresent(src, dst reflect.Value) error {
	t := src.Type()
	switch {
	case isMsgPtr(t):
		if src.IsNil() {
			dst.Set(reflect.New(t.Elem()))
			return nil
		}
		c, err := normMsg(src)
		if err != nil {
			return err
		}
		dst.Set(c)
	case isBytes(t):
		if src.Len() == 0 {
			dst.Set(reflect.MakeSlice(t, 0, 0))
			return nil
		}
		dst.Set(cloneBytes(src))
	default:
		return normScalar(src, dst)
	}
	return nil
}

func cloneBytes(src reflect.Value) reflect.Value {
	c := reflect.MakeSlice(src.Type(), src.Len(), src.Len())
	reflect.Copy(c, src)
	return c
}

func normScalar(src, dst reflect.Value) error {
	switch src.Kind() {
	case reflect.String:
		if !utf8.ValidString(src.String()) {
			return errInvalidUTF8
		}
		dst.SetString(src.String())
	case reflect.Bool, reflect.Int32, reflect.Int64, reflect.Uint32, reflect.Uint64, reflect.Float32, reflect.Float64:
		dst.Set(src)
	default:
		return fmt.Errorf("pbrt: unsupported field type %s", src.Type())
	}
	return nil
}

func normOneof(src, dst reflect.Value) error {
	if src.Kind() != reflect.Interface {
		return fmt.Errorf("pbrt: oneof field is not an interface")
	}
	if src.IsNil() {
		return nil
	}
	w := src.Elem() // *Msg_Field
	if w.Kind() != reflect.Ptr || w.Type().Elem().Kind() != reflect.Struct || w.Type().Elem().NumField() != 1 {
		return fmt.Errorf("pbrt: %s is not a oneof wrapper", w.Type())
	}
	if w.IsNil() {
		return nil // typed nil wrapper: the real marshaller treats it as unset
	}
	c := reflect.New(w.Type().Elem())
	if err := normPresent(w.Elem().Field(0), c.Elem().Field(0)); err != nil {
		return err
	}
	dst.Set(c)
	return nil
}

// String renders a stand-in message deterministically (String() of the generated types).
func String(m any) string {
	var b strings.Builder
	writeValue(&b, reflect.ValueOf(m), 0)
	return b.String()
}

func writeValue(b *strings.Builder, v reflect.Value, depth int) {
	if depth > 32 {
		b.WriteString("...")
		return
	}
	switch v.Kind() {
	case reflect.Invalid:
		b.WriteString("<nil>")
	case reflect.Ptr, reflect.Interface:
		if v.IsNil() {
			b.WriteString("<nil>")
			return
		}
		writeValue(b, v.Elem(), depth)
	case reflect.Struct:
		b.WriteByte('{')
		first := true
		for i := 0; i < v.NumField(); i++ {
			sf := v.Type().Field(i)
			if !sf.IsExported() {
				continue
			}
			f := v.Field(i)
			if f.IsZero() {
				continue
			}
			if !first {
				b.WriteByte(' ')
			}
			first = false
			b.WriteString(sf.Name)
			b.WriteByte(':')
			writeValue(b, f, depth+1)
		}
		b.WriteByte('}')
	case reflect.Slice:
		if isBytes(v.Type()) {
			fmt.Fprintf(b, "%q", v.Bytes())
			return
		}
		b.WriteByte('[')
		for i := 0; i < v.Len(); i++ {
			if i > 0 {
				b.WriteByte(' ')
			}
			writeValue(b, v.Index(i), depth+1)
		}
		b.WriteByte(']')
	case reflect.Map:
		keys := v.MapKeys()
		sort.Slice(keys, func(i, j int) bool { return fmt.Sprint(keys[i]) < fmt.Sprint(keys[j]) })
		b.WriteString("map[")
		for i, k := range keys {
			if i > 0 {
				b.WriteByte(' ')
			}
			fmt.Fprintf(b, "%v:", k)
			writeValue(b, v.MapIndex(k), depth+1)
		}
		b.WriteByte(']')
	case reflect.String:
		fmt.Fprintf(b, "%q", v.String())
	default:
		fmt.Fprintf(b, "%v", v)
	}
}
