package protostub

import (
	"bytes"
	"fmt"
	"os/exec"

	"google.golang.org/protobuf/proto"
	"google.golang.org/protobuf/reflect/protodesc"
	"google.golang.org/protobuf/reflect/protoreflect"
	"google.golang.org/protobuf/reflect/protoregistry"
	"google.golang.org/protobuf/types/descriptorpb"
	"google.golang.org/protobuf/types/pluginpb"

	// the well-known files must be linked in for protoregistry.GlobalFiles to resolve them
	_ "google.golang.org/protobuf/types/known/anypb"
	_ "google.golang.org/protobuf/types/known/durationpb"
	_ "google.golang.org/protobuf/types/known/emptypb"
	_ "google.golang.org/protobuf/types/known/fieldmaskpb"
	_ "google.golang.org/protobuf/types/known/structpb"
	_ "google.golang.org/protobuf/types/known/timestamppb"
	_ "google.golang.org/protobuf/types/known/wrapperspb"
)

// Descriptor converts a checked file into the FileDescriptorProto the real
// protoc would hand to its plugins. It is used (a) to have protobuf-go's own
// descriptor validation (protodesc.NewFile) confirm, as a second independent
// judge, every file the parser accepts and (b) by the tests that compare the
// stand-in Go writer with the real protoc-gen-go.
func Descriptor(f *File) *descriptorpb.FileDescriptorProto {
	fd := &descriptorpb.FileDescriptorProto{Name: proto.String(f.Name), Syntax: proto.String("proto3")}
	if f.Package != "" {
		fd.Package = proto.String(f.Package)
	}
	for i, imp := range f.Imports {
		fd.Dependency = append(fd.Dependency, imp.Path)
		switch imp.Modifier {
		case "public":
			fd.PublicDependency = append(fd.PublicDependency, int32(i))
		case "weak":
			fd.WeakDependency = append(fd.WeakDependency, int32(i))
		}
	}
	if f.GoPackage != "" {
		fd.Options = &descriptorpb.FileOptions{GoPackage: proto.String(f.GoPackage)}
	}
	for _, m := range f.Messages {
		fd.MessageType = append(fd.MessageType, messageDesc(m))
	}
	for _, e := range f.Enums {
		fd.EnumType = append(fd.EnumType, enumDesc(e))
	}
	for _, s := range f.Services {
		sd := &descriptorpb.ServiceDescriptorProto{Name: proto.String(s.Name)}
		for _, m := range s.Methods {
			md := &descriptorpb.MethodDescriptorProto{Name: proto.String(m.Name), InputType: proto.String("." + m.In.FullName), OutputType: proto.String("." + m.Out.FullName)}
			if m.ClientStream {
				md.ClientStreaming = proto.Bool(true)
			}
			if m.ServerStream {
				md.ServerStreaming = proto.Bool(true)
			}
			sd.Method = append(sd.Method, md)
		}
		fd.Service = append(fd.Service, sd)
	}
	return fd
}

var scalarDescType = map[string]descriptorpb.FieldDescriptorProto_Type{
	"double": descriptorpb.FieldDescriptorProto_TYPE_DOUBLE, "float": descriptorpb.FieldDescriptorProto_TYPE_FLOAT,
	"int32": descriptorpb.FieldDescriptorProto_TYPE_INT32, "int64": descriptorpb.FieldDescriptorProto_TYPE_INT64,
	"uint32": descriptorpb.FieldDescriptorProto_TYPE_UINT32, "uint64": descriptorpb.FieldDescriptorProto_TYPE_UINT64,
	"sint32": descriptorpb.FieldDescriptorProto_TYPE_SINT32, "sint64": descriptorpb.FieldDescriptorProto_TYPE_SINT64,
	"fixed32": descriptorpb.FieldDescriptorProto_TYPE_FIXED32, "fixed64": descriptorpb.FieldDescriptorProto_TYPE_FIXED64,
	"sfixed32": descriptorpb.FieldDescriptorProto_TYPE_SFIXED32, "sfixed64": descriptorpb.FieldDescriptorProto_TYPE_SFIXED64,
	"bool": descriptorpb.FieldDescriptorProto_TYPE_BOOL, "string": descriptorpb.FieldDescriptorProto_TYPE_STRING,
	"bytes": descriptorpb.FieldDescriptorProto_TYPE_BYTES,
}

func setType(fd *descriptorpb.FieldDescriptorProto, f *Field, tn string) {
	if t, ok := scalarDescType[tn]; ok {
		fd.Type = t.Enum()
		return
	}
	if f.Msg != nil {
		fd.Type = descriptorpb.FieldDescriptorProto_TYPE_MESSAGE.Enum()
		fd.TypeName = proto.String("." + f.Msg.FullName)
		return
	}
	fd.Type = descriptorpb.FieldDescriptorProto_TYPE_ENUM.Enum()
	fd.TypeName = proto.String("." + f.Enum.FullName)
}

func messageDesc(m *Message) *descriptorpb.DescriptorProto {
	md := &descriptorpb.DescriptorProto{Name: proto.String(m.Name)}
	oneofIdx := map[*Oneof]int32{}
	for i, o := range m.Oneofs {
		oneofIdx[o] = int32(i)
		md.OneofDecl = append(md.OneofDecl, &descriptorpb.OneofDescriptorProto{Name: proto.String(o.Name)})
	}
	for _, n := range m.Messages {
		md.NestedType = append(md.NestedType, messageDesc(n))
	}
	for _, e := range m.Enums {
		md.EnumType = append(md.EnumType, enumDesc(e))
	}
	taken := map[string]bool{}
	for _, f := range m.Fields {
		taken[f.Name] = true
	}
	for _, o := range m.Oneofs {
		taken[o.Name] = true
	}
	for _, f := range m.Fields {
		fd := &descriptorpb.FieldDescriptorProto{Name: proto.String(f.Name), Number: proto.Int32(int32(f.Number)), JsonName: proto.String(f.JSONName),
			Label: descriptorpb.FieldDescriptorProto_LABEL_OPTIONAL.Enum()}
		switch {
		case f.IsMap():
			entry := camelEntry(f.Name)
			k := &descriptorpb.FieldDescriptorProto{Name: proto.String("key"), Number: proto.Int32(1), JsonName: proto.String("key"), Label: descriptorpb.FieldDescriptorProto_LABEL_OPTIONAL.Enum()}
			setType(k, f, f.KeyType)
			v := &descriptorpb.FieldDescriptorProto{Name: proto.String("value"), Number: proto.Int32(2), JsonName: proto.String("value"), Label: descriptorpb.FieldDescriptorProto_LABEL_OPTIONAL.Enum()}
			setType(v, f, f.ValType)
			md.NestedType = append(md.NestedType, &descriptorpb.DescriptorProto{Name: proto.String(entry), Field: []*descriptorpb.FieldDescriptorProto{k, v},
				Options: &descriptorpb.MessageOptions{MapEntry: proto.Bool(true)}})
			fd.Label = descriptorpb.FieldDescriptorProto_LABEL_REPEATED.Enum()
			fd.Type = descriptorpb.FieldDescriptorProto_TYPE_MESSAGE.Enum()
			fd.TypeName = proto.String("." + m.FullName + "." + entry)
		default:
			setType(fd, f, f.Type)
			if f.IsRepeated() {
				fd.Label = descriptorpb.FieldDescriptorProto_LABEL_REPEATED.Enum()
			}
		}
		switch {
		case f.Oneof != nil:
			fd.OneofIndex = proto.Int32(oneofIdx[f.Oneof])
		case f.IsOptional():
			// proto3 optional: a synthetic oneof named after the field, declared after the real ones
			name := "_" + f.Name
			for taken[name] {
				name = "X" + name
			}
			taken[name] = true
			fd.OneofIndex = proto.Int32(int32(len(md.OneofDecl)))
			fd.Proto3Optional = proto.Bool(true)
			md.OneofDecl = append(md.OneofDecl, &descriptorpb.OneofDescriptorProto{Name: proto.String(name)})
		}
		md.Field = append(md.Field, fd)
	}
	for _, r := range m.Reserved {
		md.ReservedRange = append(md.ReservedRange, &descriptorpb.DescriptorProto_ReservedRange{Start: proto.Int32(int32(r.Lo)), End: proto.Int32(int32(r.Hi + 1))})
	}
	md.ReservedName = append(md.ReservedName, m.ResNames...)
	return md
}

func enumDesc(e *Enum) *descriptorpb.EnumDescriptorProto {
	ed := &descriptorpb.EnumDescriptorProto{Name: proto.String(e.Name)}
	if e.AllowAlias {
		ed.Options = &descriptorpb.EnumOptions{AllowAlias: proto.Bool(true)}
	}
	for _, v := range e.Values {
		ed.Value = append(ed.Value, &descriptorpb.EnumValueDescriptorProto{Name: proto.String(v.Name), Number: proto.Int32(int32(v.Number))})
	}
	return ed
}

// CrossCheck has protobuf-go validate the descriptor of a file the parser accepted. Imports other than the
// google/protobuf well-known files (which are linked in) are not supported and yield nil.
func CrossCheck(f *File) error {
	for _, imp := range f.Imports {
		if !imp.File.IsWellKnown() {
			return nil
		}
	}
	fd := Descriptor(f)
	if fd.GetName() == "" {
		fd.Name = proto.String("input.proto")
	}
	if _, err := protodesc.NewFile(fd, wellKnownResolver{}); err != nil {
		return fmt.Errorf("protobuf-go rejects the descriptor of a file the parser accepted: %w", err)
	}
	return nil
}

type wellKnownResolver struct{}

func (wellKnownResolver) FindFileByPath(p string) (protoreflect.FileDescriptor, error) {
	return protoregistry.GlobalFiles.FindFileByPath(p)
}

func (wellKnownResolver) FindDescriptorByName(n protoreflect.FullName) (protoreflect.Descriptor, error) {
	return protoregistry.GlobalFiles.FindDescriptorByName(n)
}

// RunPlugin runs a real protoc plugin (protoc-gen-go) on the file as protoc would and returns the single file it generates.
func RunPlugin(plugin string, f *File, parameter string) ([]byte, error) {
	fd := Descriptor(f)
	req := &pluginpb.CodeGeneratorRequest{FileToGenerate: []string{fd.GetName()}, Parameter: proto.String(parameter),
		CompilerVersion: &pluginpb.Version{Major: proto.Int32(3), Minor: proto.Int32(21), Patch: proto.Int32(12)}}
	for _, imp := range f.Imports {
		d, err := protoregistry.GlobalFiles.FindFileByPath(imp.Path)
		if err != nil {
			return nil, fmt.Errorf("import %s: %v", imp.Path, err)
		}
		req.ProtoFile = append(req.ProtoFile, protodesc.ToFileDescriptorProto(d))
	}
	req.ProtoFile = append(req.ProtoFile, fd)
	in, err := proto.Marshal(req)
	if err != nil {
		return nil, err
	}
	cmd := exec.Command(plugin)
	cmd.Stdin = bytes.NewReader(in)
	var out, se bytes.Buffer
	cmd.Stdout, cmd.Stderr = &out, &se
	if err := cmd.Run(); err != nil {
		return nil, fmt.Errorf("%v: %s", err, se.String())
	}
	var resp pluginpb.CodeGeneratorResponse
	if err := proto.Unmarshal(out.Bytes(), &resp); err != nil {
		return nil, err
	}
	if resp.Error != nil {
		return nil, fmt.Errorf("%s", resp.GetError())
	}
	if len(resp.File) != 1 {
		return nil, fmt.Errorf("plugin returned %d files", len(resp.File))
	}
	return []byte(resp.File[0].GetContent()), nil
}
