package protostub

import (
	"sort"
	"strings"
)

// External files: the google/protobuf well-known files. Their Go types come
// from google.golang.org/protobuf/types/known/*.
type wkFile struct {
	goPkg string
	msgs  []string
	enums []string
}

var wellKnownFiles = map[string]wkFile{
	"google/protobuf/timestamp.proto":  {"google.golang.org/protobuf/types/known/timestamppb", []string{"Timestamp"}, nil},
	"google/protobuf/duration.proto":   {"google.golang.org/protobuf/types/known/durationpb", []string{"Duration"}, nil},
	"google/protobuf/empty.proto":      {"google.golang.org/protobuf/types/known/emptypb", []string{"Empty"}, nil},
	"google/protobuf/any.proto":        {"google.golang.org/protobuf/types/known/anypb", []string{"Any"}, nil},
	"google/protobuf/struct.proto":     {"google.golang.org/protobuf/types/known/structpb", []string{"Struct", "Value", "ListValue"}, []string{"NullValue"}},
	"google/protobuf/field_mask.proto": {"google.golang.org/protobuf/types/known/fieldmaskpb", []string{"FieldMask"}, nil},
	"google/protobuf/wrappers.proto": {"google.golang.org/protobuf/types/known/wrapperspb", []string{"DoubleValue", "FloatValue", "Int64Value",
		"UInt64Value", "Int32Value", "UInt32Value", "BoolValue", "StringValue", "BytesValue"}, nil},
}

func wellKnown(path string) *File {
	wk, ok := wellKnownFiles[path]
	if !ok {
		return nil
	}
	f := &File{Name: path, Syntax: "proto3", Package: "google.protobuf", GoPackage: wk.goPkg}
	for _, n := range wk.msgs {
		f.Messages = append(f.Messages, &Message{Name: n, FullName: "google.protobuf." + n, File: f})
	}
	for _, n := range wk.enums {
		f.Enums = append(f.Enums, &Enum{Name: n, FullName: "google.protobuf." + n, File: f, Values: []*EnumValue{{Name: "NULL_VALUE"}}})
	}
	return f
}

// IsWellKnown reports whether the file is one of the built-in google/protobuf files.
func (f *File) IsWellKnown() bool { _, ok := wellKnownFiles[f.Name]; return ok }

type symbol struct {
	kind string // package message enum service field oneof enumvalue
	msg  *Message
	enum *Enum
	line int
	own  bool // defined in the file being checked
}

func (s symbol) aggregate() bool {
	return s.kind == "package" || s.kind == "message" || s.kind == "enum" || s.kind == "service"
}
func (s symbol) isType() bool { return s.kind == "message" || s.kind == "enum" }

type checker struct {
	f    *File
	syms map[string]symbol
}

func parentScope(full string) string {
	if i := strings.LastIndexByte(full, '.'); i >= 0 {
		return full[:i]
	}
	return ""
}

func (c *checker) define(full string, s symbol, col int) error {
	if old, dup := c.syms[full]; dup {
		if old.kind == "package" && s.kind == "package" {
			return nil
		}
		scope := parentScope(full)
		name := full[len(scope):]
		name = strings.TrimPrefix(name, ".")
		if scope == "" {
			return errAt(s.line, col, "%q is already defined", name)
		}
		if old.kind == "package" {
			return errAt(s.line, col, "%q is already defined (as something other than a package) in %q", name, scope)
		}
		return errAt(s.line, col, "%q is already defined in %q", name, scope)
	}
	c.syms[full] = s
	return nil
}

func (c *checker) definePackage(pkg string, own bool) error {
	if pkg == "" {
		return nil
	}
	parts := strings.Split(pkg, ".")
	for i := range parts {
		full := strings.Join(parts[:i+1], ".")
		if old, ok := c.syms[full]; ok && old.kind != "package" {
			return errAt(1, 1, "%q is already defined (as something other than a package)", full)
		}
		c.syms[full] = symbol{kind: "package", own: own}
	}
	return nil
}

func camelEntry(field string) string {
	// protoc's map entry type name: ToCamelCase(field name, lower_first=false) + "Entry"
	var b []byte
	up := true
	for i := 0; i < len(field); i++ {
		ch := field[i]
		if ch == '_' {
			up = true
			continue
		}
		if up && ch >= 'a' && ch <= 'z' {
			ch -= 'a' - 'A'
		}
		up = false
		b = append(b, ch)
	}
	return string(b) + "Entry"
}

func (c *checker) addMessage(m *Message, own bool) error {
	if err := c.define(m.FullName, symbol{kind: "message", msg: m, line: m.Line, own: own}, 1); err != nil {
		return err
	}
	for _, e := range m.Enums {
		if err := c.addEnum(e, own); err != nil {
			return err
		}
	}
	for _, n := range m.Messages {
		if err := c.addMessage(n, own); err != nil {
			return err
		}
	}
	if !own {
		return nil
	}
	for _, f := range m.Fields {
		if err := c.define(m.FullName+"."+f.Name, symbol{kind: "field", line: f.Line, own: true}, f.Col); err != nil {
			return err
		}
		if f.IsMap() {
			if err := c.define(m.FullName+"."+camelEntry(f.Name), symbol{kind: "message", msg: &Message{Name: camelEntry(f.Name), MapEntry: true}, line: f.Line, own: true}, f.Col); err != nil {
				return err
			}
		}
	}
	for _, o := range m.Oneofs {
		if err := c.define(m.FullName+"."+o.Name, symbol{kind: "oneof", line: o.Line, own: true}, 1); err != nil {
			return err
		}
	}
	return nil
}

func (c *checker) addEnum(e *Enum, own bool) error {
	if err := c.define(e.FullName, symbol{kind: "enum", enum: e, line: e.Line, own: own}, 1); err != nil {
		return err
	}
	// enum values are siblings of their type (C++ scoping rules)
	scope := parentScope(e.FullName)
	for _, v := range e.Values {
		if err := c.define(qualify(scope, v.Name), symbol{kind: "enumvalue", line: v.Line, own: own}, 1); err != nil {
			if own {
				return err
			}
		}
	}
	return nil
}

func (c *checker) addImported(f *File, seen map[*File]bool) {
	if f == nil || seen[f] {
		return
	}
	seen[f] = true
	_ = c.definePackage(f.Package, false)
	for _, m := range f.Messages {
		_ = c.addMessage(m, false)
	}
	for _, e := range f.Enums {
		_ = c.addEnum(e, false)
	}
	for _, imp := range f.Imports {
		if imp.Modifier == "public" {
			c.addImported(imp.File, seen)
		}
	}
}

// lookupType resolves name as written inside scope (a full name) following
// protoc's rule: search the innermost scope outwards for the FIRST component;
// once it is found as an aggregate the rest must resolve inside it.
func (c *checker) lookupType(name, scope string) (symbol, bool) {
	if strings.HasPrefix(name, ".") {
		s, ok := c.syms[name[1:]]
		return s, ok && s.isType()
	}
	first := name
	rest := ""
	if i := strings.IndexByte(name, '.'); i >= 0 {
		first, rest = name[:i], name[i:]
	}
	for {
		cand := qualify(scope, first)
		if s, ok := c.syms[cand]; ok {
			if rest != "" {
				if s.aggregate() {
					t, ok := c.syms[cand+rest]
					return t, ok && t.isType()
				}
			} else if s.isType() {
				return s, true
			}
		}
		if scope == "" {
			return symbol{}, false
		}
		scope = parentScope(scope)
	}
}

func check(f *File) error {
	c := &checker{f: f, syms: map[string]symbol{}}
	seen := map[*File]bool{}
	for _, imp := range f.Imports {
		c.addImported(imp.File, seen)
	}
	if err := c.definePackage(f.Package, true); err != nil {
		return err
	}
	for _, m := range f.Messages {
		if err := c.addMessage(m, true); err != nil {
			return err
		}
	}
	for _, e := range f.Enums {
		if err := c.addEnum(e, true); err != nil {
			return err
		}
	}
	for _, s := range f.Services {
		if err := c.define(s.FullName, symbol{kind: "service", line: s.Line, own: true}, 1); err != nil {
			return err
		}
	}
	for _, m := range f.AllMessages() {
		if err := c.checkMessage(m); err != nil {
			return err
		}
	}
	for _, s := range f.Services {
		for _, m := range s.Methods {
			for i, tn := range []string{m.InType, m.OutType} {
				what := "input"
				if i == 1 {
					what = "output"
				}
				if Scalars[tn] {
					return errAt(m.Line, 1, "%q is not a message type (rpc %s.%s %s type)", tn, s.Name, m.Name, what)
				}
				sym, ok := c.lookupType(tn, s.FullName)
				if !ok {
					return errAt(m.Line, 1, "%q is not defined (rpc %s.%s %s type)", tn, s.Name, m.Name, what)
				}
				if sym.kind != "message" || sym.msg.MapEntry {
					return errAt(m.Line, 1, "%q is not a message type (rpc %s.%s %s type)", tn, s.Name, m.Name, what)
				}
				if i == 0 {
					m.In = sym.msg
				} else {
					m.Out = sym.msg
				}
			}
		}
	}
	return nil
}

func (c *checker) checkMessage(m *Message) error {
	byNum := map[int]*Field{}
	byJSON := map[string]*Field{}
	fields := append([]*Field{}, m.Fields...)
	for _, f := range fields {
		if o, dup := byNum[f.Number]; dup {
			return errAt(f.Line, f.Col, "field number %d has already been used in %q by field %q", f.Number, m.FullName, o.Name)
		}
		byNum[f.Number] = f
		for _, r := range m.Reserved {
			if f.Number >= r.Lo && f.Number <= r.Hi {
				return errAt(f.Line, f.Col, "field %q uses reserved number %d", f.Name, f.Number)
			}
		}
		for _, rn := range m.ResNames {
			if rn == f.Name {
				return errAt(f.Line, f.Col, "field name %q is reserved", f.Name)
			}
		}
		if o, dup := byJSON[f.JSONName]; dup {
			return errAt(f.Line, f.Col, "the default JSON name of field %q (%q) conflicts with the default JSON name of field %q", f.Name, f.JSONName, o.Name)
		}
		byJSON[f.JSONName] = f
		tn := f.ElemType()
		if Scalars[tn] {
			continue
		}
		sym, ok := c.lookupType(tn, m.FullName)
		if !ok {
			return errAt(f.Line, f.Col, "%q is not defined (type of field %q in %q)", tn, f.Name, m.FullName)
		}
		if sym.kind == "message" && sym.msg.MapEntry {
			return errAt(f.Line, f.Col, "%q is a synthetic map entry type and cannot be used as a field type", tn)
		}
		f.Msg, f.Enum = sym.msg, sym.enum
	}
	// reserved names must be unique
	rn := append([]string{}, m.ResNames...)
	sort.Strings(rn)
	for i := 1; i < len(rn); i++ {
		if rn[i] == rn[i-1] {
			return errAt(m.Line, 1, "field name %q is reserved multiple times", rn[i])
		}
	}
	return nil
}
