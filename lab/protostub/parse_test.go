package protostub

import (
	"go/ast"
	goparser "go/parser"
	gotoken "go/token"
	"os"
	"path/filepath"
	"strconv"
	"strings"
	"testing"
)

func repo() string {
	if r := os.Getenv("VERIF_REPO"); r != "" {
		return r
	}
	return "/repo"
}

// goldens extracts every string constant containing proto text from goa's golden files.
func goldens(t *testing.T) map[string]string {
	out := map[string]string{}
	files, _ := filepath.Glob(filepath.Join(repo(), "grpc/codegen/testdata/*.go"))
	for _, fn := range files {
		fs := gotoken.NewFileSet()
		af, err := goparser.ParseFile(fs, fn, nil, 0)
		if err != nil {
			t.Fatalf("%s: %v", fn, err)
		}
		ast.Inspect(af, func(n ast.Node) bool {
			vs, ok := n.(*ast.ValueSpec)
			if !ok {
				return true
			}
			for i, v := range vs.Values {
				bl, ok := v.(*ast.BasicLit)
				if !ok || bl.Kind != gotoken.STRING {
					continue
				}
				s, err := strconv.Unquote(bl.Value)
				if err != nil {
					continue
				}
				if strings.Contains(s, "syntax = \"proto3\"") || strings.HasPrefix(strings.TrimSpace(s), "message ") {
					out[vs.Names[i].Name] = s
				}
			}
			return true
		})
	}
	return out
}

func TestGoaGoldensParse(t *testing.T) {
	gs := goldens(t)
	if len(gs) < 20 {
		t.Fatalf("only %d golden proto texts found", len(gs))
	}
	full, partial := 0, 0
	for name, src := range gs {
		if !strings.Contains(src, "syntax = ") {
			src = "syntax = \"proto3\";\npackage golden;\n" + src
			partial++
		} else {
			full++
		}
		f, err := Parse(src)
		if err != nil {
			t.Errorf("%s: %v\n%s", name, err, src)
			continue
		}
		if len(f.Messages) == 0 {
			t.Errorf("%s: no message parsed", name)
		}
	}
	t.Logf("%d complete files, %d message-only goldens", full, partial)
}

func TestGoaErrorProto(t *testing.T) {
	if _, err := ParseFile(filepath.Join(repo(), "grpc/pb/goadesign_goa_error.proto"), nil); err != nil {
		t.Fatal(err)
	}
}

const hdr = "syntax = \"proto3\";\npackage p;\n"

func TestAccept(t *testing.T) {
	for name, src := range map[string]string{
		"nested-and-scopes": hdr + `
message Outer {
  message Inner { optional sint32 a = 1; }
  enum E { ZERO = 0; ONE = 1; }
  Inner i = 1;
  Outer.Inner j = 2;
  .p.Outer.Inner k = 3;
  p.Outer o = 4;
  E e = 5;
  repeated Inner rs = 6;
  map<string, Inner> m = 7;
  map<sint64, E> me = 8;
  oneof choice { string s = 9; Inner ci = 10; bytes b = 11; }
  reserved 100, 200 to 300, 1000 to max;
  reserved "foo", "bar";
}
message User { Outer.Inner x = 1; Outer.E e = 2; }
`,
		"comments-and-empty": hdr + "/* block */ message A { ; // c\n } ; // trailing",
		"keywords-as-names":  hdr + "message message { string string = 1; sint32 package = 2; bool option = 3; }",
		"wkt": "syntax = \"proto3\";\npackage p;\nimport \"google/protobuf/timestamp.proto\";\nimport \"google/protobuf/wrappers.proto\";\n" +
			"message A { google.protobuf.Timestamp t = 1; .google.protobuf.StringValue s = 2; }",
		"service-options":    hdr + `message A {} service S { option deprecated = true; rpc M (A) returns (A) { option idempotency_level = IDEMPOTENT; } rpc N (stream A) returns (stream A); }`,
		"field-options":      hdr + `message A { repeated sint32 a = 1 [packed = true, deprecated = false]; string b = 2 [json_name = "bee"]; }`,
		"hex-octal-number":   hdr + `message A { string a = 0x10; string b = 017; }`,
		"max-number":         hdr + `message A { string a = 536870911; string b = 18999; string c = 20000; }`,
		"optional-message":   hdr + `message A { optional A a = 1; }`,
		"go-package-semi":    "syntax = \"proto3\";\noption go_package = \"example.com/x;xpb\";\nmessage A {}",
		"enum-alias":         hdr + `enum E { option allow_alias = true; A = 0; B = 0; }`,
		"leading-underscore": hdr + `message _A { string _b = 1; }`,
	} {
		if _, err := Parse(src); err != nil {
			t.Errorf("%s: unexpected error %v", name, err)
		}
	}
}

func TestReject(t *testing.T) {
	for name, c := range map[string]struct{ src, want string }{
		"no-syntax":            {"package p; message A {}", "syntax statement"},
		"proto2":               {"syntax = \"proto2\"; message A {}", "unsupported syntax"},
		"syntax-twice":         {hdr + "syntax = \"proto3\";", "first statement"},
		"two-packages":         {hdr + "package q;", "multiple package"},
		"dup-number":           {hdr + "message A { string a = 1; string b = 1; }", "field number 1 has already been used"},
		"dup-number-oneof":     {hdr + "message A { string a = 1; oneof o { string b = 1; } }", "field number 1 has already been used"},
		"dup-name":             {hdr + "message A { string a = 1; sint32 a = 2; }", "already defined"},
		"dup-name-oneof":       {hdr + "message A { string a = 1; oneof o { sint32 a = 2; } }", "already defined"},
		"oneof-vs-field-name":  {hdr + "message A { string o = 1; oneof o { sint32 a = 2; } }", "already defined"},
		"zero-number":          {hdr + "message A { string a = 0; }", "positive"},
		"negative-number":      {hdr + "message A { string a = -1; }", "positive"},
		"reserved-impl-range":  {hdr + "message A { string a = 19000; }", "reserved for the protocol buffer library"},
		"reserved-impl-range2": {hdr + "message A { string a = 19999; }", "reserved for the protocol buffer library"},
		"too-large":            {hdr + "message A { string a = 536870912; }", "cannot be greater"},
		"huge":                 {hdr + "message A { string a = 99999999999999999999; }", "cannot be greater"},
		"unknown-type":         {hdr + "message A { B b = 1; }", "not defined"},
		"unknown-nested":       {hdr + "message A { message I {} } message B { I i = 1; }", "not defined"},
		"unknown-wkt":          {hdr + "message A { google.protobuf.Timestamp t = 1; }", "not defined"},
		"unknown-import":       {hdr + "import \"nowhere.proto\";", "not found"},
		"dup-message":          {hdr + "message A {} message A {}", "already defined"},
		"dup-nested-message":   {hdr + "message A { message B {} message B {} }", "already defined"},
		"message-vs-service":   {hdr + "message A {} service A {}", "already defined"},
		"message-vs-enum":      {hdr + "message A {} enum A { Z = 0; }", "already defined"},
		"enumvalue-sibling":    {hdr + "enum A { Z = 0; } enum B { Z = 0; }", "already defined"},
		"dup-rpc":              {hdr + "message A {} service S { rpc M (A) returns (A); rpc M (A) returns (A); }", "already defined"},
		"rpc-scalar":           {hdr + "message A {} service S { rpc M (string) returns (A); }", "not a message type"},
		"rpc-enum":             {hdr + "message A {} enum E { Z = 0; } service S { rpc M (A) returns (E); }", "not a message type"},
		"rpc-unknown":          {hdr + "message A {} service S { rpc M (A) returns (B); }", "not defined"},
		"bad-ident":            {hdr + "message 1A {}", "need space between number and identifier"},
		"bad-ident-dash":       {hdr + "message A { string a-b = 1; }", "expected \"=\""},
		"bad-ident-unicode":    {hdr + "message A { string é = 1; }", "invalid character"},
		"bad-ident-dollar":     {hdr + "message A$ {}", "invalid character"},
		"map-key-float":        {hdr + "message A { map<float, string> m = 1; }", "key in map fields"},
		"map-key-double":       {hdr + "message A { map<double, string> m = 1; }", "key in map fields"},
		"map-key-bytes":        {hdr + "message A { map<bytes, string> m = 1; }", "key in map fields"},
		"map-key-message":      {hdr + "message A { map<A, string> m = 1; }", "key in map fields"},
		"map-key-enum":         {hdr + "enum E { Z = 0; } message A { map<E, string> m = 1; }", "key in map fields"},
		"map-value-map":        {hdr + "message A { map<string, map<string, string>> m = 1; }", "map values cannot be maps"},
		"repeated-map":         {hdr + "message A { repeated map<string, string> m = 1; }", "not allowed on map fields"},
		"optional-map":         {hdr + "message A { optional map<string, string> m = 1; }", "not allowed on map fields"},
		"map-in-oneof":         {hdr + "message A { oneof o { map<string, string> m = 1; } }", "not allowed in oneofs"},
		"repeated-in-oneof":    {hdr + "message A { oneof o { repeated string m = 1; } }", "must not have labels"},
		"empty-oneof":          {hdr + "message A { oneof o { } }", "at least one field"},
		"map-entry-clash":      {hdr + "message A { map<string, string> foo = 1; message FooEntry {} }", "already defined"},
		"missing-semicolon":    {hdr + "message A { string a = 1 }", "expected \";\""},
		"missing-semicolon-pk": {"syntax = \"proto3\"\npackage p;", "expected \";\""},
		"missing-semicolon-rp": {hdr + "message A {} service S { rpc M (A) returns (A) }", "expected \";\""},
		"missing-brace":        {hdr + "message A { string a = 1;", "missing '}'"},
		"missing-number":       {hdr + "message A { string a; }", "expected \"=\""},
		"required":             {hdr + "message A { required string a = 1; }", "required fields are not allowed"},
		"group":                {hdr + "message A { repeated group G = 1 { } }", "groups are not allowed"},
		"default":              {hdr + "message A { string a = 1 [default = \"x\"]; }", "default values are not allowed"},
		"extensions":           {hdr + "message A { extensions 100 to 200; }", "not allowed in proto3"},
		"unknown-option":       {hdr + "option nonsense = 1;", "unknown"},
		"go-package-not-str":   {hdr + "option go_package = foo;", "quoted string"},
		"enum-first-nonzero":   {hdr + "enum E { A = 1; }", "must be zero"},
		"enum-empty":           {hdr + "enum E { }", "at least one value"},
		"enum-dup-number":      {hdr + "enum E { A = 0; B = 0; }", "same enum value"},
		"reserved-number-used": {hdr + "message A { reserved 5; string a = 5; }", "reserved number"},
		"reserved-name-used":   {hdr + "message A { reserved \"a\"; string a = 5; }", "is reserved"},
		"json-conflict":        {hdr + "message A { string foo_bar = 1; string fooBar = 2; }", "JSON name"},
		"unterminated-comment": {hdr + "/* message A {}", "block comment"},
		"unterminated-string":  {"syntax = \"proto3;\n", "string literal"},
		"stray-token":          {hdr + "message A {} }", "expected top-level statement"},
		"rpc-no-returns":       {hdr + "message A {} service S { rpc M (A) (A); }", "expected \"returns\""},
		"rpc-no-parens":        {hdr + "message A {} service S { rpc M A returns (A); }", "expected \"(\""},
		"type-is-field-name":   {hdr + "message A { a a = 1; }", "not defined"},
		"import-dup":           {hdr + "import \"google/protobuf/any.proto\"; import \"google/protobuf/any.proto\";", "listed twice"},
	} {
		_, err := Parse(c.src)
		if err == nil {
			t.Errorf("%s: accepted:\n%s", name, c.src)
			continue
		}
		if !strings.Contains(err.Error(), c.want) {
			t.Errorf("%s: error %q does not mention %q", name, err, c.want)
		}
	}
}
