package protostub

import (
	"fmt"
	"os"
	"os/exec"
	"path/filepath"
)

// Install builds the stand-in protoc (labDir/cmd/protoc) into binDir and puts binDir first on the PATH of this
// process, so that every child started afterwards (pipeline.NewBatch copies os.Environ) resolves `protoc` to it.
// With realMessages the REAL protoc-gen-go is built too (from the module cache) and the stand-in is told, through
// VERIF_PROTOC_GEN_GO, to emit its output for the *.pb.go half (cross-validation mode).
func Install(labDir, binDir string, realMessages bool) error {
	if err := os.MkdirAll(binDir, 0o755); err != nil {
		return err
	}
	env := append(os.Environ(), "GOFLAGS=-mod=mod", "GOPROXY=off", "GOSUMDB=off", "GOTOOLCHAIN=local")
	build := func(out, pkg string) error {
		cmd := exec.Command("go", "build", "-o", filepath.Join(binDir, out), pkg)
		cmd.Dir = labDir
		cmd.Env = env
		if b, err := cmd.CombinedOutput(); err != nil {
			return fmt.Errorf("go build %s: %v\n%s", pkg, err, b)
		}
		return nil
	}
	if err := build("protoc", "./cmd/protoc"); err != nil {
		return fmt.Errorf("stand-in protoc does not build: %w", err)
	}
	if realMessages {
		if err := build("protoc-gen-go", "google.golang.org/protobuf/cmd/protoc-gen-go"); err != nil {
			return fmt.Errorf("real protoc-gen-go does not build from the module cache: %w", err)
		}
		if err := os.Setenv("VERIF_PROTOC_GEN_GO", filepath.Join(binDir, "protoc-gen-go")); err != nil {
			return err
		}
	}
	return os.Setenv("PATH", binDir+string(os.PathListSeparator)+os.Getenv("PATH"))
}
