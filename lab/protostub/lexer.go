// Package protostub is the trusted base of the stand-in `protoc` (DESIGN §3.3):
// an independent, strict proto3 parser (the well-formedness oracle of C10) and a
// writer of protoc-gen-go / protoc-gen-go-grpc shaped Go code whose client is an
// in-process loopback (package pbrt). It shares no code with goa.
package protostub

import (
	"fmt"
	"strings"
)

type tokKind int

const (
	tEOF tokKind = iota
	tIdent
	tInt
	tFloat
	tString
	tSym
)

func (k tokKind) String() string {
	switch k {
	case tEOF:
		return "end of file"
	case tIdent:
		return "identifier"
	case tInt:
		return "integer"
	case tFloat:
		return "float"
	case tString:
		return "string"
	}
	return "symbol"
}

type token struct {
	kind tokKind
	text string // identifier text, literal text, symbol
	str  string // decoded string literal
	line int
	col  int
	// comment is the text of the comment block that ends on the line before (or on) this token
	comment string
}

// Error is a parse or semantic error with a position.
type Error struct {
	Line, Col int
	Msg       string
}

func (e *Error) Error() string { return fmt.Sprintf("%d:%d: %s", e.Line, e.Col, e.Msg) }

func errAt(line, col int, format string, a ...any) *Error {
	return &Error{Line: line, Col: col, Msg: fmt.Sprintf(format, a...)}
}

func isLetter(c byte) bool { return (c >= 'a' && c <= 'z') || (c >= 'A' && c <= 'Z') || c == '_' }
func isDigit(c byte) bool  { return c >= '0' && c <= '9' }
func isHex(c byte) bool {
	return isDigit(c) || (c >= 'a' && c <= 'f') || (c >= 'A' && c <= 'F')
}

// lex turns the source into tokens. It is strict: any byte that cannot start a
// token of the proto language is an error, as are unterminated comments/strings.
func lex(src string) ([]token, error) {
	var toks []token
	line, col := 1, 1
	i := 0
	var pendingComment strings.Builder
	lastCommentLine := -10
	adv := func(n int) {
		for k := 0; k < n; k++ {
			if src[i] == '\n' {
				line++
				col = 1
			} else {
				col++
			}
			i++
		}
	}
	for i < len(src) {
		c := src[i]
		switch {
		case c == ' ' || c == '\t' || c == '\r' || c == '\n' || c == '\f' || c == '\v':
			adv(1)
			continue
		case c == '/' && i+1 < len(src) && src[i+1] == '/':
			j := i
			for j < len(src) && src[j] != '\n' {
				j++
			}
			if line != lastCommentLine+1 {
				pendingComment.Reset()
			}
			pendingComment.WriteString(strings.TrimSpace(src[i+2 : j]))
			pendingComment.WriteByte('\n')
			lastCommentLine = line
			adv(j - i)
			continue
		case c == '/' && i+1 < len(src) && src[i+1] == '*':
			j := strings.Index(src[i+2:], "*/")
			if j < 0 {
				return nil, errAt(line, col, "end-of-file inside block comment")
			}
			pendingComment.Reset()
			pendingComment.WriteString(strings.TrimSpace(src[i+2 : i+2+j]))
			pendingComment.WriteByte('\n')
			adv(j + 4)
			lastCommentLine = line
			continue
		}
		t := token{line: line, col: col}
		if line <= lastCommentLine+1 {
			t.comment = strings.TrimRight(pendingComment.String(), "\n")
		}
		pendingComment.Reset()
		lastCommentLine = -10
		switch {
		case isLetter(c):
			j := i
			for j < len(src) && (isLetter(src[j]) || isDigit(src[j])) {
				j++
			}
			t.kind, t.text = tIdent, src[i:j]
			adv(j - i)
		case isDigit(c) || (c == '.' && i+1 < len(src) && isDigit(src[i+1])):
			j := i
			isFloat := false
			if c == '0' && j+1 < len(src) && (src[j+1] == 'x' || src[j+1] == 'X') {
				j += 2
				if j >= len(src) || !isHex(src[j]) {
					return nil, errAt(line, col, "\"0x\" must be followed by hex digits")
				}
				for j < len(src) && isHex(src[j]) {
					j++
				}
			} else {
				for j < len(src) && isDigit(src[j]) {
					j++
				}
				if j < len(src) && src[j] == '.' {
					isFloat = true
					j++
					for j < len(src) && isDigit(src[j]) {
						j++
					}
				}
				if j < len(src) && (src[j] == 'e' || src[j] == 'E') {
					isFloat = true
					j++
					if j < len(src) && (src[j] == '+' || src[j] == '-') {
						j++
					}
					if j >= len(src) || !isDigit(src[j]) {
						return nil, errAt(line, col, "\"e\" must be followed by exponent")
					}
					for j < len(src) && isDigit(src[j]) {
						j++
					}
				}
				if !isFloat && c == '0' {
					for k := i + 1; k < j; k++ {
						if src[k] > '7' {
							return nil, errAt(line, col, "numbers starting with leading zero must be in octal")
						}
					}
				}
			}
			if j < len(src) && isLetter(src[j]) {
				return nil, errAt(line, col, "need space between number and identifier")
			}
			t.text = src[i:j]
			if isFloat {
				t.kind = tFloat
			} else {
				t.kind = tInt
			}
			adv(j - i)
		case c == '"' || c == '\'':
			q := c
			j := i + 1
			var b strings.Builder
			closed := false
			for j < len(src) {
				d := src[j]
				if d == '\n' {
					return nil, errAt(line, col, "string literals cannot cross line boundaries")
				}
				if d == 0 {
					return nil, errAt(line, col, "NUL byte in string literal")
				}
				if d == q {
					closed = true
					j++
					break
				}
				if d == '\\' {
					if j+1 >= len(src) {
						break
					}
					e := src[j+1]
					switch e {
					case 'a':
						b.WriteByte(7)
					case 'b':
						b.WriteByte(8)
					case 'f':
						b.WriteByte(12)
					case 'n':
						b.WriteByte('\n')
					case 'r':
						b.WriteByte('\r')
					case 't':
						b.WriteByte('\t')
					case 'v':
						b.WriteByte(11)
					case '\\', '\'', '"', '?':
						b.WriteByte(e)
					case 'x', 'X':
						k := j + 2
						v := 0
						n := 0
						for k < len(src) && n < 2 && isHex(src[k]) {
							v = v*16 + hexVal(src[k])
							k++
							n++
						}
						if n == 0 {
							return nil, errAt(line, col, "expected hex digits for escape sequence")
						}
						b.WriteByte(byte(v))
						j = k
						continue
					case '0', '1', '2', '3', '4', '5', '6', '7':
						k := j + 1
						v := 0
						n := 0
						for k < len(src) && n < 3 && src[k] >= '0' && src[k] <= '7' {
							v = v*8 + int(src[k]-'0')
							k++
							n++
						}
						b.WriteByte(byte(v))
						j = k
						continue
					default:
						return nil, errAt(line, col, "invalid escape sequence in string literal")
					}
					j += 2
					continue
				}
				b.WriteByte(d)
				j++
			}
			if !closed {
				return nil, errAt(line, col, "unterminated string literal")
			}
			t.kind, t.text, t.str = tString, src[i:j], b.String()
			adv(j - i)
		default:
			if strings.IndexByte("{}[]()<>=;,.-+:", c) < 0 {
				return nil, errAt(line, col, "invalid character %q", rune(c))
			}
			t.kind, t.text = tSym, string(c)
			adv(1)
		}
		toks = append(toks, t)
	}
	toks = append(toks, token{kind: tEOF, line: line, col: col})
	return toks, nil
}

func hexVal(c byte) int {
	switch {
	case c >= '0' && c <= '9':
		return int(c - '0')
	case c >= 'a' && c <= 'f':
		return int(c-'a') + 10
	}
	return int(c-'A') + 10
}
