package protostub

import (
	"fmt"
	"os"
	"path/filepath"
	"strconv"
	"strings"
)

// Parse parses and checks a proto3 source text. Imports other than the
// google/protobuf well-known files cannot be resolved (use ParseFile).
func Parse(src string) (*File, error) {
	return parseSource(src, "", nil, map[string]bool{})
}

// ParseFile parses and checks the file at path; imports are searched in dirs
// (in order) and in the built-in table of google/protobuf well-known files.
func ParseFile(path string, dirs []string) (*File, error) {
	b, err := os.ReadFile(path)
	if err != nil {
		return nil, err
	}
	return parseSource(string(b), path, dirs, map[string]bool{})
}

const (
	maxFieldNumber = 536870911 // 2^29 - 1
	resLo, resHi   = 19000, 19999
)

type parser struct {
	toks []token
	pos  int
	file *File
}

func (p *parser) peek() token { return p.toks[p.pos] }
func (p *parser) next() token {
	t := p.toks[p.pos]
	if t.kind != tEOF {
		p.pos++
	}
	return t
}

func (p *parser) isSym(s string) bool {
	t := p.peek()
	return t.kind == tSym && t.text == s
}

func (p *parser) isIdent(s string) bool {
	t := p.peek()
	return t.kind == tIdent && t.text == s
}

func describe(t token) string {
	if t.kind == tEOF {
		return "end of file"
	}
	return strconv.Quote(t.text)
}

func (p *parser) expectSym(s string) error {
	t := p.peek()
	if t.kind == tSym && t.text == s {
		p.next()
		return nil
	}
	return errAt(t.line, t.col, "expected %q, found %s", s, describe(t))
}

func (p *parser) ident(what string) (token, error) {
	t := p.peek()
	if t.kind != tIdent {
		return t, errAt(t.line, t.col, "expected %s, found %s", what, describe(t))
	}
	p.next()
	return t, nil
}

// fullIdent = ident { "." ident }
func (p *parser) fullIdent(what string) (string, token, error) {
	first, err := p.ident(what)
	if err != nil {
		return "", first, err
	}
	name := first.text
	for p.isSym(".") {
		p.next()
		t, err := p.ident("identifier after \".\"")
		if err != nil {
			return "", first, err
		}
		name += "." + t.text
	}
	return name, first, nil
}

// typeName = [ "." ] fullIdent
func (p *parser) typeName() (string, token, error) {
	lead := ""
	start := p.peek()
	if p.isSym(".") {
		p.next()
		lead = "."
	}
	n, _, err := p.fullIdent("type name")
	if err != nil {
		return "", start, err
	}
	return lead + n, start, nil
}

func (p *parser) intLit(what string) (int64, token, error) {
	t := p.peek()
	neg := false
	if t.kind == tSym && t.text == "-" {
		neg = true
		p.next()
	}
	n := p.peek()
	if n.kind != tInt {
		return 0, t, errAt(n.line, n.col, "expected %s, found %s", what, describe(n))
	}
	p.next()
	v, err := strconv.ParseUint(n.text, 0, 64)
	if err != nil {
		return 0, t, errAt(n.line, n.col, "integer out of range")
	}
	if neg {
		if v > 1<<63 {
			return 0, t, errAt(n.line, n.col, "integer out of range")
		}
		return -int64(v), t, nil
	}
	if v > 1<<63-1 {
		return 0, t, errAt(n.line, n.col, "integer out of range")
	}
	return int64(v), t, nil
}

var knownOptions = map[string]map[string]bool{
	"file": set("java_package", "java_outer_classname", "java_multiple_files", "java_generate_equals_and_hash", "java_string_check_utf8",
		"optimize_for", "go_package", "cc_generic_services", "java_generic_services", "py_generic_services", "deprecated",
		"cc_enable_arenas", "objc_class_prefix", "csharp_namespace", "swift_prefix", "php_class_prefix", "php_namespace",
		"php_metadata_namespace", "ruby_package"),
	"message":   set("message_set_wire_format", "no_standard_descriptor_accessor", "deprecated", "deprecated_legacy_json_field_conflicts"),
	"field":     set("ctype", "packed", "jstype", "lazy", "unverified_lazy", "deprecated", "weak", "json_name", "debug_redact", "retention", "targets"),
	"oneof":     set(),
	"enum":      set("allow_alias", "deprecated", "deprecated_legacy_json_field_conflicts"),
	"enumvalue": set("deprecated", "debug_redact"),
	"service":   set("deprecated"),
	"method":    set("deprecated", "idempotency_level"),
}

func set(xs ...string) map[string]bool {
	m := map[string]bool{}
	for _, x := range xs {
		m[x] = true
	}
	return m
}

// optionBody parses  optionName "=" constant  (after the "option" keyword or inside [ ]).
func (p *parser) optionBody(ctx string) (*Option, error) {
	start := p.peek()
	var name string
	custom := false
	if p.isSym("(") {
		p.next()
		lead := ""
		if p.isSym(".") {
			p.next()
			lead = "."
		}
		n, _, err := p.fullIdent("option name")
		if err != nil {
			return nil, err
		}
		if err := p.expectSym(")"); err != nil {
			return nil, err
		}
		name = "(" + lead + n + ")"
		custom = true
	} else {
		t, err := p.ident("option name")
		if err != nil {
			return nil, err
		}
		name = t.text
	}
	for p.isSym(".") {
		p.next()
		if p.isSym("(") {
			p.next()
			n, _, err := p.fullIdent("option name")
			if err != nil {
				return nil, err
			}
			if err := p.expectSym(")"); err != nil {
				return nil, err
			}
			name += ".(" + n + ")"
			continue
		}
		t, err := p.ident("option name")
		if err != nil {
			return nil, err
		}
		name += "." + t.text
	}
	if err := p.expectSym("="); err != nil {
		return nil, err
	}
	o := &Option{Name: name, Line: start.line}
	t := p.peek()
	switch {
	case t.kind == tString:
		for p.peek().kind == tString { // adjacent string literals are concatenated
			o.Value += p.next().str
		}
		o.IsStr = true
	case t.kind == tIdent:
		p.next()
		o.Value = t.text
	case t.kind == tInt || t.kind == tFloat:
		p.next()
		o.Value = t.text
	case t.kind == tSym && (t.text == "-" || t.text == "+"):
		p.next()
		n := p.peek()
		if n.kind != tInt && n.kind != tFloat && !(n.kind == tIdent && (n.text == "inf" || n.text == "nan")) {
			return nil, errAt(n.line, n.col, "expected number after %q, found %s", t.text, describe(n))
		}
		p.next()
		o.Value = t.text + n.text
	case t.kind == tSym && t.text == "{":
		// aggregate (text format) value: skip to the matching brace
		depth := 0
		for {
			n := p.next()
			if n.kind == tEOF {
				return nil, errAt(t.line, t.col, "unterminated aggregate option value")
			}
			if n.kind == tSym && n.text == "{" {
				depth++
			}
			if n.kind == tSym && n.text == "}" {
				depth--
				if depth == 0 {
					break
				}
			}
		}
		o.Value = "{...}"
	default:
		return nil, errAt(t.line, t.col, "expected option value, found %s", describe(t))
	}
	if !custom {
		base := name
		if i := strings.IndexByte(base, '.'); i >= 0 {
			base = base[:i]
		}
		if !knownOptions[ctx][base] {
			return nil, errAt(start.line, start.col, "option %q unknown", base)
		}
		if ctx == "field" && base == "default" {
			return nil, errAt(start.line, start.col, "explicit default values are not allowed in proto3")
		}
	} else if len(p.file.Imports) == 0 {
		return nil, errAt(start.line, start.col, "option %q unknown (no import can define it)", name)
	}
	return o, nil
}

// optionStmt parses  "option" optionBody ";"
func (p *parser) optionStmt(ctx string) (*Option, error) {
	p.next() // option
	o, err := p.optionBody(ctx)
	if err != nil {
		return nil, err
	}
	if err := p.expectSym(";"); err != nil {
		return nil, err
	}
	return o, nil
}

// fieldOptions parses  [ "[" option { "," option } "]" ]
func (p *parser) fieldOptions(ctx string) ([]*Option, error) {
	if !p.isSym("[") {
		return nil, nil
	}
	p.next()
	var out []*Option
	for {
		if p.isIdent("default") {
			t := p.peek()
			return nil, errAt(t.line, t.col, "explicit default values are not allowed in proto3")
		}
		o, err := p.optionBody(ctx)
		if err != nil {
			return nil, err
		}
		out = append(out, o)
		if p.isSym(",") {
			p.next()
			continue
		}
		break
	}
	if err := p.expectSym("]"); err != nil {
		return nil, err
	}
	return out, nil
}

func (p *parser) parseFile() error {
	f := p.file
	// syntax must be the first statement
	t := p.peek()
	if !p.isIdent("syntax") {
		return errAt(t.line, t.col, "file must begin with a syntax statement (syntax = \"proto3\";), found %s", describe(t))
	}
	p.next()
	if err := p.expectSym("="); err != nil {
		return err
	}
	s := p.peek()
	if s.kind != tString {
		return errAt(s.line, s.col, "expected syntax identifier string, found %s", describe(s))
	}
	p.next()
	if s.str != "proto3" {
		return errAt(s.line, s.col, "unsupported syntax %q: this compiler only accepts \"proto3\"", s.str)
	}
	f.Syntax = s.str
	if err := p.expectSym(";"); err != nil {
		return err
	}
	seenPackage := false
	for {
		t := p.peek()
		switch {
		case t.kind == tEOF:
			return nil
		case t.kind == tSym && t.text == ";":
			p.next()
		case t.kind != tIdent:
			return errAt(t.line, t.col, "expected top-level statement (e.g. \"message\"), found %s", describe(t))
		case t.text == "syntax":
			return errAt(t.line, t.col, "syntax statement must be the first statement and appear once")
		case t.text == "package":
			if seenPackage {
				return errAt(t.line, t.col, "multiple package definitions")
			}
			seenPackage = true
			p.next()
			n, _, err := p.fullIdent("package name")
			if err != nil {
				return err
			}
			if err := p.expectSym(";"); err != nil {
				return err
			}
			f.Package = n
		case t.text == "import":
			p.next()
			imp := &Import{Line: t.line}
			if p.isIdent("public") || p.isIdent("weak") {
				imp.Modifier = p.next().text
			}
			s := p.peek()
			if s.kind != tString {
				return errAt(s.line, s.col, "expected a string naming the file to import, found %s", describe(s))
			}
			p.next()
			imp.Path = s.str
			if err := p.expectSym(";"); err != nil {
				return err
			}
			for _, o := range f.Imports {
				if o.Path == imp.Path {
					return errAt(t.line, t.col, "import %q was listed twice", imp.Path)
				}
			}
			f.Imports = append(f.Imports, imp)
		case t.text == "option":
			o, err := p.optionStmt("file")
			if err != nil {
				return err
			}
			for _, x := range f.Options {
				if x.Name == o.Name {
					return errAt(t.line, t.col, "option %q was already set", o.Name)
				}
			}
			if o.Name == "go_package" {
				if !o.IsStr {
					return errAt(t.line, t.col, "value must be quoted string for string option \"go_package\"")
				}
				f.GoPackage = o.Value
			}
			f.Options = append(f.Options, o)
		case t.text == "message":
			m, err := p.message(nil)
			if err != nil {
				return err
			}
			f.Messages = append(f.Messages, m)
		case t.text == "enum":
			e, err := p.enum(nil)
			if err != nil {
				return err
			}
			f.Enums = append(f.Enums, e)
		case t.text == "service":
			s, err := p.service()
			if err != nil {
				return err
			}
			f.Services = append(f.Services, s)
		case t.text == "extend":
			return errAt(t.line, t.col, "\"extend\" is not supported by this compiler (proto3 allows it only for custom options)")
		default:
			return errAt(t.line, t.col, "expected top-level statement (e.g. \"message\"), found %s", describe(t))
		}
	}
}

func qualify(scope, name string) string {
	if scope == "" {
		return name
	}
	return scope + "." + name
}

func (p *parser) message(parent *Message) (*Message, error) {
	kw := p.next() // message
	nt, err := p.ident("message name")
	if err != nil {
		return nil, err
	}
	m := &Message{Name: nt.text, Parent: parent, File: p.file, Comment: kw.comment, Line: kw.line}
	if parent != nil {
		m.FullName = parent.FullName + "." + m.Name
	} else {
		m.FullName = qualify(p.file.Package, m.Name)
	}
	if err := p.expectSym("{"); err != nil {
		return nil, err
	}
	for {
		t := p.peek()
		switch {
		case t.kind == tEOF:
			return nil, errAt(t.line, t.col, "reached end of input in message definition (missing '}')")
		case t.kind == tSym && t.text == "}":
			p.next()
			return m, nil
		case t.kind == tSym && t.text == ";":
			p.next()
		case t.kind == tSym && t.text == ".":
			f, err := p.field(m, nil)
			if err != nil {
				return nil, err
			}
			m.Fields = append(m.Fields, f)
		case t.kind != tIdent:
			return nil, errAt(t.line, t.col, "expected field, nested definition or \"}\", found %s", describe(t))
		case t.text == "message":
			n, err := p.message(m)
			if err != nil {
				return nil, err
			}
			m.Messages = append(m.Messages, n)
		case t.text == "enum":
			e, err := p.enum(m)
			if err != nil {
				return nil, err
			}
			m.Enums = append(m.Enums, e)
		case t.text == "oneof":
			o, err := p.oneof(m)
			if err != nil {
				return nil, err
			}
			m.Oneofs = append(m.Oneofs, o)
		case t.text == "option":
			o, err := p.optionStmt("message")
			if err != nil {
				return nil, err
			}
			if o.Name == "map_entry" {
				return nil, errAt(t.line, t.col, "map_entry should not be set explicitly; use map<KeyType, ValueType> instead")
			}
			m.Options = append(m.Options, o)
		case t.text == "reserved":
			if err := p.reserved(m); err != nil {
				return nil, err
			}
		case t.text == "extensions":
			return nil, errAt(t.line, t.col, "extension ranges are not allowed in proto3")
		case t.text == "extend":
			return nil, errAt(t.line, t.col, "\"extend\" is not supported by this compiler")
		case t.text == "group":
			return nil, errAt(t.line, t.col, "groups are not allowed in proto3")
		default:
			f, err := p.field(m, nil)
			if err != nil {
				return nil, err
			}
			m.Fields = append(m.Fields, f)
		}
	}
}

func (p *parser) fieldNumber() (int, error) {
	t := p.peek()
	if t.kind == tSym && t.text == "-" {
		return 0, errAt(t.line, t.col, "field numbers must be positive integers")
	}
	if t.kind != tInt {
		return 0, errAt(t.line, t.col, "expected field number, found %s", describe(t))
	}
	p.next()
	v, err := strconv.ParseUint(t.text, 0, 64)
	if err != nil || v > 1<<31 {
		return 0, errAt(t.line, t.col, "field numbers cannot be greater than %d", maxFieldNumber)
	}
	n := int(v)
	switch {
	case n <= 0:
		return 0, errAt(t.line, t.col, "field numbers must be positive integers")
	case n > maxFieldNumber:
		return 0, errAt(t.line, t.col, "field numbers cannot be greater than %d", maxFieldNumber)
	case n >= resLo && n <= resHi:
		return 0, errAt(t.line, t.col, "field numbers %d through %d are reserved for the protocol buffer library implementation", resLo, resHi)
	}
	return n, nil
}

// field parses a normal, map or oneof member field.
func (p *parser) field(m *Message, oneof *Oneof) (*Field, error) {
	start := p.peek()
	f := &Field{Parent: m, Oneof: oneof, Comment: start.comment, Line: start.line, Col: start.col}
	// as in protoc, the label words are keywords in this position
	if start.kind == tIdent && (start.text == "repeated" || start.text == "optional" || start.text == "required") {
		if start.text == "required" {
			return nil, errAt(start.line, start.col, "required fields are not allowed in proto3")
		}
		if oneof != nil {
			return nil, errAt(start.line, start.col, "fields in oneofs must not have labels (required / optional / repeated)")
		}
		f.Label = start.text
		p.next()
	}
	t := p.peek()
	if t.kind == tIdent && t.text == "group" {
		return nil, errAt(t.line, t.col, "groups are not allowed in proto3")
	}
	if t.kind == tIdent && t.text == "map" && p.toks[p.pos+1].kind == tSym && p.toks[p.pos+1].text == "<" {
		if f.Label != "" {
			return nil, errAt(start.line, start.col, "field labels (required/optional/repeated) are not allowed on map fields")
		}
		if oneof != nil {
			return nil, errAt(t.line, t.col, "map fields are not allowed in oneofs")
		}
		p.next()
		p.next()
		kt := p.peek()
		k, _, err := p.typeName()
		if err != nil {
			return nil, err
		}
		if !mapKeyOK[k] {
			// protoc reports every illegal key type (float/double/bytes/message/enum) with the same sentence
			return nil, errAt(kt.line, kt.col, "key in map fields cannot be float/double, bytes or message types (got %s)", k)
		}
		f.KeyType = k
		if err := p.expectSym(","); err != nil {
			return nil, err
		}
		vt := p.peek()
		if vt.kind == tIdent && vt.text == "map" && p.toks[p.pos+1].kind == tSym && p.toks[p.pos+1].text == "<" {
			return nil, errAt(vt.line, vt.col, "map values cannot be maps")
		}
		v, _, err := p.typeName()
		if err != nil {
			return nil, err
		}
		f.ValType = v
		if err := p.expectSym(">"); err != nil {
			return nil, err
		}
		f.Type = "map"
	} else {
		ty, _, err := p.typeName()
		if err != nil {
			return nil, err
		}
		f.Type = ty
	}
	nt, err := p.ident("field name")
	if err != nil {
		return nil, err
	}
	f.Name = nt.text
	if err := p.expectSym("="); err != nil {
		return nil, err
	}
	n, err := p.fieldNumber()
	if err != nil {
		return nil, err
	}
	f.Number = n
	opts, err := p.fieldOptions("field")
	if err != nil {
		return nil, err
	}
	f.Options = opts
	f.JSONName = jsonName(f.Name)
	for _, o := range opts {
		if o.Name == "json_name" {
			if !o.IsStr {
				return nil, errAt(o.Line, 1, "expected string for JSON name")
			}
			f.JSONName = o.Value
		}
		if o.Name == "packed" && (f.Label != "repeated" || !packable(f.Type)) {
			return nil, errAt(o.Line, 1, "[packed = true] can only be specified for repeated primitive fields")
		}
	}
	if err := p.expectSym(";"); err != nil {
		return nil, err
	}
	return f, nil
}

func packable(t string) bool { return Scalars[t] && t != "string" && t != "bytes" }

// jsonName is protoc's default JSON name: underscores removed, the following letter upper-cased.
func jsonName(s string) string {
	var b []byte
	up := false
	for i := 0; i < len(s); i++ {
		c := s[i]
		if c == '_' {
			up = true
			continue
		}
		if up && c >= 'a' && c <= 'z' {
			c -= 'a' - 'A'
		}
		up = false
		b = append(b, c)
	}
	return string(b)
}

func (p *parser) oneof(m *Message) (*Oneof, error) {
	kw := p.next()
	nt, err := p.ident("oneof name")
	if err != nil {
		return nil, err
	}
	o := &Oneof{Name: nt.text, Parent: m, Comment: kw.comment, Line: kw.line}
	if err := p.expectSym("{"); err != nil {
		return nil, err
	}
	for {
		t := p.peek()
		switch {
		case t.kind == tEOF:
			return nil, errAt(t.line, t.col, "reached end of input in oneof definition (missing '}')")
		case t.kind == tSym && t.text == "}":
			p.next()
			if len(o.Fields) == 0 {
				return nil, errAt(kw.line, kw.col, "oneof must have at least one field")
			}
			return o, nil
		case t.kind == tSym && t.text == ";":
			p.next()
		case t.kind == tIdent && t.text == "option":
			if _, err := p.optionStmt("oneof"); err != nil {
				return nil, err
			}
		default:
			f, err := p.field(m, o)
			if err != nil {
				return nil, err
			}
			o.Fields = append(o.Fields, f)
			m.Fields = append(m.Fields, f)
		}
	}
}

func (p *parser) reserved(m *Message) error {
	p.next()
	t := p.peek()
	if t.kind == tString {
		for {
			s := p.peek()
			if s.kind != tString {
				return errAt(s.line, s.col, "expected field name string, found %s", describe(s))
			}
			p.next()
			if !validIdent(s.str) {
				return errAt(s.line, s.col, "reserved name %q is not a valid identifier", s.str)
			}
			m.ResNames = append(m.ResNames, s.str)
			if p.isSym(",") {
				p.next()
				continue
			}
			break
		}
		return p.expectSym(";")
	}
	for {
		lo, lt, err := p.intLit("field number range")
		if err != nil {
			return err
		}
		hi := lo
		if p.isIdent("to") {
			p.next()
			if p.isIdent("max") {
				p.next()
				hi = maxFieldNumber
			} else {
				hi, _, err = p.intLit("field number")
				if err != nil {
					return err
				}
			}
		}
		if lo < 1 || hi > maxFieldNumber {
			return errAt(lt.line, lt.col, "reserved numbers must be positive integers not greater than %d", maxFieldNumber)
		}
		if hi < lo {
			return errAt(lt.line, lt.col, "reserved range end number must be greater than start number")
		}
		for _, r := range m.Reserved {
			if int(lo) <= r.Hi && r.Lo <= int(hi) {
				return errAt(lt.line, lt.col, "reserved range %d to %d overlaps with already-defined range %d to %d", lo, hi, r.Lo, r.Hi)
			}
		}
		m.Reserved = append(m.Reserved, Range{int(lo), int(hi)})
		if p.isSym(",") {
			p.next()
			continue
		}
		break
	}
	return p.expectSym(";")
}

func validIdent(s string) bool {
	if s == "" || !isLetter(s[0]) {
		return false
	}
	for i := 1; i < len(s); i++ {
		if !isLetter(s[i]) && !isDigit(s[i]) {
			return false
		}
	}
	return true
}

func (p *parser) enum(parent *Message) (*Enum, error) {
	kw := p.next()
	nt, err := p.ident("enum name")
	if err != nil {
		return nil, err
	}
	e := &Enum{Name: nt.text, Parent: parent, File: p.file, Comment: kw.comment, Line: kw.line}
	if parent != nil {
		e.FullName = parent.FullName + "." + e.Name
	} else {
		e.FullName = qualify(p.file.Package, e.Name)
	}
	if err := p.expectSym("{"); err != nil {
		return nil, err
	}
	for {
		t := p.peek()
		switch {
		case t.kind == tEOF:
			return nil, errAt(t.line, t.col, "reached end of input in enum definition (missing '}')")
		case t.kind == tSym && t.text == "}":
			p.next()
			if len(e.Values) == 0 {
				return nil, errAt(kw.line, kw.col, "enums must contain at least one value")
			}
			if e.Values[0].Number != 0 {
				return nil, errAt(e.Values[0].Line, 1, "the first enum value must be zero in proto3")
			}
			seen := map[int]string{}
			for _, v := range e.Values {
				if o, dup := seen[v.Number]; dup && !e.AllowAlias {
					return nil, errAt(v.Line, 1, "%q uses the same enum value as %q; if this is intended, set 'option allow_alias = true;' in the enum definition", v.Name, o)
				}
				seen[v.Number] = v.Name
			}
			return e, nil
		case t.kind == tSym && t.text == ";":
			p.next()
		case t.kind == tIdent && t.text == "option":
			o, err := p.optionStmt("enum")
			if err != nil {
				return nil, err
			}
			if o.Name == "allow_alias" && o.Value == "true" {
				e.AllowAlias = true
			}
		case t.kind == tIdent && t.text == "reserved":
			// enum reserved ranges / names: parse with a scratch message
			var scratch Message
			if err := p.reservedEnum(&scratch); err != nil {
				return nil, err
			}
		case t.kind == tIdent:
			p.next()
			if err := p.expectSym("="); err != nil {
				return nil, err
			}
			n, nt, err := p.intLit("enum value number")
			if err != nil {
				return nil, err
			}
			if n < -(1<<31) || n > 1<<31-1 {
				return nil, errAt(nt.line, nt.col, "enum value out of range of int32")
			}
			if _, err := p.fieldOptions("enumvalue"); err != nil {
				return nil, err
			}
			if err := p.expectSym(";"); err != nil {
				return nil, err
			}
			e.Values = append(e.Values, &EnumValue{Name: t.text, Number: int(n), Line: t.line})
		default:
			return nil, errAt(t.line, t.col, "expected enum value or \"}\", found %s", describe(t))
		}
	}
}

func (p *parser) reservedEnum(m *Message) error {
	p.next()
	if p.peek().kind == tString {
		p.pos-- // re-use the message variant
		return p.reserved(m)
	}
	for {
		lo, lt, err := p.intLit("enum number range")
		if err != nil {
			return err
		}
		hi := lo
		if p.isIdent("to") {
			p.next()
			if p.isIdent("max") {
				p.next()
				hi = 1<<31 - 1
			} else if hi, _, err = p.intLit("enum number"); err != nil {
				return err
			}
		}
		if hi < lo {
			return errAt(lt.line, lt.col, "reserved range end number must be greater than start number")
		}
		if p.isSym(",") {
			p.next()
			continue
		}
		break
	}
	return p.expectSym(";")
}

func (p *parser) service() (*Service, error) {
	kw := p.next()
	nt, err := p.ident("service name")
	if err != nil {
		return nil, err
	}
	s := &Service{Name: nt.text, FullName: qualify(p.file.Package, nt.text), Comment: kw.comment, Line: kw.line}
	if err := p.expectSym("{"); err != nil {
		return nil, err
	}
	for {
		t := p.peek()
		switch {
		case t.kind == tEOF:
			return nil, errAt(t.line, t.col, "reached end of input in service definition (missing '}')")
		case t.kind == tSym && t.text == "}":
			p.next()
			return s, nil
		case t.kind == tSym && t.text == ";":
			p.next()
		case t.kind == tIdent && t.text == "option":
			if _, err := p.optionStmt("service"); err != nil {
				return nil, err
			}
		case t.kind == tIdent && t.text == "rpc":
			m, err := p.rpc()
			if err != nil {
				return nil, err
			}
			for _, o := range s.Methods {
				if o.Name == m.Name {
					return nil, errAt(m.Line, 1, "%q is already defined in %q", m.Name, s.FullName)
				}
			}
			s.Methods = append(s.Methods, m)
		case t.kind == tIdent && t.text == "stream":
			return nil, errAt(t.line, t.col, "\"stream\" definitions are not supported; use rpc with stream arguments")
		default:
			return nil, errAt(t.line, t.col, "expected \"rpc\", \"option\" or \"}\" in service definition, found %s", describe(t))
		}
	}
}

func (p *parser) rpc() (*Method, error) {
	kw := p.next()
	nt, err := p.ident("method name")
	if err != nil {
		return nil, err
	}
	m := &Method{Name: nt.text, Comment: kw.comment, Line: kw.line}
	arg := func() (string, bool, error) {
		if err := p.expectSym("("); err != nil {
			return "", false, err
		}
		stream := false
		if p.isIdent("stream") { // always a keyword here, as in protoc
			stream = true
			p.next()
		}
		n, _, err := p.typeName()
		if err != nil {
			return "", false, err
		}
		if err := p.expectSym(")"); err != nil {
			return "", false, err
		}
		return n, stream, nil
	}
	if m.InType, m.ClientStream, err = arg(); err != nil {
		return nil, err
	}
	t := p.peek()
	if !p.isIdent("returns") {
		return nil, errAt(t.line, t.col, "expected \"returns\", found %s", describe(t))
	}
	p.next()
	if m.OutType, m.ServerStream, err = arg(); err != nil {
		return nil, err
	}
	if p.isSym("{") {
		p.next()
		for {
			t := p.peek()
			switch {
			case t.kind == tSym && t.text == "}":
				p.next()
				return m, nil
			case t.kind == tSym && t.text == ";":
				p.next()
			case t.kind == tIdent && t.text == "option":
				if _, err := p.optionStmt("method"); err != nil {
					return nil, err
				}
			default:
				return nil, errAt(t.line, t.col, "expected \"option\" or \"}\" in method body, found %s", describe(t))
			}
		}
	}
	if err := p.expectSym(";"); err != nil {
		return nil, err
	}
	return m, nil
}

// ---------------------------------------------------------------- driver

func parseSource(src, name string, dirs []string, inProgress map[string]bool) (*File, error) {
	for i := 0; i < len(src); i++ {
		if src[i] == 0 {
			return nil, errAt(1, 1, "NUL byte in input")
		}
	}
	if strings.HasPrefix(src, "\xef\xbb\xbf") {
		src = src[3:]
	}
	toks, err := lex(src)
	if err != nil {
		return nil, err
	}
	f := &File{Name: name}
	p := &parser{toks: toks, file: f}
	if err := p.parseFile(); err != nil {
		return nil, err
	}
	// imports
	for _, imp := range f.Imports {
		if wk := wellKnown(imp.Path); wk != nil {
			imp.File = wk
			continue
		}
		found := false
		for _, d := range dirs {
			full := filepath.Join(d, imp.Path)
			b, err := os.ReadFile(full)
			if err != nil {
				continue
			}
			if inProgress[full] {
				return nil, errAt(imp.Line, 1, "file recursively imports itself: %s", imp.Path)
			}
			inProgress[full] = true
			sub, err := parseSource(string(b), imp.Path, dirs, inProgress)
			delete(inProgress, full)
			if err != nil {
				return nil, fmt.Errorf("%s: %w", imp.Path, err)
			}
			imp.File = sub
			found = true
			break
		}
		if !found {
			return nil, errAt(imp.Line, 1, "import %q was not found or had errors", imp.Path)
		}
	}
	if err := check(f); err != nil {
		return nil, err
	}
	return f, nil
}
