package protostub

import (
	"bytes"
	"fmt"
	"go/ast"
	goparser "go/parser"
	"go/printer"
	gotoken "go/token"
	"os"
	"os/exec"
	"path/filepath"
	"sort"
	"strings"
	"sync"
	"testing"
)

var (
	realOnce sync.Once
	realBin  string
	realErr  error
)

func TestMain(m *testing.M) {
	code := m.Run()
	if realBin != "" {
		_ = os.RemoveAll(filepath.Dir(realBin))
	}
	os.Exit(code)
}

// realProtocGenGo builds the REAL protoc-gen-go from the module cache (google.golang.org/protobuf/cmd/protoc-gen-go).
func realProtocGenGo(t *testing.T) string {
	realOnce.Do(func() {
		dir, err := os.MkdirTemp("", "protoc-gen-go")
		if err != nil {
			realErr = err
			return
		}
		realBin = filepath.Join(dir, "protoc-gen-go")
		cmd := exec.Command("go", "build", "-o", realBin, "google.golang.org/protobuf/cmd/protoc-gen-go")
		cmd.Env = append(os.Environ(), "GOFLAGS=-mod=mod", "GOPROXY=off", "GOSUMDB=off", "GOTOOLCHAIN=local")
		if out, err := cmd.CombinedOutput(); err != nil {
			realErr = fmt.Errorf("%v: %s", err, out)
		}
	})
	if realErr != nil {
		t.Skipf("real protoc-gen-go cannot be built from the module cache: %v", realErr)
	}
	return realBin
}

func runReal(t *testing.T, f *File) string {
	out, err := RunPlugin(realProtocGenGo(t), f, "paths=source_relative")
	if err != nil {
		t.Fatalf("protoc-gen-go: %v", err)
	}
	return string(out)
}

// api extracts what generated client code can touch: exported struct fields with their types, methods with their
// signatures, oneof interfaces, enum constants. Keys are "kind name", values the printed type.
func api(t *testing.T, src string) map[string]string {
	fs := gotoken.NewFileSet()
	af, err := goparser.ParseFile(fs, "x.go", src, 0)
	if err != nil {
		t.Fatalf("%v\n%s", err, src)
	}
	show := func(n ast.Node) string {
		var b bytes.Buffer
		_ = printer.Fprint(&b, fs, n)
		return strings.Join(strings.Fields(b.String()), " ")
	}
	out := map[string]string{"package": af.Name.Name}
	for _, d := range af.Decls {
		switch d := d.(type) {
		case *ast.GenDecl:
			for _, sp := range d.Specs {
				switch sp := sp.(type) {
				case *ast.TypeSpec:
					switch tt := sp.Type.(type) {
					case *ast.StructType:
						out["type "+sp.Name.Name] = "struct"
						for _, fld := range tt.Fields.List {
							for _, n := range fld.Names {
								if n.IsExported() {
									tag := ""
									if fld.Tag != nil {
										tag = " " + fld.Tag.Value
									}
									out["field "+sp.Name.Name+"."+n.Name] = show(fld.Type) + tag
								}
							}
						}
					case *ast.InterfaceType:
						out["type "+sp.Name.Name] = show(tt)
					default:
						out["type "+sp.Name.Name] = show(tt)
					}
				case *ast.ValueSpec:
					if d.Tok == gotoken.CONST {
						for _, n := range sp.Names {
							if n.IsExported() {
								out["const "+n.Name] = show(sp.Type)
							}
						}
					}
				}
			}
		case *ast.FuncDecl:
			if d.Recv == nil || len(d.Recv.List) != 1 {
				continue
			}
			recv := show(d.Recv.List[0].Type)
			ft := *d.Type
			out["method "+recv+"."+d.Name.Name] = show(&ft)
		}
	}
	return out
}

// realOnly lists what the real generator has and the stand-in deliberately lacks.
func realOnly(k string) bool {
	for _, s := range []string{".ProtoReflect", ".Type", ".Number", ".UnmarshalJSON"} {
		if strings.HasPrefix(k, "method ") && strings.HasSuffix(k, s) {
			return true
		}
	}
	return false
}

func compareWithReal(t *testing.T, name, src string) {
	f, err := Parse(src)
	if err != nil {
		t.Fatalf("%s: %v", name, err)
	}
	f.Name = name + ".proto"
	if err := CrossCheck(f); err != nil {
		t.Errorf("%s: %v", name, err)
	}
	gen, err := Generate(f, f.Name)
	if err != nil {
		t.Fatalf("%s: %v", name, err)
	}
	mine, real := api(t, string(gen.PB)), api(t, runReal(t, f))
	var keys []string
	for k := range real {
		keys = append(keys, k)
	}
	for k := range mine {
		if _, ok := real[k]; !ok {
			keys = append(keys, k)
		}
	}
	sort.Strings(keys)
	for _, k := range keys {
		m, mok := mine[k]
		r, rok := real[k]
		switch {
		case !mok && (realOnly(k) || strings.Contains(r, "protoreflect.")):
		case !mok && strings.HasPrefix(k, "field ") && strings.Contains(r, "protoimpl."):
		case !mok:
			t.Errorf("%s: real protoc-gen-go declares %q (%s), the stand-in does not", name, k, r)
		case !rok:
			t.Errorf("%s: the stand-in declares %q (%s), real protoc-gen-go does not", name, k, m)
		case m != r && k != "method "+strings.TrimPrefix(strings.SplitN(k, ".", 2)[0], "method ")+".String":
			t.Errorf("%s: %q differs:\n  stand-in: %s\n  real:     %s", name, k, m, r)
		}
	}
}

const hostileNames = `syntax = "proto3";
package hostile.pkg_v2;
option go_package = "example.com/x/hostilepb;hostile_pb";
import "google/protobuf/timestamp.proto";
message outer_msg {
  message inner { optional string a = 1; }
  message Inner2 { optional string a = 1; }
  enum Kind { KIND_UNSPECIFIED = 0; KIND_A = 1; }
  inner i = 1;
  Inner2 i2 = 2;
  Kind kind = 3;
  repeated Kind kinds = 4;
  map<string, Kind> by_kind = 5;
  optional Kind opt_kind = 6;
  google.protobuf.Timestamp at = 7;
  repeated google.protobuf.Timestamp ats = 8;
}
message Names {
  string reset = 1; string string = 2; string proto_message = 3; string descriptor = 4; string marshal = 5; string unmarshal = 6;
  string get_name = 7; string name = 8; string Name = 9;
  string _leading = 11; string trailing_ = 12; string double__under = 13; string a_1 = 14; string a1b = 15; string a_B = 16; string aB_c = 17;
  string int32_field = 18; string u_int64_value = 19; string HTTPServer = 20; string x = 21;
  optional string _x = 24; optional string opt = 25; string x_opt = 26;
  oneof choice { string s = 30; Names rec = 31; bytes raw = 32; double choice_ = 33; }
  oneof Names { string reset2 = 40; }
  message S {}
  enum Rec { REC_ZERO = 0; }
}
enum TopLevel { ZERO = 0; one = 1; Two_2 = 2; }
message Scalars {
  double d = 1; float f = 2; int32 i32 = 3; int64 i64 = 4; uint32 u32 = 5; uint64 u64 = 6; sint32 s32 = 7; sint64 s64 = 8;
  fixed32 f32 = 9; fixed64 f64 = 10; sfixed32 sf32 = 11; sfixed64 sf64 = 12; bool b = 13; string s = 14; bytes y = 15;
  optional double od = 21; optional float of = 22; optional int32 oi32 = 23; optional int64 oi64 = 24; optional uint32 ou32 = 25; optional uint64 ou64 = 26;
  optional sint32 os32 = 27; optional sint64 os64 = 28; optional fixed32 of32 = 29; optional fixed64 of64 = 30; optional sfixed32 osf32 = 31; optional sfixed64 osf64 = 32;
  optional bool ob = 33; optional string os = 34; optional bytes oy = 35; optional Scalars om = 36;
  repeated double rd = 41; repeated string rs = 42; repeated bytes ry = 43; repeated Scalars rm = 44; repeated sint64 rs64 = 45; repeated bool rb = 46;
  map<string, bytes> msy = 51; map<int32, Scalars> mim = 52; map<bool, double> mbd = 53; map<uint64, string> mus = 54; map<sint64, float> msf = 55; map<fixed32, sfixed64> mff = 56;
  string json_thing = 60 [json_name = "jt"];
}
`

func TestStandInMatchesRealProtocGenGo(t *testing.T) {
	if testing.Short() {
		t.Skip("builds protoc-gen-go")
	}
	realProtocGenGo(t)
	b, err := os.ReadFile("testdata/e2e/t.proto")
	if err != nil {
		t.Fatal(err)
	}
	compareWithReal(t, "e2e", string(b))
	compareWithReal(t, "hostile", hostileNames)
	n := 0
	for name, src := range goldens(t) {
		if !strings.Contains(src, "syntax = ") {
			src = "syntax = \"proto3\";\npackage golden;\noption go_package = \"/goldenpb\";\n" + src
		}
		compareWithReal(t, name, src)
		n++
	}
	t.Logf("compared the e2e file, the hostile names file and %d goa golden files", n)
}
