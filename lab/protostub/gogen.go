package protostub

import (
	"fmt"
	"go/format"
	"path"
	"sort"
	"strconv"
	"strings"
)

// PbrtImport is the import path of the stand-in runtime.
const PbrtImport = "verif.local/lab/protostub/pbrt"

// Generated is the Go code for one .proto file.
type Generated struct {
	Package string
	PB      []byte // <name>.pb.go
	GRPC    []byte // <name>_grpc.pb.go (nil if the file declares no service)
}

type gogen struct {
	f       *File
	pkg     string
	names   map[*Message]*goNames
	imports map[string]string // import path -> alias
	b       strings.Builder
	source  string
}

func (g *gogen) p(format string, a ...any) {
	fmt.Fprintf(&g.b, format, a...)
	g.b.WriteByte('\n')
}

// Generate writes stand-in Go code for a parsed file. source is the name of the .proto file (for comments and ServiceDesc.Metadata).
func Generate(f *File, source string) (*Generated, error) {
	pkg, _, err := GoPackage(f.GoPackage)
	if err != nil {
		return nil, err
	}
	g := &gogen{f: f, pkg: pkg, names: map[*Message]*goNames{}, imports: map[string]string{}, source: source}
	for _, m := range f.AllMessages() {
		g.names[m] = namesOf(m)
	}
	out := &Generated{Package: pkg}
	if out.PB, err = g.genPB(); err != nil {
		return nil, err
	}
	if len(f.Services) > 0 {
		if out.GRPC, err = g.genGRPC(); err != nil {
			return nil, err
		}
	}
	return out, nil
}

func (g *gogen) finish(header string) ([]byte, error) {
	var h strings.Builder
	h.WriteString(header)
	fmt.Fprintf(&h, "package %s\n\n", g.pkg)
	if len(g.imports) > 0 {
		paths := make([]string, 0, len(g.imports))
		for p := range g.imports {
			paths = append(paths, p)
		}
		sort.Strings(paths)
		h.WriteString("import (\n")
		for _, p := range paths {
			fmt.Fprintf(&h, "\t%s %q\n", g.imports[p], p)
		}
		h.WriteString(")\n\n")
	}
	src := h.String() + g.b.String()
	out, err := format.Source([]byte(src))
	if err != nil {
		return []byte(src), fmt.Errorf("stand-in writer produced invalid Go: %v", err)
	}
	return out, nil
}

func (g *gogen) use(importPath, alias string) string {
	g.imports[importPath] = alias
	return alias
}

// msgIdent returns the (possibly package-qualified) Go type name of a message.
func (g *gogen) msgIdent(m *Message) (string, error) {
	if m.File == g.f {
		return g.names[m].Ident, nil
	}
	return g.external(m.File, GoCamelCase(m.File.relName(m.FullName)))
}

func (g *gogen) enumIdent(e *Enum) (string, error) {
	if e.File == g.f {
		return GoCamelCase(g.f.relName(e.FullName)), nil
	}
	return g.external(e.File, GoCamelCase(e.File.relName(e.FullName)))
}

func (g *gogen) external(f *File, ident string) (string, error) {
	name, ipath, err := GoPackage(f.GoPackage)
	if err != nil {
		return "", fmt.Errorf("%s: %v", f.Name, err)
	}
	if ipath == "" {
		return "", fmt.Errorf("%s: go_package %q gives no import path", f.Name, f.GoPackage)
	}
	if f.IsWellKnown() {
		name = path.Base(ipath)
	}
	return g.use(ipath, name) + "." + ident, nil
}

// elemGoType is the Go type of one value of the field (element of repeated, value of map).
func (g *gogen) elemGoType(f *Field, tn string) (string, error) {
	if s, ok := scalarGo[tn]; ok {
		return s, nil
	}
	if f.Msg != nil {
		id, err := g.msgIdent(f.Msg)
		return "*" + id, err
	}
	return g.enumIdent(f.Enum)
}

func (g *gogen) fieldGoType(f *Field) (string, error) {
	switch {
	case f.IsMap():
		v, err := g.elemGoType(f, f.ValType)
		return "map[" + scalarGo[f.KeyType] + "]" + v, err
	case f.IsRepeated():
		e, err := g.elemGoType(f, f.Type)
		return "[]" + e, err
	}
	t, err := g.elemGoType(f, f.Type)
	if f.IsOptional() && f.Msg == nil && f.Type != "bytes" {
		t = "*" + t
	}
	return t, err
}

func wireOf(f *Field, tn string) string {
	if w, ok := scalarWire[tn]; ok {
		return w
	}
	if f.Msg != nil {
		return "bytes"
	}
	return "varint"
}

func (g *gogen) tag(f *Field) string {
	var parts []string
	if f.IsMap() {
		parts = []string{"bytes", strconv.Itoa(f.Number), "rep"}
	} else {
		parts = []string{wireOf(f, f.Type), strconv.Itoa(f.Number), "opt"}
		if f.IsRepeated() {
			parts[2] = "rep"
			if packable(f.Type) || f.Enum != nil {
				parts = append(parts, "packed")
			}
		}
	}
	parts = append(parts, "name="+f.Name)
	if f.JSONName != f.Name {
		parts = append(parts, "json="+f.JSONName)
	}
	parts = append(parts, "proto3")
	if f.Enum != nil && !f.IsMap() {
		parts = append(parts, "enum="+enumTagName(f.Enum))
	}
	if f.Oneof != nil || f.IsOptional() {
		parts = append(parts, "oneof")
	}
	t := "protobuf:\"" + strings.Join(parts, ",") + "\""
	if f.Oneof == nil {
		t += " json:\"" + f.Name + ",omitempty\""
	}
	if f.IsMap() {
		t += fmt.Sprintf(" protobuf_key:\"%s,1,opt,name=key,proto3\"", scalarWire[f.KeyType])
		vw := wireOf(f, f.ValType)
		ve := ""
		if f.Enum != nil {
			ve = ",enum=" + enumTagName(f.Enum)
		}
		t += fmt.Sprintf(" protobuf_val:\"%s,2,opt,name=value,proto3%s\"", vw, ve)
	}
	return "`" + t + "`"
}

// enumTagName is how protoc-gen-go names an enum in struct tags: proto package + "." + Go identifier.
func enumTagName(e *Enum) string {
	return qualify(e.File.Package, GoCamelCase(e.File.relName(e.FullName)))
}

func comment(c, indent string) string {
	if c == "" {
		return ""
	}
	var b strings.Builder
	for _, l := range strings.Split(c, "\n") {
		b.WriteString(indent + "// " + strings.TrimSpace(l) + "\n")
	}
	return b.String()
}

func (g *gogen) zero(f *Field) (string, error) {
	switch {
	case f.IsMap() || f.IsRepeated() || f.Msg != nil:
		return "nil", nil
	case f.Enum != nil:
		id, err := g.enumIdent(f.Enum)
		if err != nil {
			return "", err
		}
		return g.enumValueIdent(f.Enum, id, f.Enum.Values[0].Name), nil
	}
	return scalarZero[f.Type], nil
}

// enumValueIdent: nested enum values are prefixed with the parent message's Go name, top-level ones with the enum's.
func (g *gogen) enumValueIdent(e *Enum, enumIdent, value string) string {
	prefix := enumIdent
	if e.Parent != nil {
		pfx := GoCamelCase(e.File.relName(e.Parent.FullName))
		if i := strings.LastIndexByte(enumIdent, '.'); i >= 0 { // imported
			pfx = enumIdent[:i+1] + pfx
		}
		prefix = pfx
	}
	return prefix + "_" + value
}

func (g *gogen) genPB() ([]byte, error) {
	g.b.Reset()
	g.imports = map[string]string{}
	for _, e := range g.f.AllEnums() {
		g.genEnum(e)
	}
	for _, m := range g.f.AllMessages() {
		if err := g.genMessage(m); err != nil {
			return nil, err
		}
	}
	hdr := "// Code generated by protoc-gen-go. DO NOT EDIT.\n// (verif lab STAND-IN for protoc-gen-go: plain structs with protoc-gen-go's naming and Go types; not real protobuf)\n// source: " + g.source + "\n\n"
	return g.finish(hdr)
}

func (g *gogen) genEnum(e *Enum) {
	id := GoCamelCase(g.f.relName(e.FullName))
	g.use("strconv", "strconv")
	g.b.WriteString(comment(e.Comment, ""))
	g.p("type %s int32", id)
	g.p("const (")
	for _, v := range e.Values {
		g.p("\t%s %s = %d", g.enumValueIdent(e, id, v.Name), id, v.Number)
	}
	g.p(")")
	g.p("// Enum value maps for %s.", id)
	g.p("var (")
	g.p("\t%s_name = map[int32]string{", id)
	seen := map[int]bool{}
	for _, v := range e.Values {
		if !seen[v.Number] {
			seen[v.Number] = true
			g.p("\t\t%d: %q,", v.Number, v.Name)
		}
	}
	g.p("\t}")
	g.p("\t%s_value = map[string]int32{", id)
	for _, v := range e.Values {
		g.p("\t\t%q: %d,", v.Name, v.Number)
	}
	g.p("\t}")
	g.p(")")
	g.p("func (x %s) Enum() *%s { p := new(%s); *p = x; return p }", id, id, id)
	g.p("func (x %s) String() string { if s, ok := %s_name[int32(x)]; ok { return s }; return strconv.Itoa(int(x)) }", id, id)
	g.p("// Deprecated: Use %s.Descriptor instead.", id)
	g.p("func (%s) EnumDescriptor() ([]byte, []int) { return nil, nil }", id)
	g.p("")
}

func (g *gogen) genMessage(m *Message) error {
	n := g.names[m]
	pbrt := g.use(PbrtImport, "pbrt")
	g.b.WriteString(comment(m.Comment, ""))
	g.p("type %s struct {", n.Ident)
	emitted := map[*Oneof]bool{}
	for _, f := range m.Fields {
		if f.Oneof != nil {
			if emitted[f.Oneof] {
				continue
			}
			emitted[f.Oneof] = true
			o := f.Oneof
			g.b.WriteString(comment(o.Comment, "\t"))
			g.p("\t// Types that are assignable to %s:", n.Oneof[o])
			g.p("\t//")
			for _, of := range o.Fields {
				g.p("\t//\t*%s", n.Wrapper[of])
			}
			g.p("\t%s is%s `protobuf_oneof:%q`", n.Oneof[o], n.OneofIdent[o], o.Name)
			continue
		}
		t, err := g.fieldGoType(f)
		if err != nil {
			return err
		}
		g.b.WriteString(comment(f.Comment, "\t"))
		g.p("\t%s %s %s", n.Field[f], t, g.tag(f))
	}
	g.p("}")
	g.p("")
	g.p("func (x *%s) Reset() { *x = %s{} }", n.Ident, n.Ident)
	g.p("func (x *%s) String() string { return %s.String(x) }", n.Ident, pbrt)
	g.p("func (*%s) ProtoMessage() {}", n.Ident)
	g.p("")
	g.p("// Deprecated: Use %s.ProtoReflect.Descriptor instead.", n.Ident)
	g.p("func (*%s) Descriptor() ([]byte, []int) { return nil, nil }", n.Ident)
	g.p("")
	emitted = map[*Oneof]bool{}
	for _, f := range m.Fields {
		if f.Oneof != nil && !emitted[f.Oneof] {
			emitted[f.Oneof] = true
			g.p("func (m *%s) Get%s() is%s {\n\tif m != nil {\n\t\treturn m.%s\n\t}\n\treturn nil\n}\n", n.Ident, n.Oneof[f.Oneof], n.OneofIdent[f.Oneof], n.Oneof[f.Oneof])
		}
		t, err := g.fieldGoType(f)
		if err != nil {
			return err
		}
		z, err := g.zero(f)
		if err != nil {
			return err
		}
		switch {
		case f.Oneof != nil:
			g.p("func (x *%s) Get%s() %s {\n\tif x, ok := x.Get%s().(*%s); ok {\n\t\treturn x.%s\n\t}\n\treturn %s\n}\n",
				n.Ident, n.Field[f], t, n.Oneof[f.Oneof], n.Wrapper[f], n.Field[f], z)
		case strings.HasPrefix(t, "*") && f.Msg == nil: // optional scalar
			g.p("func (x *%s) Get%s() %s {\n\tif x != nil && x.%s != nil {\n\t\treturn *x.%s\n\t}\n\treturn %s\n}\n",
				n.Ident, n.Field[f], t[1:], n.Field[f], n.Field[f], z)
		default:
			g.p("func (x *%s) Get%s() %s {\n\tif x != nil {\n\t\treturn x.%s\n\t}\n\treturn %s\n}\n", n.Ident, n.Field[f], t, n.Field[f], z)
		}
	}
	for _, o := range m.Oneofs {
		g.p("type is%s interface {\n\tis%s()\n}\n", n.OneofIdent[o], n.OneofIdent[o])
		for _, f := range o.Fields {
			t, err := g.fieldGoType(f)
			if err != nil {
				return err
			}
			g.p("type %s struct {", n.Wrapper[f])
			g.b.WriteString(comment(f.Comment, "\t"))
			g.p("\t%s %s %s", n.Field[f], t, g.tag(f))
			g.p("}\n")
		}
		for _, f := range o.Fields {
			g.p("func (*%s) is%s() {}\n", n.Wrapper[f], n.OneofIdent[o])
		}
	}
	return nil
}

// ---------------------------------------------------------------- *_grpc.pb.go

func (g *gogen) genGRPC() ([]byte, error) {
	g.b.Reset()
	g.imports = map[string]string{}
	g.use("context", "context")
	g.use("google.golang.org/grpc", "grpc")
	g.use("google.golang.org/grpc/codes", "codes")
	g.use("google.golang.org/grpc/status", "status")
	g.use(PbrtImport, "pbrt")
	g.p("// This is a compile-time assertion to ensure that this generated file")
	g.p("// is compatible with the grpc package it is being compiled against.")
	g.p("const _ = grpc.SupportPackageIsVersion7")
	g.p("")
	for _, s := range g.f.Services {
		if err := g.genService(s); err != nil {
			return nil, err
		}
	}
	g.p("func init() {")
	for _, s := range g.f.Services {
		g.p("\tpbrt.RegisterDesc(&%s_ServiceDesc)", GoCamelCase(s.Name))
	}
	g.p("}")
	hdr := "// Code generated by protoc-gen-go-grpc. DO NOT EDIT.\n// (verif lab STAND-IN for protoc-gen-go-grpc: same declarations; New<Service>Client returns a client bound to the\n// in-process loopback of package pbrt when the connection belongs to the lab)\n// source: " + g.source + "\n\n"
	return g.finish(hdr)
}

func (g *gogen) genService(s *Service) error {
	sn := GoCamelCase(s.Name)
	type meth struct {
		*Method
		go_, in, out string
		streamIdx    int
	}
	var ms []*meth
	nstream := 0
	for _, m := range s.Methods {
		in, err := g.msgIdent(m.In)
		if err != nil {
			return err
		}
		out, err := g.msgIdent(m.Out)
		if err != nil {
			return err
		}
		x := &meth{Method: m, go_: GoCamelCase(m.Name), in: in, out: out, streamIdx: -1}
		if m.ClientStream || m.ServerStream {
			x.streamIdx = nstream
			nstream++
		}
		ms = append(ms, x)
	}
	g.p("const (")
	for _, m := range ms {
		g.p("\t%s_%s_FullMethodName = \"/%s/%s\"", sn, m.go_, s.FullName, m.Name)
	}
	g.p(")")
	g.p("")
	clientSig := func(m *meth) string {
		switch {
		case !m.ClientStream && !m.ServerStream:
			return fmt.Sprintf("%s(ctx context.Context, in *%s, opts ...grpc.CallOption) (*%s, error)", m.go_, m.in, m.out)
		case !m.ClientStream:
			return fmt.Sprintf("%s(ctx context.Context, in *%s, opts ...grpc.CallOption) (%s_%sClient, error)", m.go_, m.in, sn, m.go_)
		}
		return fmt.Sprintf("%s(ctx context.Context, opts ...grpc.CallOption) (%s_%sClient, error)", m.go_, sn, m.go_)
	}
	serverSig := func(m *meth, named bool) string {
		switch {
		case !m.ClientStream && !m.ServerStream:
			return fmt.Sprintf("%s(context.Context, *%s) (*%s, error)", m.go_, m.in, m.out)
		case !m.ClientStream:
			return fmt.Sprintf("%s(*%s, %s_%sServer) error", m.go_, m.in, sn, m.go_)
		}
		return fmt.Sprintf("%s(%s_%sServer) error", m.go_, sn, m.go_)
	}
	// client
	g.p("// %sClient is the client API for %s service.", sn, sn)
	g.p("//")
	g.p("// For semantics around ctx use and closing/ending streaming RPCs, please refer to https://pkg.go.dev/google.golang.org/grpc/?tab=doc#ClientConn.NewStream.")
	g.p("type %sClient interface {", sn)
	for _, m := range ms {
		g.b.WriteString(comment(m.Comment, "\t"))
		g.p("\t%s", clientSig(m))
	}
	g.p("}")
	g.p("")
	lc := unexport(sn)
	g.p("type %sClient struct {\n\tcc grpc.ClientConnInterface\n}\n", lc)
	g.p("func New%sClient(cc grpc.ClientConnInterface) %sClient {\n\treturn &%sClient{pbrt.Loopback(cc)}\n}\n", sn, sn, lc)
	for _, m := range ms {
		full := fmt.Sprintf("%s_%s_FullMethodName", sn, m.go_)
		if m.streamIdx < 0 {
			g.p("func (c *%sClient) %s {", lc, clientSig(m))
			g.p("\tout := new(%s)", m.out)
			g.p("\terr := c.cc.Invoke(ctx, %s, in, out, opts...)", full)
			g.p("\tif err != nil {\n\t\treturn nil, err\n\t}\n\treturn out, nil\n}\n")
			continue
		}
		cs := fmt.Sprintf("%s%sClient", lc, m.go_)
		g.p("func (c *%sClient) %s {", lc, clientSig(m))
		g.p("\tstream, err := c.cc.NewStream(ctx, &%s_ServiceDesc.Streams[%d], %s, opts...)", sn, m.streamIdx, full)
		g.p("\tif err != nil {\n\t\treturn nil, err\n\t}")
		g.p("\tx := &%s{stream}", cs)
		if !m.ClientStream {
			g.p("\tif err := x.ClientStream.SendMsg(in); err != nil {\n\t\treturn nil, err\n\t}")
			g.p("\tif err := x.ClientStream.CloseSend(); err != nil {\n\t\treturn nil, err\n\t}")
		}
		g.p("\treturn x, nil\n}\n")
		g.p("type %s_%sClient interface {", sn, m.go_)
		if m.ClientStream {
			g.p("\tSend(*%s) error", m.in)
		}
		if m.ServerStream {
			g.p("\tRecv() (*%s, error)", m.out)
		} else {
			g.p("\tCloseAndRecv() (*%s, error)", m.out)
		}
		g.p("\tgrpc.ClientStream\n}\n")
		g.p("type %s struct {\n\tgrpc.ClientStream\n}\n", cs)
		if m.ClientStream {
			g.p("func (x *%s) Send(m *%s) error {\n\treturn x.ClientStream.SendMsg(m)\n}\n", cs, m.in)
		}
		if m.ServerStream {
			g.p("func (x *%s) Recv() (*%s, error) {\n\tm := new(%s)\n\tif err := x.ClientStream.RecvMsg(m); err != nil {\n\t\treturn nil, err\n\t}\n\treturn m, nil\n}\n", cs, m.out, m.out)
		} else {
			g.p("func (x *%s) CloseAndRecv() (*%s, error) {\n\tif err := x.ClientStream.CloseSend(); err != nil {\n\t\treturn nil, err\n\t}\n\tm := new(%s)\n\tif err := x.ClientStream.RecvMsg(m); err != nil {\n\t\treturn nil, err\n\t}\n\treturn m, nil\n}\n", cs, m.out, m.out)
		}
	}
	// server
	g.p("// %sServer is the server API for %s service.", sn, sn)
	g.p("// All implementations must embed Unimplemented%sServer", sn)
	g.p("// for forward compatibility")
	g.p("type %sServer interface {", sn)
	for _, m := range ms {
		g.b.WriteString(comment(m.Comment, "\t"))
		g.p("\t%s", serverSig(m, false))
	}
	g.p("\tmustEmbedUnimplemented%sServer()", sn)
	g.p("}\n")
	g.p("// Unimplemented%sServer must be embedded to have forward compatible implementations.", sn)
	g.p("type Unimplemented%sServer struct {\n}\n", sn)
	for _, m := range ms {
		ret := "return status.Errorf(codes.Unimplemented, \"method " + m.go_ + " not implemented\")"
		if m.streamIdx < 0 {
			ret = "return nil, status.Errorf(codes.Unimplemented, \"method " + m.go_ + " not implemented\")"
		}
		g.p("func (Unimplemented%sServer) %s {\n\t%s\n}", sn, serverSig(m, false), ret)
	}
	g.p("func (Unimplemented%sServer) mustEmbedUnimplemented%sServer() {}\n", sn, sn)
	g.p("// Unsafe%sServer may be embedded to opt out of forward compatibility for this service.", sn)
	g.p("// Use of this interface is not recommended, as added methods to %sServer will", sn)
	g.p("// result in compilation errors.")
	g.p("type Unsafe%sServer interface {\n\tmustEmbedUnimplemented%sServer()\n}\n", sn, sn)
	g.p("func Register%sServer(s grpc.ServiceRegistrar, srv %sServer) {\n\ts.RegisterService(&%s_ServiceDesc, srv)\n}\n", sn, sn, sn)
	for _, m := range ms {
		h := fmt.Sprintf("_%s_%s_Handler", sn, m.go_)
		if m.streamIdx < 0 {
			g.p("func %s(srv interface{}, ctx context.Context, dec func(interface{}) error, interceptor grpc.UnaryServerInterceptor) (interface{}, error) {", h)
			g.p("\tin := new(%s)", m.in)
			g.p("\tif err := dec(in); err != nil {\n\t\treturn nil, err\n\t}")
			g.p("\tif interceptor == nil {\n\t\treturn srv.(%sServer).%s(ctx, in)\n\t}", sn, m.go_)
			g.p("\tinfo := &grpc.UnaryServerInfo{\n\t\tServer: srv,\n\t\tFullMethod: %s_%s_FullMethodName,\n\t}", sn, m.go_)
			g.p("\thandler := func(ctx context.Context, req interface{}) (interface{}, error) {\n\t\treturn srv.(%sServer).%s(ctx, req.(*%s))\n\t}", sn, m.go_, m.in)
			g.p("\treturn interceptor(ctx, in, info, handler)\n}\n")
			continue
		}
		ss := fmt.Sprintf("%s%sServer", lc, m.go_)
		g.p("func %s(srv interface{}, stream grpc.ServerStream) error {", h)
		if !m.ClientStream {
			g.p("\tm := new(%s)\n\tif err := stream.RecvMsg(m); err != nil {\n\t\treturn err\n\t}", m.in)
			g.p("\treturn srv.(%sServer).%s(m, &%s{stream})\n}\n", sn, m.go_, ss)
		} else {
			g.p("\treturn srv.(%sServer).%s(&%s{stream})\n}\n", sn, m.go_, ss)
		}
		g.p("type %s_%sServer interface {", sn, m.go_)
		if m.ServerStream {
			g.p("\tSend(*%s) error", m.out)
		} else {
			g.p("\tSendAndClose(*%s) error", m.out)
		}
		if m.ClientStream {
			g.p("\tRecv() (*%s, error)", m.in)
		}
		g.p("\tgrpc.ServerStream\n}\n")
		g.p("type %s struct {\n\tgrpc.ServerStream\n}\n", ss)
		if m.ServerStream {
			g.p("func (x *%s) Send(m *%s) error {\n\treturn x.ServerStream.SendMsg(m)\n}\n", ss, m.out)
		} else {
			g.p("func (x *%s) SendAndClose(m *%s) error {\n\treturn x.ServerStream.SendMsg(m)\n}\n", ss, m.out)
		}
		if m.ClientStream {
			g.p("func (x *%s) Recv() (*%s, error) {\n\tm := new(%s)\n\tif err := x.ServerStream.RecvMsg(m); err != nil {\n\t\treturn nil, err\n\t}\n\treturn m, nil\n}\n", ss, m.in, m.in)
		}
	}
	g.p("// %s_ServiceDesc is the grpc.ServiceDesc for %s service.", sn, sn)
	g.p("// It's only intended for direct use with grpc.RegisterService,")
	g.p("// and not to be introspected or modified (even as a copy)")
	g.p("var %s_ServiceDesc = grpc.ServiceDesc{", sn)
	g.p("\tServiceName: %q,", s.FullName)
	g.p("\tHandlerType: (*%sServer)(nil),", sn)
	g.p("\tMethods: []grpc.MethodDesc{")
	for _, m := range ms {
		if m.streamIdx < 0 {
			g.p("\t\t{\n\t\t\tMethodName: %q,\n\t\t\tHandler: _%s_%s_Handler,\n\t\t},", m.Name, sn, m.go_)
		}
	}
	g.p("\t},")
	g.p("\tStreams: []grpc.StreamDesc{")
	for _, m := range ms {
		if m.streamIdx >= 0 {
			g.p("\t\t{\n\t\t\tStreamName: %q,\n\t\t\tHandler: _%s_%s_Handler,", m.Name, sn, m.go_)
			if m.ServerStream {
				g.p("\t\t\tServerStreams: true,")
			}
			if m.ClientStream {
				g.p("\t\t\tClientStreams: true,")
			}
			g.p("\t\t},")
		}
	}
	g.p("\t},")
	g.p("\tMetadata: %q,", g.source)
	g.p("}\n")
	return nil
}
