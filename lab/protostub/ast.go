package protostub

// File is a parsed and checked .proto file.
type File struct {
	Name      string // file name as given to the compiler ("" for Parse on a string)
	Syntax    string
	Package   string
	Imports   []*Import
	Options   []*Option
	Messages  []*Message
	Enums     []*Enum
	Services  []*Service
	GoPackage string // raw value of option go_package ("" if absent)
}

type Import struct {
	Path     string
	Modifier string // "", "public", "weak"
	File     *File  // resolved file (built-in well-known type table or parsed include), never nil after Parse
	Line     int
}

type Option struct {
	Name  string
	Value string // literal text; strings are decoded
	IsStr bool
	Line  int
}

type Message struct {
	Name     string
	FullName string // package-qualified, no leading dot
	Parent   *Message
	File     *File
	Fields   []*Field // declaration order, oneof members included
	Oneofs   []*Oneof // declared oneofs (synthetic oneofs of proto3 optional fields are not listed)
	Messages []*Message
	Enums    []*Enum
	Reserved []Range
	ResNames []string
	Options  []*Option
	Comment  string
	Line     int
	MapEntry bool // synthetic entry type of a map field (not listed in Messages)
}

type Range struct{ Lo, Hi int } // inclusive

type Field struct {
	Name     string
	Number   int
	Label    string // "", "optional", "repeated"
	Type     string // as written: scalar name, or (possibly qualified) type name; "map" for map fields
	KeyType  string // map fields
	ValType  string // map fields
	Oneof    *Oneof // declared oneof containing the field
	Options  []*Option
	Comment  string
	Line     int
	Col      int
	Parent   *Message
	Msg      *Message // resolved message type (field or map value)
	Enum     *Enum    // resolved enum type (field or map value)
	JSONName string
}

func (f *Field) IsMap() bool      { return f.Type == "map" }
func (f *Field) IsRepeated() bool { return f.Label == "repeated" }
func (f *Field) IsOptional() bool { return f.Label == "optional" }

// ElemType is the type name of the value carried by the field (the value type for maps).
func (f *Field) ElemType() string {
	if f.IsMap() {
		return f.ValType
	}
	return f.Type
}

type Oneof struct {
	Name    string
	Fields  []*Field
	Parent  *Message
	Comment string
	Line    int
}

type Enum struct {
	Name       string
	FullName   string
	Parent     *Message
	File       *File
	Values     []*EnumValue
	AllowAlias bool
	Comment    string
	Line       int
}

type EnumValue struct {
	Name   string
	Number int
	Line   int
}

type Service struct {
	Name     string
	FullName string
	Methods  []*Method
	Comment  string
	Line     int
}

type Method struct {
	Name         string
	InType       string
	OutType      string
	ClientStream bool
	ServerStream bool
	In, Out      *Message
	Comment      string
	Line         int
}

// Scalars lists the proto3 scalar value types.
var Scalars = map[string]bool{"double": true, "float": true, "int32": true, "int64": true, "uint32": true, "uint64": true,
	"sint32": true, "sint64": true, "fixed32": true, "fixed64": true, "sfixed32": true, "sfixed64": true, "bool": true,
	"string": true, "bytes": true}

// mapKeyOK lists the scalar types proto3 allows as map keys (any integral or string type).
var mapKeyOK = map[string]bool{"int32": true, "int64": true, "uint32": true, "uint64": true, "sint32": true, "sint64": true,
	"fixed32": true, "fixed64": true, "sfixed32": true, "sfixed64": true, "bool": true, "string": true}

// AllMessages returns every message of the file depth first in declaration order (nested after their parent).
func (f *File) AllMessages() []*Message {
	var out []*Message
	var walk func(ms []*Message)
	walk = func(ms []*Message) {
		for _, m := range ms {
			out = append(out, m)
			walk(m.Messages)
		}
	}
	walk(f.Messages)
	return out
}

// AllEnums returns every enum of the file (top level first, then nested in message order).
func (f *File) AllEnums() []*Enum {
	out := append([]*Enum{}, f.Enums...)
	for _, m := range f.AllMessages() {
		out = append(out, m.Enums...)
	}
	return out
}

// Message finds a message by its name relative to the package ("Outer.Inner").
func (f *File) Message(rel string) *Message {
	for _, m := range f.AllMessages() {
		if relName(f.Package, m.FullName) == rel {
			return m
		}
	}
	return nil
}

func relName(pkg, full string) string {
	if pkg != "" && len(full) > len(pkg) && full[:len(pkg)] == pkg && full[len(pkg)] == '.' {
		return full[len(pkg)+1:]
	}
	return full
}
