package protostub

import (
	"os"
	"os/exec"
	"path/filepath"
	"strings"
	"testing"
)

// TestEndToEnd builds the stand-in protoc, compiles testdata/e2e/t.proto with goa's command line into a scratch
// module and runs testdata/e2e/x_test.go.txt there: generated stubs + pbrt loopback (unary, the three streaming
// kinds, metadata, headers, trailers, status-only errors, cancellation, the wire normaliser) under -race.
func TestEndToEnd(t *testing.T) {
	if testing.Short() {
		t.Skip("builds a scratch module")
	}
	lab, err := filepath.Abs("..")
	if err != nil {
		t.Fatal(err)
	}
	dir := t.TempDir()
	env := append(os.Environ(), "GOFLAGS=-mod=mod", "GOPROXY=off", "GOSUMDB=off", "GOTOOLCHAIN=local")
	run := func(wd string, name string, args ...string) {
		cmd := exec.Command(name, args...)
		cmd.Dir = wd
		cmd.Env = env
		if out, err := cmd.CombinedOutput(); err != nil {
			t.Fatalf("%s %s: %v\n%s", name, strings.Join(args, " "), err, out)
		}
	}
	run(lab, "go", "build", "-o", filepath.Join(dir, "protoc"), "./cmd/protoc")
	pbdir := filepath.Join(dir, "x", "pb")
	if err := os.MkdirAll(pbdir, 0o755); err != nil {
		t.Fatal(err)
	}
	cp := func(src, dst string) {
		b, err := os.ReadFile(src)
		if err != nil {
			t.Fatal(err)
		}
		if err := os.WriteFile(dst, b, 0o644); err != nil {
			t.Fatal(err)
		}
	}
	cp("testdata/e2e/t.proto", filepath.Join(pbdir, "t.proto"))
	cp("testdata/e2e/x_test.go.txt", filepath.Join(dir, "x", "x_test.go"))
	cp(filepath.Join(lab, "go.sum"), filepath.Join(dir, "go.sum"))
	gomod := "module ps1\n\ngo 1.22.0\n\nrequire (\n\tverif.local/lab v0.0.0\n\tgoa.design/goa/v3 v3.0.0\n)\n\nreplace verif.local/lab => " + lab + "\n\nreplace goa.design/goa/v3 => " + repo() + "\n"
	if err := os.WriteFile(filepath.Join(dir, "go.mod"), []byte(gomod), 0o644); err != nil {
		t.Fatal(err)
	}
	p := filepath.Join(pbdir, "t.proto")
	run(pbdir, filepath.Join(dir, "protoc"), p, "--proto_path", pbdir, "--go_out", pbdir, "--go-grpc_out", pbdir,
		"--go_opt=paths=source_relative", "--go-grpc_opt=paths=source_relative")
	run(dir, "go", "test", "-count=1", "-race", "./x/")
}
