package protostub

import (
	"fmt"
	gotoken "go/token"
	"strings"
	"unicode"
)

// The naming rules below are transcribed from protoc-gen-go's published
// algorithm (google.golang.org/protobuf/compiler/protogen and internal/strs),
// NOT from goa: goa's idea of the generated Go names is what is under test.

func isASCIILower(c byte) bool { return 'a' <= c && c <= 'z' }
func isASCIIDigit(c byte) bool { return '0' <= c && c <= '9' }

// GoCamelCase camel-cases a protobuf name for use as a Go identifier: words are
// delimited by '_' or an upper-case letter, digits are words of their own; an
// underscore followed by a lower-case letter is dropped and the letter
// upper-cased; other underscores are kept; a leading '_' becomes 'X';
// '.' (nested names) becomes '_' unless followed by a lower-case letter.
func GoCamelCase(s string) string {
	var b []byte
	for i := 0; i < len(s); i++ {
		c := s[i]
		switch {
		case c == '.' && i+1 < len(s) && isASCIILower(s[i+1]):
			// skip over '.' in ".{{lowercase}}"
		case c == '.':
			b = append(b, '_')
		case c == '_' && (i == 0 || s[i-1] == '.'):
			b = append(b, 'X')
		case c == '_' && i+1 < len(s) && isASCIILower(s[i+1]):
			// skip over '_' in "_{{lowercase}}"
		case isASCIIDigit(c):
			b = append(b, c)
		default:
			if isASCIILower(c) {
				c -= 'a' - 'A'
			}
			b = append(b, c)
			for ; i+1 < len(s) && isASCIILower(s[i+1]); i++ {
				b = append(b, s[i+1])
			}
		}
	}
	return string(b)
}

// goSanitized makes a valid Go identifier (package names).
func goSanitized(s string) string {
	s = strings.Map(func(r rune) rune {
		if unicode.IsLetter(r) || unicode.IsDigit(r) {
			return r
		}
		return '_'
	}, s)
	r := rune(0)
	if s != "" {
		r = []rune(s)[0]
	}
	if gotoken.Lookup(s).IsKeyword() || !unicode.IsLetter(r) {
		return "_" + s
	}
	return s
}

// GoPackage derives (package name, import path) from option go_package as
// protoc-gen-go does: "path;name" or the last element of "path".
func GoPackage(opt string) (name, path string, err error) {
	if opt == "" {
		return "", "", fmt.Errorf("unable to determine Go import path: the file has no go_package option")
	}
	raw := opt
	if i := strings.Index(opt, ";"); i >= 0 {
		raw, path = opt[i+1:], opt[:i]
	} else if i := strings.LastIndex(opt, "/"); i >= 0 {
		raw, path = opt[i+1:], opt
	} else {
		path = ""
	}
	if raw == "" {
		return "", "", fmt.Errorf("go_package option %q has an empty package name", opt)
	}
	return goSanitized(raw), path, nil
}

// goNames holds the Go identifiers of one message.
type goNames struct {
	Ident      string            // message type name
	Field      map[*Field]string // struct field name (and getter suffix)
	Wrapper    map[*Field]string // oneof wrapper type name (oneof members)
	Oneof      map[*Oneof]string // struct field name of a declared oneof
	OneofIdent map[*Oneof]string // Msg_Oneof (interface is "is"+this)
}

func (f *File) relName(full string) string { return relName(f.Package, full) }

// namesOf computes the identifiers protoc-gen-go gives to m (conflict resolution included).
func namesOf(m *Message) *goNames {
	n := &goNames{Ident: GoCamelCase(m.File.relName(m.FullName)), Field: map[*Field]string{}, Wrapper: map[*Field]string{},
		Oneof: map[*Oneof]string{}, OneofIdent: map[*Oneof]string{}}
	used := map[string]bool{"Reset": true, "String": true, "ProtoMessage": true, "Marshal": true, "Unmarshal": true,
		"ExtensionRangeArray": true, "ExtensionMap": true, "Descriptor": true}
	unique := func(name string, hasGetter bool) string {
		for used[name] || (hasGetter && used["Get"+name]) {
			name += "_"
		}
		used[name] = true
		used["Get"+name] = hasGetter
		return name
	}
	// synthetic oneof names of proto3 optional fields, as protoc assigns them: "_" + field name, prefixed with
	// "X" while it collides with another name of the message
	taken := map[string]bool{}
	for _, f := range m.Fields {
		taken[f.Name] = true
	}
	for _, o := range m.Oneofs {
		taken[o.Name] = true
	}
	synth := map[*Field]string{}
	for _, f := range m.Fields {
		if f.IsOptional() {
			s := "_" + f.Name
			for taken[s] {
				s = "X" + s
			}
			taken[s] = true
			synth[f] = s
		}
	}
	for _, f := range m.Fields {
		n.Field[f] = unique(GoCamelCase(f.Name), true)
		switch {
		case f.Oneof != nil && f.Oneof.Fields[0] == f:
			n.Oneof[f.Oneof] = unique(GoCamelCase(f.Oneof.Name), false)
			n.OneofIdent[f.Oneof] = n.Ident + "_" + n.Oneof[f.Oneof]
		case f.IsOptional():
			unique(GoCamelCase(synth[f]), false)
		}
	}
	for _, f := range m.Fields {
		if f.Oneof == nil {
			continue
		}
		w := n.Ident + "_" + n.Field[f]
	again:
		for _, nm := range m.Messages {
			if GoCamelCase(m.File.relName(nm.FullName)) == w {
				w += "_"
				goto again
			}
		}
		for _, ne := range m.Enums {
			if GoCamelCase(m.File.relName(ne.FullName)) == w {
				w += "_"
				goto again
			}
		}
		n.Wrapper[f] = w
	}
	return n
}

var scalarGo = map[string]string{"double": "float64", "float": "float32", "int32": "int32", "sint32": "int32", "sfixed32": "int32",
	"int64": "int64", "sint64": "int64", "sfixed64": "int64", "uint32": "uint32", "fixed32": "uint32", "uint64": "uint64",
	"fixed64": "uint64", "bool": "bool", "string": "string", "bytes": "[]byte"}

var scalarWire = map[string]string{"double": "fixed64", "float": "fixed32", "int32": "varint", "int64": "varint", "uint32": "varint",
	"uint64": "varint", "sint32": "zigzag32", "sint64": "zigzag64", "fixed32": "fixed32", "fixed64": "fixed64", "sfixed32": "fixed32",
	"sfixed64": "fixed64", "bool": "varint", "string": "bytes", "bytes": "bytes"}

var scalarZero = map[string]string{"double": "0", "float": "0", "int32": "0", "sint32": "0", "sfixed32": "0", "int64": "0", "sint64": "0",
	"sfixed64": "0", "uint32": "0", "fixed32": "0", "uint64": "0", "fixed64": "0", "bool": "false", "string": `""`, "bytes": "nil"}

func unexport(s string) string {
	if s == "" {
		return s
	}
	return strings.ToLower(s[:1]) + s[1:]
}
