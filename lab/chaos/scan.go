// Package chaos is the reflection-driven DSL misuse fuzzer of property C12
// (DESIGN §7.C12): it regenerates the table of all exported functions of
// goa's package dsl from the checkout under test, draws programs (package
// prog) over that table, runs them in child processes (package runner) and
// hands the raw outcomes to the caller. It also holds the "dangling" mutator
// that makes a valid spec refer to exactly one name that does not exist.
package chaos

import (
	"fmt"
	"go/ast"
	"go/build"
	"go/parser"
	"go/token"
	"go/types"
	"os"
	"path/filepath"
	"regexp"
	"sort"
	"strings"
)

// Param is one static parameter of a dsl function.
type Param struct {
	Name     string `json:"name"`
	Type     string `json:"type"` // source text of the type ("string", "any", "func()", "expr.DataType", ...); element type for variadics
	Variadic bool   `json:"variadic,omitempty"`
}

// FuncSig is one exported function of package dsl.
type FuncSig struct {
	Name    string   `json:"name"`
	Params  []Param  `json:"params,omitempty"`
	Results []string `json:"results,omitempty"`
	// Parents: dsl functions the doc comment names as legal contexts ("X must appear in a Y expression").
	Parents []string `json:"parents,omitempty"`
	// Top: the doc comment says the function is a top level DSL.
	Top bool `json:"top,omitempty"`
}

// ScanInfo says what the scan skipped.
type ScanInfo struct {
	Files          int
	SkippedTesting []string
	SkippedGeneric []string
}

// Scan lists the exported functions of <repo>/dsl (non-test files that match
// the default build context), skipping functions that take a *testing.T.
func Scan(repo string) ([]FuncSig, *ScanInfo, error) {
	dir := filepath.Join(repo, "dsl")
	ents, err := os.ReadDir(dir)
	if err != nil {
		return nil, nil, err
	}
	info := &ScanInfo{}
	fset := token.NewFileSet()
	type raw struct {
		sig FuncSig
		doc string
	}
	var raws []raw
	for _, e := range ents {
		n := e.Name()
		if e.IsDir() || !strings.HasSuffix(n, ".go") || strings.HasSuffix(n, "_test.go") {
			continue
		}
		if ok, err := build.Default.MatchFile(dir, n); err != nil || !ok {
			continue
		}
		f, err := parser.ParseFile(fset, filepath.Join(dir, n), nil, parser.ParseComments)
		if err != nil {
			return nil, nil, fmt.Errorf("parse %s: %v", n, err)
		}
		if f.Name.Name != "dsl" {
			continue
		}
		info.Files++
		for _, d := range f.Decls {
			fd, ok := d.(*ast.FuncDecl)
			if !ok || fd.Recv != nil || !fd.Name.IsExported() {
				continue
			}
			if fd.Type.TypeParams != nil && len(fd.Type.TypeParams.List) > 0 {
				info.SkippedGeneric = append(info.SkippedGeneric, fd.Name.Name)
				continue
			}
			sig := FuncSig{Name: fd.Name.Name}
			testing := false
			for _, fl := range fd.Type.Params.List {
				ts, variadic := "", false
				if el, ok := fl.Type.(*ast.Ellipsis); ok {
					ts, variadic = types.ExprString(el.Elt), true
				} else {
					ts = types.ExprString(fl.Type)
				}
				if ts == "interface{}" {
					ts = "any"
				}
				if strings.Contains(ts, "testing.") {
					testing = true
				}
				names := fl.Names
				if len(names) == 0 {
					names = []*ast.Ident{{Name: "_"}}
				}
				for _, nm := range names {
					sig.Params = append(sig.Params, Param{Name: nm.Name, Type: ts, Variadic: variadic})
				}
			}
			if testing {
				info.SkippedTesting = append(info.SkippedTesting, fd.Name.Name)
				continue
			}
			if fd.Type.Results != nil {
				for _, fl := range fd.Type.Results.List {
					k := len(fl.Names)
					if k == 0 {
						k = 1
					}
					for i := 0; i < k; i++ {
						sig.Results = append(sig.Results, types.ExprString(fl.Type))
					}
				}
			}
			doc := ""
			if fd.Doc != nil {
				doc = fd.Doc.Text()
			}
			raws = append(raws, raw{sig, doc})
		}
	}
	if len(raws) == 0 {
		return nil, info, fmt.Errorf("no exported functions found in %s", dir)
	}
	sort.Slice(raws, func(i, j int) bool { return raws[i].sig.Name < raws[j].sig.Name })
	names := map[string]bool{}
	for _, r := range raws {
		names[r.sig.Name] = true
	}
	out := make([]FuncSig, len(raws))
	for i, r := range raws {
		r.sig.Parents, r.sig.Top = contexts(r.doc, r.sig.Name, names)
		out[i] = r.sig
	}
	return out, info, nil
}

var wordRe = regexp.MustCompile(`[A-Za-z][A-Za-z0-9]*`)

// contexts reads the documented contexts of a function out of its doc comment:
// sentences that say where the function "appears"/"is used" name other dsl
// functions. This is only a sampling hint (half of the nestings are drawn
// uniformly anyway), so imprecision is harmless.
func contexts(doc, self string, names map[string]bool) (parents []string, top bool) {
	lower := map[string]string{}
	for n := range names {
		lower[strings.ToLower(n)] = n
	}
	// stop at the first example: code is not a statement about contexts
	if i := strings.Index(doc, "Example"); i > 0 {
		doc = doc[:i]
	}
	seen := map[string]bool{}
	for _, sent := range strings.Split(strings.ReplaceAll(doc, "\n", " "), ". ") {
		ls := strings.ToLower(sent)
		if strings.Contains(ls, "top level") || strings.Contains(ls, "top-level") {
			top = true
		}
		if !(strings.Contains(ls, "appear") || strings.Contains(ls, "may be used in") || strings.Contains(ls, "must be used in")) {
			continue
		}
		for _, w := range wordRe.FindAllString(sent, -1) {
			n := ""
			if names[w] {
				n = w
			} else if c, ok := lower[strings.ToLower(w)]; ok && len(w) > 3 && w[0] >= 'A' && w[0] <= 'Z' {
				n = c
			}
			if n == "" || n == self || seen[n] {
				continue
			}
			seen[n] = true
			parents = append(parents, n)
		}
	}
	sort.Strings(parents)
	return parents, top
}

// TableSource renders the scratch main package: the function table plus main().
func TableSource(sigs []FuncSig) string {
	var b strings.Builder
	b.WriteString("// Code generated by mon-c12 from $VERIF_REPO/dsl/*.go; DO NOT EDIT.\npackage main\n\nimport (\n\t\"goa.design/goa/v3/dsl\"\n\n\t\"verif.local/lab/chaos/runner\"\n)\n\n")
	b.WriteString("// Table lists every exported function of package dsl.\nvar Table = map[string]any{\n")
	for _, s := range sigs {
		fmt.Fprintf(&b, "\t%q: dsl.%s,\n", s.Name, s.Name)
	}
	b.WriteString("}\n\nfunc main() { runner.Main(Table) }\n")
	return b.String()
}
