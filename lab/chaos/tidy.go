package chaos

import (
	"strconv"

	"verif.local/lab/chaos/prog"
)

// TIDY programs follow the documentation most of the time (documented
// contexts, documented argument shapes, compatible validations, plain names)
// so that a good share of them survives DSL execution and goa's validation and
// finalization code sees unusual but executable designs. Everything below is a
// SAMPLING HINT: nothing here is used by the oracle, functions that no longer
// exist are dropped from the tables, functions the tables do not know are
// still reached through wild programs and through the one-in-ten uniform
// draws that tidy programs keep.

// tidySketch: where the documentation puts the well-known functions, keyed by
// "grandparent>parent" or "parent" ("" = package level).
var tidySketch = map[string]string{
	"":             "API Service Service Type Type ResultType ResultType BasicAuthSecurity APIKeySecurity JWTSecurity OAuth2Security",
	"API":          "Title Description Version TermsOfService Contact License Docs Server HTTP GRPC Security Meta Error Randomizer",
	"Contact":      "Name Email URL",
	"License":      "Name URL",
	"Docs":         "Description URL",
	"Server":       "Description Services Host",
	"Host":         "Description URI Variable",
	"Variable":     "Description Default Enum",
	"Service":      "Description Error Security HTTP GRPC Method Method Method Files Meta Docs",
	"Method":       "Description Payload Payload Result Result StreamingPayload StreamingResult Error Security NoSecurity HTTP HTTP HTTP GRPC Meta Docs",
	"API>HTTP":     "Path Consumes Produces Response Header Param Cookie",
	"Service>HTTP": "Path Param Header Response Parent CanonicalMethod Params Headers",
	"Method>HTTP": "GET POST PUT DELETE PATCH HEAD OPTIONS TRACE CONNECT GET POST Param Param Header Header Cookie Body MapParams Response Response Response " +
		"MultipartRequest SkipRequestBodyEncodeDecode SkipResponseBodyEncodeDecode Redirect Params Headers Deprecated Meta",
	"HTTP>Response":     "Header Header Cookie Body Tag ContentType Description Meta",
	"Response>Cookie":   "CookieMaxAge CookieDomain CookiePath CookieSecure CookieHTTPOnly CookieSameSite Description",
	"Files":             "Description Docs Meta Redirect Security",
	"Service>GRPC":      "Package Response",
	"Method>GRPC":       "Message Metadata Response Response Meta",
	"GRPC>Response":     "Headers Trailers Message Description",
	"Message":           "Attribute Field Required",
	"Metadata":          "Attribute Field Required",
	"Headers":           "Header Attribute Required",
	"Trailers":          "Attribute Field Required",
	"Params":            "Param Required",
	"Error":             "Description Timeout Temporary Fault",
	"Security":          "Scope",
	"JWTSecurity":       "Description Scope Scope",
	"APIKeySecurity":    "Description",
	"BasicAuthSecurity": "Description",
	"OAuth2Security":    "Description Scope Scope ImplicitFlow PasswordFlow ClientCredentialsFlow AuthorizationCodeFlow",
	"ResultType":        "TypeName ContentType Description Reference Extend Attributes Attributes Attribute Field View Required Meta ErrorName CreateFrom ConvertTo",
	"Attributes":        "Attribute Attribute Field OneOf Required ErrorName",
	"View":              "Attribute Attribute",
	"View>Attribute":    "View",
	"Body":              "Attribute Attribute Required",
	"OneOf":             "Description Attribute Attribute Field Meta",
	"Example":           "Value Description",
	"Key":               "MinLength MaxLength Pattern Format Enum",
	"Elem":              "Minimum Maximum MinLength MaxLength Pattern Format Enum",
	// what goes inside a function that describes an object
	"<object>": "Attribute Attribute Attribute Field OneOf Required Required Description Meta Extend Reference TypeName " +
		"Username Password Token AccessToken APIKey ConvertTo CreateFrom ErrorName Example Docs",
	// ... a value of a given type
	"<str>":    "Enum Format Pattern MinLength MaxLength Default Example Description Meta",
	"<num>":    "Enum Minimum Maximum ExclusiveMinimum ExclusiveMaximum Default Example Description Meta",
	"<other>":  "Description Meta Example Default Docs",
	"<array>":  "MinLength MaxLength Elem Description Example",
	"<map>":    "Key Elem MinLength Description",
	"<result>": "View Description Meta Required",
}

// attributeLike functions take (name..., [type], [description], [func]).
var attributeLike = map[string]bool{"Attribute": true, "Field": true, "Header": true, "Param": true, "Cookie": true,
	"Username": true, "Password": true, "Token": true, "AccessToken": true, "APIKey": true, "UsernameField": true, "PasswordField": true,
	"TokenField": true, "AccessTokenField": true, "APIKeyField": true, "Error": true, "Variable": true}

// objectLike functions take a func() that describes an object.
var objectLike = map[string]bool{"Type": true, "Payload": true, "Result": true, "StreamingPayload": true, "StreamingResult": true}

// tidyHints: documented argument shapes of parameters typed any, as a list of
// alternatives with one letter per argument (T type, D description, F func(),
// B object body, S name, I int, V scalar value, C security scheme, Q result
// type, O Go struct).
var tidyHints = map[string][]string{
	"Payload.val": {"T", "B", "T"}, "Payload...": {"", "", "D"},
	"Result.val": {"T", "B", "Q"}, "Result...": {"", "", "D"},
	"StreamingPayload.val": {"T", "B"}, "StreamingPayload...": {"", "D"},
	"StreamingResult.val": {"T", "B", "Q"}, "StreamingResult...": {"", "D"},
	"Response.val": {"I", "I", "S"}, "Response...": {"", "F", "I", "IF"},
	"Body...":      {"T", "S", "F", "S"},
	"Security...":  {"C", "C", "CF", "CC"},
	"MapParams...": {"", "S"},
	"Headers.args": {"F"}, "Params.args": {"F"},
	"Enum...": {"VV", "VVV", "V"}, "Example...": {"V", "V", "SV", "F"},
	"Type...": {"T", "B", "B", "B"}, "ResultType...": {"F", "SF", "F"},
	"OneOf...": {"F", "DF"}, "ErrorName...": {"ST", "STD", "S", "IST"},
	"Default.def": {"V"}, "Value.val": {"V"}, "Minimum.val": {"N"}, "Maximum.val": {"N"},
	"ExclusiveMinimum.val": {"N"}, "ExclusiveMaximum.val": {"N"},
	"ConvertTo.obj": {"O"}, "CreateFrom.obj": {"O"},
	"ArrayOf.v": {"T"}, "MapOf.k": {"P"}, "MapOf.v": {"T"}, "CollectionOf.v": {"Q"},
	"Field.tag": {"I"}, "APIKeyField.tag": {"I"}, "AccessTokenField.tag": {"I"}, "PasswordField.tag": {"I"},
	"TokenField.tag": {"I"}, "UsernameField.tag": {"I"},
}

var (
	tidyPaths = []string{"/", "/x", "/{id}", "/x/{id}", "/x/{name}", "/{a}/{b}", "/x/{*key}", "/{id}/y"}
	tidyURLs  = []string{"http://example.com", "https://example.com/x", "grpc://localhost:8080", "http://localhost:80/{a}"}
	tidyFmts  = []string{"date", "date-time", "uuid", "email", "hostname", "ipv4", "ipv6", "ip", "uri", "mac", "cidr", "regexp", "json", "rfc1123"}
	strPrims  = map[string]bool{"String": true, "Bytes": true}
	numPrims  = map[string]bool{"Int": true, "Int32": true, "Int64": true, "UInt": true, "UInt32": true, "UInt64": true, "Float32": true, "Float64": true}
)

func (s *pstate) tidyProgram(p *prog.Program) {
	// package-level declarations are initialised in dependency order by Go: schemes and
	// types come first, then the API, then services
	rank := func(fn string) int {
		switch {
		case len(fn) > 8 && fn[len(fn)-8:] == "Security":
			return 0
		case fn == "Type" || fn == "ResultType":
			return 1
		case fn == "API":
			return 2
		}
		return 3
	}
	k := s.r.Range(2, 7)
	fns := make([]string, k)
	for i := range fns {
		fns[i] = s.tidyPick("", "")
	}
	for i := 1; i < len(fns); i++ {
		for j := i; j > 0 && rank(fns[j]) < rank(fns[j-1]); j-- {
			fns[j], fns[j-1] = fns[j-1], fns[j]
		}
	}
	for _, fn := range fns {
		if s.budget <= 0 {
			break
		}
		p.Calls = append(p.Calls, s.tidyCall(fn, 1, ""))
	}
}

// tidyPick chooses the function called inside parent: nine times out of ten
// one the sketch (or else the doc comments) places there.
func (s *pstate) tidyPick(grand, parent string) string {
	g := s.g
	if s.r.Chance(49, 50) {
		if cs, ok := g.sketch[grand+">"+parent]; ok {
			return pickS(s.r, cs)
		}
		if cs, ok := g.sketch[parent]; ok {
			return pickS(s.r, cs)
		}
		if attributeLike[parent] || objectLike[parent] {
			if cs := g.sketch["<object>"]; len(cs) > 0 {
				return pickS(s.r, cs)
			}
		}
		if parent == "" && len(g.tops) > 0 {
			return pickS(s.r, g.tops)
		}
		if cs := g.children[parent]; len(cs) > 0 {
			return pickS(s.r, cs)
		}
	}
	return pickS(s.r, g.all)
}

// tidyBody draws a func() whose calls come from the sketch entry kind ("" = by context).
func (s *pstate) tidyBody(fn string, depth int, kind string, valKind string) *prog.Arg {
	a := &prog.Arg{K: prog.Func}
	if depth >= MaxDepth {
		return a
	}
	grand := ""
	if n := len(s.ctx); n >= 2 {
		grand = s.ctx[n-2]
	}
	saved := s.direct
	s.direct = nil // inside a body the enclosing declarations exist (recursive types)
	defer func() { s.direct = saved }()
	k := s.r.Range(1, 5)
	if kind == "<object>" || kind == "" {
		k = s.r.Range(1, 6)
	}
	for i := 0; i < k && s.budget > 0; i++ {
		var child string
		if cs := s.g.sketch[kind]; kind != "" && len(cs) > 0 && s.r.Chance(49, 50) {
			child = pickS(s.r, cs)
		} else {
			child = s.tidyPick(grand, fn)
		}
		a.Body = append(a.Body, s.tidyCall(child, depth+1, valKind))
	}
	return a
}

// kindOf tells which validations fit a type argument.
func (s *pstate) kindOf(a *prog.Arg) (bodyKind, valKind string) {
	switch a.K {
	case prog.Prim:
		switch {
		case strPrims[a.S]:
			return "<str>", "str"
		case numPrims[a.S]:
			return "<num>", "num"
		}
		return "<other>", ""
	case prog.CallK:
		switch a.Call.Fn {
		case "ArrayOf":
			return "<array>", ""
		case "MapOf":
			return "<map>", ""
		case "CollectionOf", "ResultType":
			return "<result>", ""
		}
	case prog.Ref:
		for _, d := range s.decls {
			if d.n == int(a.I) && d.rtype == "*expr.ResultTypeExpr" {
				return "<result>", ""
			}
		}
	}
	return "<other>", ""
}

func (s *pstate) inCtx(fn string) bool {
	for _, c := range s.ctx {
		if c == fn {
			return true
		}
	}
	return false
}

func (s *pstate) refTo(ok func(d decl) bool) *prog.Arg {
	var cand []int
	for _, d := range s.decls {
		open := false
		for _, n := range s.direct {
			if n == d.n {
				open = true // its value does not exist yet: the call is still evaluating its arguments
			}
		}
		if ok(d) && !open {
			cand = append(cand, d.n)
		}
	}
	if len(cand) == 0 {
		return nil
	}
	return &prog.Arg{K: prog.Ref, I: int64(cand[s.r.Intn(len(cand))])}
}

// tidyType draws a type: mostly primitives, earlier declarations, arrays and maps.
func (s *pstate) tidyType(depth int) *prog.Arg {
	switch c := s.r.Intn(100); {
	case c < 55:
		return &prog.Arg{K: prog.Prim, S: pickS(s.r, primPool)}
	case c < 70 && s.budget > 0 && len(s.ctx) < 8:
		return &prog.Arg{K: prog.CallK, Call: s.tidyCall(s.r.Pick("ArrayOf", "ArrayOf", "MapOf"), depth, "")}
	case c < 95:
		if a := s.refTo(func(d decl) bool { return d.isType }); a != nil {
			return a
		}
	case c < 97:
		return &prog.Arg{K: prog.Str, S: pickS(s.r, identPool)} // a type referred to by name
	}
	return &prog.Arg{K: prog.Prim, S: pickS(s.r, primPool)}
}

func (s *pstate) tidyScalar(valKind string) *prog.Arg {
	switch valKind {
	case "str":
		return &prog.Arg{K: prog.Str, S: pickS(s.r, identPool)}
	case "num":
		return &prog.Arg{K: prog.Int, I: []int64{0, 1, 2, 3, 5, 10, 100}[s.r.Intn(7)]}
	}
	return s.scalar()
}

func (s *pstate) tidyShaped(letter rune, p Param, fn string, depth int, valKind string) *prog.Arg {
	switch letter {
	case 'T':
		return s.tidyType(depth)
	case 'P':
		return &prog.Arg{K: prog.Prim, S: pickS(s.r, primPool)}
	case 'D':
		return &prog.Arg{K: prog.Str, S: "a description"}
	case 'F':
		return s.tidyBody(fn, depth, "", "")
	case 'B':
		return s.tidyBody(fn, depth, "<object>", "")
	case 'S':
		return &prog.Arg{K: prog.Str, S: pickS(s.r, identPool)}
	case 'I':
		return &prog.Arg{K: prog.Int, I: []int64{200, 201, 204, 400, 404, 1, 2, 3, 5}[s.r.Intn(9)]}
	case 'N':
		return &prog.Arg{K: prog.Int, I: []int64{0, 1, 2, 3, 5, 10, 100}[s.r.Intn(7)]}
	case 'V':
		return s.tidyScalar(valKind)
	case 'C':
		if a := s.refTo(func(d decl) bool { return d.rtype == "*expr.SchemeExpr" }); a != nil && s.r.Chance(4, 5) {
			return a
		}
		return &prog.Arg{K: prog.Str, S: s.r.Pick("basic", "jwt", "key")}
	case 'Q':
		if a := s.refTo(func(d decl) bool { return d.rtype == "*expr.ResultTypeExpr" }); a != nil {
			return a
		}
		return s.tidyType(depth)
	case 'O':
		return &prog.Arg{K: prog.Struct, S: s.r.Pick("plain", "ptr", "nested")}
	}
	return s.anyArg(p, fn, depth, 2)
}

func (s *pstate) tidyStr(p Param, fn string) *prog.Arg {
	switch {
	case len(fn) > 8 && fn[len(fn)-8:] == "Security" && p.Name == "name" && s.r.Chance(9, 10):
		return &prog.Arg{K: prog.Str, S: "scheme" + strconv.Itoa(s.n)} // scheme names are unique
	case fn == "Type" && p.Name == "name" && s.r.Chance(4, 5):
		return &prog.Arg{K: prog.Str, S: "T" + strconv.Itoa(s.n)}
	case verbs[fn] || fn == "Path" || fn == "Files" && p.Name == "path":
		return &prog.Arg{K: prog.Str, S: pickS(s.r, tidyPaths)}
	case fn == "URI" || fn == "URL" || p.Name != "" && (containsFold(p.Name, "url") || containsFold(p.Name, "uri")):
		return &prog.Arg{K: prog.Str, S: pickS(s.r, tidyURLs)}
	case fn == "Pattern":
		return &prog.Arg{K: prog.Str, S: s.r.Pick("^a+$", "[a-z]+", ".*")}
	case fn == "ContentType" || fn == "Consumes" || fn == "Produces":
		return &prog.Arg{K: prog.Str, S: s.r.Pick("application/json", "application/xml", "application/vnd.r1+json", "text/plain")}
	case fn == "ResultType":
		return &prog.Arg{K: prog.Str, S: s.r.Pick("application/vnd.r1", "application/vnd.r2", "application/vnd.t1+json", "R1")}
	case fn == "Meta" && p.Name == "name":
		return &prog.Arg{K: prog.Str, S: s.r.Pick("struct:field:name", "struct:tag:json", "openapi:generate", "rpc:tag", "type:generate:force", "struct:error:name", "view", "a")}
	}
	if s.r.Chance(19, 20) {
		return &prog.Arg{K: prog.Str, S: pickS(s.r, identPool)}
	}
	return &prog.Arg{K: prog.Str, S: pickS(s.r, miscPool)}
}

func containsFold(s, sub string) bool {
	ls, lsub := []byte(s), []byte(sub)
	for i := range ls {
		if ls[i] >= 'A' && ls[i] <= 'Z' {
			ls[i] += 'a' - 'A'
		}
	}
	return indexOf(string(ls), string(lsub)) >= 0
}

func indexOf(s, sub string) int {
	for i := 0; i+len(sub) <= len(s); i++ {
		if s[i:i+len(sub)] == sub {
			return i
		}
	}
	return -1
}

// tidyCall draws a call of fn in the documented style.
func (s *pstate) tidyCall(fn string, depth int, valKind string) *prog.Call {
	c := &prog.Call{N: s.n, Fn: fn}
	s.n++
	s.budget--
	sig := s.g.by[fn]
	if len(sig.Results) > 0 {
		s.decls = append(s.decls, decl{c.N, isDataTypeResult(sig.Results[0]), sig.Results[0]})
	}
	s.ctx = append(s.ctx, fn)
	s.direct = append(s.direct, c.N)
	s.open = append(s.open, c.N)
	defer func() {
		s.ctx = s.ctx[:len(s.ctx)-1]
		s.direct = s.direct[:len(s.direct)-1]
		s.open = s.open[:len(s.open)-1]
	}()
	for _, p := range sig.Params {
		key := fn + "." + p.Name
		if fn == "Response" && !p.Variadic && !s.inCtx("Method") {
			// outside a method Response maps an ERROR to a status
			c.Args = append(c.Args, &prog.Arg{K: prog.Str, S: s.r.Pick("not_found", "a", "b")})
			continue
		}
		if p.Variadic {
			key = fn + "..."
		}
		if alts, ok := tidyHints[key]; ok {
			for _, letter := range alts[s.r.Intn(len(alts))] {
				c.Args = append(c.Args, s.tidyShaped(letter, p, fn, depth, valKind))
			}
			continue
		}
		if p.Variadic && p.Type == "any" && attributeLike[fn] {
			// [type] [description] [func]: validations that fit the type, or an object body without a type
			switch f := s.r.Intn(100); {
			case f < 60:
				t := s.tidyType(depth)
				c.Args = append(c.Args, t)
				if s.r.Chance(1, 4) {
					c.Args = append(c.Args, &prog.Arg{K: prog.Str, S: "a description"})
				}
				if s.r.Chance(1, 2) {
					bk, vk := s.kindOf(t)
					c.Args = append(c.Args, s.tidyBody(fn, depth, bk, vk))
				}
			case f < 80:
				c.Args = append(c.Args, s.tidyBody(fn, depth, "<object>", ""))
			}
			continue
		}
		switch {
		case !p.Variadic && p.Type == "string":
			c.Args = append(c.Args, s.tidyStr(p, fn))
		case !p.Variadic && p.Type == "func()":
			c.Args = append(c.Args, s.tidyBody(fn, depth, "", valKind))
		case !p.Variadic && p.Type == "expr.DataType":
			open := map[int]bool{}
			if s.r.Chance(19, 20) {
				for _, n := range s.open {
					open[n] = true // extending or referring to a type from inside its own definition is rare
				}
			}
			if a := s.refTo(func(d decl) bool { return d.isType && !open[d.n] }); a != nil && s.r.Chance(9, 10) {
				c.Args = append(c.Args, a)
			} else {
				c.Args = append(c.Args, s.tidyType(depth))
			}
		case !p.Variadic && p.Type == "expr.ValidationFormat":
			c.Args = append(c.Args, &prog.Arg{K: prog.Str, S: pickS(s.r, tidyFmts)})
		case !p.Variadic && p.Type == "int":
			c.Args = append(c.Args, &prog.Arg{K: prog.Int, I: []int64{0, 1, 2, 3, 5, 10, 200, 301, 404}[s.r.Intn(9)]})
		case !p.Variadic:
			c.Args = append(c.Args, s.arg(p, fn, depth, 2))
		case p.Type == "func()":
			c.Args = append(c.Args, s.tidyBody(fn, depth, "", valKind))
		case p.Type == "string":
			// "too many arguments" is the usual answer to a long tail: keep it short
			for i, k := 0, s.r.Intn(2); i < k; i++ {
				c.Args = append(c.Args, s.tidyStr(p, fn))
			}
		default:
			for i, k := 0, s.r.Intn(2); i < k; i++ {
				c.Args = append(c.Args, s.arg(p, fn, depth, 2))
			}
		}
	}
	return c
}
