package chaos

import (
	"encoding/json"
	"os"
	"testing"

	"verif.local/lab/chaos/prog"
	"verif.local/lab/vc"
)

// TestScanAndGenerate checks the scan finds the dsl table and that the program
// generator is a function of the random stream only and respects its bounds.
func TestScanAndGenerate(t *testing.T) {
	sigs, _, err := Scan(Repo())
	if err != nil {
		t.Skip("no goa checkout:", err)
	}
	if len(sigs) < 50 {
		t.Fatalf("only %d functions found", len(sigs))
	}
	g := NewGen(sigs)
	for i := 0; i < 300; i++ {
		p1 := g.Program(vc.NewRand(7, 1, uint64(i)), i)
		p2 := g.Program(vc.NewRand(7, 1, uint64(i)), i)
		b1, _ := json.Marshal(p1)
		b2, _ := json.Marshal(p2)
		if string(b1) != string(b2) {
			t.Fatalf("program %d not deterministic", i)
		}
		if n := p1.NumCalls(); n > MaxCalls+3 {
			t.Fatalf("program %d has %d calls", i, n)
		}
		p1.Walk(func(c *prog.Call, _ string, depth int) {})
		if os.Getenv("CHAOS_SAMPLES") != "" && i < 12 {
			t.Logf("program %d:\n%s", i, p1.GoSource())
		}
	}
}
