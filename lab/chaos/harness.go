package chaos

import (
	"bufio"
	"bytes"
	"encoding/json"
	"fmt"
	"os"
	"os/exec"
	"path/filepath"
	"regexp"
	"sort"
	"strconv"
	"strings"
	"sync/atomic"
	"syscall"
	"time"

	"verif.local/lab/chaos/prog"
	"verif.local/lab/chaos/runner"
	"verif.local/lab/vc"
)

// Harness owns the scratch module and the child binary.
type Harness struct {
	Dir      string // scratch directory
	Repo     string // goa checkout under test
	Bin      string
	GenEvery int // pass every n-th accepted program to the code generators (0 = never)
	seq      atomic.Int64
}

// Repo returns the goa checkout under test.
func Repo() string {
	if r := os.Getenv("VERIF_REPO"); r != "" {
		return r
	}
	return "/repo"
}

func goEnv() []string {
	return append(os.Environ(), "GOFLAGS=-mod=mod", "GOPROXY=off", "GOSUMDB=off", "GOTOOLCHAIN=local")
}

// Build writes the scratch module (generated table + main) under dir and builds the child binary.
func Build(dir string, sigs []FuncSig) (*Harness, error) {
	h := &Harness{Dir: dir, Repo: Repo()}
	mod := filepath.Join(dir, "chaosrun")
	if err := os.MkdirAll(mod, 0o755); err != nil {
		return nil, err
	}
	gomod := fmt.Sprintf(`module chaosrun

go 1.22.0

require (
	goa.design/goa/v3 v3.0.0
	verif.local/lab v0.0.0
)

replace goa.design/goa/v3 => %s

replace verif.local/lab => %s/lab
`, h.Repo, vc.Root())
	if err := os.WriteFile(filepath.Join(mod, "go.mod"), []byte(gomod), 0o644); err != nil {
		return nil, err
	}
	sum, _ := os.ReadFile(filepath.Join(h.Repo, "go.sum"))
	if len(sum) == 0 {
		sum, _ = os.ReadFile("/repo/go.sum")
	}
	_ = os.WriteFile(filepath.Join(mod, "go.sum"), sum, 0o644)
	if err := os.WriteFile(filepath.Join(mod, "zz_table.go"), []byte(TableSource(sigs)), 0o644); err != nil {
		return nil, err
	}
	h.Bin = filepath.Join(dir, "chaosrun.bin")
	cmd := exec.Command("go", "build", "-o", h.Bin, ".")
	cmd.Dir = mod
	cmd.Env = goEnv()
	out, err := cmd.CombinedOutput()
	if err != nil {
		return nil, fmt.Errorf("chaos child does not build against %s: %v\n%s", h.Repo, err, tailS(string(out), 3000))
	}
	return h, nil
}

// Death describes a child that did not survive a program.
type Death struct {
	Prog   *prog.Program
	Kind   string // crash | timeout
	Exit   string
	Stderr string // fatal error text or the SIGQUIT goroutine dump
	Bound  time.Duration
}

// BatchOut is what a batch produced.
type BatchOut struct {
	Results map[int]*runner.Result
	Deaths  []*Death
	Infra   []string
}

// Run executes the programs in child processes: one child per stretch of the
// batch; when a child dies (fatal error, watchdog) the program named last in
// the progress log is the offender and a new child continues after it.
func (h *Harness) Run(progs []*prog.Program, bound time.Duration) *BatchOut {
	out := &BatchOut{Results: map[int]*runner.Result{}}
	rest := progs
	for len(rest) > 0 {
		n := h.seq.Add(1)
		base := filepath.Join(h.Dir, fmt.Sprintf("b%06d", n))
		var buf bytes.Buffer
		for _, p := range rest {
			b, _ := json.Marshal(p)
			buf.Write(b)
			buf.WriteByte('\n')
		}
		if err := os.WriteFile(base+".in", buf.Bytes(), 0o644); err != nil {
			out.Infra = append(out.Infra, err.Error())
			return out
		}
		secs := int(bound.Seconds())
		if secs < 1 {
			secs = 1
		}
		cmd := exec.Command("timeout", "-s", "QUIT", "-k", "10", strconv.Itoa(secs), h.Bin, base+".in", base+".log", base+".out", strconv.Itoa(h.GenEvery))
		cmd.Dir = h.Dir
		cmd.Env = append(os.Environ(), "GOTRACEBACK=all")
		errf, err := os.Create(base + ".err")
		if err != nil {
			out.Infra = append(out.Infra, err.Error())
			return out
		}
		cmd.Stderr = errf
		cmd.Stdout = errf
		runErr := cmd.Run()
		errf.Close()
		got := readResults(base + ".out")
		for id, r := range got {
			out.Results[id] = r
		}
		// first program of the stretch without a result
		idx := -1
		for i, p := range rest {
			if _, ok := got[p.ID]; !ok {
				idx = i
				break
			}
		}
		cleanup := func() {
			for _, ext := range []string{".in", ".log", ".out", ".err"} {
				_ = os.Remove(base + ext)
			}
		}
		if idx < 0 {
			if runErr != nil {
				out.Infra = append(out.Infra, fmt.Sprintf("child failed after finishing its batch: %v", runErr))
			}
			cleanup()
			return out
		}
		code := exitCode(runErr)
		if code == 64 || runErr == nil {
			se, _ := os.ReadFile(base + ".err")
			out.Infra = append(out.Infra, fmt.Sprintf("child stopped (exit %d) without finishing: %s", code, tailS(string(se), 500)))
			cleanup()
			return out
		}
		// cross-check with the progress log: the last id logged must be the offender
		if last := lastLogged(base + ".log"); last != rest[idx].ID {
			out.Infra = append(out.Infra, fmt.Sprintf("progress log names program %d but program %d has no result", last, rest[idx].ID))
			cleanup()
			return out
		}
		se, _ := os.ReadFile(base + ".err")
		d := &Death{Prog: rest[idx], Kind: "crash", Exit: fmt.Sprint(code), Stderr: string(se), Bound: bound}
		if code == 124 || code == 137 {
			d.Kind = "timeout"
		}
		out.Deaths = append(out.Deaths, d)
		cleanup()
		rest = rest[idx+1:]
	}
	return out
}

func exitCode(err error) int {
	if err == nil {
		return 0
	}
	if ee, ok := err.(*exec.ExitError); ok {
		if ws, ok := ee.Sys().(syscall.WaitStatus); ok && ws.Signaled() {
			return 128 + int(ws.Signal())
		}
		return ee.ExitCode()
	}
	return -1
}

func readResults(path string) map[int]*runner.Result {
	m := map[int]*runner.Result{}
	f, err := os.Open(path)
	if err != nil {
		return m
	}
	defer f.Close()
	sc := bufio.NewScanner(f)
	sc.Buffer(make([]byte, 1<<20), 256<<20)
	for sc.Scan() {
		var r runner.Result
		if json.Unmarshal(sc.Bytes(), &r) == nil {
			rr := r
			m[r.ID] = &rr
		}
	}
	return m
}

func lastLogged(path string) int {
	b, err := os.ReadFile(path)
	if err != nil {
		return -1
	}
	ls := strings.Fields(string(b))
	if len(ls) == 0 {
		return -1
	}
	n, err := strconv.Atoi(ls[len(ls)-1])
	if err != nil {
		return -1
	}
	return n
}

// MedianMicros is the median per-program time of a batch.
func MedianMicros(rs map[int]*runner.Result) int64 {
	if len(rs) == 0 {
		return 0
	}
	xs := make([]int64, 0, len(rs))
	for _, r := range rs {
		xs = append(xs, r.Micros)
	}
	sort.Slice(xs, func(i, j int) bool { return xs[i] < xs[j] })
	return xs[len(xs)/2]
}

// ---------------------------------------------------------------- stack reading

// Frame is one stack frame.
type Frame struct {
	Func string
	File string // as printed
	Line string
}

// frames parses the goroutine stack text produced by debug.Stack / a fatal error / SIGQUIT.
func frames(stack string) []Frame {
	var out []Frame
	lines := strings.Split(stack, "\n")
	for i := 0; i+1 < len(lines); i++ {
		l, nx := lines[i], lines[i+1]
		if l == "" || strings.HasPrefix(l, "\t") || !strings.HasPrefix(nx, "\t") {
			continue
		}
		loc := strings.TrimSpace(nx)
		if j := strings.Index(loc, " +0x"); j >= 0 {
			loc = loc[:j]
		}
		k := strings.LastIndex(loc, ":")
		if k < 0 {
			continue
		}
		fn := l
		if j := strings.LastIndex(fn, "("); j > 0 {
			fn = fn[:j]
		}
		out = append(out, Frame{Func: fn, File: loc[:k], Line: loc[k+1:]})
		i++
	}
	return out
}

// PanicSite returns "relpath:line" and the function of the first frame inside
// the goa checkout after the panic started (or simply the first goa frame).
func PanicSite(stack, repo string) (site, fn string) {
	fs := frames(stack)
	start := 0
	for i, f := range fs {
		if f.Func == "panic" || strings.HasPrefix(f.Func, "runtime.sigpanic") || strings.HasPrefix(f.Func, "runtime.gopanic") {
			start = i + 1
		}
	}
	prefix := strings.TrimSuffix(repo, "/") + "/"
	for _, f := range fs[start:] {
		if strings.HasPrefix(f.File, prefix) {
			return strings.TrimPrefix(f.File, prefix) + ":" + f.Line, shortFunc(f.Func)
		}
	}
	return "unknown", ""
}

// PanicKind classifies a panic value for violation keys (stable, no data).
func PanicKind(msg string) string {
	switch {
	case strings.Contains(msg, "nil pointer dereference"):
		return "nil-deref"
	case strings.Contains(msg, "index out of range"), strings.Contains(msg, "slice bounds out of range"):
		return "index-out-of-range"
	case strings.Contains(msg, "interface conversion"):
		return "type-assertion"
	case strings.Contains(msg, "nil map"):
		return "nil-map"
	}
	msg = quotedRe.ReplaceAllString(msg, "")
	var b strings.Builder
	for _, r := range msg {
		switch {
		case r >= 'a' && r <= 'z', r >= 'A' && r <= 'Z':
			b.WriteRune(r)
		case b.Len() > 0 && !strings.HasSuffix(b.String(), "-"):
			b.WriteByte('-')
		}
		if b.Len() >= 48 {
			break
		}
	}
	return strings.Trim(b.String(), "-")
}

// PanicKey is the violation key of a panic: the goa function it started in
// (line numbers move with every unrelated commit, function names do not) and
// the kind of panic. The dsl function at the top of the program stack is NOT
// part of the key: one defect deep in expr is reached through many dsl
// functions and would otherwise need one known-finding entry per entry point;
// it is reported in the text and the witness instead.
func PanicKey(stack, repo, msg string) (key, site string) {
	site, fn := PanicSite(stack, repo)
	if fn == "" {
		fn = "unknown"
	}
	return "panic:" + fn + ":" + PanicKind(msg), site
}

func shortFunc(f string) string {
	f = strings.TrimPrefix(f, "goa.design/goa/v3/")
	return f
}

var quotedRe = regexp.MustCompile(`"[^"]*"|'[^']*'`)

var closureRe = regexp.MustCompile(`(\.func\d+)+(\.\d+)*$`)

// FirstRepoFrame reads a fatal-error or SIGQUIT dump: it returns a stable name
// for the goa code that was running in the first goroutine that has a goa
// frame (closure suffixes stripped; the alphabetically first function among
// the 12 innermost goa frames, so that every entry point of a recursion cycle
// gives the same name), and the dsl function highest on that stack.
func FirstRepoFrame(dump, repo string) (fn, dslFn string) {
	fn, dslFn, _ = RepoFrames(dump, repo)
	return
}

// RepoFrames is FirstRepoFrame plus the innermost goa function as printed.
func RepoFrames(dump, repo string) (fn, dslFn, innermost string) {
	prefix := strings.TrimSuffix(repo, "/") + "/"
	blocks := strings.Split(dump, "\n\n")
	for _, b := range blocks {
		if !strings.Contains(b, prefix) {
			continue
		}
		n := 0
		for _, f := range frames(b) {
			if !strings.HasPrefix(f.File, prefix) {
				continue
			}
			if n == 0 {
				innermost = shortFunc(f.Func)
			}
			if n < 12 {
				name := closureRe.ReplaceAllString(shortFunc(f.Func), "")
				if fn == "" || name < fn {
					fn = name
				}
			}
			n++
			if dslFn == "" && strings.HasPrefix(f.Func, "goa.design/goa/v3/dsl.") {
				name := strings.TrimPrefix(f.Func, "goa.design/goa/v3/dsl.")
				if i := strings.IndexAny(name, ".("); i > 0 {
					name = name[:i]
				}
				if name != "" && name[0] >= 'A' && name[0] <= 'Z' {
					dslFn = name
				}
			}
		}
		if fn != "" {
			return
		}
	}
	return "unknown", "", "unknown"
}

func tailS(s string, n int) string {
	if len(s) > n {
		return "…" + s[len(s)-n:]
	}
	return s
}

// HeadS truncates a text for witnesses.
func HeadS(s string, n int) string {
	if len(s) > n {
		return s[:n] + "\n…[truncated]"
	}
	return s
}
