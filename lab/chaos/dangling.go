package chaos

import (
	"regexp"
	"sort"
	"strings"

	"verif.local/lab/spec"
	"verif.local/lab/vc"
)

// Names that no generated spec ever declares.
const (
	NoAttr   = "no_such_attr"
	NoError  = "no_such_error"
	NoView   = "no_such_view"
	NoScheme = "no_such_scheme"
)

// Mutation is one way of making a valid spec refer to a name that does not
// exist. Apply changes the spec in place; Text (optional) rewrites the printed
// DSL instead, for references the spec cannot express as dangling.
type Mutation struct {
	Class string
	Name  string // the dangling name introduced
	Site  string // human readable location
	Apply func()
	Text  func(dsl string) string
	// Benign: the mutant refers to nothing that is missing; goa may accept or reject it, it may not crash.
	Benign bool
}

func objectDef(s *spec.Spec, a *spec.Attr) *spec.Type {
	if a == nil || a.Type == nil {
		return nil
	}
	rt, _ := s.Resolve(a.Type)
	if rt == nil {
		rt = a.Type
	}
	if rt.Kind != spec.Object {
		return nil
	}
	return rt
}

func isResultRef(s *spec.Spec, t *spec.Type) bool {
	if t == nil {
		return false
	}
	if t.Kind == spec.Array && t.Collection && t.Elem != nil {
		t = t.Elem.Type
	}
	if t.Kind != spec.Ref {
		return false
	}
	ut := s.Type(t.Ref)
	return ut != nil && ut.Kind == "result"
}

func unusedStatus(rs []*spec.HTTPResponse, cands ...int) int {
	for _, c := range cands {
		used := false
		for _, r := range rs {
			if r.Status == c {
				used = true
			}
		}
		if !used {
			return c
		}
	}
	return 0
}

var secRe = regexp.MustCompile(`Security\(S_[A-Za-z0-9_]+`)

// Mutations lists every dangling-reference mutation applicable to s (in a
// deterministic order). Each is to be applied to a fresh copy of the spec.
func Mutations(s *spec.Spec) []*Mutation {
	var out []*Mutation
	add := func(class, name, site string, f func()) {
		out = append(out, &Mutation{Class: class, Name: name, Site: site, Apply: f})
	}
	// ---- user types: required attributes, views
	reach := ReachableTypes(s)
	// usage qualifies a class by how the mutated type is used: goa only generates code for types a
	// method payload or result reaches ("" suffix); error-only and unused types get their own classes
	usage := func(name string) string {
		switch reach[name] {
		case "data":
			return ""
		case "error":
			return "(error-only)"
		}
		return "(unused)"
	}
	for _, ut := range s.Types {
		ut := ut
		if ut.Def != nil && ut.Def.Kind == spec.Object && ut.Kind != "alias" {
			add("required-attr@type"+usage(ut.Name), NoAttr, "type "+ut.Name, func() { ut.Def.Required = append(ut.Def.Required, NoAttr) })
		}
		if ut.Kind == "result" {
			for _, v := range ut.Views {
				v := v
				add("view-attr"+usage(ut.Name), NoAttr, "view "+v.Name+" of "+ut.Name, func() { v.Attrs = append(v.Attrs, spec.ViewAttr{Name: NoAttr}) })
				for i := range v.Attrs {
					i := i
					if a := ut.Def.Attr(v.Attrs[i].Name); a != nil && isResultRef(s, a.Type) {
						add("view-nested-view"+usage(ut.Name), NoView, "view "+v.Name+" of "+ut.Name+" attribute "+a.Name, func() { v.Attrs[i].View = NoView })
					}
				}
			}
		}
		if ut.Def != nil && ut.Def.Kind == spec.Object {
			for _, a := range ut.Def.Attrs {
				a := a
				if isResultRef(s, a.Type) && a.View == "" {
					add("attr-view"+usage(ut.Name), NoView, "attribute "+a.Name+" of "+ut.Name, func() { a.View = NoView })
				}
			}
		}
	}
	// ---- API level
	apiClass := "http-error-name@api(no-http-service)"
	for _, sv := range s.Services {
		if !sv.NoHTTP {
			apiClass = "http-error-name@api"
		}
	}
	add(apiClass, NoError, "API HTTP", func() {
		s.API.HTTPErrs = append(s.API.HTTPErrs, &spec.HTTPError{Name: NoError, Status: 418})
	})
	for _, sv := range s.Services {
		sv := sv
		if !sv.NoHTTP {
			add("http-error-name@service", NoError, "service "+sv.Name, func() {
				sv.HTTPErrs = append(sv.HTTPErrs, &spec.HTTPError{Name: NoError, Status: 418})
			})
		}
		for _, m := range sv.Methods {
			m := m
			site := sv.Name + "." + m.Name
			pobj := objectDef(s, m.Payload)
			robj := objectDef(s, m.Result)
			if pobj != nil && m.Payload.Type.Kind == spec.Object {
				add("required-attr@payload", NoAttr, site, func() { pobj.Required = append(pobj.Required, NoAttr) })
			}
			if robj != nil && m.Result.Type.Kind == spec.Object {
				add("required-attr@result", NoAttr, site, func() { robj.Required = append(robj.Required, NoAttr) })
			}
			if m.Result != nil && isResultRef(s, m.Result.Type) && m.Result.View == "" {
				add("result-view", NoView, site, func() { m.Result.View = NoView })
			}
			if h := m.HTTP; h != nil && !sv.NoHTTP {
				if pobj != nil {
					add("http-header-attr", NoAttr, site, func() { h.Headers = append(h.Headers, spec.Loc{Attr: NoAttr}) })
					add("http-query-attr", NoAttr, site, func() { h.Query = append(h.Query, spec.Loc{Attr: NoAttr}) })
					add("http-cookie-attr", NoAttr, site, func() { h.Cookies = append(h.Cookies, spec.Loc{Attr: NoAttr}) })
					add("http-path-param", NoAttr, site, func() {
						for i := range h.Routes {
							h.Routes[i].Path = "/{" + NoAttr + "}" + h.Routes[i].Path
						}
						h.Path = append(h.Path, spec.Loc{Attr: NoAttr})
					})
					if h.Body == "" && !h.Multipart && !h.SkipReqBody && m.Stream == "" {
						add("http-body-attr", NoAttr, site, func() { h.Body = "attr:" + NoAttr })
						add("http-body-custom-attr", NoAttr, site, func() {
							h.Body = "custom"
							h.BodyAttrs = []spec.Loc{{Attr: NoAttr}}
						})
					}
					if h.MapParams == "" {
						add("http-map-params-attr", NoAttr, site, func() { h.MapParams = NoAttr })
					}
				}
				add("http-error-name@method", NoError, site, func() {
					h.Errors = append(h.Errors, &spec.HTTPError{Name: NoError, Status: 418})
				})
				for _, he := range h.Errors {
					he := he
					// only errors that use the built-in ErrorResult: its attribute set is documented
					var decl *spec.ErrorDecl
					for _, e := range s.AllErrors(sv, m) {
						if e.Name == he.Name {
							decl = e
						}
					}
					if decl != nil && decl.Type == nil {
						add("error-response-header-attr", NoAttr, site+" error "+he.Name, func() { he.Headers = append(he.Headers, spec.Loc{Attr: NoAttr}) })
						if he.Body == "" {
							add("error-response-body-attr", NoAttr, site+" error "+he.Name, func() { he.Body = "attr:" + NoAttr })
						}
					}
				}
				if robj != nil && m.Stream == "" && !h.SkipRespBody {
					// the response that carries the result (first untagged success response, else a new one)
					target := func() *spec.HTTPResponse {
						for _, r := range h.Responses {
							if r.TagAttr == "" && r.Status < 400 {
								return r
							}
						}
						r := &spec.HTTPResponse{Status: 200}
						h.Responses = append(h.Responses, r)
						return r
					}
					add("response-header-attr", NoAttr, site, func() { r := target(); r.Headers = append(r.Headers, spec.Loc{Attr: NoAttr}) })
					add("response-cookie-attr", NoAttr, site, func() { r := target(); r.Cookies = append(r.Cookies, spec.Loc{Attr: NoAttr}) })
					if !isResultRef(s, m.Result.Type) {
						add("response-body-attr", NoAttr, site, func() {
							r := target()
							if r.Body == "" {
								r.Body = "attr:" + NoAttr
							}
						})
						add("response-tag-attr", NoAttr, site, func() {
							target()
							if st := unusedStatus(h.Responses, 202, 206, 201, 203); st != 0 {
								h.Responses = append(h.Responses, &spec.HTTPResponse{Status: st, TagAttr: NoAttr, TagValue: "x"})
							}
						})
					}
				}
			}
			if g := m.GRPC; g != nil && sv.GRPC {
				if pobj != nil {
					add("grpc-metadata-attr", NoAttr, site, func() { g.Metadata = append(g.Metadata, spec.Loc{Attr: NoAttr}) })
				}
				if robj != nil {
					add("grpc-header-attr", NoAttr, site, func() { g.Headers = append(g.Headers, spec.Loc{Attr: NoAttr}) })
					add("grpc-trailer-attr", NoAttr, site, func() { g.Trailers = append(g.Trailers, spec.Loc{Attr: NoAttr}) })
				}
				add("grpc-error-name", NoError, site, func() {
					g.ErrCodes = append(g.ErrCodes, struct {
						Name string `json:"name"`
						Code string `json:"code"`
					}{NoError, "CodeNotFound"})
				})
			}
		}
	}
	// ---- security requirement naming an undefined scheme: the printer refers to schemes through Go
	// variables, so the dangling name is put into the printed text (Security accepts scheme names).
	hasReq := len(s.API.Security) > 0
	for _, sv := range s.Services {
		if len(sv.Security) > 0 {
			hasReq = true
		}
		for _, m := range sv.Methods {
			if len(m.Security) > 0 {
				hasReq = true
			}
		}
	}
	if hasReq {
		out = append(out, &Mutation{Class: "security-scheme", Name: NoScheme, Site: "first Security requirement", Apply: func() {},
			Text: func(dsl string) string {
				done := false
				return secRe.ReplaceAllStringFunc(dsl, func(m string) string {
					if done {
						return m
					}
					done = true
					return `Security("` + NoScheme + `"`
				})
			}})
		// the same requirement keeps its real scheme and gains an undefined one after it
		out = append(out, &Mutation{Class: "security-scheme-after-valid", Name: NoScheme, Site: "first Security requirement, second position", Apply: func() {},
			Text: func(dsl string) string {
				done := false
				return secRe.ReplaceAllStringFunc(dsl, func(m string) string {
					if done {
						return m
					}
					done = true
					return m + `, "` + NoScheme + `"`
				})
			}})
	}
	return out
}

// typeMetaKeys / attrMetaKeys: documented Meta keys of goa that user types / attributes may carry.
var typeMetaKeys = []string{"struct:pkg:path", "type:generate:force", "openapi:typename", "openapi:generate", "openapi:example", "openapi:additionalProperties", "struct:tag:json", "openapi:extension:x-lab", "struct:error:name", "struct:name:original"}
var attrMetaKeys = []string{"struct:field:name", "struct:field:type", "struct:field:pointer", "struct:field:external", "struct:tag:json", "rpc:tag", "openapi:example", "struct:error:name", "view"}

// MetaMutations decorates a valid spec with documented Meta keys spelled WITHOUT a value (Meta("key")) or with one:
// no name goes missing, so goa may accept or reject the design, but evaluation may not crash. For a type-level key
// every object type that refers to another user type gets the key with a value and every other object type the bare
// key (an outer type with a value around an inner type with the bare key is the combination no unit test has).
func MetaMutations(s *spec.Spec) []*Mutation {
	var out []*Mutation
	var objs []*spec.UserType
	for _, t := range s.Types {
		if t.Def != nil && t.Def.Kind == spec.Object && t.Kind != "alias" {
			objs = append(objs, t)
		}
	}
	if len(objs) == 0 {
		return nil
	}
	refers := func(t *spec.UserType) bool {
		found := false
		var walk func(tt *spec.Type, d int)
		walk = func(tt *spec.Type, d int) {
			if tt == nil || d > 6 {
				return
			}
			if tt.Kind == spec.Ref {
				found = true
			}
			for _, a := range tt.Attrs {
				walk(a.Type, d+1)
			}
			if tt.Elem != nil {
				walk(tt.Elem.Type, d+1)
			}
			if tt.Key != nil {
				walk(tt.Key.Type, d+1)
			}
		}
		walk(t.Def, 0)
		return found
	}
	set := func(m map[string][]string, k string, v []string) map[string][]string {
		if m == nil {
			m = map[string][]string{}
		}
		m[k] = v
		return m
	}
	for _, k := range typeMetaKeys {
		k := k
		out = append(out, &Mutation{Class: "meta-key-only:type:" + k, Name: k, Site: "every object user type", Benign: true, Apply: func() {
			for _, t := range objs {
				if refers(t) {
					t.Meta = set(t.Meta, k, []string{"types"})
				} else {
					t.Meta = set(t.Meta, k, nil)
				}
			}
		}})
		out = append(out, &Mutation{Class: "meta-key-only:type-all:" + k, Name: k, Site: "every object user type (bare key)", Benign: true, Apply: func() {
			for _, t := range objs {
				t.Meta = set(t.Meta, k, nil)
			}
		}})
	}
	// inheritance cycles through two object types: Extend/Extend, Reference/Reference and the two mixed forms; with a
	// required name that no type of the cycle defines, every lookup of that name walks the bases (must end)
	var plain []*spec.UserType
	for _, t := range objs {
		if t.Kind == "type" && t.Extend == "" && t.Reference == "" {
			plain = append(plain, t)
		}
	}
	if len(plain) >= 2 {
		a, b := plain[0], plain[1]
		for _, form := range [][2]string{{"extend", "extend"}, {"reference", "reference"}, {"extend", "reference"}, {"reference", "extend"}} {
			form := form
			out = append(out, &Mutation{Class: "inheritance-cycle:" + form[0] + "-" + form[1], Name: a.Name, Site: a.Name + " and " + b.Name, Benign: true, Apply: func() {
				link := func(t *spec.UserType, how, base string) {
					if how == "extend" {
						t.Extend = base
					} else {
						t.Reference = base
					}
				}
				link(a, form[0], b.Name)
				link(b, form[1], a.Name)
				a.Def.Required = append(a.Def.Required, "no_such_attribute_anywhere")
			}})
		}
	}
	for _, k := range attrMetaKeys {
		k := k
		out = append(out, &Mutation{Class: "meta-key-only:attribute:" + k, Name: k, Site: "first attribute of every object user type", Benign: true, Apply: func() {
			for _, t := range objs {
				if len(t.Def.Attrs) > 0 {
					t.Def.Attrs[0].Meta = set(t.Def.Attrs[0].Meta, k, nil)
				}
			}
		}})
	}
	return out
}

// NestedSpec is a small fixed-shape design for the Meta mutants: user types that hold one another directly, in an
// array and in a map, used as payload and result of HTTP methods (so that every validator walks them).
func NestedSpec(r *vc.Rand, id string) *spec.Spec {
	s := &spec.Spec{ID: id}
	s.API.Name = "api" + strings.ToLower(id)
	s.API.Title = "lab " + id
	s.API.Version = "1.0"
	str := func() *spec.Type { return &spec.Type{Kind: spec.String} }
	ref := func(n string) *spec.Type { return &spec.Type{Kind: spec.Ref, Ref: n} }
	inner := &spec.UserType{Name: "Inner", Kind: "type", Def: &spec.Type{Kind: spec.Object, Attrs: []*spec.Attr{{Name: "label", Type: str()}, {Name: "count", Type: &spec.Type{Kind: spec.Int}}}}}
	var hold *spec.Type
	switch r.Intn(3) {
	case 0:
		hold = ref("Inner")
	case 1:
		hold = &spec.Type{Kind: spec.Array, Elem: &spec.Attr{Type: ref("Inner")}}
	default:
		hold = &spec.Type{Kind: spec.Map, Key: &spec.Attr{Type: str()}, Elem: &spec.Attr{Type: ref("Inner")}}
	}
	outer := &spec.UserType{Name: "Outer", Kind: "type", Def: &spec.Type{Kind: spec.Object, Attrs: []*spec.Attr{{Name: "held", Type: hold}, {Name: "note", Type: str()}}}}
	s.Types = []*spec.UserType{inner, outer}
	s.Services = []*spec.Service{{Name: "nest", BasePath: "/nest", Methods: []*spec.Method{
		{Name: "put", Payload: &spec.Attr{Type: ref("Outer")}, Result: &spec.Attr{Type: ref("Outer")}, HTTP: &spec.HTTP{Routes: []spec.Route{{Verb: "POST", Path: "/put"}}}},
		{Name: "get", Result: &spec.Attr{Type: ref("Inner")}, HTTP: &spec.HTTP{Routes: []spec.Route{{Verb: "GET", Path: "/get"}}}},
	}}}
	return s
}

// Classes returns the sorted distinct classes of a mutation list.
func Classes(ms []*Mutation) []string {
	seen := map[string]bool{}
	var out []string
	for _, m := range ms {
		if !seen[m.Class] {
			seen[m.Class] = true
			out = append(out, m.Class)
		}
	}
	sort.Strings(out)
	return out
}

// PickMutation chooses one mutation: first a class (uniformly among those
// applicable, so that rare classes are exercised), then a site.
func PickMutation(r *vc.Rand, ms []*Mutation) *Mutation {
	if len(ms) == 0 {
		return nil
	}
	cs := Classes(ms)
	c := cs[r.Intn(len(cs))]
	var of []*Mutation
	for _, m := range ms {
		if m.Class == c {
			of = append(of, m)
		}
	}
	return of[r.Intn(len(of))]
}

// MentionsName reports whether goa's error text names the dangling name.
func MentionsName(errs, name string) bool { return strings.Contains(errs, name) }

var grpcPrims = []string{spec.Boolean, spec.Int32, spec.Int64, spec.UInt32, spec.UInt64, spec.Float32, spec.Float64, spec.String, spec.Bytes}

// GRPCSpec draws a small valid gRPC-only design (object payload/result with
// explicit field tags, optional errors): the base for the gRPC dangling classes.
func GRPCSpec(r *vc.Rand, id string) *spec.Spec {
	s := &spec.Spec{ID: id}
	s.API.Name = "api" + strings.ToLower(id)
	s.API.Title = "lab " + id
	s.API.Version = "1.0"
	names := []string{"alpha", "bravo", "charlie", "delta", "echo", "foxtrot", "golf", "hotel"}
	obj := func() *spec.Type {
		t := &spec.Type{Kind: spec.Object}
		perm := r.Perm(len(names))
		n := r.Range(1, 4)
		for i := 0; i < n; i++ {
			a := &spec.Attr{Name: names[perm[i]], Type: &spec.Type{Kind: grpcPrims[r.Intn(len(grpcPrims))]}, Tag: i + 1}
			if r.Chance(1, 4) {
				a.Type = &spec.Type{Kind: spec.Array, Elem: &spec.Attr{Type: &spec.Type{Kind: grpcPrims[r.Intn(len(grpcPrims))]}}}
			}
			t.Attrs = append(t.Attrs, a)
			if r.Chance(1, 3) {
				t.Required = append(t.Required, a.Name)
			}
		}
		return t
	}
	// a recursive user type reached through an array, a map value or directly: the
	// validators and finalizers walking gRPC messages must terminate on it
	var rec []string
	if r.Chance(1, 2) {
		for k, via := range []string{"array", "map", "direct"} {
			if !r.Chance(1, 2) {
				continue
			}
			name := []string{"Tree", "Index", "Chain"}[k]
			self := &spec.Type{Kind: spec.Ref, Ref: name}
			var t *spec.Type
			switch via {
			case "array":
				t = &spec.Type{Kind: spec.Array, Elem: &spec.Attr{Type: self}}
			case "map":
				t = &spec.Type{Kind: spec.Map, Key: &spec.Attr{Type: &spec.Type{Kind: spec.String}}, Elem: &spec.Attr{Type: self}}
			default:
				t = self
			}
			def := &spec.Type{Kind: spec.Object, Attrs: []*spec.Attr{
				{Name: "label", Type: &spec.Type{Kind: spec.String}, Tag: 1},
				{Name: "kids", Type: t, Tag: 2},
			}}
			s.Types = append(s.Types, &spec.UserType{Name: name, Kind: "type", Def: def})
			rec = append(rec, name)
			s.AddFeature("grpc-recursive-" + via)
		}
	}
	plain := obj
	obj = func() *spec.Type {
		t := plain()
		if len(rec) > 0 && r.Chance(1, 2) {
			t.Attrs = append(t.Attrs, &spec.Attr{Name: "india", Type: &spec.Type{Kind: spec.Ref, Ref: rec[r.Intn(len(rec))]}, Tag: len(t.Attrs) + 1})
		}
		return t
	}
	sv := &spec.Service{Name: r.Pick("calc", "storage", "tracker"), GRPC: true, NoHTTP: true}
	nm := r.Range(1, 3)
	for j := 0; j < nm; j++ {
		m := &spec.Method{Name: []string{"add", "list", "show"}[j], GRPC: &spec.GRPC{}}
		m.Payload = &spec.Attr{Type: obj()}
		m.Result = &spec.Attr{Type: obj()}
		if r.Chance(1, 2) {
			e := &spec.ErrorDecl{Name: r.Pick("not_found", "bad_thing")}
			m.Errors = append(m.Errors, e)
			m.GRPC.ErrCodes = append(m.GRPC.ErrCodes, struct {
				Name string `json:"name"`
				Code string `json:"code"`
			}{e.Name, r.Pick("CodeNotFound", "CodeInvalidArgument")})
		}
		sv.Methods = append(sv.Methods, m)
	}
	s.Services = append(s.Services, sv)
	s.AddFeature("grpc")
	return s
}

// ReachableTypes tells how each user type is used: "data" when some method
// payload or result refers to it (directly or through other types), "error"
// when only error declarations do; unused types are absent.
func ReachableTypes(s *spec.Spec) map[string]string {
	seen := map[string]string{}
	var wt func(t *spec.Type, how string)
	wt = func(t *spec.Type, how string) {
		if t == nil {
			return
		}
		if t.Kind == spec.Ref {
			if old, ok := seen[t.Ref]; ok && (old == "data" || old == how) {
				return
			}
			seen[t.Ref] = how
			if ut := s.Type(t.Ref); ut != nil {
				wt(ut.Def, how)
				if ut.Extend != "" {
					wt(&spec.Type{Kind: spec.Ref, Ref: ut.Extend}, how)
				}
				if ut.Reference != "" {
					wt(&spec.Type{Kind: spec.Ref, Ref: ut.Reference}, how)
				}
			}
			return
		}
		for _, a := range []*spec.Attr{t.Elem, t.Key} {
			if a != nil {
				wt(a.Type, how)
			}
		}
		for _, a := range t.Attrs {
			wt(a.Type, how)
		}
	}
	we := func(es []*spec.ErrorDecl) {
		for _, e := range es {
			wt(e.Type, "error")
		}
	}
	for _, sv := range s.Services {
		for _, m := range sv.Methods {
			for _, a := range []*spec.Attr{m.Payload, m.Result, m.StreamP} {
				if a != nil {
					wt(a.Type, "data")
				}
			}
		}
	}
	we(s.API.Errors)
	for _, sv := range s.Services {
		we(sv.Errors)
		for _, m := range sv.Methods {
			we(m.Errors)
		}
	}
	return seen
}
