package chaos

import (
	"strings"

	"verif.local/lab/chaos/prog"
	"verif.local/lab/vc"
)

// Bounds of one program (DESIGN §7.C12).
const (
	MaxDepth = 5  // call levels: a package-level call plus func() bodies nested at most 4 deep
	MaxCalls = 25 // calls per program, argument-position calls included
)

// Gen draws programs over a function table.
type Gen struct {
	Sigs     []FuncSig
	by       map[string]*FuncSig
	all      []string
	tops     []string            // documented top level functions
	children map[string][]string // documented parent -> functions that name it
	valueFns []string            // functions with a result
	typeFns  []string            // functions whose first result is a data type
	sketch   map[string][]string // tidySketch restricted to functions that exist
}

func isDataTypeResult(t string) bool {
	switch t {
	case "*expr.Array", "*expr.Map", "expr.UserType", "*expr.ResultTypeExpr", "expr.DataType", "*expr.UserTypeExpr", "*expr.Union":
		return true
	}
	return false
}

// NewGen indexes the table.
func NewGen(sigs []FuncSig) *Gen {
	g := &Gen{Sigs: sigs, by: map[string]*FuncSig{}, children: map[string][]string{}}
	for i := range sigs {
		s := &sigs[i]
		g.by[s.Name] = s
		g.all = append(g.all, s.Name)
		if s.Top {
			g.tops = append(g.tops, s.Name)
		}
		for _, p := range s.Parents {
			g.children[p] = append(g.children[p], s.Name)
		}
		if len(s.Results) > 0 {
			g.valueFns = append(g.valueFns, s.Name)
			if isDataTypeResult(s.Results[0]) {
				g.typeFns = append(g.typeFns, s.Name)
			}
		}
	}
	g.sketch = map[string][]string{}
	keep := func(list string) []string {
		var out []string
		for _, f := range strings.Fields(list) {
			if g.by[f] != nil {
				out = append(out, f)
			}
		}
		return out
	}
	for k, v := range tidySketch {
		if cs := keep(v); len(cs) > 0 {
			g.sketch[k] = cs
		}
	}
	return g
}

type decl struct {
	n      int
	isType bool
	rtype  string // static type of the first result
}

type pstate struct {
	g      *Gen
	r      *vc.Rand
	n      int
	budget int
	decls  []decl
	// tidy: the program follows the documentation (documented contexts, documented argument
	// shapes, plain names) so that most of it survives DSL execution and the validation and
	// finalization code of goa sees unusual but executable designs
	tidy   bool
	ctx    []string // functions whose arguments are being drawn, outermost first
	direct []int    // calls whose arguments are being drawn with no func() body in between
	open   []int    // all calls being drawn
}

// Program draws program number id from r.
func (g *Gen) Program(r *vc.Rand, id int) *prog.Program {
	s := &pstate{g: g, r: r, budget: r.Range(1, MaxCalls)}
	s.tidy = r.Chance(1, 2)
	if s.tidy {
		s.budget = r.Range(4, MaxCalls)
	}
	p := &prog.Program{ID: id, Mode: "wild"}
	if s.tidy {
		p.Mode = "tidy"
	}
	if s.tidy {
		s.tidyProgram(p)
		return p
	}
	k := r.Range(1, 6)
	for i := 0; i < k && s.budget > 0; i++ {
		if r.Chance(1, 3) {
			p.Calls = append(p.Calls, s.chain())
			continue
		}
		p.Calls = append(p.Calls, s.call(s.pick(""), 1, 0))
	}
	return p
}

// takesFunc reports whether a function can be given a func() body.
func (g *Gen) takesFunc(fn string) bool {
	for _, p := range g.by[fn].Params {
		if p.Type == "func()" || (p.Variadic && p.Type == "any") {
			return true
		}
	}
	return false
}

// chain draws a target function and calls it inside the chain of contexts its
// documentation asks for (e.g. Service > Method > HTTP > Response > Tag), each
// level with random arguments and random siblings: misuse in the RIGHT place.
func (s *pstate) chain() *prog.Call {
	g := s.g
	path := []string{pickS(s.r, g.all)}
	for len(path) < MaxDepth {
		cur := g.by[path[0]]
		if cur.Top && s.r.Chance(3, 4) {
			break
		}
		var ps []string
		for _, p := range cur.Parents {
			if g.takesFunc(p) {
				ps = append(ps, p)
			}
		}
		if len(ps) == 0 {
			break
		}
		path = append([]string{pickS(s.r, ps)}, path...)
	}
	var build func(i int) *prog.Call
	build = func(i int) *prog.Call {
		c := s.call(path[i], i+1, 0)
		if i+1 >= len(path) {
			return c
		}
		next := build(i + 1)
		var body *prog.Arg
		for _, a := range c.Args {
			if a != nil && a.K == prog.Func {
				body = a
			}
		}
		if body == nil {
			body = &prog.Arg{K: prog.Func}
			// put the body where the signature has room for it
			placed := false
			for j, p := range g.by[path[i]].Params {
				if p.Type == "func()" && !p.Variadic && j < len(c.Args) {
					c.Args[j] = body
					placed = true
					break
				}
			}
			if !placed {
				c.Args = append(c.Args, body)
			}
		}
		at := s.r.Intn(len(body.Body) + 1)
		body.Body = append(body.Body[:at], append([]*prog.Call{next}, body.Body[at:]...)...)
		return c
	}
	return build(0)
}

func pickS(r *vc.Rand, xs []string) string { return xs[r.Intn(len(xs))] }

// pick chooses the function called inside parent ("" = package level): half of
// the time one the documentation places there, otherwise any function at all.
func (s *pstate) pick(parent string) string {
	g := s.g
	if s.r.Chance(1, 2) {
		if parent == "" {
			if len(g.tops) > 0 {
				return pickS(s.r, g.tops)
			}
		} else if cs := g.children[parent]; len(cs) > 0 {
			return pickS(s.r, cs)
		}
	}
	return pickS(s.r, g.all)
}

func (s *pstate) call(fn string, depth, argDepth int) *prog.Call {
	c := &prog.Call{N: s.n, Fn: fn}
	s.n++
	s.budget--
	sig := s.g.by[fn]
	if len(sig.Results) > 0 {
		// registered before the arguments are drawn: a body may refer to its own declaration (recursive types)
		s.decls = append(s.decls, decl{c.N, isDataTypeResult(sig.Results[0]), sig.Results[0]})
	}
	s.ctx = append(s.ctx, fn)
	defer func() { s.ctx = s.ctx[:len(s.ctx)-1] }()
	for _, p := range sig.Params {
		if !p.Variadic {
			c.Args = append(c.Args, s.arg(p, fn, depth, argDepth))
			continue
		}
		if p.Type == "any" && s.r.Chance(3, 5) {
			// the documented shape of most variadic tails: [type] [description] [func]
			if s.r.Chance(2, 3) {
				c.Args = append(c.Args, s.dataType(fn, depth, argDepth))
			}
			if s.r.Chance(1, 4) {
				c.Args = append(c.Args, &prog.Arg{K: prog.Str, S: "a description"})
			}
			if s.r.Chance(2, 3) {
				c.Args = append(c.Args, s.fn(fn, depth))
			}
			continue
		}
		k := s.r.Intn(4)
		for i := 0; i < k; i++ {
			c.Args = append(c.Args, s.arg(p, fn, depth, argDepth))
		}
	}
	return c
}

var (
	identPool = []string{"a", "b", "id", "name", "T1", "T2", "R1", "default", "tiny", "not_found", "basic", "jwt", "svc", "m1", "key"}
	miscPool  = []string{"", "no_such", "application/vnd.r1", "application/vnd.r1+json; view=tiny", "application/json", "id:X-Id", "a:b:c",
		"struct:field:name", "struct:pkg:path", "struct:error:name", "rpc:tag", "openapi:generate", "type:generate:force", "view", "date", "^a+$", "(", "*", "1",
		"\x00", "Ünï cødé", strings.Repeat("x", 300), "a b", "A", "Authorization", "{id}", "/", "#ref", "goa.design/goa/v3", "string", "int",
		"T1", "application/vnd.goa.error", "header:X", "api_key", "read", "a description"}
	pathPool = []string{"/", "/x", "/x/{id}", "/{*p}", "/x/{id}/{id}", "{a}", "//", "/{", "/x/{no_such}", "", "/x/{id:X}", "x", "/{*a}/{*b}", "/x?y=1", "/{a}/{b}"}
	urlPool  = []string{"http://example.com", "https://{v}.example.com/{v2}", "grpc://h:8080", "grpcs://h", ":::", "", "http://", "localhost",
		"http://h/{*p}", "ftp://x", "http://{v}:{port}"}
	fmtPool  = []string{"date", "date-time", "uuid", "email", "hostname", "ipv4", "ipv6", "ip", "uri", "mac", "cidr", "regexp", "json", "rfc1123", "no_such_format", ""}
	intPool  = []int64{0, 1, 2, 3, -1, 200, 204, 404, 500, 99, 600, 5, 16, 17, 1 << 40, -200}
	primPool = []string{"Boolean", "Int", "Int32", "Int64", "UInt", "UInt32", "UInt64", "Float32", "Float64", "String", "Bytes", "Any"}
	verbs    = map[string]bool{"GET": true, "HEAD": true, "POST": true, "PUT": true, "DELETE": true, "CONNECT": true, "OPTIONS": true, "TRACE": true, "PATCH": true}
)

func (s *pstate) str(p Param, fn string) *prog.Arg {
	pn := strings.ToLower(p.Name)
	switch {
	case (strings.Contains(pn, "path") || verbs[fn] || pn == "val" && fn == "Path") && s.r.Chance(7, 10):
		return &prog.Arg{K: prog.Str, S: pickS(s.r, pathPool)}
	case (strings.Contains(pn, "url") || strings.Contains(pn, "uri")) && s.r.Chance(7, 10):
		return &prog.Arg{K: prog.Str, S: pickS(s.r, urlPool)}
	}
	if s.r.Chance(11, 20) {
		return &prog.Arg{K: prog.Str, S: pickS(s.r, identPool)}
	}
	return &prog.Arg{K: prog.Str, S: pickS(s.r, miscPool)}
}

// fn draws a func() argument whose body runs child calls.
func (s *pstate) fn(parent string, depth int) *prog.Arg {
	a := &prog.Arg{K: prog.Func}
	if depth >= MaxDepth {
		return a
	}
	k := s.r.Range(0, 4)
	for i := 0; i < k && s.budget > 0; i++ {
		a.Body = append(a.Body, s.call(s.pick(parent), depth+1, 0))
	}
	return a
}

func (s *pstate) ref(typesOnly bool) *prog.Arg {
	var cand []int
	for _, d := range s.decls {
		if d.isType || !typesOnly {
			cand = append(cand, d.n)
		}
	}
	if len(cand) == 0 {
		return &prog.Arg{K: prog.Nil}
	}
	return &prog.Arg{K: prog.Ref, I: int64(cand[s.r.Intn(len(cand))])}
}

func (s *pstate) argCall(fns []string, depth, argDepth int) *prog.Arg {
	if s.budget <= 0 || argDepth >= 2 || len(fns) == 0 {
		return &prog.Arg{K: prog.Prim, S: pickS(s.r, primPool)}
	}
	return &prog.Arg{K: prog.CallK, Call: s.call(pickS(s.r, fns), depth, argDepth+1)}
}

// dataType draws a dsl data type value.
func (s *pstate) dataType(fn string, depth, argDepth int) *prog.Arg {
	switch c := s.r.Intn(100); {
	case c < 45:
		return &prog.Arg{K: prog.Prim, S: pickS(s.r, primPool)}
	case c < 68:
		return s.argCall(s.g.typeFns, depth, argDepth)
	case c < 88:
		return s.ref(true)
	case c < 92:
		return &prog.Arg{K: prog.Prim, S: s.r.Pick("Empty", "ErrorResult")}
	case c < 96:
		return &prog.Arg{K: prog.Str, S: pickS(s.r, identPool)} // a type referred to by name
	}
	return &prog.Arg{K: prog.Nil}
}

func (s *pstate) scalar() *prog.Arg {
	if s.r.Chance(1, 12) {
		return &prog.Arg{K: prog.Bytes, S: s.r.Pick("a", "b", "")}
	}
	switch s.r.Intn(5) {
	case 0:
		return &prog.Arg{K: prog.Int, I: intPool[s.r.Intn(len(intPool))]}
	case 1:
		return &prog.Arg{K: prog.Float, F: []float64{0, 1.5, -2.25, 1e300, 0.1}[s.r.Intn(5)]}
	case 2:
		return &prog.Arg{K: prog.Bool, B: s.r.Bool()}
	case 3:
		return &prog.Arg{K: prog.Nil}
	}
	return &prog.Arg{K: prog.Str, S: pickS(s.r, identPool)}
}

func (s *pstate) anyArg(p Param, fn string, depth, argDepth int) *prog.Arg {
	switch c := s.r.Intn(100); {
	case c < 26:
		return s.fn(fn, depth)
	case c < 44:
		return s.dataType(fn, depth, argDepth)
	case c < 60:
		return s.str(p, fn)
	case c < 68:
		return s.argCall(s.g.valueFns, depth, argDepth)
	case c < 76:
		return s.ref(false)
	case c < 84:
		return &prog.Arg{K: prog.Int, I: intPool[s.r.Intn(len(intPool))]}
	case c < 88:
		return &prog.Arg{K: prog.Nil}
	case c < 90:
		return &prog.Arg{K: prog.Float, F: []float64{0, 1.5, -2.25, 1e300, 0.1}[s.r.Intn(5)]}
	case c < 92:
		return &prog.Arg{K: prog.Bool, B: s.r.Bool()}
	case c < 94:
		a := &prog.Arg{K: prog.List}
		for i, k := 0, s.r.Intn(4); i < k; i++ {
			a.Items = append(a.Items, s.scalar())
		}
		return a
	case c < 95:
		a := &prog.Arg{K: prog.Strs}
		for i, k := 0, s.r.Intn(3); i < k; i++ {
			a.Items = append(a.Items, &prog.Arg{K: prog.Str, S: pickS(s.r, identPool)})
		}
		return a
	case c < 96:
		a := &prog.Arg{K: prog.Map}
		for i, k := 0, s.r.Intn(3); i < k; i++ {
			a.Items = append(a.Items, &prog.Arg{K: prog.Str, S: pickS(s.r, identPool)}, s.scalar())
		}
		return a
	case c < 98:
		return &prog.Arg{K: prog.Struct, S: s.r.Pick("plain", "ptr", "nested")}
	case c < 99:
		return &prog.Arg{K: prog.Fmt, S: pickS(s.r, fmtPool)}
	}
	return &prog.Arg{K: prog.Rnd}
}

// arg draws a value for one parameter from its static type.
func (s *pstate) arg(p Param, fn string, depth, argDepth int) *prog.Arg {
	switch p.Type {
	case "string":
		return s.str(p, fn)
	case "int":
		return &prog.Arg{K: prog.Int, I: intPool[s.r.Intn(len(intPool))]}
	case "bool":
		return &prog.Arg{K: prog.Bool, B: s.r.Bool()}
	case "float64":
		return &prog.Arg{K: prog.Float, F: 1.5}
	case "func()":
		if s.r.Chance(1, 12) {
			return &prog.Arg{K: prog.Nil}
		}
		return s.fn(fn, depth)
	case "any":
		return s.anyArg(p, fn, depth, argDepth)
	case "[]string":
		return &prog.Arg{K: prog.Strs, Items: []*prog.Arg{{K: prog.Str, S: pickS(s.r, identPool)}}}
	case "expr.DataType":
		return s.dataType(fn, depth, argDepth)
	case "expr.ValidationFormat":
		return &prog.Arg{K: prog.Str, S: pickS(s.r, fmtPool)}
	case "expr.CookieSameSiteValue":
		return &prog.Arg{K: prog.Str, S: s.r.Pick("strict", "lax", "none", "default", "", "no_such")}
	case "expr.Randomizer":
		if s.r.Chance(1, 3) {
			return &prog.Arg{K: prog.Nil}
		}
		return &prog.Arg{K: prog.Rnd}
	}
	// a parameter type this generator does not know (new in goa): its zero value
	return &prog.Arg{K: prog.Nil}
}

// UnknownParamTypes lists parameter types the generator only feeds zero values.
func (g *Gen) UnknownParamTypes() []string {
	known := map[string]bool{"string": true, "int": true, "bool": true, "float64": true, "func()": true, "any": true, "[]string": true,
		"expr.DataType": true, "expr.ValidationFormat": true, "expr.CookieSameSiteValue": true, "expr.Randomizer": true}
	seen := map[string]bool{}
	var out []string
	for _, s := range g.Sigs {
		for _, p := range s.Params {
			if !known[p.Type] && !seen[p.Type] {
				seen[p.Type] = true
				out = append(out, p.Type)
			}
		}
	}
	return out
}
