// Package prog holds the data model of a chaos DSL program: a tree of
// (function, arguments, nested func() bodies). It is shared by the generator
// (parent process) and the interpreter (child process) and depends on nothing.
package prog

import (
	"fmt"
	"sort"
	"strconv"
	"strings"
)

// Argument kinds.
const (
	Str    = "str"    // S
	Int    = "int"    // I
	Float  = "float"  // F
	Bool   = "bool"   // B
	Bytes  = "bytes"  // S -> []byte(S): a value of an uncomparable type
	Nil    = "nil"    // untyped nil
	Prim   = "prim"   // S = Boolean Int ... Any Bytes Empty ErrorResult
	Fmt    = "fmt"    // S = typed expr.ValidationFormat value
	CallK  = "call"   // Call: first result of a nested dsl call evaluated in argument position
	Ref    = "ref"    // I = call number: first result of an earlier call (nil when not executed yet)
	Func   = "func"   // Body: func() { ... }
	List   = "list"   // Items -> []any
	Strs   = "strs"   // Items(str) -> []string
	Map    = "map"    // Items (pairs k,v) -> map[string]any
	Struct = "struct" // S = plain|ptr|nested : a Go struct value (ConvertTo/CreateFrom style)
	Rnd    = "rnd"    // an expr.Randomizer value
)

// Program is one DSL program: the calls made at package level, in order.
type Program struct {
	ID    int     `json:"id"`
	Mode  string  `json:"mode,omitempty"` // how it was drawn: wild | tidy (evidence only)
	Calls []*Call `json:"calls"`
}

// Call is one invocation of an exported function of package dsl.
type Call struct {
	N    int    `json:"n"` // call number, unique in the program (pre-order)
	Fn   string `json:"fn"`
	Args []*Arg `json:"args,omitempty"`
}

// Arg is one argument value.
type Arg struct {
	K     string  `json:"k"`
	S     string  `json:"s,omitempty"`
	I     int64   `json:"i,omitempty"`
	F     float64 `json:"f,omitempty"`
	B     bool    `json:"b,omitempty"`
	Call  *Call   `json:"call,omitempty"`
	Body  []*Call `json:"body,omitempty"`
	Items []*Arg  `json:"items,omitempty"`
}

// Walk visits every call of the program in pre-order with its static nesting
// depth and the name of the enclosing function ("" at top level; argument
// position calls are reported with outer = the function they are an argument of).
func (p *Program) Walk(f func(c *Call, outer string, depth int)) {
	var wc func(c *Call, outer string, depth int)
	var wa func(a *Arg, outer string, depth int)
	wa = func(a *Arg, outer string, depth int) {
		if a == nil {
			return
		}
		if a.Call != nil {
			wc(a.Call, outer, depth)
		}
		for _, c := range a.Body {
			wc(c, outer, depth+1)
		}
		for _, it := range a.Items {
			wa(it, outer, depth)
		}
	}
	wc = func(c *Call, outer string, depth int) {
		f(c, outer, depth)
		for _, a := range c.Args {
			wa(a, c.Fn, depth)
		}
	}
	for _, c := range p.Calls {
		wc(c, "", 0)
	}
}

// NumCalls counts the calls of the program.
func (p *Program) NumCalls() int {
	n := 0
	p.Walk(func(*Call, string, int) { n++ })
	return n
}

// Funcs returns the sorted multiset of function names called (statically).
func (p *Program) Funcs() []string {
	var fs []string
	p.Walk(func(c *Call, _ string, _ int) { fs = append(fs, c.Fn) })
	sort.Strings(fs)
	return fs
}

// referenced returns the call numbers some Ref argument points at.
func (p *Program) referenced() map[int]bool {
	m := map[int]bool{}
	var wa func(a *Arg)
	var wc func(c *Call)
	wa = func(a *Arg) {
		if a == nil {
			return
		}
		if a.K == Ref {
			m[int(a.I)] = true
		}
		if a.Call != nil {
			wc(a.Call)
		}
		for _, c := range a.Body {
			wc(c)
		}
		for _, it := range a.Items {
			wa(it)
		}
	}
	wc = func(c *Call) {
		for _, a := range c.Args {
			wa(a)
		}
	}
	for _, c := range p.Calls {
		wc(c)
	}
	return m
}

// GoSource renders the program as (pseudo) Go DSL source for witnesses: the
// text a user would have written in a design package with `. "goa.design/goa/v3/dsl"`.
// vN names the first result of call N (declared at package level, nil until assigned).
func (p *Program) GoSource() string {
	var b strings.Builder
	refs := p.referenced()
	if len(refs) > 0 {
		ns := make([]int, 0, len(refs))
		for n := range refs {
			ns = append(ns, n)
		}
		sort.Ints(ns)
		parts := make([]string, len(ns))
		for i, n := range ns {
			parts[i] = fmt.Sprintf("v%d", n)
		}
		fmt.Fprintf(&b, "var %s any // first result of call N, nil until that call ran\n", strings.Join(parts, ", "))
	}
	for _, c := range p.Calls {
		writeCall(&b, c, 0, refs, true)
		b.WriteByte('\n')
	}
	return b.String()
}

func writeCall(b *strings.Builder, c *Call, ind int, refs map[int]bool, stmt bool) {
	if stmt {
		b.WriteString(strings.Repeat("\t", ind))
	}
	if refs[c.N] {
		if stmt {
			fmt.Fprintf(b, "v%d = ", c.N)
		} else {
			fmt.Fprintf(b, "/*v%d=*/", c.N)
		}
	}
	b.WriteString(c.Fn)
	b.WriteByte('(')
	for i, a := range c.Args {
		if i > 0 {
			b.WriteString(", ")
		}
		writeArg(b, a, ind, refs)
	}
	b.WriteByte(')')
}

func writeArg(b *strings.Builder, a *Arg, ind int, refs map[int]bool) {
	if a == nil {
		b.WriteString("nil")
		return
	}
	switch a.K {
	case Str:
		s := a.S
		if len(s) > 120 {
			fmt.Fprintf(b, "strings.Repeat(%s, %d)", strconv.Quote(s[:1]), len(s))
			return
		}
		b.WriteString(strconv.Quote(s))
	case Int:
		b.WriteString(strconv.FormatInt(a.I, 10))
	case Float:
		b.WriteString(strconv.FormatFloat(a.F, 'g', -1, 64))
	case Bool:
		b.WriteString(strconv.FormatBool(a.B))
	case Bytes:
		b.WriteString("[]byte(" + strconv.Quote(a.S) + ")")
	case Nil:
		b.WriteString("nil")
	case Prim:
		b.WriteString(a.S)
	case Fmt:
		fmt.Fprintf(b, "expr.ValidationFormat(%s)", strconv.Quote(a.S))
	case CallK:
		writeCall(b, a.Call, ind, refs, false)
	case Ref:
		fmt.Fprintf(b, "v%d", a.I)
	case Func:
		if len(a.Body) == 0 {
			b.WriteString("func() {}")
			return
		}
		b.WriteString("func() {\n")
		for _, c := range a.Body {
			writeCall(b, c, ind+1, refs, true)
			b.WriteByte('\n')
		}
		b.WriteString(strings.Repeat("\t", ind))
		b.WriteString("}")
	case List, Strs:
		if a.K == Strs {
			b.WriteString("[]string{")
		} else {
			b.WriteString("[]any{")
		}
		for i, it := range a.Items {
			if i > 0 {
				b.WriteString(", ")
			}
			writeArg(b, it, ind, refs)
		}
		b.WriteString("}")
	case Map:
		b.WriteString("map[string]any{")
		for i := 0; i+1 < len(a.Items); i += 2 {
			if i > 0 {
				b.WriteString(", ")
			}
			writeArg(b, a.Items[i], ind, refs)
			b.WriteString(": ")
			writeArg(b, a.Items[i+1], ind, refs)
		}
		b.WriteString("}")
	case Struct:
		switch a.S {
		case "ptr":
			b.WriteString("&struct{ Name string; Count int }{}")
		case "nested":
			b.WriteString("struct{ Inner *struct{ A []string }; M map[string]int }{}")
		default:
			b.WriteString("struct{ Name string; Count int }{}")
		}
	case Rnd:
		b.WriteString("expr.NewDeterministicRandomizer()")
	default:
		fmt.Fprintf(b, "/*?%s*/nil", a.K)
	}
}
