// Package runner is the CHILD side of the chaos fuzzer: it interprets a batch
// of programs (package prog) by calling the real goa dsl functions through
// reflection, one program after a full reset of goa's design state, and
// records what happened. It is linked into a scratch main package together with
// a freshly generated table of all exported functions of package dsl.
//
// It judges nothing: the oracle lives in the parent (cmd/mon-c12).
package runner

import (
	"bufio"
	"encoding/json"
	"errors"
	"fmt"
	"io"
	"os"
	"reflect"
	"runtime"
	"runtime/debug"
	"runtime/pprof"
	"sort"
	"strconv"
	"strings"
	"time"

	"goa.design/goa/v3/codegen/generator"
	"goa.design/goa/v3/eval"
	"goa.design/goa/v3/expr"

	"verif.local/lab/chaos/prog"
)

// VErr is one entry of an eval.ValidationErrors.
type VErr struct {
	Expr     string `json:"expr"`      // EvalName() of the expression the error is attached to
	ExprType string `json:"expr_type"` // its Go type
	Msg      string `json:"msg"`
}

// ErrInfo is one error of the list returned by eval.RunDSL.
type ErrInfo struct {
	Text       string `json:"text"`
	File       string `json:"file,omitempty"`
	Line       int    `json:"line,omitempty"`
	Kind       string `json:"kind"` // dsl (ReportError & co) | validation | plain
	Validation []VErr `json:"validation,omitempty"`
}

// Result is what one program did.
type Result struct {
	ID      int       `json:"id"`
	Outcome string    `json:"outcome"`         // accepted | rejected | panic
	Phase   string    `json:"phase,omitempty"` // dsl | eval | errtext  (where the panic escaped)
	Panic   string    `json:"panic,omitempty"`
	Stack   string    `json:"stack,omitempty"`
	Top     string    `json:"top,omitempty"` // dsl function at the top of the program's call stack when the panic started
	ErrText string    `json:"err_text,omitempty"`
	Errors  []ErrInfo `json:"errors,omitempty"`
	Called  []string  `json:"called,omitempty"` // distinct dsl functions actually invoked
	Pairs   []string  `json:"pairs,omitempty"`  // distinct "outer>inner" dynamic nestings
	NCalls  int       `json:"ncalls"`           // dynamic number of dsl calls
	Micros  int64     `json:"micros"`
	Gen     string    `json:"gen,omitempty"` // generator stage on accepted designs: ok | error | panic:<text>
	GenSite string    `json:"gen_site,omitempty"`
}

type state struct {
	table  map[string]reflect.Value
	vals   map[int]reflect.Value
	stack  []string
	top    string // set when a panic unwinds through invoke
	called map[string]struct{}
	pairs  map[string]struct{}
	ncalls int
}

var prims = map[string]any{
	"Boolean": expr.Boolean, "Int": expr.Int, "Int32": expr.Int32, "Int64": expr.Int64, "UInt": expr.UInt,
	"UInt32": expr.UInt32, "UInt64": expr.UInt64, "Float32": expr.Float32, "Float64": expr.Float64,
	"String": expr.String, "Bytes": expr.Bytes, "Any": expr.Any,
}

type plainStruct struct {
	Name  string
	Count int
}
type nestedStruct struct {
	Inner *struct{ A []string }
	M     map[string]int
}

// Main runs the batch: runner <programs.jsonl> <progress.log> <results.jsonl> [genEvery]
func Main(table map[string]any) {
	debug.SetMaxStack(64 << 20) // unbounded recursion becomes a fatal error quickly
	if len(os.Args) < 4 {
		fmt.Fprintln(os.Stderr, "usage: runner programs progress results [genEvery]")
		os.Exit(64)
	}
	genEvery := 0
	if len(os.Args) > 4 {
		genEvery, _ = strconv.Atoi(os.Args[4])
	}
	go memoryGuard()
	in, err := os.Open(os.Args[1])
	if err != nil {
		fmt.Fprintln(os.Stderr, err)
		os.Exit(64)
	}
	progress, err := os.OpenFile(os.Args[2], os.O_CREATE|os.O_WRONLY|os.O_APPEND, 0o644)
	if err != nil {
		fmt.Fprintln(os.Stderr, err)
		os.Exit(64)
	}
	results, err := os.OpenFile(os.Args[3], os.O_CREATE|os.O_WRONLY|os.O_APPEND, 0o644)
	if err != nil {
		fmt.Fprintln(os.Stderr, err)
		os.Exit(64)
	}
	tv := make(map[string]reflect.Value, len(table))
	for k, f := range table {
		tv[k] = reflect.ValueOf(f)
	}
	sc := bufio.NewScanner(in)
	sc.Buffer(make([]byte, 1<<20), 64<<20)
	for sc.Scan() {
		line := sc.Bytes()
		if len(line) == 0 {
			continue
		}
		var p prog.Program
		if err := json.Unmarshal(line, &p); err != nil {
			fmt.Fprintln(os.Stderr, "bad program:", err)
			os.Exit(64)
		}
		// the id is logged BEFORE the program runs so that a crash names its program
		fmt.Fprintf(progress, "%d\n", p.ID)
		res := runOne(tv, &p, genEvery > 0 && p.ID%genEvery == 0)
		b, _ := json.Marshal(res)
		b = append(b, '\n')
		if _, err := results.Write(b); err != nil {
			fmt.Fprintln(os.Stderr, err)
			os.Exit(64)
		}
	}
	fmt.Fprintf(progress, "done\n")
}

// memoryGuard turns unbounded allocation into a quick, attributable death.
func memoryGuard() {
	var ms runtime.MemStats
	for {
		time.Sleep(100 * time.Millisecond)
		runtime.ReadMemStats(&ms)
		if ms.HeapAlloc > 6<<30 {
			fmt.Fprintf(os.Stderr, "CHAOS-MEMORY-GUARD heap=%d\n", ms.HeapAlloc)
			_ = pprof.Lookup("goroutine").WriteTo(os.Stderr, 2)
			os.Exit(97)
		}
	}
}

// reset puts goa's design state back to what a fresh process has.
func reset() {
	eval.Reset()
	expr.Root = new(expr.RootExpr)
	expr.GeneratedResultTypes = new(expr.ResultTypesRoot)
	if err := eval.Register(expr.Root); err != nil {
		panic(err)
	}
	if err := eval.Register(expr.GeneratedResultTypes); err != nil {
		panic(err)
	}
}

func runOne(table map[string]reflect.Value, p *prog.Program, gen bool) *Result {
	reset()
	st := &state{table: table, vals: map[int]reflect.Value{}, called: map[string]struct{}{}, pairs: map[string]struct{}{}}
	res := &Result{ID: p.ID}
	t0 := time.Now()
	var runErr error
	guard := func(phase string, f func()) bool {
		ok := true
		func() {
			defer func() {
				if x := recover(); x != nil {
					ok = false
					res.Outcome = "panic"
					res.Phase = phase
					res.Panic = fmt.Sprint(x)
					res.Stack = string(debug.Stack())
					res.Top = st.top
				}
			}()
			f()
		}()
		return ok
	}
	if guard("dsl", func() {
		for _, c := range p.Calls {
			st.invoke(c)
		}
	}) && guard("eval", func() { runErr = eval.RunDSL() }) {
		if runErr == nil {
			res.Outcome = "accepted"
		} else {
			res.Outcome = "rejected"
			guard("errtext", func() { describe(res, runErr) })
		}
	}
	res.Micros = time.Since(t0).Microseconds()
	res.NCalls = st.ncalls
	for k := range st.called {
		res.Called = append(res.Called, k)
	}
	sort.Strings(res.Called)
	for k := range st.pairs {
		res.Pairs = append(res.Pairs, k)
	}
	sort.Strings(res.Pairs)
	if res.Outcome == "accepted" && gen {
		generate(res)
	}
	return res
}

// describe records the error list exactly as goa presents it.
func describe(res *Result, err error) {
	res.ErrText = err.Error()
	var me eval.MultiError
	if !errors.As(err, &me) {
		res.Errors = []ErrInfo{{Text: err.Error(), Kind: "plain"}}
		return
	}
	for _, e := range me {
		if e == nil {
			res.Errors = append(res.Errors, ErrInfo{Kind: "dsl"})
			continue
		}
		ei := ErrInfo{Text: e.Error(), File: e.File, Line: e.Line, Kind: "dsl"}
		var ve *eval.ValidationErrors
		if e.GoError != nil && errors.As(e.GoError, &ve) {
			ei.Kind = "validation"
			for i, x := range ve.Errors {
				v := VErr{}
				if x != nil {
					v.Msg = x.Error()
				}
				if i < len(ve.Expressions) && ve.Expressions[i] != nil {
					v.Expr = ve.Expressions[i].EvalName()
					v.ExprType = fmt.Sprintf("%T", ve.Expressions[i])
				}
				ei.Validation = append(ei.Validation, v)
			}
		}
		res.Errors = append(res.Errors, ei)
	}
}

// generate passes an accepted design to the code generators (C01's clause); counters only.
func generate(res *Result) {
	defer func() {
		if x := recover(); x != nil {
			res.Gen = "panic:" + fmt.Sprint(x)
			res.GenSite = string(debug.Stack())
		}
	}()
	roots, err := eval.Context.Roots()
	if err != nil {
		res.Gen = "error"
		return
	}
	gens, err := generator.Generators("gen")
	if err != nil {
		res.Gen = "error"
		return
	}
	for _, g := range gens {
		files, err := g("chaosrun/gen", roots)
		if err != nil {
			res.Gen = "error"
			return
		}
		for _, f := range files {
			for _, s := range f.SectionTemplates {
				if err := s.Write(io.Discard); err != nil {
					res.Gen = "error"
					return
				}
			}
		}
	}
	res.Gen = "ok"
}

// invoke calls one dsl function and returns its first result (invalid Value if none).
func (st *state) invoke(c *prog.Call) reflect.Value {
	fn, ok := st.table[c.Fn]
	if !ok || fn.Kind() != reflect.Func {
		return reflect.Value{}
	}
	ft := fn.Type()
	nfixed := ft.NumIn()
	if ft.IsVariadic() {
		nfixed--
	}
	// arguments are evaluated left to right before the call, as in Go
	in := make([]reflect.Value, 0, len(c.Args))
	for i := 0; i < nfixed; i++ {
		var a *prog.Arg
		if i < len(c.Args) {
			a = c.Args[i]
		}
		in = append(in, st.value(a, ft.In(i)))
	}
	if ft.IsVariadic() {
		et := ft.In(nfixed).Elem()
		for i := nfixed; i < len(c.Args); i++ {
			in = append(in, st.value(c.Args[i], et))
		}
	}
	outer := ""
	if n := len(st.stack); n > 0 {
		outer = st.stack[n-1]
	}
	st.called[c.Fn] = struct{}{}
	st.pairs[outer+">"+c.Fn] = struct{}{}
	st.ncalls++
	st.stack = append(st.stack, c.Fn)
	done := false
	defer func() {
		if !done && st.top == "" {
			st.top = c.Fn // innermost program call a panic is unwinding through
		}
		st.stack = st.stack[:len(st.stack)-1]
	}()
	out := fn.Call(in)
	done = true
	if len(out) == 0 {
		return reflect.Value{}
	}
	st.vals[c.N] = out[0]
	return out[0]
}

// value builds the Go value of an argument for a parameter of static type t.
// A value that is not assignable to t (cannot be written in Go) becomes t's zero value.
func (st *state) value(a *prog.Arg, t reflect.Type) reflect.Value {
	zero := reflect.Zero(t)
	if a == nil {
		return zero
	}
	var v reflect.Value
	switch a.K {
	case prog.Str:
		v = reflect.ValueOf(a.S)
	case prog.Int:
		v = reflect.ValueOf(int(a.I))
	case prog.Float:
		v = reflect.ValueOf(a.F)
	case prog.Bool:
		v = reflect.ValueOf(a.B)
	case prog.Bytes:
		v = reflect.ValueOf([]byte(a.S))
	case prog.Nil:
		return zero
	case prog.Prim:
		switch a.S {
		case "Empty":
			v = reflect.ValueOf(expr.Empty)
		case "ErrorResult":
			v = reflect.ValueOf(expr.ErrorResult)
		default:
			p, ok := prims[a.S]
			if !ok {
				return zero
			}
			v = reflect.ValueOf(p)
		}
	case prog.Fmt:
		v = reflect.ValueOf(expr.ValidationFormat(a.S))
	case prog.CallK:
		if a.Call == nil {
			return zero
		}
		v = st.invoke(a.Call)
	case prog.Ref:
		v = st.vals[int(a.I)]
	case prog.Func:
		body := a.Body
		f := func() {
			for _, c := range body {
				st.invoke(c)
			}
		}
		v = reflect.ValueOf(f)
	case prog.List:
		l := make([]any, 0, len(a.Items))
		for _, it := range a.Items {
			l = append(l, st.iface(it))
		}
		v = reflect.ValueOf(l)
	case prog.Strs:
		l := make([]string, 0, len(a.Items))
		for _, it := range a.Items {
			l = append(l, it.S)
		}
		v = reflect.ValueOf(l)
	case prog.Map:
		m := map[string]any{}
		for i := 0; i+1 < len(a.Items); i += 2 {
			m[a.Items[i].S] = st.iface(a.Items[i+1])
		}
		v = reflect.ValueOf(m)
	case prog.Struct:
		switch a.S {
		case "ptr":
			v = reflect.ValueOf(&plainStruct{})
		case "nested":
			v = reflect.ValueOf(nestedStruct{})
		default:
			v = reflect.ValueOf(plainStruct{})
		}
	case prog.Rnd:
		v = reflect.ValueOf(expr.NewDeterministicRandomizer())
	default:
		return zero
	}
	if !v.IsValid() {
		return zero
	}
	// a nil interface result (e.g. Type(...) returning a nil UserType) is an untyped nil
	if v.Kind() == reflect.Interface {
		if v.IsNil() {
			return zero
		}
		v = v.Elem()
	}
	vt := v.Type()
	switch {
	case vt.AssignableTo(t):
		return v
	case t.Kind() != reflect.Interface && vt.ConvertibleTo(t) && vt.Kind() == t.Kind():
		// named string/int types such as expr.ValidationFormat: an untyped constant converts
		return v.Convert(t)
	}
	return zero
}

func (st *state) iface(a *prog.Arg) any {
	v := st.value(a, reflect.TypeOf((*any)(nil)).Elem())
	if !v.IsValid() || (v.Kind() == reflect.Interface && v.IsNil()) {
		return nil
	}
	return v.Interface()
}

// TrimStack shortens a stack for witnesses.
func TrimStack(s string, n int) string {
	if len(s) > n {
		return s[:n] + "\n...[truncated]"
	}
	return strings.TrimSpace(s)
}
