package chaos

import (
	"encoding/json"

	"verif.local/lab/chaos/prog"
)

func clone(p *prog.Program) *prog.Program {
	b, _ := json.Marshal(p)
	var q prog.Program
	_ = json.Unmarshal(b, &q)
	return &q
}

// shrinkAt applies the k-th simplification (in a fixed enumeration order) to a
// copy of p; ok is false when k is past the last one.
func (g *Gen) shrinkAt(p *prog.Program, k int) (q *prog.Program, ok bool) {
	q = clone(p)
	n := 0
	hit := func() bool { n++; return n-1 == k }
	var list func(cs *[]*prog.Call) bool
	var call func(c *prog.Call) bool
	var arg func(a *prog.Arg, c *prog.Call, i int) bool
	list = func(cs *[]*prog.Call) bool {
		for i := range *cs {
			if hit() { // drop the call
				*cs = append(append([]*prog.Call{}, (*cs)[:i]...), (*cs)[i+1:]...)
				return true
			}
			// replace the call by the calls of its first non-empty body
			for _, a := range (*cs)[i].Args {
				if a != nil && a.K == prog.Func && len(a.Body) > 0 {
					if hit() {
						nl := append([]*prog.Call{}, (*cs)[:i]...)
						nl = append(nl, a.Body...)
						nl = append(nl, (*cs)[i+1:]...)
						*cs = nl
						return true
					}
					break
				}
			}
			if call((*cs)[i]) {
				return true
			}
		}
		return false
	}
	call = func(c *prog.Call) bool {
		nfixed := 0
		if s := g.by[c.Fn]; s != nil {
			for _, p := range s.Params {
				if !p.Variadic {
					nfixed++
				}
			}
		}
		for i := len(c.Args) - 1; i >= 0; i-- {
			if i >= nfixed && hit() { // drop a variadic argument
				c.Args = append(append([]*prog.Arg{}, c.Args[:i]...), c.Args[i+1:]...)
				return true
			}
			if arg(c.Args[i], c, i) {
				return true
			}
		}
		return false
	}
	arg = func(a *prog.Arg, c *prog.Call, i int) bool {
		if a == nil {
			return false
		}
		switch a.K {
		case prog.Func:
			if len(a.Body) > 0 && hit() {
				a.Body = nil
				return true
			}
			if list(&a.Body) {
				return true
			}
			if len(a.Body) == 0 && hit() {
				c.Args[i] = &prog.Arg{K: prog.Nil}
				return true
			}
		case prog.CallK:
			if hit() {
				c.Args[i] = &prog.Arg{K: prog.Nil}
				return true
			}
			if hit() {
				c.Args[i] = &prog.Arg{K: prog.Prim, S: "String"}
				return true
			}
			if a.Call != nil && call(a.Call) {
				return true
			}
		case prog.Str:
			if a.S != "a" && hit() {
				a.S = "a"
				return true
			}
		case prog.Nil, prog.Prim:
		default:
			if hit() {
				c.Args[i] = &prog.Arg{K: prog.Nil}
				return true
			}
			if hit() {
				c.Args[i] = &prog.Arg{K: prog.Prim, S: "String"}
				return true
			}
		}
		return false
	}
	if list(&q.Calls) {
		return q, true
	}
	return nil, false
}

// Minimize greedily simplifies p while keep(candidate) stays true.
func (g *Gen) Minimize(p *prog.Program, keep func(*prog.Program) bool) *prog.Program {
	cur := clone(p)
	for rounds := 0; rounds < 400; rounds++ {
		progress := false
		for k := 0; ; k++ {
			cand, ok := g.shrinkAt(cur, k)
			if !ok {
				break
			}
			if keep(cand) {
				cur = cand
				progress = true
				break
			}
		}
		if !progress {
			break
		}
	}
	return cur
}
