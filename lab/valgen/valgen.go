// Package valgen draws canonical value trees from spec types: valid values over
// the boundary classes of DESIGN §4, and single-rule violations for C04.
package valgen

import (
	"fmt"
	"math"
	"strings"

	"verif.local/lab/spec"
	"verif.local/lab/vc"
	"verif.local/lab/vtree"
)

// Loc is the wire location class a value travels in (restricts the alphabet).
type Loc int

const (
	Body Loc = iota
	Path
	Query
	Header
	Cookie
)

type G struct {
	S *spec.Spec
	R *vc.Rand
	// Minimal: only required attributes, smallest collections.
	Minimal bool
	// Full: every optional attribute present.
	Full bool
	// MinElems forces at least that many elements in top-level arrays (wire locations where empty == absent).
	MinElems int
	// AltRot > 0 makes the choice of union alternatives systematic: the k-th union value drawn by this generator
	// selects alternative (AltRot-1+k) mod n, so that a case list whose i-th case sets AltRot = i+1 exercises
	// every alternative of every union. 0 = random.
	AltRot  int
	altSeen int
}

var strBody = []string{"plain", "", "a/b?c#d&e=f+g;h,i", "100% sure", "%41", "%2F%2f", " lead and trail ", "héllo wörld ✓ 𝄞", "line\nbreak\ttab", `quote"back\slash`, "<xml>&amp;</xml>", "null", "0", "日本語"}
var strPath = []string{"plain", "a/b", "a b", "100%", "%41", "%2F", "x+y", "héllo✓", "semi;colon,comma", "q?h#f", "a&b=c", "..a", "@:$"}
var strQuery = []string{"plain", "", "a b", "a+b", "a&b=c", "100%", "%41", "héllo✓", "x/y?z#w", "semi;colon", "1,2"}
var strHeader = []string{"plain", "with space", "a,b", "semi; q=1", "%41", "héllo", "tok/en=+", "\"quoted\""}
var strCookie = []string{"plain", "abc-123_x.y", "%41", "A1", "tok~en"}

func (g *G) str(loc Loc) string {
	var pool []string
	switch loc {
	case Path:
		pool = strPath
	case Query:
		pool = strQuery
	case Header:
		pool = strHeader
	case Cookie:
		pool = strCookie
	default:
		pool = strBody
		if g.R.Chance(1, 12) {
			return strings.Repeat("long-", 80)
		}
	}
	return pool[g.R.Intn(len(pool))]
}

var intPool = map[string][]int64{
	spec.Int:   {0, 1, -1, 42, -2147483648, 2147483647, math.MaxInt64, math.MinInt64, 1000000},
	spec.Int32: {0, 1, -1, 42, -2147483648, 2147483647},
	spec.Int64: {0, 1, -1, 42, -2147483649, 2147483648, math.MaxInt64, math.MinInt64, 9007199254740993},
}
var uintPool = map[string][]uint64{
	spec.UInt:   {0, 1, 42, 4294967295, 4294967296, math.MaxUint64},
	spec.UInt32: {0, 1, 42, 4294967295},
	spec.UInt64: {0, 1, 42, 4294967296, math.MaxUint64, 9007199254740993},
}
var f32Pool = []float32{0, 1, -1, 0.5, -0.25, 3.4028235e38, 1.17549435e-38, 16777217, 1e10, 0.1}
var f64Pool = []float64{0, 1, -1, 0.5, -0.25, 1.7976931348623157e308, 5e-324, 9007199254740993, 1e21, 0.1, 1e-7, 123456789.123456789}

var anyPool = []any{"text", float64(12), true, map[string]any{"k": "v", "n": float64(1)}, []any{"a", float64(2), false}, float64(1.5), ""}

// numRange computes the allowed range from validations (own and alias chain).
type bounds struct {
	lo, hi         float64
	loExcl, hiExcl bool
	hasLo, hasHi   bool
}

func mergeVals(vs []*spec.Val) *spec.Val {
	out := &spec.Val{}
	for _, v := range vs {
		if v == nil {
			continue
		}
		if len(v.Enum) > 0 && len(out.Enum) == 0 {
			out.Enum = v.Enum
		}
		if v.Min != nil && (out.Min == nil || *v.Min > *out.Min) {
			out.Min = v.Min
		}
		if v.Max != nil && (out.Max == nil || *v.Max < *out.Max) {
			out.Max = v.Max
		}
		if v.ExclMin != nil && (out.ExclMin == nil || *v.ExclMin > *out.ExclMin) {
			out.ExclMin = v.ExclMin
		}
		if v.ExclMax != nil && (out.ExclMax == nil || *v.ExclMax < *out.ExclMax) {
			out.ExclMax = v.ExclMax
		}
		if v.MinLen != nil && (out.MinLen == nil || *v.MinLen > *out.MinLen) {
			out.MinLen = v.MinLen
		}
		if v.MaxLen != nil && (out.MaxLen == nil || *v.MaxLen < *out.MaxLen) {
			out.MaxLen = v.MaxLen
		}
		if v.Pattern != "" && out.Pattern == "" {
			out.Pattern = v.Pattern
		}
		if v.Format != "" && out.Format == "" {
			out.Format = v.Format
		}
	}
	return out
}

// AllVals returns the validations that apply to a value of type t declared with v.
func AllVals(s *spec.Spec, t *spec.Type, v *spec.Val) []*spec.Val {
	var vs []*spec.Val
	if !v.Empty() {
		vs = append(vs, v)
	}
	return append(vs, s.AliasVals(t)...)
}

// Satisfiable reports whether merged validations admit a value (conservative for enum+other combos).
func Satisfiable(kind string, m *spec.Val) bool {
	if m.Empty() {
		return true
	}
	if spec.IsNumeric(kind) {
		lo, hi := math.Inf(-1), math.Inf(1)
		if m.Min != nil {
			lo = *m.Min
		}
		if m.ExclMin != nil && *m.ExclMin+1e-9 > lo {
			lo = *m.ExclMin + 1
		}
		if m.Max != nil {
			hi = *m.Max
		}
		if m.ExclMax != nil && *m.ExclMax-1e-9 < hi {
			hi = *m.ExclMax - 1
		}
		return lo <= hi
	}
	if m.MinLen != nil && m.MaxLen != nil && *m.MinLen > *m.MaxLen {
		return false
	}
	return true
}

// Valid draws a valid value for (t, v) at the given location.
func (g *G) Valid(t *spec.Type, v *spec.Val, loc Loc, depth int) any {
	rt, _ := g.S.Resolve(t)
	if rt == nil {
		rt = t
	}
	if depth > 14 {
		// a design whose constraints force an infinite value (required recursion through non-empty
		// collections) has no valid instance: give up (the oracles discard cases that do not validate)
		return nil
	}
	vals := AllVals(g.S, t, v)
	m := mergeVals(vals)
	// a value must satisfy every validation of the chain; with several enums etc. we only
	// generate when one merged validation describes them all
	if len(m.Enum) > 0 {
		// pick an enum value satisfying the other constraints if any; generator keeps enums alone
		return m.Enum[g.R.Intn(len(m.Enum))]
	}
	switch rt.Kind {
	case spec.Boolean:
		return vtree.B(g.R.Bool())
	case spec.Int, spec.Int32, spec.Int64, spec.UInt, spec.UInt32, spec.UInt64, spec.Float32, spec.Float64:
		return g.number(rt.Kind, m)
	case spec.String:
		return vtree.S(g.stringFor(m, loc))
	case spec.Bytes:
		n := g.R.Range(0, 6)
		if m.MinLen != nil && n < *m.MinLen {
			n = *m.MinLen
		}
		if m.MaxLen != nil && n > *m.MaxLen {
			n = *m.MaxLen
		}
		if loc != Body {
			// outside the body the bytes travel verbatim as text: text of the location's alphabet
			if m.MinLen == nil && m.MaxLen == nil {
				return vtree.Y([]byte(g.str(loc)))
			}
			t := make([]byte, n)
			for i := range t {
				t[i] = byte('a' + g.R.Intn(26))
			}
			return vtree.Y(t)
		}
		b := make([]byte, n)
		for i := range b {
			b[i] = byte(g.R.Intn(256))
		}
		return vtree.Y(b)
	case spec.Any:
		return vtree.A(anyPool[g.R.Intn(len(anyPool))])
	case spec.Array:
		n := g.R.Range(0, 3)
		if g.Minimal {
			n = 0
		}
		if depth <= 1 && n < g.MinElems {
			n = g.MinElems
		}
		if m.MinLen != nil && n < *m.MinLen {
			n = *m.MinLen
		}
		if m.MaxLen != nil && n > *m.MaxLen {
			n = *m.MaxLen
		}
		if depth > 4 {
			n = 0
			if m.MinLen != nil {
				n = *m.MinLen
			}
		}
		out := make([]any, 0, n)
		for i := 0; i < n; i++ {
			e := g.Valid(rt.Elem.Type, rt.Elem.Val, elemLoc(loc), depth+1)
			if e == nil {
				// elements cannot be absent
				e = g.zero(rt.Elem.Type)
			}
			out = append(out, e)
		}
		return out
	case spec.Map:
		n := g.R.Range(0, 3)
		if g.Minimal {
			n = 0
		}
		if m.MinLen != nil && n < *m.MinLen {
			n = *m.MinLen
		}
		if m.MaxLen != nil && n > *m.MaxLen {
			n = *m.MaxLen
		}
		if depth > 4 {
			// recursion through map values must end: smallest map allowed
			n = 0
			if m.MinLen != nil {
				n = *m.MinLen
			}
		}
		mm := map[string]any{}
		for tries := 0; len(mm) < n && tries < 40; tries++ {
			// keys and elements of a map that travels in the query string are query text themselves
			kl := Body
			if loc == Query {
				kl = Query
			}
			k := g.Valid(rt.Key.Type, rt.Key.Val, kl, depth+1)
			ks, _ := k.(string)
			if ks == "" {
				continue
			}
			if _, dup := mm[ks]; dup {
				continue
			}
			e := g.Valid(rt.Elem.Type, rt.Elem.Val, kl, depth+1)
			if e == nil {
				e = g.zero(rt.Elem.Type)
			}
			mm[ks] = e
		}
		return vtree.MkMap(mm)
	case spec.Object:
		o := map[string]any{}
		for _, a := range rt.Attrs {
			req := rt.IsRequired(a.Name) || a.HasDef // a defaulted attribute is a non-pointer field: always set explicitly
			if at, _ := g.S.Resolve(a.Type); a.HasDef && at != nil && (at.Kind == spec.Array || at.Kind == spec.Map) && !rt.IsRequired(a.Name) {
				req = false // ... except collections, which can be left nil (the default applies)
			}
			if !req {
				if g.Minimal || (!g.Full && g.R.Chance(1, 2)) || depth > 3 {
					continue
				}
			}
			o[a.Name] = g.Valid(a.Type, a.Val, Body, depth+1)
		}
		return o
	case spec.Union:
		idx := g.R.Intn(len(rt.Attrs))
		if g.AltRot > 0 {
			idx = (g.AltRot - 1 + g.altSeen) % len(rt.Attrs)
			g.altSeen++
		}
		alt := rt.Attrs[idx]
		uv := g.Valid(alt.Type, alt.Val, Body, depth+1)
		if uv == nil {
			uv = g.zero(alt.Type) // a union always holds a value
		}
		return map[string]any{"$union": alt.Name, "$value": uv}
	}
	return nil
}

func elemLoc(l Loc) Loc { return l }

func (g *G) zero(t *spec.Type) any {
	rt, _ := g.S.Resolve(t)
	if rt == nil {
		rt = t
	}
	switch rt.Kind {
	case spec.Boolean:
		return vtree.B(false)
	case spec.Int, spec.Int32, spec.Int64:
		return vtree.I(0)
	case spec.UInt, spec.UInt32, spec.UInt64:
		return vtree.U(0)
	case spec.Float32:
		return vtree.F32(0)
	case spec.Float64:
		return vtree.F(0)
	case spec.String:
		return vtree.S("")
	case spec.Bytes:
		return vtree.Y(nil)
	case spec.Any:
		return vtree.A("")
	case spec.Object:
		return map[string]any{}
	}
	return nil
}

func (g *G) number(kind string, m *spec.Val) any {
	if m.Empty() {
		switch kind {
		case spec.Int, spec.Int32, spec.Int64:
			p := intPool[kind]
			return vtree.I(p[g.R.Intn(len(p))])
		case spec.UInt, spec.UInt32, spec.UInt64:
			p := uintPool[kind]
			return vtree.U(p[g.R.Intn(len(p))])
		case spec.Float32:
			return vtree.F32(f32Pool[g.R.Intn(len(f32Pool))])
		default:
			return vtree.F(f64Pool[g.R.Intn(len(f64Pool))])
		}
	}
	// bounded: choose among the boundary points inside the range
	isFloat := kind == spec.Float32 || kind == spec.Float64
	step := 1.0
	if isFloat {
		step = 0.5
	}
	var cands []float64
	lo, hi := math.Inf(-1), math.Inf(1)
	if m.Min != nil {
		lo = *m.Min
		cands = append(cands, lo, lo+step)
	}
	if m.ExclMin != nil {
		if *m.ExclMin+step > lo || math.IsInf(lo, -1) {
			lo = *m.ExclMin + step
		}
		cands = append(cands, *m.ExclMin+step)
	}
	if m.Max != nil {
		hi = *m.Max
		cands = append(cands, hi, hi-step)
	}
	if m.ExclMax != nil {
		if *m.ExclMax-step < hi || math.IsInf(hi, 1) {
			hi = *m.ExclMax - step
		}
		cands = append(cands, *m.ExclMax-step)
	}
	if math.IsInf(lo, -1) {
		cands = append(cands, hi-10)
	}
	if math.IsInf(hi, 1) {
		cands = append(cands, lo+10)
	}
	var ok []float64
	for _, c := range cands {
		if NumOK(c, m) && (kind[0] != 'u' || c >= 0) {
			ok = append(ok, c)
		}
	}
	if len(ok) == 0 {
		return nil
	}
	f := ok[g.R.Intn(len(ok))]
	return LeafNum(kind, f)
}

// NumOK checks numeric constraints.
func NumOK(f float64, m *spec.Val) bool {
	if m.Min != nil && f < *m.Min {
		return false
	}
	if m.Max != nil && f > *m.Max {
		return false
	}
	if m.ExclMin != nil && f <= *m.ExclMin {
		return false
	}
	if m.ExclMax != nil && f >= *m.ExclMax {
		return false
	}
	return true
}

// LeafNum builds a numeric leaf of the given kind.
func LeafNum(kind string, f float64) string {
	switch kind {
	case spec.Float32:
		return vtree.F32(float32(f))
	case spec.Float64:
		return vtree.F(f)
	case spec.UInt, spec.UInt32, spec.UInt64:
		return vtree.U(uint64(f))
	}
	return vtree.I(int64(f))
}

// multi-byte filler so that rune length != byte length
var runes = []string{"a", "é", "✓", "𝄞", "b", "ü"}

func (g *G) runeString(n int, loc Loc) string {
	var b strings.Builder
	for i := 0; i < n; i++ {
		if loc == Cookie {
			b.WriteString("a")
		} else {
			b.WriteString(runes[g.R.Intn(len(runes))])
		}
	}
	return b.String()
}

func (g *G) stringFor(m *spec.Val, loc Loc) string {
	switch {
	case m.Format != "":
		return ValidFormat(g.R, m.Format)
	case m.Pattern != "":
		s := MatchPattern(g.R, m.Pattern)
		if m.MinLen != nil && len(s) < *m.MinLen {
			s = MatchPatternLen(m.Pattern, *m.MinLen)
		}
		return s
	case m.MinLen != nil || m.MaxLen != nil:
		lo, hi := 0, 8
		if m.MinLen != nil {
			lo = *m.MinLen
			if hi < lo {
				hi = lo + 2
			}
		}
		if m.MaxLen != nil {
			hi = *m.MaxLen
		}
		if loc == Path && lo == 0 {
			lo = 1
		}
		if lo > hi {
			return ""
		}
		n := []int{lo, hi, lo, hi, g.R.Range(lo, hi)}[g.R.Intn(5)]
		return g.runeString(n, loc)
	}
	return g.str(loc)
}

// MatchPattern returns a string matching one of gen.Patterns.
func MatchPattern(r *vc.Rand, p string) string {
	switch p {
	case `^[a-z]+$`:
		return r.Pick("a", "abc", "zzzzzzzz")
	case `^[0-9]{2,4}$`:
		return r.Pick("12", "123", "0000")
	case `^a.*z$`:
		return r.Pick("az", "a-z", "a é z")
	case `[A-Z][a-z]`:
		return r.Pick("Ab", "xxAbxx", "ÉAb")
	case `^(foo|bar)[0-9]?$`:
		return r.Pick("foo", "bar", "foo1", "bar9")
	case `^\p{L}+$`:
		return r.Pick("abc", "héllo", "日本")
	}
	return "x"
}

// MatchPatternLen returns a matching string of at least n runes.
func MatchPatternLen(p string, n int) string {
	switch p {
	case `^[a-z]+$`, `^\p{L}+$`:
		return strings.Repeat("a", n)
	case `^a.*z$`:
		return "a" + strings.Repeat("-", n) + "z"
	case `[A-Z][a-z]`:
		return "Ab" + strings.Repeat("x", n)
	}
	return "x"
}

// NoMatchPattern returns a string that does not match the pattern.
func NoMatchPattern(r *vc.Rand, p string) string {
	switch p {
	case `^[a-z]+$`:
		return r.Pick("A", "ab1", "a b", "é")
	case `^[0-9]{2,4}$`:
		return r.Pick("1", "12345", "12a", "٣٤")
	case `^a.*z$`:
		return r.Pick("a", "za", "abc", "a\nz")
	case `[A-Z][a-z]`:
		return r.Pick("ab", "AB", "a", "Éa")
	case `^(foo|bar)[0-9]?$`:
		return r.Pick("fo", "foo12", "baz", "Foo")
	case `^\p{L}+$`:
		return r.Pick("a1", "a b", "✓", "-")
	}
	return ""
}

// ValidFormat returns a well-formed instance of a format.
var validFormats = map[string][]string{
	"date":      {"2024-02-29", "1999-12-31", "2000-01-01"},
	"date-time": {"2024-02-29T23:59:59Z", "1999-12-31T00:00:00+02:00", "2000-01-01T12:30:00.123456789-07:00"},
	"uuid":      {"6ba7b810-9dad-11d1-80b4-00c04fd430c8", "123e4567-e89b-42d3-a456-426614174000"},
	"email":     {"a@b.co", "first.last@example.com", "x+tag@sub.example.org"},
	"hostname":  {"example.com", "a.b.c", "localhost", "xn--bcher-kva.example"},
	"ipv4":      {"127.0.0.1", "255.255.255.255", "0.0.0.0", "192.168.1.10"},
	"ipv6":      {"::1", "2001:db8::8a2e:370:7334", "fe80::1", "2001:0db8:85a3:0000:0000:8a2e:0370:7334"},
	"ip":        {"127.0.0.1", "::1", "10.0.0.1", "2001:db8::1"},
	"uri":       {"http://example.com/a?b=c#d", "https://x.y", "urn:isbn:0451450523", "mailto:a@b.co"},
	"mac":       {"00:1b:63:84:45:e6", "00-1B-63-84-45-E6", "001b.6384.45e6"},
	"cidr":      {"192.168.0.0/16", "10.0.0.0/8", "2001:db8::/32"},
	"regexp":    {"^a+$", "[a-z]{2}", "(x|y)*"},
	"json":      {`{"a":1}`, `[1,2,3]`, `"s"`, `null`, `true`},
	"rfc1123":   {"Mon, 02 Jan 2006 15:04:05 MST", "Thu, 29 Feb 2024 23:59:59 GMT"},
}

func ValidFormat(r *vc.Rand, f string) string {
	p := validFormats[f]
	if len(p) == 0 {
		return "x"
	}
	return p[r.Intn(len(p))]
}

// InvalidFormat returns a string malformed for the format by construction.
var invalidFormats = map[string][]string{
	"date":      {"2024-13-01", "2023-02-30", "24-01-01", "2024/01/01"},
	"date-time": {"2024-02-29 23:59:59", "2024-02-29T24:00:00Z", "2024-02-29T23:59:59", "yesterday"},
	"uuid":      {"6ba7b810-9dad-11d1-80b4-00c04fd430cg", "6ba7b810-9dad-11d1-80b4", "not-a-uuid"},
	"email":     {"a@", "@b.co", "a b@c.d", "plain"},
	// no malformed host names: exactness of the hostname validator is C17's (listed finding); C04 judges only the plumbing
	"hostname": {},
	"ipv4":     {"256.0.0.1", "1.2.3", "1.2.3.4.5", "::1"},
	"ipv6":     {":::1", "2001:db8::g", "127.0.0.1", "1:2:3:4:5:6:7:8:9"},
	"ip":       {"256.0.0.1", ":::1", "localhost", "1.2.3"},
	"uri":      {"://missing-scheme", "http://[::1", "%zz"},
	"mac":      {"00:1b:63:84:45", "00:1b:63:84:45:zz", "001b63844"},
	"cidr":     {"192.168.0.0/33", "10.0.0.0", "2001:db8::/129", "a/b"},
	"regexp":   {"(", "[a-", "a{2,1}", "*"},
	"json":     {`{"a":`, `[1,2`, `{a:1}`, ``},
	"rfc1123":  {"2006-01-02T15:04:05Z", "Mon, 32 Jan 2006 15:04:05 MST", "Monday"},
}

func InvalidFormat(r *vc.Rand, f string) string {
	p := invalidFormats[f]
	if len(p) == 0 {
		return "x"
	}
	return p[r.Intn(len(p))]
}

// Describe renders a short label.
func Describe(v any) string { return fmt.Sprint(vtree.Show(v)) }

// FormatPool returns the by-construction valid or malformed instances of a format.
func FormatPool(f string, valid bool) []string {
	if valid {
		return validFormats[f]
	}
	return invalidFormats[f]
}
