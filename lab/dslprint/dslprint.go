// Package dslprint prints a spec as a Go DSL program (the body of a function
// calling the real goa dsl.* functions). It is the only translator from the
// design intent to what goa sees; replays therefore contain readable DSL.
package dslprint

import (
	"encoding/base64"
	"fmt"
	"sort"
	"strconv"
	"strings"

	"verif.local/lab/spec"
	"verif.local/lab/vtree"
)

type printer struct {
	s   *spec.Spec
	b   strings.Builder
	ind int
}

func (p *printer) ln(format string, a ...any) {
	p.b.WriteString(strings.Repeat("\t", p.ind))
	fmt.Fprintf(&p.b, format, a...)
	p.b.WriteByte('\n')
}

func (p *printer) open(format string, a ...any)  { p.ln(format, a...); p.ind++ }
func (p *printer) close(format string, a ...any) { p.ind--; p.ln(format, a...) }

func q(s string) string { return strconv.Quote(s) }

// TypeVar is the Go variable holding a user type.
func TypeVar(name string) string   { return "T_" + ident(name) }
func schemeVar(name string) string { return "S_" + ident(name) }

func ident(s string) string {
	var b strings.Builder
	for _, r := range s {
		if (r >= 'a' && r <= 'z') || (r >= 'A' && r <= 'Z') || (r >= '0' && r <= '9') || r == '_' {
			b.WriteRune(r)
		} else {
			fmt.Fprintf(&b, "x%X", r)
		}
	}
	return b.String()
}

// Func prints `func <name>() { ... }`.
func Func(s *spec.Spec, name string) string {
	p := &printer{s: s}
	p.open("func %s() {", name)
	p.body()
	p.close("}")
	return p.b.String()
}

// Package prints a complete design package with top-level evaluation (for the real goa CLI).
func Package(s *spec.Spec, pkg string) string {
	return "package " + pkg + "\n\nimport (\n\t. \"goa.design/goa/v3/dsl\"\n\t\"goa.design/goa/v3/expr\"\n)\n\nvar _ expr.UserType\n\nfunc init() { design() }\n\n" + Func(s, "design")
}

// Leaf prints a canonical leaf as a Go literal.
func Leaf(v any) string {
	switch vtree.Kind(v) {
	case "b", "i", "u":
		return vtree.Text(v)
	case "f", "f32":
		t := vtree.Text(v)
		if !strings.ContainsAny(t, ".eEn") {
			t += ".0"
		}
		return t
	case "s":
		return q(vtree.Text(v))
	case "y":
		return q(vtree.Text(v)) // not used for defaults
	}
	switch x := v.(type) {
	case []any:
		parts := make([]string, len(x))
		for i := range x {
			parts[i] = Leaf(x[i])
		}
		return "[]any{" + strings.Join(parts, ", ") + "}"
	}
	return "nil"
}

func (p *printer) body() {
	s := p.s
	// variable declarations first so that closures may refer to any type
	if len(s.Types) > 0 {
		p.open("var (")
		for _, t := range s.Types {
			if t.Kind == "result" {
				p.ln("%s *expr.ResultTypeExpr", TypeVar(t.Name))
			} else {
				p.ln("%s expr.UserType", TypeVar(t.Name))
			}
		}
		p.close(")")
		for _, t := range s.Types {
			p.ln("_ = %s", TypeVar(t.Name))
		}
	}
	for _, sc := range s.Schemes {
		switch sc.Kind {
		case "basic":
			p.ln("var %s = BasicAuthSecurity(%s)", schemeVar(sc.Name), q(sc.Name))
		case "apikey":
			p.ln("var %s = APIKeySecurity(%s)", schemeVar(sc.Name), q(sc.Name))
		case "jwt":
			p.open("var %s = JWTSecurity(%s, func() {", schemeVar(sc.Name), q(sc.Name))
			for _, sp := range sc.Scopes {
				p.ln("Scope(%s, %s)", q(sp), q("scope "+sp))
			}
			p.close("})")
		case "oauth2":
			p.open("var %s = OAuth2Security(%s, func() {", schemeVar(sc.Name), q(sc.Name))
			p.ln("ClientCredentialsFlow(\"http://example.com/token\", \"http://example.com/refresh\")")
			for _, sp := range sc.Scopes {
				p.ln("Scope(%s, %s)", q(sp), q("scope "+sp))
			}
			p.close("})")
		}
		p.ln("_ = %s", schemeVar(sc.Name))
	}
	// API
	p.open("API(%s, func() {", q(s.API.Name))
	if s.API.Title != "" {
		p.ln("Title(%s)", q(s.API.Title))
	}
	if s.API.Version != "" {
		p.ln("Version(%s)", q(s.API.Version))
	}
	p.meta(s.API.Meta)
	for _, e := range s.API.Errors {
		p.errorDecl(e)
	}
	p.security(s.API.Security, false)
	if s.API.BasePath != "" || len(s.API.HTTPErrs) > 0 {
		p.open("HTTP(func() {")
		if s.API.BasePath != "" {
			p.ln("Path(%s)", q(s.API.BasePath))
		}
		for _, he := range s.API.HTTPErrs {
			p.httpError(he)
		}
		p.close("})")
	}
	for _, sv := range s.API.Servers {
		p.open("Server(%s, func() {", q(sv.Name))
		if len(sv.Services) > 0 {
			qs := make([]string, len(sv.Services))
			for i, x := range sv.Services {
				qs[i] = q(x)
			}
			p.ln("Services(%s)", strings.Join(qs, ", "))
		}
		for _, h := range sv.Hosts {
			p.open("Host(%s, func() {", q(h.Name))
			for _, u := range h.URIs {
				p.ln("URI(%s)", q(u))
			}
			p.close("})")
		}
		p.close("})")
	}
	p.close("})")
	// types
	for _, t := range s.Types {
		p.userType(t)
	}
	for _, sv := range s.Services {
		p.service(sv)
	}
}

func (p *printer) meta(m map[string][]string) {
	keys := make([]string, 0, len(m))
	for k := range m {
		keys = append(keys, k)
	}
	sort.Strings(keys)
	for _, k := range keys {
		args := []string{q(k)}
		for _, v := range m[k] {
			args = append(args, q(v))
		}
		p.ln("Meta(%s)", strings.Join(args, ", "))
	}
}

func (p *printer) userType(t *spec.UserType) {
	v := TypeVar(t.Name)
	switch t.Kind {
	case "alias":
		if t.Val.Empty() && len(t.Meta) == 0 && t.AliasDefault == nil {
			p.ln("%s = Type(%s, %s)", v, q(t.Name), p.typeExpr(t.Def))
		} else {
			p.open("%s = Type(%s, %s, func() {", v, q(t.Name), p.typeExpr(t.Def))
			p.validations(t.Def, t.Val)
			if t.AliasDefault != nil {
				p.ln("Default(%s)", Leaf(t.AliasDefault))
			}
			p.meta(t.Meta)
			p.close("})")
		}
	case "result":
		ct := t.ContentType
		if ct == "" {
			ct = "application/vnd." + strings.ToLower(ident(t.Name))
		}
		p.open("%s = ResultType(%s, func() {", v, q(ct))
		p.ln("TypeName(%s)", q(t.Name))
		if t.Extend != "" {
			p.ln("Extend(%s)", TypeVar(t.Extend))
		}
		if t.Reference != "" {
			p.ln("Reference(%s)", TypeVar(t.Reference))
		}
		p.meta(t.Meta)
		p.open("Attributes(func() {")
		p.objectBody(t.Def)
		p.close("})")
		for _, vw := range t.Views {
			p.open("View(%s, func() {", q(vw.Name))
			for _, a := range vw.Attrs {
				if a.View != "" {
					p.ln("Attribute(%s, func() { View(%s) })", q(a.Name), q(a.View))
				} else {
					p.ln("Attribute(%s)", q(a.Name))
				}
			}
			p.close("})")
		}
		p.close("})")
	default:
		if t.Def.Kind != spec.Object {
			// named array/map types
			p.ln("%s = Type(%s, %s)", v, q(t.Name), p.typeExpr(t.Def))
			return
		}
		p.open("%s = Type(%s, func() {", v, q(t.Name))
		if t.Extend != "" {
			p.ln("Extend(%s)", TypeVar(t.Extend))
		}
		if t.Reference != "" {
			p.ln("Reference(%s)", TypeVar(t.Reference))
		}
		p.meta(t.Meta)
		p.objectBody(t.Def)
		p.close("})")
	}
}

func (p *printer) objectBody(t *spec.Type) {
	skipReq := map[string]bool{}
	for _, a := range t.Attrs {
		if a.InhReq {
			skipReq[a.Name] = true
		}
		switch a.Inherit {
		case "extend":
			continue // merged in by Extend(base)
		case "reference":
			// type, validations, default and description come from Reference(base)
			if a.Tag > 0 {
				p.ln("Field(%d, %s)", a.Tag, q(a.Name))
			} else {
				p.ln("Attribute(%s)", q(a.Name))
			}
			continue
		}
		p.attribute(a)
	}
	var qs []string
	for _, r := range t.Required {
		if !skipReq[r] {
			qs = append(qs, q(r))
		}
	}
	if len(qs) > 0 {
		p.ln("Required(%s)", strings.Join(qs, ", "))
	}
}

// typeExpr prints a type usable as an argument (not inline objects).
func (p *printer) typeExpr(t *spec.Type) string {
	switch t.Kind {
	case spec.Array:
		if t.Collection {
			return "CollectionOf(" + TypeVar(t.Elem.Type.Ref) + ")"
		}
		inner := p.typeExpr(t.Elem.Type)
		if fn := p.attrFuncInline(t.Elem); fn != "" {
			return "ArrayOf(" + inner + ", " + fn + ")"
		}
		return "ArrayOf(" + inner + ")"
	case spec.Map:
		k, e := p.typeExpr(t.Key.Type), p.typeExpr(t.Elem.Type)
		kf, ef := p.valLines(t.Key.Type, t.Key.Val), p.valLines(t.Elem.Type, t.Elem.Val)
		if len(kf)+len(ef) > 0 {
			var sb strings.Builder
			sb.WriteString("func() { ")
			if len(kf) > 0 {
				sb.WriteString("Key(func() { " + strings.Join(kf, "; ") + " }); ")
			}
			if len(ef) > 0 {
				sb.WriteString("Elem(func() { " + strings.Join(ef, "; ") + " })")
			}
			sb.WriteString(" }")
			return "MapOf(" + k + ", " + e + ", " + sb.String() + ")"
		}
		return "MapOf(" + k + ", " + e + ")"
	case spec.Ref:
		return TypeVar(t.Ref)
	case spec.Object, spec.Union:
		return "/*inline*/nil"
	}
	return spec.DSLName[t.Kind]
}

// attrFuncInline renders the validation func of an array element on one line ("" if none).
func (p *printer) attrFuncInline(a *spec.Attr) string {
	ls := p.valLines(a.Type, a.Val)
	if len(ls) == 0 {
		return ""
	}
	return "func() { " + strings.Join(ls, "; ") + " }"
}

func fnum(f float64, kind string) string {
	if spec.IsInt(kind) {
		return strconv.FormatInt(int64(f), 10)
	}
	t := strconv.FormatFloat(f, 'g', -1, 64)
	return t
}

func (p *printer) valLines(t *spec.Type, v *spec.Val) []string {
	if v.Empty() {
		return nil
	}
	kind := t.Kind
	if rt, _ := p.s.Resolve(t); rt != nil {
		kind = rt.Kind
	}
	var ls []string
	if len(v.Enum) > 0 {
		parts := make([]string, len(v.Enum))
		for i, e := range v.Enum {
			parts[i] = Leaf(e)
			switch kind {
			case spec.Int64:
				parts[i] = "int64(" + parts[i] + ")"
			case spec.UInt64:
				parts[i] = "uint64(" + parts[i] + ")"
			}
		}
		ls = append(ls, "Enum("+strings.Join(parts, ", ")+")")
	}
	if v.Min != nil {
		ls = append(ls, "Minimum("+fnum(*v.Min, kind)+")")
	}
	if v.Max != nil {
		ls = append(ls, "Maximum("+fnum(*v.Max, kind)+")")
	}
	if v.ExclMin != nil {
		ls = append(ls, "ExclusiveMinimum("+fnum(*v.ExclMin, kind)+")")
	}
	if v.ExclMax != nil {
		ls = append(ls, "ExclusiveMaximum("+fnum(*v.ExclMax, kind)+")")
	}
	if v.MinLen != nil {
		ls = append(ls, fmt.Sprintf("MinLength(%d)", *v.MinLen))
	}
	if v.MaxLen != nil {
		ls = append(ls, fmt.Sprintf("MaxLength(%d)", *v.MaxLen))
	}
	if v.Pattern != "" {
		ls = append(ls, "Pattern("+q(v.Pattern)+")")
	}
	if v.Format != "" {
		ls = append(ls, "Format("+formatConst(v.Format)+")")
	}
	return ls
}

func formatConst(f string) string {
	m := map[string]string{"date": "FormatDate", "date-time": "FormatDateTime", "uuid": "FormatUUID", "email": "FormatEmail",
		"hostname": "FormatHostname", "ipv4": "FormatIPv4", "ipv6": "FormatIPv6", "ip": "FormatIP", "uri": "FormatURI",
		"mac": "FormatMAC", "cidr": "FormatCIDR", "regexp": "FormatRegexp", "json": "FormatJSON", "rfc1123": "FormatRFC1123"}
	if c, ok := m[f]; ok {
		return c
	}
	return q(f)
}

func (p *printer) validations(t *spec.Type, v *spec.Val) {
	for _, l := range p.valLines(t, v) {
		p.ln("%s", l)
	}
}

func (p *printer) attribute(a *spec.Attr) {
	head := "Attribute(" + q(a.Name)
	if a.Tag > 0 {
		head = fmt.Sprintf("Field(%d, %s", a.Tag, q(a.Name))
	}
	switch {
	case strings.HasPrefix(a.Sec, "username"):
		head = "Username(" + q(a.Name)
	case strings.HasPrefix(a.Sec, "password"):
		head = "Password(" + q(a.Name)
	case a.Sec == "token":
		head = "Token(" + q(a.Name)
	case a.Sec == "accesstoken":
		head = "AccessToken(" + q(a.Name)
	case strings.HasPrefix(a.Sec, "apikey:"):
		head = "APIKey(" + q(strings.TrimPrefix(a.Sec, "apikey:")) + ", " + q(a.Name)
	}
	if a.Tag > 0 && a.Sec != "" {
		// security DSL + explicit tag
		switch {
		case strings.HasPrefix(a.Sec, "username"):
			head = fmt.Sprintf("UsernameField(%d, %s", a.Tag, q(a.Name))
		case strings.HasPrefix(a.Sec, "password"):
			head = fmt.Sprintf("PasswordField(%d, %s", a.Tag, q(a.Name))
		case a.Sec == "token":
			head = fmt.Sprintf("TokenField(%d, %s", a.Tag, q(a.Name))
		case a.Sec == "accesstoken":
			head = fmt.Sprintf("AccessTokenField(%d, %s", a.Tag, q(a.Name))
		case strings.HasPrefix(a.Sec, "apikey:"):
			head = fmt.Sprintf("APIKeyField(%d, %s, %s", a.Tag, q(strings.TrimPrefix(a.Sec, "apikey:")), q(a.Name))
		}
	}
	t := a.Type
	switch t.Kind {
	case spec.Object:
		p.open("%s, func() {", head)
		p.objectBody(t)
		p.attrTail(a)
		p.close("})")
		return
	case spec.Union:
		p.open("OneOf(%s, func() {", q(a.Name))
		for _, alt := range t.Attrs {
			p.attribute(alt)
		}
		if a.Tag > 0 {
			p.ln("Meta(\"rpc:tag\", %q)", strconv.Itoa(a.Tag))
		}
		p.close("})")
		return
	}
	te := p.typeExpr(t)
	if a.Desc != "" {
		te += ", " + q(a.Desc)
	}
	hasTail := !a.Val.Empty() || a.HasDef || len(a.Meta) > 0 || a.View != ""
	if !hasTail {
		p.ln("%s, %s)", head, te)
		return
	}
	p.open("%s, %s, func() {", head, te)
	p.attrTail(a)
	p.close("})")
}

func (p *printer) attrTail(a *spec.Attr) {
	if a.View != "" {
		p.ln("View(%s)", q(a.View))
	}
	if a.Type.Kind != spec.Object {
		p.validations(a.Type, a.Val)
	}
	if a.HasDef {
		p.ln("Default(%s)", p.defaultLit(a))
	}
	p.meta(a.Meta)
}

func (p *printer) defaultLit(a *spec.Attr) string {
	rt, _ := p.s.Resolve(a.Type)
	if rt == nil {
		rt = a.Type
	}
	switch rt.Kind {
	case spec.Array:
		et, _ := p.s.Resolve(rt.Elem.Type)
		if et == nil {
			et = rt.Elem.Type
		}
		x, _ := a.Default.([]any)
		parts := make([]string, len(x))
		for i := range x {
			parts[i] = Leaf(x[i])
		}
		return "[]" + goPrim(et.Kind) + "{" + strings.Join(parts, ", ") + "}"
	case spec.Map:
		et, _ := p.s.Resolve(rt.Elem.Type)
		if et == nil {
			et = rt.Elem.Type
		}
		m, _ := vtree.IsMap(a.Default)
		keys := make([]string, 0, len(m))
		for k := range m {
			keys = append(keys, k)
		}
		sort.Strings(keys)
		parts := make([]string, len(keys))
		for i, k := range keys {
			parts[i] = q(vtree.Text(k)) + ": " + Leaf(m[k])
		}
		return "map[string]" + goPrim(et.Kind) + "{" + strings.Join(parts, ", ") + "}"
	case spec.Bytes:
		return q(string(mustB64(vtree.Text(a.Default))))
	case spec.Int64:
		return "int64(" + Leaf(a.Default) + ")"
	case spec.UInt64:
		return "uint64(" + Leaf(a.Default) + ")"
	case spec.Float32, spec.Float64:
		return Leaf(a.Default)
	}
	return Leaf(a.Default)
}

func goPrim(k string) string {
	switch k {
	case spec.Boolean:
		return "bool"
	case spec.UInt:
		return "uint"
	case spec.Bytes:
		return "[]byte"
	case spec.Any:
		return "any"
	}
	return k
}

func (p *printer) errorDecl(e *spec.ErrorDecl) {
	args := q(e.Name)
	if e.Type != nil {
		args += ", " + p.typeExpr(e.Type)
	}
	if e.Timeout || e.Temporary || e.Fault {
		var fl []string
		if e.Timeout {
			fl = append(fl, "Timeout()")
		}
		if e.Temporary {
			fl = append(fl, "Temporary()")
		}
		if e.Fault {
			fl = append(fl, "Fault()")
		}
		p.ln("Error(%s, func() { %s })", args, strings.Join(fl, "; "))
		return
	}
	p.ln("Error(%s)", args)
}

func (p *printer) security(reqs []*spec.Requirement, nosec bool) {
	if nosec {
		p.ln("NoSecurity()")
		return
	}
	for _, r := range reqs {
		args := make([]string, 0, len(r.Schemes)+1)
		for _, sc := range r.Schemes {
			args = append(args, schemeVar(sc))
		}
		if len(r.Scopes) > 0 {
			sc := make([]string, len(r.Scopes))
			for i, x := range r.Scopes {
				sc[i] = "Scope(" + q(x) + ")"
			}
			args = append(args, "func() { "+strings.Join(sc, "; ")+" }")
		}
		p.ln("Security(%s)", strings.Join(args, ", "))
	}
}

func loc(l spec.Loc) string {
	if l.Attr == "" {
		return q(l.Wire) // non-object payload mapped to a single element
	}
	if l.Wire != "" && l.Wire != l.Attr {
		return q(l.Attr + ":" + l.Wire)
	}
	return q(l.Attr)
}

func statusConst(code int) string {
	m := map[int]string{200: "StatusOK", 201: "StatusCreated", 202: "StatusAccepted", 204: "StatusNoContent", 206: "StatusPartialContent",
		400: "StatusBadRequest", 401: "StatusUnauthorized", 403: "StatusForbidden", 404: "StatusNotFound", 409: "StatusConflict",
		410: "StatusGone", 412: "StatusPreconditionFailed", 418: "StatusTeapot", 422: "StatusUnprocessableEntity", 429: "StatusTooManyRequests",
		500: "StatusInternalServerError", 501: "StatusNotImplemented", 502: "StatusBadGateway", 503: "StatusServiceUnavailable", 504: "StatusGatewayTimeout",
		301: "StatusMovedPermanently", 302: "StatusFound", 304: "StatusNotModified"}
	if c, ok := m[code]; ok {
		return c
	}
	return strconv.Itoa(code)
}

func (p *printer) httpError(he *spec.HTTPError) {
	if len(he.Headers) == 0 && len(he.Cookies) == 0 && he.Body == "" {
		p.ln("Response(%s, %s)", q(he.Name), statusConst(he.Status))
		return
	}
	p.open("Response(%s, %s, func() {", q(he.Name), statusConst(he.Status))
	for _, h := range he.Headers {
		p.ln("Header(%s)", loc(h))
	}
	for _, c := range he.Cookies {
		p.ln("Cookie(%s)", loc(c))
	}
	p.bodySpec(he.Body, nil)
	p.close("})")
}

func (p *printer) bodySpec(body string, attrs []spec.Loc) {
	switch {
	case body == "":
	case body == "empty":
		p.ln("Body(Empty)")
	case strings.HasPrefix(body, "attr:"):
		p.ln("Body(%s)", q(strings.TrimPrefix(body, "attr:")))
	case body == "custom":
		p.open("Body(func() {")
		for _, a := range attrs {
			p.ln("Attribute(%s)", loc(a))
		}
		p.close("})")
	}
}

func (p *printer) payloadLike(fn string, a *spec.Attr) {
	if a == nil {
		return
	}
	t := a.Type
	switch t.Kind {
	case spec.Object:
		p.open("%s(func() {", fn)
		p.objectBody(t)
		p.close("})")
	case spec.Ref:
		if a.View != "" {
			p.ln("%s(%s, func() { View(%s) })", fn, TypeVar(t.Ref), q(a.View))
		} else {
			p.ln("%s(%s)", fn, TypeVar(t.Ref))
		}
	default:
		te := p.typeExpr(t)
		ls := p.valLines(t, a.Val)
		if a.View != "" {
			ls = append([]string{"View(" + q(a.View) + ")"}, ls...)
		}
		if len(ls) > 0 {
			p.ln("%s(%s, func() { %s })", fn, te, strings.Join(ls, "; "))
		} else {
			p.ln("%s(%s)", fn, te)
		}
	}
}

func (p *printer) service(sv *spec.Service) {
	p.open("Service(%s, func() {", q(sv.Name))
	for _, e := range sv.Errors {
		p.errorDecl(e)
	}
	p.security(sv.Security, sv.NoSec)
	if !sv.NoHTTP && (sv.BasePath != "" || len(sv.HTTPErrs) > 0) {
		p.open("HTTP(func() {")
		if sv.BasePath != "" {
			p.ln("Path(%s)", q(sv.BasePath))
		}
		for _, he := range sv.HTTPErrs {
			p.httpError(he)
		}
		p.close("})")
	}
	for _, m := range sv.Methods {
		p.method(sv, m)
	}
	for _, f := range sv.Files {
		p.ln("Files(%s, %s)", q(f.Path), q(f.File))
	}
	p.close("})")
}

func (p *printer) method(sv *spec.Service, m *spec.Method) {
	p.open("Method(%s, func() {", q(m.Name))
	p.security(m.Security, m.NoSec)
	p.payloadLike("Payload", m.Payload)
	switch m.Stream {
	case "client":
		p.payloadLike("StreamingPayload", m.StreamP)
		p.payloadLike("Result", m.Result)
	case "server":
		p.payloadLike("StreamingResult", m.Result)
	case "bidi":
		p.payloadLike("StreamingPayload", m.StreamP)
		p.payloadLike("StreamingResult", m.Result)
	default:
		p.payloadLike("Result", m.Result)
	}
	for _, e := range m.Errors {
		p.errorDecl(e)
	}
	if h := m.HTTP; h != nil {
		p.open("HTTP(func() {")
		for _, r := range h.Routes {
			p.ln("%s(%s)", r.Verb, q(r.Path))
		}
		for _, n := range h.ExplicitPathParams {
			p.ln("Param(%s)", q(n))
		}
		for _, l := range h.Query {
			p.ln("Param(%s)", loc(l))
		}
		switch {
		case h.MapParams == "*":
			p.ln("MapParams()")
		case h.MapParams != "":
			p.ln("MapParams(%s)", q(h.MapParams))
		}
		for _, l := range h.Headers {
			p.ln("Header(%s)", loc(l))
		}
		for _, l := range h.Cookies {
			p.ln("Cookie(%s)", loc(l))
		}
		p.bodySpec(h.Body, h.BodyAttrs)
		if h.Multipart {
			p.ln("MultipartRequest()")
		}
		if h.SkipReqBody {
			p.ln("SkipRequestBodyEncodeDecode()")
		}
		if h.SkipRespBody {
			p.ln("SkipResponseBodyEncodeDecode()")
		}
		for _, r := range h.Responses {
			simple := r.TagAttr == "" && len(r.Headers) == 0 && len(r.Cookies) == 0 && r.Body == "" && r.ContentType == ""
			if simple {
				p.ln("Response(%s)", statusConst(r.Status))
				continue
			}
			p.open("Response(%s, func() {", statusConst(r.Status))
			if r.TagAttr != "" {
				p.ln("Tag(%s, %s)", q(r.TagAttr), q(r.TagValue))
			}
			if r.ContentType != "" {
				p.ln("ContentType(%s)", q(r.ContentType))
			}
			for _, l := range r.Headers {
				p.ln("Header(%s)", loc(l))
			}
			for _, l := range r.Cookies {
				p.ln("Cookie(%s)", loc(l))
			}
			p.bodySpec(r.Body, r.BodyAttrs)
			p.close("})")
		}
		for _, he := range h.Errors {
			p.httpError(he)
		}
		p.close("})")
	}
	if g := m.GRPC; g != nil {
		p.open("GRPC(func() {")
		if len(g.Message) > 0 {
			p.open("Message(func() {")
			for _, l := range g.Message {
				p.ln("Attribute(%s)", loc(l))
			}
			p.close("})")
		}
		if len(g.Metadata) > 0 {
			p.open("Metadata(func() {")
			for _, l := range g.Metadata {
				p.ln("Attribute(%s)", loc(l))
			}
			p.close("})")
		}
		code := g.Code
		if code == "" {
			code = "CodeOK"
		}
		if len(g.Headers)+len(g.Trailers)+len(g.RespMessage) > 0 {
			p.open("Response(%s, func() {", code)
			if len(g.RespMessage) > 0 {
				p.open("Message(func() {")
				for _, l := range g.RespMessage {
					p.ln("Attribute(%s)", loc(l))
				}
				p.close("})")
			}
			if len(g.Headers) > 0 {
				p.open("Headers(func() {")
				for _, l := range g.Headers {
					p.ln("Attribute(%s)", loc(l))
				}
				p.close("})")
			}
			if len(g.Trailers) > 0 {
				p.open("Trailers(func() {")
				for _, l := range g.Trailers {
					p.ln("Attribute(%s)", loc(l))
				}
				p.close("})")
			}
			p.close("})")
		} else {
			p.ln("Response(%s)", code)
		}
		for _, e := range g.ErrCodes {
			p.ln("Response(%s, %s)", q(e.Name), e.Code)
		}
		p.close("})")
	}
	p.close("})")
}

func mustB64(s string) []byte {
	b, err := base64.StdEncoding.DecodeString(s)
	if err != nil {
		return []byte(s)
	}
	return b
}
