// Package rtgrpc is the runtime driver of the gRPC half of C10. It is linked with the REAL generated
// goa code of one design:
//
//	stub service -> generated New<Svc>Endpoints -> generated gen/grpc/<svc>/server.New ->
//	pb.Register<Svc>Server on a pbrt loopback connection (tap) -> generated
//	gen/grpc/<svc>/client.NewClient(conn.ClientConn()) -> client endpoint funcs
//
// and, for the "rawpb" cases, with the stand-in protobuf client pb.New<Svc>Client(conn) called with
// hand-built messages. It only records (one JSON line per case); oracle/c10.go decides offline.
package rtgrpc

import (
	"bufio"
	"context"
	"encoding/json"
	"errors"
	"flag"
	"fmt"
	"io"
	"os"
	"reflect"
	"runtime/debug"
	"strings"
	"sync"
	"sync/atomic"
	"time"

	goa "goa.design/goa/v3/pkg"
	"google.golang.org/grpc"
	"google.golang.org/grpc/metadata"
	"google.golang.org/grpc/status"

	"verif.local/lab/protostub/pbrt"
	"verif.local/lab/rt"
	"verif.local/lab/spec"
)

// ---------------------------------------------------------------- registry (filled by the generated zzg main.go)

// Svc describes the generated packages of one gRPC service; everything is used through reflection.
type Svc struct {
	Name         string
	NewEndpoints any // gen/<svc>.NewEndpoints
	ServerNew    any // gen/grpc/<svc>/server.New
	ClientNew    any // gen/grpc/<svc>/client.NewClient
	Register     any // pb.Register<Svc>Server
	PBClientNew  any // pb.New<Svc>Client
	Stub         func(h *Hooks) any
	MethodNames  []string // design names in interface order
	GoNames      []string // Go method names in interface order
	UnionTypes   []reflect.Type
	PBTypes      []reflect.Type
}

// Design is the registry of one generated design.
type Design struct{ Services []*Svc }

// Out carries pointers to the named results of a stub method.
type Out struct {
	Res  any
	View *string
	Err  *error
}

// Hooks is handed to the generated stubs.
type Hooks struct {
	d  *Driver
	st *svcState
}

type exch struct {
	mu     sync.Mutex
	rec    *rt.GExchange
	active atomic.Int32 // stub invocations in flight
	closed bool
}

func (e *exch) seq(s string) {
	e.rec.Seq = append(e.rec.Seq, s)
}

type sig struct {
	payload int // index in args, -1 if none
	stream  int
	payT    reflect.Type
}

type svcState struct {
	svc      *Svc
	stub     any
	conn     *pbrt.Conn
	client   reflect.Value
	pbClient reflect.Value
	pb       *pbBuilder
	goName   map[string]string
	sigs     map[string]sig // by Go method name
	payloadT map[string]reflect.Type
}

// Driver drives the generated code of one design.
type Driver struct {
	Spec      *spec.Spec
	DesignID  string
	svcs      map[string]*svcState
	current   atomic.Pointer[exch]
	SetupErr  map[string]string
	LateStubs atomic.Int32
	unionRef  map[string]string // norm(union attr)+"/"+norm(alt) -> referenced user type
	out       *bufio.Writer
	outF      *os.File
}

var streamMethods = []string{"Send", "Recv", "SendAndClose", "CloseAndRecv"}

func isStreamType(t reflect.Type) bool {
	if t.Kind() != reflect.Interface || t.NumMethod() == 0 {
		return false
	}
	for _, n := range streamMethods {
		if _, ok := t.MethodByName(n); ok {
			return true
		}
	}
	_, ok := t.MethodByName("Close")
	return ok
}

func (dr *Driver) collectUnions() {
	dr.unionRef = map[string]string{}
	var walk func(t *spec.Type, depth int)
	seen := map[string]bool{}
	walk = func(t *spec.Type, depth int) {
		if t == nil || depth > 20 {
			return
		}
		switch t.Kind {
		case spec.Ref:
			if seen[t.Ref] {
				return
			}
			seen[t.Ref] = true
			if ut := dr.Spec.Type(t.Ref); ut != nil {
				walk(ut.Def, depth+1)
			}
		case spec.Array:
			walk(t.Elem.Type, depth+1)
		case spec.Map:
			walk(t.Elem.Type, depth+1)
		case spec.Object:
			for _, a := range t.Attrs {
				if a.Type != nil && a.Type.Kind == spec.Union {
					for _, alt := range a.Type.Attrs {
						if alt.Type.Kind == spec.Ref {
							dr.unionRef[spec.Norm(a.Name)+"/"+spec.Norm(alt.Name)] = alt.Type.Ref
						}
						walk(alt.Type, depth+1)
					}
					continue
				}
				walk(a.Type, depth+1)
			}
		}
	}
	for _, ut := range dr.Spec.Types {
		walk(ut.Def, 0)
	}
	for _, sv := range dr.Spec.Services {
		for _, m := range sv.Methods {
			for _, a := range []*spec.Attr{m.Payload, m.Result, m.StreamP} {
				if a != nil {
					walk(a.Type, 0)
				}
			}
		}
	}
}

// unionHook builds union values of the generated service types.
func (dr *Driver) unionHook(types []reflect.Type) func(dst reflect.Value, field, alt string, val any) error {
	return func(dst reflect.Value, field, alt string, val any) error {
		want := spec.Norm(field) + spec.Norm(alt)
		ref := spec.Norm(dr.unionRef[spec.Norm(field)+"/"+spec.Norm(alt)])
		for _, t := range types {
			if !t.Implements(dst.Type()) {
				continue
			}
			name := t.Name()
			if t.Kind() == reflect.Ptr {
				name = t.Elem().Name()
			}
			n := spec.Norm(name)
			if n != want && (ref == "" || n != ref) {
				continue
			}
			v, err := rt.Build(t, val)
			if err != nil {
				return err
			}
			if v.Kind() == reflect.Ptr && v.IsNil() {
				v = reflect.New(t.Elem())
			}
			dst.Set(v)
			return nil
		}
		return fmt.Errorf("no Go type for alternative %q of union %q", alt, field)
	}
}

func (dr *Driver) setup(st *svcState) (err error) {
	defer func() {
		if x := recover(); x != nil {
			err = fmt.Errorf("setup panic: %v\n%s", x, debug.Stack())
		}
	}()
	sv := st.svc
	st.stub = sv.Stub(&Hooks{d: dr, st: st})
	stubT := reflect.TypeOf(st.stub)
	for i, gn := range sv.GoNames {
		dn := sv.MethodNames[i]
		st.goName[dn] = gn
		m, ok := stubT.MethodByName(gn)
		if !ok {
			return fmt.Errorf("stub lacks method %s", gn)
		}
		sg := sig{payload: -1, stream: -1}
		// receiver, ctx, [payload], [stream]
		for j := 2; j < m.Type.NumIn(); j++ {
			pt := m.Type.In(j)
			if isStreamType(pt) {
				sg.stream = j - 2
			} else {
				sg.payload = j - 2
				sg.payT = pt
				st.payloadT[dn] = pt
			}
		}
		st.sigs[gn] = sg
	}
	eps := reflect.ValueOf(sv.NewEndpoints).Call([]reflect.Value{reflect.ValueOf(st.stub)})[0]
	newT := reflect.TypeOf(sv.ServerNew)
	args := make([]reflect.Value, newT.NumIn())
	args[0] = eps
	for i := 1; i < newT.NumIn(); i++ {
		args[i] = reflect.Zero(newT.In(i)) // nil UnaryHandler / StreamHandler: the generated defaults
	}
	server := reflect.ValueOf(sv.ServerNew).Call(args)[0]
	st.conn = pbrt.NewConn()
	st.conn.Tap = dr.tap
	reflect.ValueOf(sv.Register).Call([]reflect.Value{reflect.ValueOf(st.conn), server})
	cc := st.conn.ClientConn()
	st.client = reflect.ValueOf(sv.ClientNew).Call([]reflect.Value{reflect.ValueOf(cc)})[0]
	st.pbClient = reflect.ValueOf(sv.PBClientNew).Call([]reflect.Value{reflect.ValueOf(st.conn)})[0]
	st.pb = &pbBuilder{types: sv.PBTypes}
	return nil
}

func mdCopy(md metadata.MD) map[string][]string {
	if md == nil {
		return nil
	}
	out := map[string][]string{}
	for k, v := range md {
		out[k] = append([]string(nil), v...)
	}
	return out
}

func (dr *Driver) tap(e pbrt.Event) {
	ex := dr.current.Load()
	if ex == nil {
		return
	}
	t := rt.GTap{Kind: e.Kind, MD: mdCopy(e.MD), Text: e.Text}
	if e.Msg != nil {
		t.Msg = rt.Canon(e.Msg)
		t.MsgT = fmt.Sprintf("%T", e.Msg)
		if t.Msg == nil {
			t.Msg = map[string]any{}
		}
	}
	if e.Status != nil {
		t.Code = e.Status.Code().String()
		t.Status = e.Status.Message()
	}
	ex.mu.Lock()
	if !ex.closed {
		ex.rec.Taps = append(ex.rec.Taps, t)
		ex.seq("tap:" + e.Kind)
	}
	ex.mu.Unlock()
}

// ---------------------------------------------------------------- stub side

func errText(err error) string {
	if err == nil {
		return ""
	}
	if err == io.EOF {
		return "eof"
	}
	return err.Error()
}

func asErr(v reflect.Value) error {
	if v.IsNil() {
		return nil
	}
	e, _ := v.Interface().(error)
	return e
}

const maxStream = 10000

// Invoke is called by every generated stub method.
func (h *Hooks) Invoke(ctx context.Context, goMethod string, args []any, out Out) {
	ex := h.d.current.Load()
	if ex == nil {
		h.d.LateStubs.Add(1)
		*out.Err = errors.New("lab: no current exchange")
		return
	}
	ex.active.Add(1)
	defer ex.active.Add(-1)
	sg := h.st.sigs[goMethod]
	si := &rt.GStubIn{GoMethod: goMethod}
	if sg.payload >= 0 && sg.payload < len(args) {
		si.HasPayload = true
		si.Payload = rt.Canon(args[sg.payload])
	}
	var stream reflect.Value
	if sg.stream >= 0 && sg.stream < len(args) && args[sg.stream] != nil {
		si.HasStream = true
		stream = reflect.ValueOf(args[sg.stream])
	}
	ex.mu.Lock()
	if ex.closed {
		ex.mu.Unlock()
		h.d.LateStubs.Add(1)
		*out.Err = errors.New("lab: exchange already closed")
		return
	}
	ex.rec.StubCalls++
	first := ex.rec.StubIn == nil
	if first {
		ex.rec.StubIn = si
	}
	ex.seq("stub_in")
	oc := ex.rec.Case.Outcome
	ex.mu.Unlock()
	if oc == nil {
		oc = &rt.GOutcome{Kind: "result"}
	}
	fail := func(err error) {
		ex.mu.Lock()
		ex.rec.StubErr = err.Error()
		ex.mu.Unlock()
		*out.Err = goa.PermanentError("lab_stub_failure", "%s", err.Error())
	}
	scriptedErr := func() error {
		return &goa.ServiceError{Name: oc.ErrName, ID: "labid", Message: oc.ErrMsg}
	}
	if !stream.IsValid() {
		if oc.Kind == "error" {
			*out.Err = scriptedErr()
			return
		}
		if out.Res != nil && oc.Result != nil {
			rv := reflect.ValueOf(out.Res).Elem()
			v, err := rt.Build(rv.Type(), rt.NormKeys(oc.Result))
			if err != nil {
				fail(fmt.Errorf("cannot build scripted result: %w", err))
				return
			}
			rv.Set(v)
		}
		return
	}
	// streaming: read everything the client sends, then answer
	upd := func(f func()) {
		ex.mu.Lock()
		f()
		ex.mu.Unlock()
	}
	if recv := stream.MethodByName("Recv"); recv.IsValid() {
		for n := 0; ; n++ {
			r := recv.Call(nil)
			if err := asErr(r[1]); err != nil {
				upd(func() { si.RecvEnd = errText(err); ex.seq("stub_recv_end") })
				if err != io.EOF {
					*out.Err = err
					return
				}
				break
			}
			c := rt.Canon(r[0].Interface())
			upd(func() { si.Recv = append(si.Recv, c); ex.seq("stub_recv") })
			if n > maxStream {
				fail(errors.New("stream does not end"))
				return
			}
		}
	}
	if oc.Kind == "error" {
		*out.Err = scriptedErr()
		return
	}
	closeWith := func(name string, args []reflect.Value) {
		if m := stream.MethodByName(name); m.IsValid() {
			r := m.Call(args)
			if err := asErr(r[len(r)-1]); err != nil {
				upd(func() { si.CloseErr = err.Error() })
			}
		}
	}
	if sac := stream.MethodByName("SendAndClose"); sac.IsValid() {
		v, err := rt.Build(sac.Type().In(0), rt.NormKeys(oc.Result))
		if err != nil {
			fail(fmt.Errorf("cannot build scripted result: %w", err))
			return
		}
		if v.Kind() == reflect.Ptr && v.IsNil() {
			v = reflect.New(v.Type().Elem())
		}
		closeWith("SendAndClose", []reflect.Value{v})
		return
	}
	if send := stream.MethodByName("Send"); send.IsValid() {
		for _, tr := range oc.Stream {
			v, err := rt.Build(send.Type().In(0), rt.NormKeys(tr))
			if err != nil {
				fail(fmt.Errorf("cannot build scripted stream result: %w", err))
				return
			}
			if v.Kind() == reflect.Ptr && v.IsNil() {
				v = reflect.New(v.Type().Elem())
			}
			r := send.Call([]reflect.Value{v})
			if err := asErr(r[0]); err != nil {
				upd(func() { si.SendErr = err.Error() })
				break
			}
			upd(func() { si.Sent++; ex.seq("stub_send") })
		}
	}
	closeWith("Close", nil)
}

// ---------------------------------------------------------------- client side

func fillErr(co *rt.GClientOut, err error) {
	co.Err = err.Error()
	co.ErrType = fmt.Sprintf("%T", err)
	var se *goa.ServiceError
	if errors.As(err, &se) {
		co.ErrName = se.Name
	}
	if st, ok := status.FromError(err); ok {
		co.Code = st.Code().String()
	}
}

// driveStream runs the client end of a stream (generated goa client stream or stand-in pb stream):
// send everything, close the send direction, read until the end.
func (dr *Driver) driveStream(ex *exch, sv reflect.Value, msgs []any, build func(t reflect.Type, tree any) (reflect.Value, error), canon func(any) any) *rt.GClientOut {
	co := &rt.GClientOut{}
	send := sv.MethodByName("Send")
	if send.IsValid() {
		for _, tr := range msgs {
			v, err := build(send.Type().In(0), tr)
			if err != nil {
				ex.mu.Lock()
				ex.rec.BuildErr = "stream message: " + err.Error()
				ex.mu.Unlock()
				break
			}
			if v.Kind() == reflect.Ptr && v.IsNil() {
				v = reflect.New(v.Type().Elem())
			}
			r := send.Call([]reflect.Value{v})
			if err := asErr(r[0]); err != nil {
				co.SendErr = err.Error()
				break
			}
			co.Sent++
		}
	}
	if car := sv.MethodByName("CloseAndRecv"); car.IsValid() {
		r := car.Call(nil)
		if err := asErr(r[1]); err != nil {
			co.RecvEnd = errText(err)
			if st, ok := status.FromError(err); ok {
				co.RecvCode = st.Code().String()
			}
			return co
		}
		co.HasRes = true
		co.Result = canon(r[0].Interface())
		return co
	}
	if send.IsValid() {
		for _, name := range []string{"Close", "CloseSend"} {
			if c := sv.MethodByName(name); c.IsValid() {
				r := c.Call(nil)
				if err := asErr(r[0]); err != nil {
					co.CloseErr = err.Error()
				}
				break
			}
		}
	}
	if recv := sv.MethodByName("Recv"); recv.IsValid() {
		for n := 0; n <= maxStream; n++ {
			r := recv.Call(nil)
			if err := asErr(r[1]); err != nil {
				co.RecvEnd = errText(err)
				if st, ok := status.FromError(err); ok && err != io.EOF {
					co.RecvCode = st.Code().String()
				}
				break
			}
			co.Recv = append(co.Recv, canon(r[0].Interface()))
		}
	}
	return co
}

func (dr *Driver) runClient(st *svcState, ex *exch, ctx context.Context) {
	c := ex.rec.Case
	gn := st.goName[c.Method]
	m := st.client.MethodByName(gn)
	if !m.IsValid() {
		ex.rec.BuildErr = "generated client lacks method " + gn
		return
	}
	ep, ok := m.Call(nil)[0].Interface().(goa.Endpoint)
	if !ok {
		ex.rec.BuildErr = "client method does not return a goa.Endpoint"
		return
	}
	var payload any
	if pt := st.payloadT[c.Method]; pt != nil && !c.NoPay {
		v, err := rt.Build(pt, rt.NormKeys(c.Sent))
		if err != nil {
			ex.rec.BuildErr = err.Error()
			return
		}
		if v.Kind() == reflect.Ptr && v.IsNil() {
			v = reflect.New(pt.Elem())
		}
		payload = v.Interface()
		ex.rec.ClientIn = rt.Canon(payload)
	}
	ex.mu.Lock()
	ex.seq("client_in")
	ex.mu.Unlock()
	res, err := ep(ctx, payload)
	var co *rt.GClientOut
	switch {
	case err != nil:
		co = &rt.GClientOut{}
		fillErr(co, err)
	case res != nil && hasStreamMethods(reflect.ValueOf(res)):
		co = dr.driveStream(ex, reflect.ValueOf(res), c.Stream, func(t reflect.Type, tree any) (reflect.Value, error) { return rt.Build(t, rt.NormKeys(tree)) }, rt.Canon)
	default:
		co = &rt.GClientOut{}
		if res != nil {
			co.HasRes = true
			co.Result = rt.Canon(res)
		}
	}
	ex.mu.Lock()
	ex.rec.ClientOut = co
	ex.seq("client_out")
	ex.mu.Unlock()
}

func hasStreamMethods(v reflect.Value) bool {
	for _, n := range streamMethods {
		if v.MethodByName(n).IsValid() {
			return true
		}
	}
	return false
}

func (dr *Driver) runRaw(st *svcState, ex *exch, ctx context.Context) {
	c := ex.rec.Case
	var pm reflect.Value
	ct := st.pbClient.Type()
	for i := 0; i < ct.NumMethod(); i++ {
		if spec.Norm(ct.Method(i).Name) == spec.Norm(c.Method) {
			pm = st.pbClient.Method(i)
		}
	}
	if !pm.IsValid() {
		ex.rec.BuildErr = "stand-in pb client lacks a method for " + c.Method
		return
	}
	raw := c.Raw
	if raw == nil {
		raw = &rt.GRaw{}
	}
	if len(raw.MD) > 0 {
		md := metadata.MD{}
		for k, vs := range raw.MD {
			md[strings.ToLower(k)] = append([]string(nil), vs...)
		}
		ctx = metadata.NewOutgoingContext(ctx, md)
	}
	mt := pm.Type()
	args := []reflect.Value{reflect.ValueOf(ctx)}
	if mt.NumIn() == 3 { // ctx, request, opts...
		msg, err := st.pb.New(mt.In(1), raw.Msg)
		if err != nil {
			ex.rec.BuildErr = "raw message: " + err.Error()
			return
		}
		if msg.Kind() == reflect.Ptr && msg.IsNil() {
			msg = reflect.New(mt.In(1).Elem())
		}
		args = append(args, msg)
		ex.rec.ClientIn = rt.Canon(msg.Interface())
	}
	ex.mu.Lock()
	ex.seq("client_in")
	ex.mu.Unlock()
	outs := pm.Call(args)
	var co *rt.GClientOut
	if err := asErr(outs[1]); err != nil {
		co = &rt.GClientOut{}
		fillErr(co, err)
	} else if outs[0].Kind() == reflect.Interface || hasStreamMethods(outs[0]) {
		sv := outs[0]
		if sv.Kind() == reflect.Interface {
			sv = sv.Elem()
		}
		co = dr.driveStream(ex, sv, raw.Stream, st.pb.New, rt.Canon)
	} else {
		co = &rt.GClientOut{HasRes: true, Result: rt.Canon(outs[0].Interface())}
		if co.Result == nil {
			co.Result = map[string]any{}
		}
	}
	ex.mu.Lock()
	ex.rec.ClientOut = co
	ex.seq("client_out")
	ex.mu.Unlock()
}

// Run executes one case and returns its record.
func (dr *Driver) Run(c *rt.GCase) *rt.GExchange {
	ex := &exch{rec: &rt.GExchange{Design: dr.DesignID, Case: c}}
	st := dr.svcs[c.Svc]
	if st == nil || !st.client.IsValid() {
		ex.rec.BuildErr = "service not set up: " + dr.SetupErr[c.Svc]
		return ex.rec
	}
	rt.UnionHook = dr.unionHook(st.svc.UnionTypes)
	dr.current.Store(ex)
	// the deadline is a watchdog only: an exchange it ends is recorded as such and judged inconclusive
	ctx, cancel := context.WithTimeout(context.Background(), 20*time.Second)
	func() {
		defer func() {
			if x := recover(); x != nil {
				ex.mu.Lock()
				ex.rec.Panic += fmt.Sprintf("client panic: %v\n%s", x, debug.Stack())
				ex.mu.Unlock()
			}
		}()
		if c.Mode == "rawpb" {
			dr.runRaw(st, ex, ctx)
		} else {
			dr.runClient(st, ex, ctx)
		}
	}()
	if ctx.Err() != nil {
		ex.mu.Lock()
		ex.seq("watchdog")
		ex.mu.Unlock()
	}
	cancel()
	// a server handler still inside the stub (the client gave up early) is given time to leave it
	for i := 0; i < 2000 && ex.active.Load() > 0; i++ {
		time.Sleep(time.Millisecond)
	}
	ex.mu.Lock()
	ex.closed = true
	ex.mu.Unlock()
	dr.current.Store(nil)
	return ex.rec
}

func (dr *Driver) log(v any) {
	b, err := json.Marshal(v)
	if err != nil {
		b, _ = json.Marshal(map[string]any{"design": dr.DesignID, "marshal_error": err.Error()})
	}
	dr.out.Write(b)
	dr.out.WriteByte('\n')
	dr.out.Flush()
}

// Main is the entry point of every generated gRPC driver binary.
func Main(d *Design) {
	specPath := flag.String("spec", "", "spec json")
	casesPath := flag.String("cases", "", "cases jsonl")
	outPath := flag.String("out", "", "events jsonl")
	progPath := flag.String("progress", "", "progress log (one line per case, written before the case runs)")
	id := flag.String("id", "", "design id")
	flag.Parse()
	sp, err := spec.Load(*specPath)
	if err != nil {
		fmt.Fprintln(os.Stderr, "driver:", err)
		os.Exit(2)
	}
	dr := &Driver{Spec: sp, DesignID: *id, svcs: map[string]*svcState{}, SetupErr: map[string]string{}}
	dr.collectUnions()
	f, err := os.Create(*outPath)
	if err != nil {
		fmt.Fprintln(os.Stderr, "driver:", err)
		os.Exit(2)
	}
	dr.outF, dr.out = f, bufio.NewWriterSize(f, 1<<20)
	var prog *os.File
	if *progPath != "" {
		prog, _ = os.Create(*progPath)
	}
	for _, sv := range d.Services {
		st := &svcState{svc: sv, goName: map[string]string{}, sigs: map[string]sig{}, payloadT: map[string]reflect.Type{}}
		dr.svcs[sv.Name] = st
		if prog != nil {
			fmt.Fprintf(prog, "setup %s\n", sv.Name)
		}
		if err := dr.setup(st); err != nil {
			dr.SetupErr[sv.Name] = err.Error()
			st.client = reflect.Value{}
		}
	}
	dr.log(map[string]any{"design": *id, "setup": true, "setup_err": dr.SetupErr})
	cf, err := os.Open(*casesPath)
	if err != nil {
		fmt.Fprintln(os.Stderr, "driver:", err)
		os.Exit(2)
	}
	defer cf.Close()
	sc := bufio.NewScanner(cf)
	sc.Buffer(make([]byte, 1<<20), 64<<20)
	for sc.Scan() {
		var c rt.GCase
		if err := json.Unmarshal(sc.Bytes(), &c); err != nil {
			fmt.Fprintln(os.Stderr, "driver: bad case:", err)
			os.Exit(2)
		}
		// the case is named on disk BEFORE it runs: a crash is attributable
		if prog != nil {
			fmt.Fprintf(prog, "case %d %s %s.%s %s\n", c.ID, c.Mode, c.Svc, c.Method, c.Class)
		}
		dr.log(dr.Run(&c))
	}
	if n := dr.LateStubs.Load(); n > 0 {
		dr.log(map[string]any{"design": *id, "late_stub_calls": n})
	}
	if prog != nil {
		fmt.Fprintln(prog, "done")
		prog.Close()
	}
	for _, st := range dr.svcs {
		if st.conn != nil {
			st.conn.Close()
		}
	}
	_ = grpc.Version
}
