package rtgrpc

import (
	"fmt"
	"reflect"

	"verif.local/lab/rt"
	"verif.local/lab/spec"
	"verif.local/lab/vtree"
)

// pbBuilder builds stand-in protobuf messages (the structs protoc-gen-go would generate) from
// canonical value trees keyed by DESIGN attribute names. It knows nothing about goa: fields are
// found by protoc-gen-go's GoCamelCase name (compared case- and underscore-insensitively, so that the
// conflict suffix "_" does not matter), oneof wrappers among the registered message types, and the
// wrapper messages goa documents for nested collections and non-object payloads (a single field named
// "field", grpc/docs/FAQ.md).
type pbBuilder struct {
	types []reflect.Type // every message / oneof wrapper type of the pb package (pointer types)
}

func (b *pbBuilder) New(t reflect.Type, tree any) (reflect.Value, error) {
	v := reflect.New(t).Elem()
	err := b.safeBuild(v, tree)
	return v, err
}

func (b *pbBuilder) safeBuild(dst reflect.Value, tree any) (err error) {
	defer func() {
		if x := recover(); x != nil {
			err = fmt.Errorf("pb builder: %v", x)
		}
	}()
	return b.build(dst, tree)
}

func isPlainObject(tree any) (map[string]any, bool) {
	o, ok := tree.(map[string]any)
	if !ok {
		return nil, false
	}
	if _, m := vtree.IsMap(tree); m {
		return nil, false
	}
	if _, _, u := vtree.IsUnion(tree); u {
		return nil, false
	}
	return o, true
}

func (b *pbBuilder) build(dst reflect.Value, tree any) error {
	if tree == nil {
		return nil
	}
	t := dst.Type()
	switch t.Kind() {
	case reflect.Ptr:
		nv := reflect.New(t.Elem())
		if err := b.build(nv.Elem(), tree); err != nil {
			return err
		}
		dst.Set(nv)
		return nil
	case reflect.Struct:
		obj, ok := isPlainObject(tree)
		if !ok {
			// wrapper message: non-object payload/result or nested collection
			f := dst.FieldByName("Field")
			if !f.IsValid() {
				return fmt.Errorf("message %s is no wrapper (no field named Field) for value %s", t, vtree.Show(tree))
			}
			return b.build(f, tree)
		}
		idx := map[string]int{}
		for i := 0; i < t.NumField(); i++ {
			if t.Field(i).IsExported() {
				idx[spec.Norm(t.Field(i).Name)] = i
			}
		}
		for k, e := range obj {
			if e == nil {
				continue
			}
			i, ok := idx[spec.Norm(k)]
			if !ok {
				return fmt.Errorf("message %s has no field for attribute %q", t, k)
			}
			f := dst.Field(i)
			if alt, uv, isU := vtree.IsUnion(e); isU {
				if err := b.oneof(f, alt, uv); err != nil {
					return fmt.Errorf("%s: %w", k, err)
				}
				continue
			}
			if err := b.build(f, e); err != nil {
				return fmt.Errorf("%s: %w", k, err)
			}
		}
		return nil
	case reflect.Slice:
		if t.Elem().Kind() == reflect.Uint8 {
			v, err := rt.Build(t, tree)
			if err != nil {
				return err
			}
			dst.Set(v)
			return nil
		}
		arr, ok := tree.([]any)
		if !ok {
			return fmt.Errorf("want array for %s, got %s", t, vtree.Show(tree))
		}
		s := reflect.MakeSlice(t, len(arr), len(arr))
		for i := range arr {
			if err := b.build(s.Index(i), arr[i]); err != nil {
				return err
			}
		}
		dst.Set(s)
		return nil
	case reflect.Map:
		m, ok := vtree.IsMap(tree)
		if !ok {
			return fmt.Errorf("want map for %s, got %s", t, vtree.Show(tree))
		}
		mv := reflect.MakeMapWithSize(t, len(m))
		for k, e := range m {
			kv, err := rt.Build(t.Key(), k)
			if err != nil {
				return err
			}
			ev := reflect.New(t.Elem()).Elem()
			if err := b.build(ev, e); err != nil {
				return err
			}
			mv.SetMapIndex(kv, ev)
		}
		dst.Set(mv)
		return nil
	case reflect.Interface:
		return fmt.Errorf("oneof field %s needs a union value, got %s", t, vtree.Show(tree))
	}
	v, err := rt.Build(t, tree)
	if err != nil {
		return err
	}
	dst.Set(v)
	return nil
}

// oneof sets a oneof field: the wrapper type is the registered message type that implements the
// field's interface and whose only field is named after the alternative.
func (b *pbBuilder) oneof(f reflect.Value, alt string, val any) error {
	if f.Kind() != reflect.Interface {
		return fmt.Errorf("field of type %s is not a oneof", f.Type())
	}
	for _, wt := range b.types {
		if wt.Kind() != reflect.Ptr || wt.Elem().Kind() != reflect.Struct || !wt.Implements(f.Type()) {
			continue
		}
		st := wt.Elem()
		if st.NumField() != 1 || spec.Norm(st.Field(0).Name) != spec.Norm(alt) {
			continue
		}
		nv := reflect.New(st)
		if val == nil {
			// a member without value still selects the alternative
			f.Set(nv)
			return nil
		}
		if err := b.build(nv.Elem().Field(0), val); err != nil {
			return err
		}
		f.Set(nv)
		return nil
	}
	return fmt.Errorf("no oneof wrapper for alternative %q of %s", alt, f.Type())
}
