package main

// Race-detector log reader. ./check runs the binary with
// GORACE="halt_on_error=0 log_path=$VERIF_SCRATCH_DIR/race"; reports are counted
// from the log and de-duplicated by the pair of access-site functions
// (first non-runtime frame of each of the two stacks, line numbers stripped).

import (
	"fmt"
	"os"
	"path/filepath"
	"sort"
	"strings"

	"verif.local/lab/vc"
)

type raceBlock struct {
	FuncA string `json:"func_a"`
	FuncB string `json:"func_b"`
	Text  string `json:"report"`
}

func isRuntimeFrame(fn string) bool {
	for _, p := range []string{"runtime.", "runtime/", "sync.", "sync/atomic.", "internal/", "testing."} {
		if strings.HasPrefix(fn, p) {
			return true
		}
	}
	return false
}

// parseRaceBlock extracts the access-site function of the two conflicting accesses.
func parseRaceBlock(text string) (a, b string) {
	var sites []string
	inStack, found := false, false
	for _, line := range strings.Split(text, "\n") {
		tr := strings.TrimSpace(line)
		switch {
		case strings.Contains(line, " by goroutine ") || strings.Contains(line, " by main goroutine"):
			// "Write at 0x... by goroutine 7:" / "Previous read at 0x... by goroutine 8:"
			if len(sites) < 2 {
				inStack, found = true, false
			}
		case strings.HasPrefix(tr, "Goroutine "):
			inStack = false
		case tr == "":
			if inStack && !found {
				sites = append(sites, "?")
			}
			inStack = false
		case inStack && !found && strings.HasPrefix(line, "  ") && !strings.HasPrefix(line, "      "):
			fn := tr
			if i := strings.LastIndex(fn, "("); i > 0 {
				fn = fn[:i]
			}
			if !isRuntimeFrame(fn) {
				sites = append(sites, fn)
				found = true
			}
		}
	}
	for len(sites) < 2 {
		sites = append(sites, "?")
	}
	s := sites[:2]
	sort.Strings(s)
	return s[0], s[1]
}

func readRaceLogs(dir string) (blocks []raceBlock, files int, err error) {
	names, err := filepath.Glob(filepath.Join(dir, "race.*"))
	if err != nil {
		return nil, 0, err
	}
	for _, n := range names {
		b, err := os.ReadFile(n)
		if err != nil {
			return nil, files, err
		}
		files++
		for _, part := range strings.Split(string(b), "==================") {
			if !strings.Contains(part, "WARNING: DATA RACE") {
				continue
			}
			fa, fb := parseRaceBlock(part)
			blocks = append(blocks, raceBlock{fa, fb, strings.TrimSpace(part)})
		}
	}
	return blocks, files, nil
}

// reportRaces turns the race log into violations (one key per function pair).
func reportRaces(run *vc.Run, ex explainer) {
	if !raceEnabled {
		run.Inconclusive("binary built without -race: race clause not observed")
		return
	}
	dir := os.Getenv("VERIF_SCRATCH_DIR")
	if dir == "" || !strings.Contains(os.Getenv("GORACE"), "log_path="+dir) {
		run.Inconclusive("GORACE log_path not under VERIF_SCRATCH_DIR: race log not readable (run through ./check)")
		return
	}
	blocks, files, err := readRaceLogs(dir)
	if err != nil {
		run.Infra("race log: %v", err)
		return
	}
	run.Count("race_log_files", files)
	run.Count("race_reports", len(blocks))
	seen := map[string]bool{}
	for _, b := range blocks {
		key := "race:" + b.FuncA + "|" + b.FuncB
		if seen[key] {
			continue
		}
		seen[key] = true
		ex("  race report: %s", key)
		if strings.HasPrefix(b.FuncA, "main.") && strings.HasPrefix(b.FuncB, "main.") {
			run.Infra("data race inside the monitor itself (%s): fix the monitor", key)
			fmt.Fprintln(os.Stderr, b.Text)
			continue
		}
		run.Violation(key, "data race reported by the Go race detector between "+b.FuncA+" and "+b.FuncB, concWitness{Kind: "race", What: b.Text})
	}
}
