package main

// Response capture: the handler writes through goa's ResponseCapture (directly or
// via the Log middleware); the judge is what the UNDERLYING writer saw:
// httptest.ResponseRecorder (standard library), a tape writer of my own with
// net/http semantics and short writes, or a real net/http server observed from
// the client side.

import (
	"fmt"
	"io"
	"net/http"
	"net/http/httptest"
	"strings"
	"sync"

	httpmw "goa.design/goa/v3/http/middleware"
	"goa.design/goa/v3/middleware"

	"verif.local/lab/vc"
)

type capOp struct {
	Op string `json:"op"` // header | write | flush
	N  int    `json:"n,omitempty"`
}

type capCase struct {
	Via   string  `json:"via"`   // direct | log
	Under string  `json:"under"` // recorder | tape | real
	Cap   int     `json:"cap,omitempty"`
	Ops   []capOp `json:"ops"`
	// observations (filled by the run, kept in the witness)
	GotStatus   int  `json:"capture_status"`
	GotBytes    int  `json:"capture_bytes"`
	UnderStatus int  `json:"underlying_status"`
	UnderBytes  int  `json:"underlying_bytes"`
	UnderWrote  bool `json:"underlying_header_written"`
}

// tape is a ResponseWriter with net/http's semantics (first status sticks, implicit
// 200 on first Write/Flush) that accepts at most cap body bytes.
type tape struct {
	h      http.Header
	status int
	wrote  bool
	n, cap int
}

func (t *tape) Header() http.Header { return t.h }
func (t *tape) WriteHeader(c int) {
	if !t.wrote {
		t.status, t.wrote = c, true
	}
}
func (t *tape) Write(b []byte) (int, error) {
	if !t.wrote {
		t.WriteHeader(http.StatusOK)
	}
	room := t.cap - t.n
	if len(b) <= room {
		t.n += len(b)
		return len(b), nil
	}
	t.n += room
	return room, io.ErrShortWrite
}
func (t *tape) Flush() {
	if !t.wrote {
		t.WriteHeader(http.StatusOK)
	}
}

type logSink struct {
	mu      sync.Mutex
	entries [][]any
}

func (l *logSink) Log(kv ...any) error {
	l.mu.Lock()
	l.entries = append(l.entries, append([]any(nil), kv...))
	l.mu.Unlock()
	return nil
}

var _ middleware.Logger = (*logSink)(nil)

func applyOps(w http.ResponseWriter, ops []capOp) {
	for _, op := range ops {
		switch op.Op {
		case "header":
			w.WriteHeader(op.N)
		case "write":
			_, _ = w.Write([]byte(strings.Repeat("x", op.N)))
		case "flush":
			if f, ok := w.(http.Flusher); ok {
				f.Flush()
			}
		}
	}
}

// realCap is the side channel between the loopback server's handler and the driver.
type realCap struct {
	c             *capCase
	status, bytes int
	done          chan struct{}
}

var capSide sync.Map // case id -> *realCap

// realCapHandler is served by the loopback server for capture cases.
func realCapHandler(w http.ResponseWriter, r *http.Request) {
	v, ok := capSide.Load(r.Header.Get(caseHeader))
	if !ok {
		http.Error(w, "no such case", http.StatusTeapot)
		return
	}
	rc := v.(*realCap)
	rc.status, rc.bytes = captureThrough(rc.c, w, r)
	close(rc.done)
}

// captureThrough runs the ops against goa's capture wrapped around under and returns what the capture reports.
func captureThrough(c *capCase, under http.ResponseWriter, r *http.Request) (status, bytes int) {
	if c.Via == "log" {
		sink := &logSink{}
		h := httpmw.Log(sink)(http.HandlerFunc(func(w http.ResponseWriter, _ *http.Request) { applyOps(w, c.Ops) }))
		h.ServeHTTP(under, r)
		status, bytes = -1, -1
		sink.mu.Lock()
		defer sink.mu.Unlock()
		if len(sink.entries) >= 2 {
			kv := sink.entries[len(sink.entries)-1]
			for i := 0; i+1 < len(kv); i += 2 {
				switch kv[i] {
				case "status":
					status, _ = kv[i+1].(int)
				case "bytes":
					bytes, _ = kv[i+1].(int)
				}
			}
		}
		return
	}
	rc := httpmw.CaptureResponse(under)
	applyOps(rc, c.Ops)
	return rc.StatusCode, rc.ContentLength
}

func runCapture(c *capCase) error {
	r := httptest.NewRequest(http.MethodGet, "http://verif.test/capture", nil)
	switch c.Under {
	case "recorder":
		rec := httptest.NewRecorder()
		c.GotStatus, c.GotBytes = captureThrough(c, rec, r)
		c.UnderStatus, c.UnderBytes = rec.Code, rec.Body.Len()
		c.UnderWrote = len(c.Ops) > 0
	case "tape":
		t := &tape{h: http.Header{}, cap: c.Cap}
		c.GotStatus, c.GotBytes = captureThrough(c, t, r)
		c.UnderStatus, c.UnderBytes, c.UnderWrote = t.status, t.n, t.wrote
	case "real":
		id := fmt.Sprintf("cap%d", epSeq.Add(1))
		side := &realCap{c: c, done: make(chan struct{})}
		capSide.Store(id, side)
		defer capSide.Delete(id)
		req, err := http.NewRequest(http.MethodGet, world.httpSrv.URL+"/capture", nil)
		if err != nil {
			return err
		}
		req.Header.Set(caseHeader, id)
		resp, err := world.httpCli.Do(req)
		if err != nil {
			return err
		}
		n, _ := io.Copy(io.Discard, resp.Body)
		_ = resp.Body.Close()
		if resp.StatusCode == http.StatusTeapot {
			return fmt.Errorf("capture case not routed")
		}
		<-side.done
		c.GotStatus, c.GotBytes = side.status, side.bytes
		c.UnderStatus, c.UnderBytes = resp.StatusCode, int(n)
		c.UnderWrote = len(c.Ops) > 0
	}
	return nil
}

// judgeCapture: "response capture reports the status and byte count actually written".
func judgeCapture(c *capCase, ex explainer) (out []finding) {
	ex("  ops %v via %s over %s", c.Ops, c.Via, c.Under)
	ex("    underlying writer saw status=%d (header written: %v) bytes=%d; capture reports status=%d bytes=%d", c.UnderStatus, c.UnderWrote, c.UnderBytes, c.GotStatus, c.GotBytes)
	firstStatusOp, later := "", map[int]bool{}
	firstCode := 0
	for _, op := range c.Ops {
		if firstStatusOp == "" {
			firstStatusOp = op.Op
			if op.Op == "header" {
				firstCode = op.N
			}
			continue
		}
		if op.Op == "header" {
			later[op.N] = true
		}
	}
	if !c.UnderWrote {
		// nothing was written while the handler ran; net/http will send 200 afterwards: 0 and 200 both accepted
		if c.GotStatus != 0 && c.GotStatus != http.StatusOK {
			out = append(out, finding{"capture:status-mismatch:nothing-written", fmt.Sprintf("handler wrote nothing, capture reports status %d", c.GotStatus)})
		}
	} else if c.GotStatus != c.UnderStatus {
		switch {
		case c.GotStatus == 0 && firstStatusOp != "header":
			out = append(out, finding{"capture:status-zero-after-implicit-200:" + firstStatusOp,
				fmt.Sprintf("the handler's first operation was %s without WriteHeader: the underlying writer recorded status %d, ResponseCapture.StatusCode is 0", firstStatusOp, c.UnderStatus)})
		case later[c.GotStatus] && c.GotStatus != firstCode:
			cl := "after-explicit-status"
			if firstStatusOp != "header" {
				cl = "after-implicit-200"
			}
			out = append(out, finding{"capture:status-follows-superfluous-writeheader:" + cl,
				fmt.Sprintf("status %d was written first (underlying writer), a later superfluous WriteHeader(%d) is what ResponseCapture.StatusCode reports", c.UnderStatus, c.GotStatus)})
		default:
			out = append(out, finding{"capture:status-mismatch", fmt.Sprintf("underlying writer recorded %d, capture reports %d", c.UnderStatus, c.GotStatus)})
		}
	}
	if c.GotBytes != c.UnderBytes {
		cl := "full-writes"
		if c.Under == "tape" || c.Under == "real" {
			cl = "short-writes"
		}
		out = append(out, finding{"capture:bytes-mismatch:" + cl, fmt.Sprintf("underlying writer accepted %d body bytes, capture reports %d", c.UnderBytes, c.GotBytes)})
	}
	if len(out) == 0 {
		ex("    -> held")
	}
	return
}

var capCodes = []int{200, 201, 202, 301, 400, 404, 500, 503}

func genCapture(r *vc.Rand) *capCase {
	c := &capCase{Via: r.Pick("direct", "direct", "log"), Under: r.Pick("recorder", "recorder", "tape", "tape", "real")}
	n := r.Intn(6)
	total := 0
	for i := 0; i < n; i++ {
		switch k := r.Intn(10); {
		case k < 4:
			c.Ops = append(c.Ops, capOp{Op: "header", N: capCodes[r.Intn(len(capCodes))]})
		case k < 9:
			sz := []int{0, 1, 10, 333, 5000, 70000}[r.Intn(6)]
			total += sz
			c.Ops = append(c.Ops, capOp{Op: "write", N: sz})
		default:
			c.Ops = append(c.Ops, capOp{Op: "flush"})
		}
	}
	if c.Under == "tape" {
		c.Cap = []int{0, 5, 100, 4000, 1 << 30}[r.Intn(5)]
		if r.Bool() && total > 1 {
			c.Cap = r.Intn(total)
		}
	}
	if c.Under == "real" && r.Chance(1, 3) && n > 0 {
		// a status that allows no body: net/http refuses the bytes (n=0, ErrBodyNotAllowed)
		c.Ops = append([]capOp{{Op: "header", N: []int{204, 304}[r.Intn(2)]}}, c.Ops...)
	}
	return c
}

func sigCapture(c *capCase) string {
	var b strings.Builder
	fmt.Fprintf(&b, "%s/%s/", c.Via, c.Under)
	for _, op := range c.Ops {
		b.WriteByte(op.Op[0])
		if op.Op == "write" && op.N == 0 {
			b.WriteByte('0')
		}
	}
	if c.Under == "tape" {
		fmt.Fprintf(&b, "/short=%v", c.UnderBytes < totalWritten(c))
	}
	return b.String()
}

func totalWritten(c *capCase) int {
	t := 0
	for _, op := range c.Ops {
		if op.Op == "write" {
			t += op.N
		}
	}
	return t
}
