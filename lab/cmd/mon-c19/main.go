// mon-c19: request-ID and trace middlewares propagate identifiers end to end
// (property C19, DESIGN.md §7.C19). Built with -race by ./check.
//
// The real goa middlewares (HTTP handlers, gRPC unary/stream interceptors, traced
// clients, ResponseCapture, Log, samplers, StreamCanceler) are executed on
// generated workloads; a raw tap in front of each server and a context probe in
// the wrapped handler feed oracles that are a reference model of the DOCUMENTED
// option semantics (model.go, judge.go) and share no code with goa.
package main

import (
	"context"
	"fmt"
	"strings"
	"sync"
	"sync/atomic"

	grpcmw "goa.design/goa/v3/grpc/middleware"
	httpmw "goa.design/goa/v3/http/middleware"
	"goa.design/goa/v3/middleware"

	"verif.local/lab/vc"
)

// witness is what a replay file stores: the fully expanded case plus what was observed.
type witness struct {
	Kind    string      `json:"kind"` // single | chain | capture | options | conc | race
	Single  *singleCase `json:"single,omitempty"`
	Chain   *chainCase  `json:"chain,omitempty"`
	Capture *capCase    `json:"capture,omitempty"`
	Calls   []*callRec  `json:"observed,omitempty"`
	What    string      `json:"what,omitempty"`
}

// ---------------------------------------------------------------- single server, several requests

func checkOptionsGetters(spec serverSpec, ex explainer) (out []finding) {
	m := modelRID(spec.RID)
	if m.altHeader != "" {
		return nil // documented semantics ambiguous for this order of options
	}
	o := middleware.NewRequestIDOptions(ridOptions(spec)...)
	ex("  getters: IsUseRequestID()=%v RequestIDHeader()=%q; model: %s", o.IsUseRequestID(), o.RequestIDHeader(), m)
	if o.IsUseRequestID() != m.trust {
		out = append(out, finding{"reqid:options:trust-flag-differs-from-documented", fmt.Sprintf("options %v: IsUseRequestID()=%v, documented semantics give %v", spec.RID, o.IsUseRequestID(), m.trust)})
	}
	if m.trust && spec.Transport == "http" && o.RequestIDHeader() != m.header {
		out = append(out, finding{"reqid:options:header-differs-from-documented", fmt.Sprintf("options %v: RequestIDHeader()=%q, documented semantics give %q", spec.RID, o.RequestIDHeader(), m.header)})
	}
	return
}

func runSingle(c singleCase, ex explainer) (fs []finding, recs []*callRec, inconclusive string) {
	ep := newEndpoint(c.Server)
	defer ep.close()
	ex("server: %s real=%v path=%q rid=%v(%v) trace=%v(%v) traceOuter=%v", c.Server.Transport, c.Server.Real, c.Server.fullPath(), c.Server.MountRID, c.Server.RID, c.Server.MountTrace, c.Server.Trace, c.Server.TraceOuter)
	if c.Server.MountRID {
		fs = append(fs, checkOptionsGetters(c.Server, ex)...)
	}
	prevFresh, prevSpans := map[string]bool{}, map[string]bool{}
	for i, rq := range c.Reqs {
		ex(" request %d: headers %v", i, rq.Headers)
		err := send(context.Background(), ep, rq.Headers)
		calls := ep.snapshot()
		if len(calls) <= i {
			return fs, calls, fmt.Sprintf("transport did not deliver the request (%s real=%v): %v", c.Server.Transport, c.Server.Real, err)
		}
		rec := calls[len(calls)-1]
		if err != nil {
			ex("  send returned %v", err)
		}
		fs = append(fs, judgeCall(c.Server, rec, prevFresh, prevSpans, ex)...)
	}
	return fs, ep.snapshot(), ""
}

// ---------------------------------------------------------------- chains

func runChain(c chainCase, ex explainer) (fs []finding, recs []*callRec, inconclusive string) {
	eps := make([]*endpoint, len(c.Hops))
	for i, h := range c.Hops {
		eps[i] = newEndpoint(h)
		defer eps[i].close()
		ex("hop %d: %s real=%v path=%q rid=%v(%v) trace=%v", i, h.Transport, h.Real, h.fullPath(), h.MountRID, h.RID, h.Trace)
	}
	for i := 0; i+1 < len(eps); i++ {
		nxt := eps[i+1]
		eps[i].next = func(ctx context.Context) error { return send(ctx, nxt, nil) }
	}
	ex(" first request headers %v", c.First.Headers)
	err := send(context.Background(), eps[0], c.First.Headers)
	recs = make([]*callRec, len(eps))
	for i, ep := range eps {
		calls := ep.snapshot()
		if len(calls) == 0 {
			why := fmt.Sprint(err)
			if i > 0 && recs[i-1] != nil {
				why = recs[i-1].NextErr
			}
			return fs, recs, fmt.Sprintf("hop %d (%s real=%v) not reached: %s", i, c.Hops[i].Transport, c.Hops[i].Real, why)
		}
		recs[i] = calls[0]
	}
	for i, rec := range recs {
		ex(" hop %d:", i)
		fs = append(fs, judgeCall(c.Hops[i], rec, map[string]bool{}, map[string]bool{}, ex)...)
	}
	// every hop of one chain must also have a span of its own
	seen := map[string]int{}
	for i, rec := range recs {
		if strOK(rec.Span) {
			if j, dup := seen[rec.Span.V]; dup {
				fs = append(fs, finding{"chain:span-not-fresh:" + c.Hops[i].Transport, fmt.Sprintf("hop %d has the same span %q as hop %d", i, rec.Span.V, j)})
			}
			seen[rec.Span.V] = i
		}
	}
	fs = append(fs, judgeChain(c.Hops, recs, ex)...)
	return fs, recs, ""
}

// ---------------------------------------------------------------- observation only: gRPC withTrace builds a sampler per call

func probeAdaptivePersistence(run *vc.Run) {
	res := map[string]int{}
	for _, t := range []string{"http", "grpc-unary", "grpc-stream"} {
		spec := serverSpec{Transport: t, MountTrace: true, Trace: []optSpec{{K: "maxrate", N: 1}, {K: "samplesize", N: 2}}, Path: genPath(run.Rand(7), t)}
		ep := newEndpoint(spec)
		for i := 0; i < 50; i++ {
			_ = send(context.Background(), ep, nil)
		}
		ep.close()
		n := 0
		for _, rec := range ep.snapshot() {
			if rec.Trace.Present {
				n++
			}
		}
		res[t] = n
		if t != "http" && n == 50 {
			run.Count("obs_grpc_adaptive_sampler_restarts_every_call", 1)
		}
	}
	run.Extra("adaptive_sampler_probe_traced_of_50", res)
}

// ---------------------------------------------------------------- main

func dedup(fs []finding) []finding {
	seen := map[string]bool{}
	var out []finding
	for _, f := range fs {
		if !seen[f.Key] {
			seen[f.Key] = true
			out = append(out, f)
		}
	}
	return out
}

func observe(run *vc.Run, spec serverSpec, rec *callRec) {
	run.Eval(1)
	run.Count("requests_"+spec.Transport, 1)
	run.Seen("transport_modes", fmt.Sprint(spec.Transport, spec.Real))
	if rec == nil {
		return
	}
	if rec.Trace.Present {
		run.Count("requests_traced", 1)
	}
	if spec.MountRID {
		m := modelRID(spec.RID)
		if m.trust && m.limit > 0 {
			for _, v := range rawValues(spec.Transport, rec.Raw, m.header) {
				if len(v) > m.limit {
					run.Count("truncations_exercised", 1)
					if !isASCII(v) {
						run.Count("truncations_multibyte", 1)
					}
					break
				}
			}
		}
		if spec.Transport != "http" && rec.ReqID.Str && first(rec.MDReqID) != rec.ReqID.V {
			run.Count("obs_grpc_metadata_request_id_differs_from_context", 1)
		}
	}
	if spec.MountTrace {
		m := modelTrace(spec.Trace)
		if d, _ := m.discarded(spec.fullPath()); d {
			run.Count("requests_on_discarded_path", 1)
		}
		run.Seen("sampler_classes", m.samplerClass())
	}
}

func main() {
	run := vc.New("C19")
	run.Rule("single: one server (http | grpc-unary | grpc-stream; real loopback/bufconn transport or direct call) with RequestID and/or Trace mounted with a random ordered option list, 1-4 requests whose inbound values are drawn relative to the effective limit (absent, empty, shorter, equal, longer, multi-byte, multi-valued) and trace/parent headers (absent, empty, value); chain: 1-4 such servers, each handler calling the next through goa's traced client; capture: 0-5 WriteHeader/Write/Flush operations through ResponseCapture (direct or via Log) over httptest.ResponseRecorder, a short-writing tape writer or a real net/http server; plus fixed concurrent workloads from 16 goroutines (samplers, one middleware instance per transport, StreamCanceler). distinct = distinct (transport, mode, option-kind vector, sampler class, discarded?, per-request inbound class vector) signatures; every counted case is non-trivial (a real middleware ran and a handler context or writer was judged).")
	run.Assume(
		"truncation 'to the configured limit' is by bytes (DESIGN §7.C19); for multi-byte values a truncation to `limit` runes is accepted too, the documentation only says 'length'",
		"RequestIDHeaderOption(custom) followed by UseX...Option(f): the documentation of UseX speaks only of the X-Request-Id header, so both 'custom header still trusted' and the outcome of the later option are accepted",
		"gRPC: the request ID is read from the x-request-id metadata key (doc of UnaryRequestID/StreamRequestID); when RequestIDHeaderOption(name) is passed to a gRPC interceptor the key `name` is accepted as well",
		"several values for the trusted header: any non-empty one (truncated) is accepted; if the first one is empty a fresh ID is accepted too",
		"fresh request ID = non-empty, not a prefix of any inbound header value, not equal to a fresh ID given earlier in the same case; fresh span = non-empty, different from the caller's span and from every span given earlier by the same server (and, with a counting SpanIDFunc, produced by it during this request)",
		"sampling: only SamplingPercent(0) and SamplingPercent(100) are judged (the last SamplingPercent counts; combined with MaxSamplingRate - documented as mutually exclusive - nothing is claimed); default, intermediate and adaptive samplers may or may not trace",
		"a handler that returns without writing anything: ResponseCapture.StatusCode 0 and 200 are both accepted (net/http sends the 200 only after the handler returned)",
		"wire names TraceID/ParentSpanID (HTTP) and trace-id/parent-span-id (gRPC) are transcribed from the documentation of the exported constants",
		"StreamCanceler and the adaptive sampler appear in no clause of the statement: they are exercised for the race detector and reported as observations only")
	if httpmw.TraceIDHeader != "TraceID" || httpmw.ParentSpanIDHeader != "ParentSpanID" || grpcmw.TraceIDMetadataKey != "trace-id" || grpcmw.ParentSpanIDMetadataKey != "parent-span-id" || grpcmw.RequestIDMetadataKey != "x-request-id" {
		run.Infra("goa's wire names changed (%q %q %q %q %q): the raw taps of this monitor must be updated", httpmw.TraceIDHeader, httpmw.ParentSpanIDHeader, grpcmw.TraceIDMetadataKey, grpcmw.ParentSpanIDMetadataKey, grpcmw.RequestIDMetadataKey)
		run.Finish()
	}
	var err error
	if world, err = startWorld(); err != nil {
		run.Infra("cannot start loopback servers: %v", err)
		run.Finish()
	}
	defer world.stop()

	if run.Replay != "" {
		replay(run)
		world.stop()
		run.Finish()
	}

	nSingle, nChain, nCap := run.N(5000, 200000), run.N(1500, 50000), run.N(1500, 50000)
	total := nSingle + nChain + nCap
	var next atomic.Int64
	var wg sync.WaitGroup
	for w := 0; w < goroutines; w++ {
		wg.Add(1)
		go func() {
			defer wg.Done()
			for {
				j := int(next.Add(1)) - 1
				if j >= total {
					return
				}
				switch {
				case j < nSingle:
					doSingle(run, j)
				case j < nSingle+nChain:
					doChain(run, j-nSingle)
				default:
					doCapture(run, j-nSingle-nChain)
				}
			}
		}()
	}
	wg.Wait()
	probeAdaptivePersistence(run)
	runConcurrency(run, noExplain)
	world.stop()
	reportRaces(run, noExplain)
	run.Floor(run.N(300, 1500))
	run.Finish()
}

func doSingle(run *vc.Run, i int) {
	c := genSingle(run.Rand(19, 1, uint64(i)))
	fs, recs, inc := runSingle(c, noExplain)
	if inc != "" {
		run.Inconclusive(inc[:strings.IndexAny(inc+":", ":")])
		return
	}
	for k, rec := range recs {
		observe(run, c.Server, rec)
		if k < len(c.Reqs) {
			run.Distinct(sigServer(c.Server) + "|" + sigReq(c.Server, c.Reqs[k]))
		}
	}
	for _, f := range dedup(fs) {
		run.Violation(f.Key, f.What, witness{Kind: "single", Single: &c, Calls: recs})
	}
	if i < 2 {
		run.Sample(witness{Kind: "single", Single: &c, Calls: recs})
	}
}

func doChain(run *vc.Run, i int) {
	c := genChain(run.Rand(19, 2, uint64(i)))
	fs, recs, inc := runChain(c, noExplain)
	if inc != "" {
		run.Inconclusive(inc[:strings.IndexAny(inc+":", ":")])
		return
	}
	var sig strings.Builder
	for k, rec := range recs {
		observe(run, c.Hops[k], rec)
		m := modelTrace(c.Hops[k].Trace)
		fmt.Fprintf(&sig, "%s/%v/%s/%v>", c.Hops[k].Transport, c.Hops[k].Real, m.samplerClass(), rec.Trace.Present)
	}
	run.Max("max_chain_depth", len(recs))
	run.Count(fmt.Sprintf("chains_depth_%d", len(recs)), 1)
	if len(recs) > 1 {
		run.Distinct("chain:" + sig.String())
	}
	for _, f := range dedup(fs) {
		run.Violation(f.Key, f.What, witness{Kind: "chain", Chain: &c, Calls: recs})
	}
	if i < 2 {
		run.Sample(witness{Kind: "chain", Chain: &c, Calls: recs})
	}
}

func doCapture(run *vc.Run, i int) {
	c := genCapture(run.Rand(19, 3, uint64(i)))
	if err := runCapture(c); err != nil {
		run.Inconclusive("capture: loopback request failed")
		return
	}
	run.Eval(1)
	run.Count("captures_"+c.Under, 1)
	if c.UnderBytes < totalWritten(c) {
		run.Count("captures_with_short_writes", 1)
	}
	run.Distinct("capture:" + sigCapture(c))
	for _, f := range judgeCapture(c, noExplain) {
		run.Violation(f.Key, f.What, witness{Kind: "capture", Capture: c})
	}
	if i < 1 {
		run.Sample(witness{Kind: "capture", Capture: c})
	}
}

func replay(run *vc.Run) {
	var w witness
	if err := run.LoadReplay(&w); err != nil {
		run.Infra("cannot load replay: %v", err)
		return
	}
	ex := func(f string, a ...any) { fmt.Printf(f+"\n", a...) }
	report := func(fs []finding, wit witness) {
		for _, f := range dedup(fs) {
			fmt.Printf("VIOLATED %s: %s\n", f.Key, f.What)
			run.Violation(f.Key, f.What, wit)
		}
		if len(fs) == 0 {
			fmt.Println("held on replay")
		}
	}
	switch w.Kind {
	case "single":
		fs, recs, inc := runSingle(*w.Single, ex)
		if inc != "" {
			run.Infra("replay inconclusive: %s", inc)
		}
		run.Eval(len(recs))
		report(fs, witness{Kind: "single", Single: w.Single, Calls: recs})
	case "chain":
		fs, recs, inc := runChain(*w.Chain, ex)
		if inc != "" {
			run.Infra("replay inconclusive: %s", inc)
		}
		run.Eval(len(recs))
		report(fs, witness{Kind: "chain", Chain: w.Chain, Calls: recs})
	case "capture":
		c := *w.Capture
		if err := runCapture(&c); err != nil {
			run.Infra("replay: %v", err)
			return
		}
		run.Eval(1)
		report(judgeCapture(&c, ex), witness{Kind: "capture", Capture: &c})
	case "conc", "race":
		fmt.Println("replaying the fixed concurrent workloads (samplers, shared middleware instances, StreamCanceler)")
		runConcurrency(run, ex)
		world.stop()
		reportRaces(run, ex)
	default:
		run.Infra("unknown witness kind %q", w.Kind)
	}
}
