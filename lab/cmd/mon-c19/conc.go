package main

// Concurrent workloads ("histories"): samplers, shared middleware instances and
// the gRPC StreamCanceler driven from 16 goroutines. Verdicts are per operation
// (every operation has an order-independent expected result); the race detector
// watches the rest and its log is read by racelog.go.

import (
	"context"
	"fmt"
	"runtime"
	"sync"
	"sync/atomic"
	"time"

	grpcmw "goa.design/goa/v3/grpc/middleware"
	"goa.design/goa/v3/middleware"
	"google.golang.org/grpc"
	"google.golang.org/grpc/codes"
	"google.golang.org/grpc/status"

	"verif.local/lab/vc"
)

const goroutines = 16

func parallel(n int, f func(g int)) {
	var wg sync.WaitGroup
	for g := 0; g < n; g++ {
		wg.Add(1)
		go func(g int) { defer wg.Done(); f(g) }(g)
	}
	wg.Wait()
}

type concWitness struct {
	Kind   string     `json:"kind"`
	What   string     `json:"what"`
	Server serverSpec `json:"server,omitempty"`
	Call   *callRec   `json:"call,omitempty"`
}

func concSamplers(run *vc.Run, ex explainer) {
	n := run.N(4000, 100000)
	for _, p := range []int{0, 100, 50} {
		direct := middleware.NewFixedSampler(p)
		viaOpts := middleware.NewTraceOptions(middleware.SamplingPercent(p)).NewSampler()
		var hits atomic.Int64
		parallel(goroutines, func(int) {
			h := 0
			for i := 0; i < n; i++ {
				if direct.Sample() {
					h++
				}
				if viaOpts.Sample() {
					h++
				}
			}
			hits.Add(int64(h))
		})
		total := int64(goroutines * n * 2)
		run.Eval(2 * goroutines) // one evaluation per (sampler, goroutine) batch; the calls are counted below
		run.Count(fmt.Sprintf("fixed_sampler_%d_calls", p), int(total))
		run.Count(fmt.Sprintf("fixed_sampler_%d_sampled", p), int(hits.Load()))
		ex("  fixed sampler %d%%: %d of %d calls from %d goroutines sampled", p, hits.Load(), total, goroutines)
		if p == 0 && hits.Load() != 0 {
			run.Violation("sampler:fixed-0-sampled", fmt.Sprintf("fixed sampler at 0%% sampled %d of %d", hits.Load(), total), concWitness{Kind: "conc", What: "sampler"})
		}
		if p == 100 && hits.Load() != total {
			run.Violation("sampler:fixed-100-not-sampled", fmt.Sprintf("fixed sampler at 100%% sampled only %d of %d", hits.Load(), total), concWitness{Kind: "conc", What: "sampler"})
		}
	}
	// adaptive: no clause of the statement constrains its decisions; exercised for the race detector
	for _, cfg := range [][2]int{{1, 1}, {5, 7}, {1000, 3}, {2, 1000}} {
		s := middleware.NewAdaptiveSampler(cfg[0], cfg[1])
		var hits atomic.Int64
		parallel(goroutines, func(int) {
			h := 0
			for i := 0; i < n/4; i++ {
				if s.Sample() {
					h++
				}
			}
			hits.Add(int64(h))
		})
		run.Count("adaptive_sampler_calls", goroutines*(n/4))
		run.Count("adaptive_sampler_sampled", int(hits.Load()))
	}
}

// concServers sends requests from 16 goroutines through ONE instance of each middleware.
func concServers(run *vc.Run, ex explainer) {
	m := run.N(60, 1500)
	cnt := []optSpec{{K: "traceidfunc"}, {K: "spanidfunc"}}
	specs := []serverSpec{
		{Transport: "http", MountRID: true, RID: []optSpec{{K: "usex", B: true}, {K: "limit", N: 8}}, MountTrace: true, Trace: append([]optSpec{{K: "percent", N: 100}, {K: "discard", S: `^/healthz$`}}, cnt...), Path: "/api/v1/items/7"},
		{Transport: "http", Real: true, MountTrace: true, Trace: append([]optSpec{{K: "maxrate", N: 1}, {K: "samplesize", N: 3}}, cnt...), Path: "/livez"},
		{Transport: "http", MountTrace: true, Trace: []optSpec{{K: "percent", N: 0}, {K: "spanidfunc"}}, TraceOuter: true, MountRID: true, RID: []optSpec{{K: "header", S: "Custom-Id"}}, Path: "/"},
		{Transport: "grpc-unary", MountRID: true, RID: []optSpec{{K: "usex", B: true}, {K: "limit", N: 5}}, MountTrace: true, Trace: append([]optSpec{{K: "percent", N: 100}}, cnt...), Path: "Call"},
		{Transport: "grpc-unary", Real: true, MountRID: true, MountTrace: true, Trace: append([]optSpec{{K: "maxrate", N: 2}, {K: "samplesize", N: 2}}, cnt...), Path: "Health"},
		{Transport: "grpc-stream", MountRID: true, RID: []optSpec{{K: "usex", B: true}}, MountTrace: true, Trace: append([]optSpec{{K: "percent", N: 100}, {K: "discard", S: `Health`}}, cnt...), Path: "Stream"},
		{Transport: "grpc-stream", Real: true, MountTrace: true, Trace: append([]optSpec{{K: "percent", N: 0}}, cnt...), Path: "HealthStream"},
	}
	for si, spec := range specs {
		ep := newEndpoint(spec)
		var sendErrs atomic.Int64
		parallel(goroutines, func(g int) {
			r := run.Rand(1902, uint64(si), uint64(g))
			for i := 0; i < m; i++ {
				var hs []hdr
				if spec.MountRID {
					hs = append(hs, genRIDHeaders(r, spec)...)
				}
				hs = append(hs, genTraceHeaders(r, spec, false)...)
				if err := send(context.Background(), ep, hs); err != nil {
					sendErrs.Add(1)
				}
			}
		})
		ep.close()
		calls := ep.snapshot()
		ep.mu.Lock()
		issuedS, issuedT := map[string]bool{}, map[string]bool{}
		for _, s := range ep.spanIssued {
			issuedS[s] = true
		}
		for _, s := range ep.traceIssued {
			issuedT[s] = true
		}
		ep.mu.Unlock()
		spans := map[string]int{}
		for _, rec := range calls {
			run.Eval(1)
			var fs []finding
			if !rec.Reached {
				fs = append(fs, finding{"handler-not-reached:" + spec.Transport, "the wrapped handler was not called"})
			} else {
				if spec.MountRID {
					fs = append(fs, judgeRID(spec, rec, nil, noExplain)...)
				}
				fs = append(fs, judgeTrace(spec, rec, nil, issuedS, issuedT, noExplain)...)
				if strOK(rec.Span) {
					spans[rec.Span.V]++
					if spans[rec.Span.V] == 2 {
						fs = append(fs, finding{"trace:" + spec.Transport + ":span-reused", fmt.Sprintf("span %q given to two concurrent requests", rec.Span.V)})
					}
				}
			}
			for _, f := range fs {
				run.Violation(f.Key, "[concurrent] "+f.What, concWitness{Kind: "conc", What: "servers", Server: spec, Call: rec})
			}
		}
		if int(sendErrs.Load()) > 0 {
			run.Inconclusive(fmt.Sprintf("concurrent %s: %d transport errors", spec.Transport, sendErrs.Load()))
		}
		run.Count("concurrent_requests", len(calls))
		run.Distinct("conc/" + sigServer(spec))
		ex("  %d concurrent requests through one %s instance (%s): %d distinct spans", len(calls), spec.Transport, sigServer(spec), len(spans))
	}
}

// concCanceler drives StreamCanceler (no clause of the statement speaks about it:
// observations only, plus the race detector).
func concCanceler(run *vc.Run, ex explainer) {
	rounds := run.N(20, 300)
	for round := 0; round < rounds; round++ {
		ctx, cancel := context.WithCancel(context.Background())
		ic := grpcmw.StreamCanceler(ctx)
		release := make(chan struct{})
		var started, cancelled, unavailable, released atomic.Int64
		info := &grpc.StreamServerInfo{FullMethod: "/verif.Probe/Stream", IsServerStream: true}
		var wg sync.WaitGroup
		for g := 0; g < goroutines; g++ {
			wg.Add(1)
			go func(g int) {
				defer wg.Done()
				for i := 0; i < 6; i++ {
					quick := (g+i)%3 == 0
					err := ic(struct{}{}, &fakeStream{ctx: context.Background()}, info, func(srv any, st grpc.ServerStream) error {
						started.Add(1)
						if quick {
							return nil
						}
						select {
						case <-st.Context().Done():
							cancelled.Add(1)
							return status.Error(codes.Canceled, "canceled")
						case <-release:
							released.Add(1)
							return nil
						}
					})
					if status.Code(err) == codes.Unavailable {
						unavailable.Add(1)
					}
				}
			}(g)
		}
		// cancel once some streams are open (liveness only: nothing here enters a verdict)
		for spin := 0; started.Load() < int64(goroutines/2+round%goroutines/2) && spin < 1_000_000; spin++ {
			runtime.Gosched()
		}
		cancel()
		done := make(chan struct{})
		go func() { wg.Wait(); close(done) }()
		select {
		case <-done:
		case <-time.After(300 * time.Millisecond):
			close(release)
			<-done
		}
		run.Count("canceler_streams_started", int(started.Load()))
		run.Count("canceler_streams_cancelled", int(cancelled.Load()))
		run.Count("canceler_streams_refused_unavailable", int(unavailable.Load()))
		run.Count("canceler_streams_never_cancelled", int(released.Load()))
	}
	ex("  StreamCanceler: %d rounds x %d goroutines", rounds, goroutines)
}

func runConcurrency(run *vc.Run, ex explainer) {
	concSamplers(run, ex)
	concServers(run, ex)
	concCanceler(run, ex)
}
