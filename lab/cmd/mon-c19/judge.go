package main

// Oracles. Inputs: the case description (serverSpec) and the observations
// (callRec: what arrived on the wire, what the handler context held, which IDs
// the counting IDFuncs issued). No goa code is called here.

import (
	"fmt"
	"strings"
)

type finding struct {
	Key  string
	What string
}

type explainer func(format string, a ...any)

func noExplain(string, ...any) {}

func ridClass(vals []string) string {
	for _, v := range vals {
		if !isASCII(v) {
			return "multibyte"
		}
	}
	return "ascii"
}

// judgeRID decides the request-ID clause for one call.
func judgeRID(spec serverSpec, rec *callRec, prevFresh map[string]bool, ex explainer) (out []finding) {
	t := spec.Transport
	m := modelRID(spec.RID)
	e := expectRID(t, m, rec.Raw)
	ex("  request-ID model after options %v: %s", spec.RID, m)
	for _, w := range e.why {
		ex("    %s", w)
	}
	for id, why := range e.accepted {
		ex("    acceptable %q: %s", clip(id), why)
	}
	ex("    handler context request ID: %+v", rec.ReqID)
	if !rec.ReqID.Present || !rec.ReqID.Str || rec.ReqID.V == "" {
		return append(out, finding{"reqid:" + t + ":missing", fmt.Sprintf("handler context holds no non-empty request ID (%+v)", rec.ReqID)})
	}
	id := rec.ReqID.V
	if _, ok := e.accepted[id]; ok {
		ex("    -> held: %s", e.accepted[id])
		return
	}
	// is the ID derived from something that came in?
	var candidates []string
	for _, vals := range rec.Raw {
		for _, v := range vals {
			if v != "" {
				candidates = append(candidates, v)
			}
		}
	}
	derived := ""
	for _, v := range candidates {
		if strings.HasPrefix(v, id) {
			derived = v
			break
		}
	}
	var srcVals []string
	for _, s := range e.sources {
		srcVals = append(srcVals, rawValues(t, rec.Raw, s)...)
	}
	if e.freshOK && derived == "" {
		if prevFresh[id] {
			return append(out, finding{"reqid:" + t + ":fresh-id-repeated", fmt.Sprintf("generated request ID %q was already given to an earlier request of this case", id)})
		}
		if prevFresh != nil {
			prevFresh[id] = true
		}
		ex("    -> held: fresh identifier %q", id)
		return
	}
	switch {
	case !m.trust && m.altHeader == "" && derived != "":
		out = append(out, finding{"reqid:" + t + ":untrusted-value-used", fmt.Sprintf("trust is off but the request ID %q comes from inbound value %q", clip(id), clip(derived))})
	case derived != "":
		// a prefix of an inbound value, but not an accepted one
		inSrc := false
		for _, v := range srcVals {
			if strings.HasPrefix(v, id) {
				inSrc = true
			}
		}
		if inSrc {
			out = append(out, finding{"reqid:" + t + ":truncation-wrong:" + ridClass(srcVals),
				fmt.Sprintf("request ID %q (%d bytes) is a prefix of the trusted value %q (%d bytes) but not its truncation to limit %d", clip(id), len(id), clip(derived), len(derived), m.limit)})
		} else {
			out = append(out, finding{"reqid:" + t + ":wrong-header-used", fmt.Sprintf("request ID %q comes from inbound value %q which is not in the trusted header", clip(id), clip(derived))})
		}
	default:
		long := false
		for _, v := range srcVals {
			if strings.HasPrefix(id, v) && v != "" {
				long = true
			}
		}
		if long {
			out = append(out, finding{"reqid:" + t + ":truncation-wrong:" + ridClass(srcVals), fmt.Sprintf("request ID %q does not respect limit %d", clip(id), m.limit)})
		} else {
			out = append(out, finding{"reqid:" + t + ":trusted-value-not-used", fmt.Sprintf("trusted inbound value %q not used: request ID is %q", clip(first(srcVals)), clip(id))})
		}
	}
	return
}

func strOK(v ctxVal) bool { return v.Present && v.Str && v.V != "" }

// judgeTrace decides the tracing clauses for one call. prevSpans holds the span
// IDs given to earlier requests of the same server. If concurrent, the issued
// IDs cannot be attributed to a call and are checked against the whole set.
func judgeTrace(spec serverSpec, rec *callRec, prevSpans map[string]bool, issuedSpans, issuedTraces map[string]bool, ex explainer) (out []finding) {
	t := spec.Transport
	m := modelTrace(spec.Trace)
	tn, pn := traceHeaderNames(t)
	inTrace := first(rawValues(t, rec.Raw, tn))
	inParent := first(rawValues(t, rec.Raw, pn))
	disc, pat := m.discarded(spec.fullPath())
	claim := m.samplingClaim()
	ex("  trace model after options %v: sampler=%s claim=%q discards=%v", spec.Trace, m.samplerClass(), claim, m.discards)
	ex("    inbound trace=%q parent=%q path=%q discarded=%v(%s)", clip(inTrace), clip(inParent), spec.fullPath(), disc, pat)
	ex("    handler context trace=%+v span=%+v parent=%+v", rec.Trace, rec.Span, rec.Parent)
	add := func(k, f string, a ...any) { out = append(out, finding{"trace:" + t + ":" + k, fmt.Sprintf(f, a...)}) }
	for name, v := range map[string]ctxVal{"trace": rec.Trace, "span": rec.Span, "parent": rec.Parent} {
		if v.Present && !v.Str {
			add("ctx-value-not-string", "context %s ID is not a string: %s", name, v.V)
		}
	}
	traced := rec.Trace.Present
	if inTrace != "" {
		if !strOK(rec.Trace) || rec.Trace.V != inTrace {
			if disc {
				add("discard-override-lost-trace-id", "request on discarded path %q brought trace ID %q but the handler sees %+v", spec.fullPath(), clip(inTrace), rec.Trace)
			} else {
				add("inbound-trace-id-not-kept", "request brought trace ID %q (sampler %s) but the handler sees %+v", clip(inTrace), m.samplerClass(), rec.Trace)
			}
		}
		if inParent != "" && (!strOK(rec.Parent) || rec.Parent.V != inParent) {
			add("parent-not-callers-span", "caller's span %q not recorded as parent: handler sees %+v", clip(inParent), rec.Parent)
		}
	} else {
		switch {
		case disc && traced:
			add("discarded-request-traced", "path %q matches discard pattern %q, no trace ID came in, yet the handler sees trace %+v", spec.fullPath(), pat, rec.Trace)
		case !disc && claim == "always" && !traced:
			add("sampling-100-not-traced", "SamplingPercent(100), path not discarded, but the request was not traced")
		case claim == "never" && traced:
			add("sampling-0-traced", "SamplingPercent(0) and no inbound trace ID, but the handler sees trace %+v", rec.Trace)
		}
		if traced && rec.Trace.Str {
			if rec.Trace.V == "" {
				add("empty-trace-id", "traced request with an empty trace ID")
			} else if m.countTrace {
				ok := false
				if issuedTraces != nil {
					ok = issuedTraces[rec.Trace.V]
				} else {
					for _, s := range rec.TraceIssued {
						ok = ok || s == rec.Trace.V
					}
				}
				if !ok {
					add("trace-id-not-from-idfunc", "new trace ID %q was not produced by the configured TraceIDFunc during this request (issued: %v)", rec.Trace.V, rec.TraceIssued)
				}
			}
		}
	}
	if traced {
		// a fresh span
		switch {
		case !strOK(rec.Span):
			add("span-missing", "traced request without a span ID: %+v", rec.Span)
		default:
			sp := rec.Span.V
			if inParent != "" && sp == inParent {
				add("span-equals-parent", "span %q equals the caller's span", sp)
			}
			if prevSpans != nil {
				if prevSpans[sp] {
					add("span-reused", "span %q was already given to an earlier request", sp)
				}
				prevSpans[sp] = true
			}
			if m.countSpan {
				ok := false
				if issuedSpans != nil {
					ok = issuedSpans[sp]
				} else {
					for _, s := range rec.SpanIssued {
						ok = ok || s == sp
					}
				}
				if !ok {
					add("span-not-from-idfunc", "span %q was not produced by the configured SpanIDFunc during this request (issued: %v)", sp, rec.SpanIssued)
				}
			}
		}
		if inParent == "" && strOK(rec.Parent) && inTrace != "" {
			add("parent-invented", "no caller span came in but the handler sees parent %q", clip(rec.Parent.V))
		}
	}
	if len(out) == 0 {
		ex("    -> held")
	}
	return
}

// judgeCall applies the clauses of the middlewares mounted on the server.
func judgeCall(spec serverSpec, rec *callRec, prevFresh, prevSpans map[string]bool, ex explainer) (out []finding) {
	if !rec.Reached {
		return []finding{{"handler-not-reached:" + spec.Transport, "the wrapped handler was not called"}}
	}
	if spec.MountRID {
		out = append(out, judgeRID(spec, rec, prevFresh, ex)...)
	}
	if spec.MountTrace {
		out = append(out, judgeTrace(spec, rec, prevSpans, nil, nil, ex)...)
	}
	return
}

// judgeChain decides the chain clauses over the per-hop records (hop i called hop i+1
// through the traced client of hop i+1's transport).
func judgeChain(hops []serverSpec, recs []*callRec, ex explainer) (out []finding) {
	ids := map[string]bool{}
	started := false
	for i, rec := range recs {
		if rec == nil || !rec.Reached {
			continue
		}
		if i > 0 && recs[i-1] != nil && strOK(recs[i-1].Trace) {
			up := recs[i-1]
			t := hops[i].Transport
			tn, pn := traceHeaderNames(t)
			gotT, gotP := first(rawValues(t, rec.Raw, tn)), first(rawValues(t, rec.Raw, pn))
			ex("  hop %d (%s) received trace=%q parent=%q; upstream context had trace=%q span=%q", i, t, clip(gotT), clip(gotP), clip(up.Trace.V), clip(up.Span.V))
			if gotT != up.Trace.V {
				out = append(out, finding{"client:" + t + ":trace-id-not-forwarded", fmt.Sprintf("traced client sent trace %q, the caller's context held %q", clip(gotT), clip(up.Trace.V))})
			}
			if gotP != up.Span.V {
				out = append(out, finding{"client:" + t + ":span-not-forwarded", fmt.Sprintf("traced client sent span %q, the caller's context held span %q (parent %q)", clip(gotP), clip(up.Span.V), clip(up.Parent.V))})
			}
			if hops[i].MountTrace {
				if !strOK(rec.Trace) || rec.Trace.V != up.Trace.V {
					out = append(out, finding{"chain:trace-id-changed:" + t, fmt.Sprintf("hop %d sees trace %+v, hop %d had %q", i, rec.Trace, i-1, clip(up.Trace.V))})
				}
				if !strOK(rec.Parent) || rec.Parent.V != up.Span.V {
					out = append(out, finding{"chain:parent-link-broken:" + t, fmt.Sprintf("hop %d parent %+v is not hop %d's span %q", i, rec.Parent, i-1, clip(up.Span.V))})
				}
			}
		}
		if strOK(rec.Trace) {
			started = true
		}
		if started && rec.Trace.Present {
			ids[rec.Trace.V] = true
		}
	}
	if len(ids) > 1 {
		out = append(out, finding{"chain:multiple-trace-ids", fmt.Sprintf("the chain ended with %d trace IDs", len(ids))})
	}
	if len(out) == 0 {
		ex("  chain -> held (%d trace ID)", len(ids))
	}
	return
}
