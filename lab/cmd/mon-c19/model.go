package main

// Case descriptions (all JSON-serialisable: they are the replay witnesses), the
// generators that expand (seed, index) into cases, and the reference model of
// the DOCUMENTED option semantics. Nothing in this file calls goa.

import (
	"fmt"
	"net/textproto"
	"regexp"
	"strings"
	"unicode/utf8"

	"verif.local/lab/vc"
)

// optSpec is one middleware option, in the order it is passed.
//
//	request ID: usex(B) | header(S) | limit(N)
//	trace:      percent(N) | maxrate(N) | samplesize(N) | discard(S) | traceidfunc | spanidfunc
type optSpec struct {
	K string `json:"k"`
	B bool   `json:"b,omitempty"`
	S string `json:"s,omitempty"`
	N int    `json:"n,omitempty"`
}

func (o optSpec) String() string {
	switch o.K {
	case "usex":
		return fmt.Sprintf("usex(%v)", o.B)
	case "header":
		return fmt.Sprintf("header(%q)", o.S)
	case "discard":
		return fmt.Sprintf("discard(%q)", o.S)
	case "traceidfunc", "spanidfunc":
		return o.K
	}
	return fmt.Sprintf("%s(%d)", o.K, o.N)
}

// serverSpec describes one server: transport, which middlewares are mounted
// and with what options.
type serverSpec struct {
	Transport  string    `json:"transport"` // http | grpc-unary | grpc-stream
	Real       bool      `json:"real"`      // real transport (loopback HTTP server / grpc.Server over bufconn) or direct call
	MountRID   bool      `json:"mount_rid"`
	RID        []optSpec `json:"rid,omitempty"`
	MountTrace bool      `json:"mount_trace"`
	Trace      []optSpec `json:"trace,omitempty"`
	TraceOuter bool      `json:"trace_outer,omitempty"`
	Path       string    `json:"path"` // URL path (http) or method name (grpc): Call|Health / Stream|HealthStream
	// Forward (gRPC hops inside chains): the handler copies its incoming metadata into the
	// outgoing context before calling the next hop, as a gateway does.
	Forward bool `json:"forward,omitempty"`
}

// fullPath is what discard patterns are documented to match: the URL path or
// the gRPC full method.
func (s serverSpec) fullPath() string {
	if s.Transport == "http" {
		return s.Path
	}
	return "/verif.Probe/" + s.Path
}

type hdr struct {
	K string `json:"k"`
	V string `json:"v"`
}

type reqSpec struct {
	Headers []hdr `json:"headers,omitempty"`
}

type singleCase struct {
	Server serverSpec `json:"server"`
	Reqs   []reqSpec  `json:"reqs"`
}

type chainCase struct {
	Hops  []serverSpec `json:"hops"`
	First reqSpec      `json:"first"`
}

// ---------------------------------------------------------------- request-ID model

// ridModel is the effective configuration after applying the documented
// semantics of each option in order:
//
//	UseXRequestIDHeaderOption(f) / UseXRequestIDMetadataOption(f) / UseRequestIDOption(f):
//	    "enables/disables using "X-Request-Id" header"  -> header = X-Request-Id, trust = f
//	RequestIDHeaderOption(name): "sets the name of the header used to capture the incoming
//	    request ID. This option also automatically enabled the use of that header." -> header = name, trust = true
//	XRequestHeaderLimitOption(n) / XRequestMetadataLimitOption(n) / RequestIDLimitOption(n):
//	    "truncating the request ID ... at the specified length", "if positive" -> limit = n (<=0: none)
type ridModel struct {
	trust  bool
	header string
	limit  int
	// altHeader: a custom header named by an earlier RequestIDHeaderOption that a later
	// UseX...Option call may or may not have displaced (the documentation of UseX only
	// speaks of the "X-Request-Id" header): both readings are accepted.
	altHeader string
	// custom: name given to the last RequestIDHeaderOption (gRPC reads "x-request-id"
	// per the documentation of UnaryRequestID/StreamRequestID, the option's own
	// documentation says `name`: both accepted).
	custom string
}

func modelRID(opts []optSpec) ridModel {
	var m ridModel
	for _, o := range opts {
		switch o.K {
		case "usex":
			if m.trust && m.header != "" && !strings.EqualFold(m.header, "X-Request-Id") {
				m.altHeader = m.header
			}
			m.trust, m.header = o.B, "X-Request-Id"
		case "header":
			m.trust, m.header, m.custom = true, o.S, o.S
			m.altHeader = ""
		case "limit":
			m.limit = o.N
		}
	}
	return m
}

func (m ridModel) String() string {
	s := fmt.Sprintf("trust=%v header=%q limit=%d", m.trust, m.header, m.limit)
	if m.altHeader != "" {
		s += fmt.Sprintf(" (ambiguous: custom header %q may still be trusted)", m.altHeader)
	}
	return s
}

// rawValues returns the inbound values of a header/metadata key as the server received them.
func rawValues(transport string, raw map[string][]string, name string) []string {
	if name == "" {
		return nil
	}
	if transport == "http" {
		return raw[textproto.CanonicalMIMEHeaderKey(name)]
	}
	return raw[strings.ToLower(name)]
}

func isASCII(s string) bool {
	for i := 0; i < len(s); i++ {
		if s[i] >= 0x80 {
			return false
		}
	}
	return true
}

// truncations returns the accepted truncations of v at limit: by bytes (the
// reading DESIGN §7.C19 fixes) and, for multi-byte values, also by runes
// ("length" is not qualified in the documentation).
func truncations(v string, limit int) []string {
	if limit <= 0 {
		return []string{v}
	}
	out := []string{}
	if len(v) > limit {
		out = append(out, v[:limit])
	} else {
		out = append(out, v)
	}
	if !isASCII(v) {
		if utf8.RuneCountInString(v) > limit {
			out = append(out, string([]rune(v)[:limit]))
		} else {
			out = append(out, v)
		}
	}
	return out
}

// ridExpect is the oracle's expectation for one request.
type ridExpect struct {
	accepted map[string]string // id -> why it is acceptable
	freshOK  bool              // a fresh identifier is acceptable
	why      []string
	sources  []string // header names consulted under some accepted reading
}

func expectRID(transport string, m ridModel, raw map[string][]string) ridExpect {
	e := ridExpect{accepted: map[string]string{}}
	if !m.trust && m.altHeader == "" {
		e.freshOK = true
		e.why = append(e.why, "trust is off: a fresh identifier is required")
		return e
	}
	// the readings: each is a header name (or "" = trust off)
	type reading struct{ name, why string }
	var rs []reading
	if m.trust {
		if transport == "http" {
			rs = append(rs, reading{m.header, "trusted header " + fmt.Sprintf("%q", m.header)})
		} else {
			rs = append(rs, reading{"x-request-id", `trusted metadata key "x-request-id" (doc of UnaryRequestID/StreamRequestID)`})
			if m.custom != "" && strings.EqualFold(m.header, m.custom) && !strings.EqualFold(m.custom, "x-request-id") {
				rs = append(rs, reading{m.custom, "trusted metadata key named by RequestIDHeaderOption"})
			}
		}
	} else {
		rs = append(rs, reading{"", "UseX...Option(false) disabled trust"})
	}
	if m.altHeader != "" {
		rs = append(rs, reading{m.altHeader, "alternative reading: custom header still trusted after UseX...Option"})
	}
	for _, rd := range rs {
		if rd.name == "" {
			if rd.why != "" && !m.trust {
				e.freshOK = true
				e.why = append(e.why, rd.why+": fresh identifier acceptable")
			} else if m.trust {
				// trusted header with an empty name cannot be present
				e.freshOK = true
				e.why = append(e.why, "trusted header has an empty name: no inbound value can exist, fresh identifier acceptable")
			}
			continue
		}
		e.sources = append(e.sources, rd.name)
		vals := rawValues(transport, raw, rd.name)
		any := false
		for _, v := range vals {
			if v == "" {
				continue
			}
			any = true
			for _, t := range truncations(v, m.limit) {
				e.accepted[t] = fmt.Sprintf("%s value %q truncated to limit %d", rd.why, clip(v), m.limit)
			}
		}
		if !any {
			e.freshOK = true
			e.why = append(e.why, rd.why+": absent or empty, fresh identifier acceptable")
		} else if vals[0] == "" {
			e.freshOK = true
			e.why = append(e.why, rd.why+": first of several values is empty, fresh identifier also acceptable")
		} else {
			e.why = append(e.why, rd.why+": inbound value must be used")
		}
	}
	return e
}

func clip(s string) string {
	if len(s) > 48 {
		return s[:45] + "..."
	}
	return s
}

// ---------------------------------------------------------------- trace model

type traceModel struct {
	percent    int // last SamplingPercent, -1 if never set
	maxRate    int
	sampleSize int
	discards   []string
	countTrace bool
	countSpan  bool
}

func modelTrace(opts []optSpec) traceModel {
	m := traceModel{percent: -1}
	for _, o := range opts {
		switch o.K {
		case "percent":
			m.percent = o.N
		case "maxrate":
			m.maxRate = o.N
		case "samplesize":
			m.sampleSize = o.N
		case "discard":
			m.discards = append(m.discards, o.S)
		case "traceidfunc":
			m.countTrace = true
		case "spanidfunc":
			m.countSpan = true
		}
	}
	return m
}

// samplingClaim: "always" (100), "never" (0) or "" (no clause of the statement applies:
// other percentages, adaptive sampling, default, or the documented-as-mutually-exclusive
// combination of SamplingPercent and MaxSamplingRate).
func (m traceModel) samplingClaim() string {
	if m.maxRate > 0 {
		return ""
	}
	switch m.percent {
	case 0:
		return "never"
	case 100:
		return "always"
	}
	return ""
}

func (m traceModel) samplerClass() string {
	switch {
	case m.maxRate > 0 && m.percent >= 0:
		return "both"
	case m.maxRate > 0:
		return "adaptive"
	case m.percent < 0:
		return "default"
	case m.percent == 0 || m.percent == 100:
		return fmt.Sprint("p", m.percent)
	}
	return "pmid"
}

// discarded decides with the standard library whether a path matches one of the patterns.
func (m traceModel) discarded(path string) (bool, string) {
	for _, p := range m.discards {
		if regexp.MustCompile(p).MatchString(path) {
			return true, p
		}
	}
	return false, ""
}

// header names of the documented wire protocol (transcribed, not imported)
func traceHeaderNames(transport string) (trace, parent string) {
	if transport == "http" {
		return "TraceID", "ParentSpanID"
	}
	return "trace-id", "parent-span-id"
}

// ---------------------------------------------------------------- generators

var (
	httpPaths    = []string{"/healthz", "/livez", "/api/v1/items/7", "/", "/verif.Probe/Health", "/api/v1/Health"}
	unaryMethods = []string{"Call", "Health"}
	streamMeths  = []string{"Stream", "HealthStream"}
	discardPats  = []string{`^/healthz$`, `livez`, `^/verif\.Probe/Health`, `(?i)health`, `^/api/v1/items/\d+$`, `^/$`, `Call$|^/livez`, `nomatch-\d{3}`, `Stream$`}
	customNames  = []string{"Custom-Id", "custom-id", "X-Corr", "X-Request-Id", "x-request-id", ""}
	limits       = []int{-3, 0, 1, 2, 3, 5, 8, 16, 128}
	asciiAlpha   = "abcdefghijklmnopqrstuvwxyzABCDEFGHIJKLMNOPQRSTUVWXYZ0123456789-_.:/=+ "
	multiRunes   = []string{"é", "世", "界", "🙂", "ñ", "a", "Ω", "-", "7", "ß"}
)

func genASCII(r *vc.Rand, n int) string {
	if n <= 0 {
		return ""
	}
	b := make([]byte, n)
	for i := range b {
		b[i] = asciiAlpha[r.Intn(len(asciiAlpha))]
	}
	// transports trim surrounding blanks: keep the value unambiguous
	if b[0] == ' ' {
		b[0] = 'x'
	}
	if b[n-1] == ' ' {
		b[n-1] = 'y'
	}
	return string(b)
}

func genMulti(r *vc.Rand, minBytes int) string {
	var sb strings.Builder
	for sb.Len() <= minBytes || sb.Len() < 3 {
		sb.WriteString(multiRunes[r.Intn(len(multiRunes))])
	}
	return sb.String()
}

func genTransport(r *vc.Rand) string {
	return r.Pick("http", "http", "grpc-unary", "grpc-stream")
}

func genPath(r *vc.Rand, transport string) string {
	switch transport {
	case "http":
		return httpPaths[r.Intn(len(httpPaths))]
	case "grpc-unary":
		return unaryMethods[r.Intn(len(unaryMethods))]
	}
	return streamMeths[r.Intn(len(streamMeths))]
}

func genRIDOpts(r *vc.Rand, transport string) []optSpec {
	n := r.Intn(4)
	if r.Chance(1, 12) {
		n = 4 + r.Intn(2)
	}
	var out []optSpec
	for i := 0; i < n; i++ {
		k := r.Intn(10)
		switch {
		case k <= 3:
			out = append(out, optSpec{K: "usex", B: r.Chance(4, 5)})
		case k <= 5:
			name := customNames[r.Intn(len(customNames))]
			out = append(out, optSpec{K: "header", S: name})
		default:
			out = append(out, optSpec{K: "limit", N: limits[r.Intn(len(limits))]})
		}
	}
	return out
}

// genRIDHeaders draws inbound request-ID headers relative to the effective limit.
func genRIDHeaders(r *vc.Rand, s serverSpec) []hdr {
	m := modelRID(s.RID)
	asciiOnly := s.Transport != "http" && s.Real
	names := []string{"X-Request-Id"}
	if m.header != "" {
		names = append(names, m.header, m.header)
	}
	if m.altHeader != "" {
		names = append(names, m.altHeader)
	}
	if m.custom != "" {
		names = append(names, m.custom)
	}
	names = append(names, "Custom-Id")
	var out []hdr
	nh := 1
	if r.Chance(1, 4) {
		nh = 2
	}
	for i := 0; i < nh; i++ {
		name := names[r.Intn(len(names))]
		if s.Transport != "http" {
			name = strings.ToLower(name)
		}
		L := m.limit
		c := r.Intn(12)
		switch {
		case c == 0: // absent
		case c == 1:
			out = append(out, hdr{name, ""})
		case c <= 6:
			var n int
			if L > 0 {
				n = []int{L - 1, L, L + 1, 3*L + 7, L + 2}[r.Intn(5)]
				if n <= 0 {
					n = L
				}
			} else {
				n = r.Range(1, 40)
			}
			out = append(out, hdr{name, genASCII(r, n)})
		case c <= 8:
			if asciiOnly {
				out = append(out, hdr{name, genASCII(r, r.Range(1, 20))})
			} else {
				min := L
				if r.Chance(1, 3) {
					min = L / 2
				}
				out = append(out, hdr{name, genMulti(r, min)})
			}
		case c == 9: // several values
			out = append(out, hdr{name, r.Pick("", genASCII(r, r.Range(1, 12)))}, hdr{name, genASCII(r, r.Range(1, 30))})
		default:
			out = append(out, hdr{name, genASCII(r, r.Range(1, 200))})
		}
	}
	return out
}

func genTraceOpts(r *vc.Rand) []optSpec {
	var out []optSpec
	// sampler
	switch k := r.Intn(20); {
	case k < 6:
		out = append(out, optSpec{K: "percent", N: 0})
	case k < 12:
		out = append(out, optSpec{K: "percent", N: 100})
	case k < 14:
		out = append(out, optSpec{K: "percent", N: []int{1, 37, 50, 99}[r.Intn(4)]})
	case k < 16:
		out = append(out, optSpec{K: "maxrate", N: []int{1, 5, 1000}[r.Intn(3)]})
		if r.Bool() {
			out = append(out, optSpec{K: "samplesize", N: []int{1, 2, 3, 1000}[r.Intn(4)]})
		}
	case k < 17:
		out = append(out, optSpec{K: "percent", N: []int{0, 100}[r.Intn(2)]}, optSpec{K: "maxrate", N: 3})
	case k < 18: // applied in order: the last one counts
		out = append(out, optSpec{K: "percent", N: []int{0, 100, 50}[r.Intn(3)]}, optSpec{K: "percent", N: []int{0, 100}[r.Intn(2)]})
	}
	for i, n := 0, []int{0, 0, 1, 1, 2, 3}[r.Intn(6)]; i < n; i++ {
		out = append(out, optSpec{K: "discard", S: discardPats[r.Intn(len(discardPats))]})
	}
	if r.Chance(7, 10) {
		out = append(out, optSpec{K: "spanidfunc"})
	}
	if r.Chance(7, 10) {
		out = append(out, optSpec{K: "traceidfunc"})
	}
	p := r.Perm(len(out))
	sh := make([]optSpec, len(out))
	for i, j := range p {
		sh[i] = out[j]
	}
	return sh
}

func genTraceHeaders(r *vc.Rand, s serverSpec, asciiOnly bool) []hdr {
	asciiOnly = asciiOnly || (s.Transport != "http" && s.Real)
	tn, pn := traceHeaderNames(s.Transport)
	val := func() string {
		if !asciiOnly && r.Chance(1, 6) {
			return genMulti(r, r.Range(2, 12))
		}
		return genASCII(r, r.Range(1, 24))
	}
	var out []hdr
	switch k := r.Intn(20); {
	case k < 8: // no trace
	case k < 10:
		out = append(out, hdr{tn, ""})
	default:
		out = append(out, hdr{tn, val()})
	}
	switch k := r.Intn(10); {
	case k < 3:
	case k < 4:
		out = append(out, hdr{pn, ""})
	default:
		out = append(out, hdr{pn, val()})
	}
	return out
}

func genServer(r *vc.Rand, transport string, forceTrace bool) serverSpec {
	s := serverSpec{Transport: transport, Real: r.Chance(2, 5), Path: genPath(r, transport)}
	switch k := r.Intn(10); {
	case k < 4:
		s.MountRID = true
	case k < 7:
		s.MountTrace = true
	default:
		s.MountRID, s.MountTrace = true, true
	}
	if forceTrace {
		s.MountTrace = true
	}
	if s.MountRID {
		s.RID = genRIDOpts(r, transport)
	}
	if s.MountTrace {
		s.Trace = genTraceOpts(r)
	}
	s.TraceOuter = r.Bool()
	return s
}

func genSingle(r *vc.Rand) singleCase {
	c := singleCase{Server: genServer(r, genTransport(r), false)}
	n := r.Range(1, 4)
	for i := 0; i < n; i++ {
		var rq reqSpec
		if c.Server.MountRID || r.Chance(1, 5) {
			rq.Headers = append(rq.Headers, genRIDHeaders(r, c.Server)...)
		}
		if c.Server.MountTrace || r.Chance(1, 5) {
			rq.Headers = append(rq.Headers, genTraceHeaders(r, c.Server, false)...)
		}
		c.Reqs = append(c.Reqs, rq)
	}
	return c
}

func genChain(r *vc.Rand) chainCase {
	var c chainCase
	d := r.Range(1, 4)
	for i := 0; i < d; i++ {
		c.Hops = append(c.Hops, genServer(r, genTransport(r), true))
	}
	for i := range c.Hops {
		if c.Hops[i].Transport != "http" && i+1 < len(c.Hops) && r.Chance(1, 3) {
			c.Hops[i].Forward = true
		}
	}
	// gRPC refuses non-ASCII metadata values on the client side: keep forwarded IDs printable
	// whenever a real gRPC hop is in the chain
	ascii := false
	for _, h := range c.Hops {
		ascii = ascii || (h.Transport != "http" && h.Real)
	}
	if r.Chance(3, 5) {
		c.First.Headers = genTraceHeaders(r, c.Hops[0], ascii)
	}
	if c.Hops[0].MountRID {
		c.First.Headers = append(c.First.Headers, genRIDHeaders(r, c.Hops[0])...)
	}
	return c
}

// ---------------------------------------------------------------- signatures (distinct non-trivial cases)

func valueClass(v string, limit int) string {
	switch {
	case v == "":
		return "empty"
	case !isASCII(v):
		if limit > 0 && len(v) > limit {
			return "mb>"
		}
		return "mb"
	case limit <= 0:
		return "nolimit"
	case len(v) < limit:
		return "<"
	case len(v) == limit:
		return "="
	}
	return ">"
}

func sigServer(s serverSpec) string {
	var b strings.Builder
	fmt.Fprintf(&b, "%s/%v/", s.Transport, s.Real)
	if s.Forward {
		b.WriteString("fw/")
	}
	if s.MountRID {
		b.WriteString("R[")
		for _, o := range s.RID {
			switch o.K {
			case "usex":
				fmt.Fprintf(&b, "u%v,", o.B)
			case "header":
				fmt.Fprintf(&b, "h%v,", strings.EqualFold(o.S, "x-request-id"))
			case "limit":
				fmt.Fprintf(&b, "l%v,", o.N > 0)
			}
		}
		b.WriteString("]")
	}
	if s.MountTrace {
		m := modelTrace(s.Trace)
		d, _ := m.discarded(s.fullPath())
		fmt.Fprintf(&b, "T[%s,d%v,%v%v]", m.samplerClass(), d, m.countTrace, m.countSpan)
	}
	return b.String()
}

func sigReq(s serverSpec, rq reqSpec) string {
	var b strings.Builder
	m := modelRID(s.RID)
	tn, pn := traceHeaderNames(s.Transport)
	for _, h := range rq.Headers {
		switch {
		case strings.EqualFold(h.K, tn):
			fmt.Fprintf(&b, "t%v,", h.V != "")
		case strings.EqualFold(h.K, pn):
			fmt.Fprintf(&b, "p%v,", h.V != "")
		default:
			fmt.Fprintf(&b, "r%v%s,", strings.EqualFold(h.K, m.header), valueClass(h.V, m.limit))
		}
	}
	return b.String()
}
