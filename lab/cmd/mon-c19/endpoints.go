package main

// Servers under observation. Every server ("endpoint") is built from a
// serverSpec with the REAL goa middlewares/interceptors; a raw tap in front of
// them records what arrived on the wire, a probe behind them records what the
// handler's context holds. One loopback HTTP server and one grpc.Server over
// bufconn dispatch to the endpoint named by the X-Verif-Case header / metadata
// key, so that each case has its own freshly configured middlewares while the
// transports are real.

import (
	"context"
	"errors"
	"fmt"
	"io"
	"log"
	"net"
	"net/http"
	"net/http/httptest"
	"regexp"
	"strings"
	"sync"
	"sync/atomic"

	grpcmw "goa.design/goa/v3/grpc/middleware"
	httpmw "goa.design/goa/v3/http/middleware"
	"goa.design/goa/v3/middleware"
	"google.golang.org/grpc"
	"google.golang.org/grpc/codes"
	"google.golang.org/grpc/credentials/insecure"
	"google.golang.org/grpc/encoding"
	"google.golang.org/grpc/metadata"
	"google.golang.org/grpc/status"
	"google.golang.org/grpc/test/bufconn"
)

const (
	caseHeader = "X-Verif-Case"
	caseMDKey  = "x-verif-case"
)

type recKey struct{}

// ctxVal is one context value as the handler saw it.
type ctxVal struct {
	Present bool   `json:"present"`
	Str     bool   `json:"is_string,omitempty"`
	V       string `json:"v,omitempty"`
}

func probeVal(ctx context.Context, key any) ctxVal {
	v := ctx.Value(key)
	if v == nil {
		return ctxVal{}
	}
	s, ok := v.(string)
	if !ok {
		return ctxVal{Present: true, V: fmt.Sprintf("%T:%v", v, v)}
	}
	return ctxVal{Present: true, Str: true, V: s}
}

// callRec is everything observed about one request at one server.
type callRec struct {
	Transport   string              `json:"transport"`
	Path        string              `json:"path"` // URL path / full method the server saw
	Raw         map[string][]string `json:"inbound"`
	Reached     bool                `json:"handler_reached"`
	ReqID       ctxVal              `json:"ctx_request_id"`
	Trace       ctxVal              `json:"ctx_trace_id"`
	Span        ctxVal              `json:"ctx_span_id"`
	Parent      ctxVal              `json:"ctx_parent_span_id"`
	MDReqID     []string            `json:"md_request_id,omitempty"`
	TraceIssued []string            `json:"trace_ids_issued,omitempty"`
	SpanIssued  []string            `json:"span_ids_issued,omitempty"`
	NextErr     string              `json:"downstream_error,omitempty"`

	ep     *endpoint
	tb, sb int
}

type endpoint struct {
	id   string
	spec serverSpec

	mu          sync.Mutex
	calls       []*callRec
	traceIssued []string
	spanIssued  []string

	httpH  http.Handler
	unary  grpc.UnaryServerInterceptor
	stream grpc.StreamServerInterceptor
	next   func(ctx context.Context) error // downstream call made by the handler (chains)
}

var (
	registry sync.Map // id -> *endpoint
	epSeq    atomic.Uint64
)

func lookup(id string) *endpoint {
	if v, ok := registry.Load(id); ok {
		return v.(*endpoint)
	}
	return nil
}

var reCache sync.Map

func mustRegexp(p string) *regexp.Regexp {
	if v, ok := reCache.Load(p); ok {
		return v.(*regexp.Regexp)
	}
	re := regexp.MustCompile(p)
	reCache.Store(p, re)
	return re
}

func (ep *endpoint) issueTrace() string {
	ep.mu.Lock()
	defer ep.mu.Unlock()
	s := fmt.Sprintf("T%s.%d", ep.id, len(ep.traceIssued)+1)
	ep.traceIssued = append(ep.traceIssued, s)
	return s
}

func (ep *endpoint) issueSpan() string {
	ep.mu.Lock()
	defer ep.mu.Unlock()
	s := fmt.Sprintf("S%s.%d", ep.id, len(ep.spanIssued)+1)
	ep.spanIssued = append(ep.spanIssued, s)
	return s
}

func (ep *endpoint) begin(transport, path string, raw map[string][]string) *callRec {
	rec := &callRec{Transport: transport, Path: path, Raw: raw, ep: ep}
	ep.mu.Lock()
	rec.tb, rec.sb = len(ep.traceIssued), len(ep.spanIssued)
	ep.calls = append(ep.calls, rec)
	ep.mu.Unlock()
	return rec
}

func (ep *endpoint) end(rec *callRec) {
	ep.mu.Lock()
	rec.TraceIssued = append([]string(nil), ep.traceIssued[rec.tb:]...)
	rec.SpanIssued = append([]string(nil), ep.spanIssued[rec.sb:]...)
	ep.mu.Unlock()
}

func (ep *endpoint) snapshot() []*callRec {
	ep.mu.Lock()
	defer ep.mu.Unlock()
	return append([]*callRec(nil), ep.calls...)
}

// probe runs inside the handler: it reads the identifiers through the public context keys.
func probe(ctx context.Context) *callRec {
	rec, _ := ctx.Value(recKey{}).(*callRec)
	if rec == nil {
		return nil
	}
	rec.Reached = true
	rec.ReqID = probeVal(ctx, middleware.RequestIDKey)
	rec.Trace = probeVal(ctx, middleware.TraceIDKey)
	rec.Span = probeVal(ctx, middleware.TraceSpanIDKey)
	rec.Parent = probeVal(ctx, middleware.TraceParentSpanIDKey)
	if rec.Transport != "http" {
		if md, ok := metadata.FromIncomingContext(ctx); ok {
			rec.MDReqID = md.Get("x-request-id")
		}
	}
	if rec.ep.next != nil {
		if rec.ep.spec.Forward {
			if md, ok := metadata.FromIncomingContext(ctx); ok {
				fw := metadata.MD{}
				for k, v := range md {
					if strings.HasPrefix(k, ":") || strings.HasPrefix(k, "grpc-") || k == "content-type" || k == "user-agent" || k == "te" {
						continue
					}
					fw[k] = append([]string(nil), v...)
				}
				ctx = metadata.NewOutgoingContext(ctx, fw)
			}
		}
		if err := rec.ep.next(ctx); err != nil {
			rec.NextErr = err.Error()
		}
	}
	return rec
}

// ---------------------------------------------------------------- building an endpoint from a spec

func ridOptions(s serverSpec) []middleware.RequestIDOption {
	var out []middleware.RequestIDOption
	for _, o := range s.RID {
		switch o.K {
		case "usex":
			if s.Transport == "http" {
				out = append(out, httpmw.UseXRequestIDHeaderOption(o.B))
			} else {
				out = append(out, grpcmw.UseXRequestIDMetadataOption(o.B))
			}
		case "header":
			if s.Transport == "http" {
				out = append(out, httpmw.RequestIDHeaderOption(o.S))
			} else {
				out = append(out, middleware.RequestIDHeaderOption(o.S))
			}
		case "limit":
			if s.Transport == "http" {
				out = append(out, httpmw.XRequestHeaderLimitOption(o.N))
			} else {
				out = append(out, grpcmw.XRequestMetadataLimitOption(o.N))
			}
		}
	}
	return out
}

func traceOptions(ep *endpoint) []middleware.TraceOption {
	var out []middleware.TraceOption
	h := ep.spec.Transport == "http"
	for _, o := range ep.spec.Trace {
		switch o.K {
		case "percent":
			if h {
				out = append(out, httpmw.SamplingPercent(o.N))
			} else {
				out = append(out, grpcmw.SamplingPercent(o.N))
			}
		case "maxrate":
			if h {
				out = append(out, httpmw.MaxSamplingRate(o.N))
			} else {
				out = append(out, grpcmw.MaxSamplingRate(o.N))
			}
		case "samplesize":
			if h {
				out = append(out, httpmw.SampleSize(o.N))
			} else {
				out = append(out, grpcmw.SampleSize(o.N))
			}
		case "discard":
			if h {
				out = append(out, httpmw.DiscardFromTrace(mustRegexp(o.S)))
			} else {
				out = append(out, grpcmw.DiscardFromTrace(mustRegexp(o.S)))
			}
		case "traceidfunc":
			if h {
				out = append(out, httpmw.TraceIDFunc(ep.issueTrace))
			} else {
				out = append(out, grpcmw.TraceIDFunc(ep.issueTrace))
			}
		case "spanidfunc":
			if h {
				out = append(out, httpmw.SpanIDFunc(ep.issueSpan))
			} else {
				out = append(out, grpcmw.SpanIDFunc(ep.issueSpan))
			}
		}
	}
	return out
}

func chainUnary(ics ...grpc.UnaryServerInterceptor) grpc.UnaryServerInterceptor {
	return func(ctx context.Context, req any, info *grpc.UnaryServerInfo, handler grpc.UnaryHandler) (any, error) {
		h := handler
		for i := len(ics) - 1; i >= 0; i-- {
			ic, next := ics[i], h
			h = func(ctx context.Context, req any) (any, error) { return ic(ctx, req, info, next) }
		}
		return h(ctx, req)
	}
}

func chainStream(ics ...grpc.StreamServerInterceptor) grpc.StreamServerInterceptor {
	return func(srv any, ss grpc.ServerStream, info *grpc.StreamServerInfo, handler grpc.StreamHandler) error {
		h := handler
		for i := len(ics) - 1; i >= 0; i-- {
			ic, next := ics[i], h
			h = func(srv any, ss grpc.ServerStream) error { return ic(srv, ss, info, next) }
		}
		return h(srv, ss)
	}
}

// newEndpoint builds and registers the server described by spec.
func newEndpoint(spec serverSpec) *endpoint {
	ep := &endpoint{id: fmt.Sprintf("e%d", epSeq.Add(1)), spec: spec}
	switch spec.Transport {
	case "http":
		var mws []func(http.Handler) http.Handler // outermost first
		if spec.MountRID {
			mws = append(mws, httpmw.RequestID(ridOptions(spec)...))
		}
		if spec.MountTrace {
			tr := httpmw.Trace(traceOptions(ep)...)
			if spec.TraceOuter {
				mws = append([]func(http.Handler) http.Handler{tr}, mws...)
			} else {
				mws = append(mws, tr)
			}
		}
		var h http.Handler = http.HandlerFunc(func(w http.ResponseWriter, r *http.Request) {
			probe(r.Context())
			w.WriteHeader(http.StatusOK)
			_, _ = io.WriteString(w, "ok")
		})
		for i := len(mws) - 1; i >= 0; i-- {
			h = mws[i](h)
		}
		ep.httpH = h
	case "grpc-unary":
		var ics []grpc.UnaryServerInterceptor
		if spec.MountRID {
			ics = append(ics, grpcmw.UnaryRequestID(ridOptions(spec)...))
		}
		if spec.MountTrace {
			tr := grpcmw.UnaryServerTrace(traceOptions(ep)...)
			if spec.TraceOuter {
				ics = append([]grpc.UnaryServerInterceptor{tr}, ics...)
			} else {
				ics = append(ics, tr)
			}
		}
		ep.unary = chainUnary(ics...)
	case "grpc-stream":
		var ics []grpc.StreamServerInterceptor
		if spec.MountRID {
			ics = append(ics, grpcmw.StreamRequestID(ridOptions(spec)...))
		}
		if spec.MountTrace {
			tr := grpcmw.StreamServerTrace(traceOptions(ep)...)
			if spec.TraceOuter {
				ics = append([]grpc.StreamServerInterceptor{tr}, ics...)
			} else {
				ics = append(ics, tr)
			}
		}
		ep.stream = chainStream(ics...)
	default:
		panic("bad transport " + spec.Transport)
	}
	registry.Store(ep.id, ep)
	return ep
}

func (ep *endpoint) close() { registry.Delete(ep.id) }

// ---------------------------------------------------------------- HTTP side

var dispatchHTTP = http.HandlerFunc(func(w http.ResponseWriter, r *http.Request) {
	ep := lookup(r.Header.Get(caseHeader))
	if ep == nil || ep.httpH == nil {
		http.Error(w, "no such case", http.StatusTeapot)
		return
	}
	rec := ep.begin("http", r.URL.Path, map[string][]string(r.Header.Clone()))
	ep.httpH.ServeHTTP(w, r.WithContext(context.WithValue(r.Context(), recKey{}, rec)))
	ep.end(rec)
})

// inprocDoer delivers a client request to the dispatching handler the way a
// server would see it: a new request with a copy of the headers and a context
// that inherits nothing from the caller.
type inprocDoer struct{}

func (inprocDoer) Do(req *http.Request) (*http.Response, error) {
	sr := httptest.NewRequest(req.Method, req.URL.String(), nil)
	sr.Header = req.Header.Clone()
	rw := httptest.NewRecorder()
	dispatchHTTP.ServeHTTP(rw, sr)
	return rw.Result(), nil
}

type infra struct {
	httpSrv  *httptest.Server
	httpCli  *http.Client
	grpcSrv  *grpc.Server
	lis      *bufconn.Listener
	conns    []*grpc.ClientConn
	connNext atomic.Uint64
	once     sync.Once
}

var world *infra

func startWorld() (*infra, error) {
	w := &infra{}
	w.httpSrv = httptest.NewUnstartedServer(http.HandlerFunc(func(rw http.ResponseWriter, r *http.Request) {
		if r.URL.Path == "/capture" {
			realCapHandler(rw, r)
			return
		}
		dispatchHTTP(rw, r)
	}))
	w.httpSrv.Config.ErrorLog = log.New(io.Discard, "", 0) // "superfluous WriteHeader" is part of the workload
	w.httpSrv.Start()
	tr := &http.Transport{MaxIdleConns: 256, MaxIdleConnsPerHost: 64, DisableCompression: true}
	w.httpCli = &http.Client{Transport: tr}
	w.lis = bufconn.Listen(1 << 20)
	w.grpcSrv = grpc.NewServer(grpc.UnaryInterceptor(dispatchUnary), grpc.StreamInterceptor(dispatchStream))
	w.grpcSrv.RegisterService(&probeDesc, struct{}{})
	go func() { _ = w.grpcSrv.Serve(w.lis) }()
	for i := 0; i < 4; i++ {
		conn, err := grpc.NewClient("passthrough:///bufnet",
			grpc.WithContextDialer(func(ctx context.Context, _ string) (net.Conn, error) { return w.lis.DialContext(ctx) }),
			grpc.WithTransportCredentials(insecure.NewCredentials()),
			grpc.WithDefaultCallOptions(grpc.CallContentSubtype(rawCodec{}.Name())),
			// the traced clients under observation
			grpc.WithChainUnaryInterceptor(grpcmw.UnaryClientTrace()),
			grpc.WithChainStreamInterceptor(grpcmw.StreamClientTrace()))
		if err != nil {
			return nil, err
		}
		w.conns = append(w.conns, conn)
	}
	return w, nil
}

func (w *infra) stop() {
	w.once.Do(w.doStop)
}

func (w *infra) doStop() {
	for _, c := range w.conns {
		_ = c.Close()
	}
	w.grpcSrv.Stop()
	w.httpSrv.Close()
	w.httpCli.CloseIdleConnections()
}

func (w *infra) conn() *grpc.ClientConn {
	return w.conns[int(w.connNext.Add(1))%len(w.conns)]
}

// ---------------------------------------------------------------- gRPC side

type msg struct{ S string }

type rawCodec struct{}

func (rawCodec) Marshal(v any) ([]byte, error) {
	m, ok := v.(*msg)
	if !ok {
		return nil, fmt.Errorf("rawCodec: %T", v)
	}
	return []byte(m.S), nil
}
func (rawCodec) Unmarshal(b []byte, v any) error {
	m, ok := v.(*msg)
	if !ok {
		return fmt.Errorf("rawCodec: %T", v)
	}
	m.S = string(b)
	return nil
}
func (rawCodec) Name() string { return "verifraw" }

func init() { encoding.RegisterCodec(rawCodec{}) }

type probeService interface{}

func unaryMethod(name string) grpc.MethodDesc {
	return grpc.MethodDesc{MethodName: name, Handler: func(srv any, ctx context.Context, dec func(any) error, interceptor grpc.UnaryServerInterceptor) (any, error) {
		in := new(msg)
		if err := dec(in); err != nil {
			return nil, err
		}
		h := func(ctx context.Context, req any) (any, error) { probe(ctx); return &msg{S: "ok"}, nil }
		if interceptor == nil {
			return h(ctx, in)
		}
		return interceptor(ctx, in, &grpc.UnaryServerInfo{Server: srv, FullMethod: "/verif.Probe/" + name}, h)
	}}
}

func streamMethod(name string) grpc.StreamDesc {
	return grpc.StreamDesc{StreamName: name, ServerStreams: true, ClientStreams: true, Handler: func(srv any, st grpc.ServerStream) error {
		probe(st.Context())
		in := new(msg)
		if err := st.RecvMsg(in); err != nil && err != io.EOF {
			return err
		}
		return st.SendMsg(&msg{S: "ok"})
	}}
}

var probeDesc = grpc.ServiceDesc{
	ServiceName: "verif.Probe",
	HandlerType: (*probeService)(nil),
	Methods:     []grpc.MethodDesc{unaryMethod("Call"), unaryMethod("Health")},
	Streams:     []grpc.StreamDesc{streamMethod("Stream"), streamMethod("HealthStream")},
}

func mdCopy(md metadata.MD) map[string][]string {
	out := make(map[string][]string, len(md))
	for k, v := range md {
		out[strings.ToLower(k)] = append([]string(nil), v...)
	}
	return out
}

func first(v []string) string {
	if len(v) == 0 {
		return ""
	}
	return v[0]
}

func dispatchUnary(ctx context.Context, req any, info *grpc.UnaryServerInfo, handler grpc.UnaryHandler) (any, error) {
	md, _ := metadata.FromIncomingContext(ctx)
	ep := lookup(first(md.Get(caseMDKey)))
	if ep == nil || ep.unary == nil {
		return nil, status.Error(codes.NotFound, "no such case")
	}
	rec := ep.begin("grpc-unary", info.FullMethod, mdCopy(md))
	defer ep.end(rec)
	return ep.unary(context.WithValue(ctx, recKey{}, rec), req, info, handler)
}

type ctxStream struct {
	grpc.ServerStream
	ctx context.Context
}

func (s *ctxStream) Context() context.Context { return s.ctx }

func dispatchStream(srv any, ss grpc.ServerStream, info *grpc.StreamServerInfo, handler grpc.StreamHandler) error {
	md, _ := metadata.FromIncomingContext(ss.Context())
	ep := lookup(first(md.Get(caseMDKey)))
	if ep == nil || ep.stream == nil {
		return status.Error(codes.NotFound, "no such case")
	}
	rec := ep.begin("grpc-stream", info.FullMethod, mdCopy(md))
	defer ep.end(rec)
	return ep.stream(srv, &ctxStream{ss, context.WithValue(ss.Context(), recKey{}, rec)}, info, handler)
}

// fakeStream is the grpc.ServerStream of a direct (transport-less) call.
type fakeStream struct{ ctx context.Context }

func (f *fakeStream) SetHeader(metadata.MD) error  { return nil }
func (f *fakeStream) SendHeader(metadata.MD) error { return nil }
func (f *fakeStream) SetTrailer(metadata.MD)       {}
func (f *fakeStream) Context() context.Context     { return f.ctx }
func (f *fakeStream) SendMsg(any) error            { return nil }
func (f *fakeStream) RecvMsg(any) error            { return io.EOF }

// serveDirect hands metadata to the endpoint's interceptors without a transport.
func serveDirect(ep *endpoint, md metadata.MD) error {
	in := md.Copy()
	full := "/verif.Probe/" + ep.spec.Path
	ctx := metadata.NewIncomingContext(context.Background(), in)
	rec := ep.begin(ep.spec.Transport, full, mdCopy(in))
	defer ep.end(rec)
	ctx = context.WithValue(ctx, recKey{}, rec)
	if ep.spec.Transport == "grpc-unary" {
		_, err := ep.unary(ctx, &msg{}, &grpc.UnaryServerInfo{FullMethod: full}, func(ctx context.Context, req any) (any, error) {
			probe(ctx)
			return &msg{S: "ok"}, nil
		})
		return err
	}
	return ep.stream(struct{}{}, &fakeStream{ctx}, &grpc.StreamServerInfo{FullMethod: full, IsClientStream: true, IsServerStream: true},
		func(srv any, st grpc.ServerStream) error { probe(st.Context()); return nil })
}

// ---------------------------------------------------------------- sending a request to an endpoint

// send delivers one request to ep. ctx is the caller's context: Background for
// the driver, the upstream handler's context inside a chain. The request always
// goes through the traced client of the downstream transport (goa's WrapDoer /
// UnaryClientTrace / StreamClientTrace), which must add nothing when ctx holds no trace.
func send(ctx context.Context, ep *endpoint, headers []hdr) error {
	switch ep.spec.Transport {
	case "http":
		base := "http://verif.test"
		var doer httpmw.Doer = inprocDoer{}
		if ep.spec.Real {
			base, doer = world.httpSrv.URL, world.httpCli
		}
		req, err := http.NewRequestWithContext(ctx, http.MethodGet, base+ep.spec.Path, nil)
		if err != nil {
			return err
		}
		for _, h := range headers {
			req.Header.Add(h.K, h.V)
		}
		req.Header.Set(caseHeader, ep.id)
		resp, err := httpmw.WrapDoer(doer).Do(req)
		if err != nil {
			return err
		}
		_, _ = io.Copy(io.Discard, resp.Body)
		_ = resp.Body.Close()
		if resp.StatusCode != http.StatusOK {
			return fmt.Errorf("HTTP status %d", resp.StatusCode)
		}
		return nil
	case "grpc-unary", "grpc-stream":
		md := metadata.MD{}
		if old, ok := metadata.FromOutgoingContext(ctx); ok {
			md = old
		}
		for _, h := range headers {
			md.Append(h.K, h.V)
		}
		md.Set(caseMDKey, ep.id)
		ctx = metadata.NewOutgoingContext(ctx, md)
		full := "/verif.Probe/" + ep.spec.Path
		unary := ep.spec.Transport == "grpc-unary"
		desc := &grpc.StreamDesc{StreamName: ep.spec.Path, ServerStreams: true, ClientStreams: true}
		if ep.spec.Real {
			if unary {
				return world.conn().Invoke(ctx, full, &msg{S: "q"}, &msg{})
			}
			cs, err := world.conn().NewStream(ctx, desc, full)
			if err != nil {
				return err
			}
			if err := cs.SendMsg(&msg{S: "q"}); err != nil {
				return err
			}
			if err := cs.CloseSend(); err != nil {
				return err
			}
			for {
				if err := cs.RecvMsg(&msg{}); err != nil {
					if errors.Is(err, io.EOF) {
						return nil
					}
					return err
				}
			}
		}
		// direct: the traced client interceptor with an invoker/streamer that moves the
		// outgoing metadata to the server side as incoming metadata
		if unary {
			return grpcmw.UnaryClientTrace()(ctx, full, &msg{}, &msg{}, nil,
				func(ctx context.Context, method string, req, reply any, cc *grpc.ClientConn, opts ...grpc.CallOption) error {
					out, _ := metadata.FromOutgoingContext(ctx)
					return serveDirect(ep, out)
				})
		}
		_, err := grpcmw.StreamClientTrace()(ctx, desc, nil, full,
			func(ctx context.Context, desc *grpc.StreamDesc, cc *grpc.ClientConn, method string, opts ...grpc.CallOption) (grpc.ClientStream, error) {
				out, _ := metadata.FromOutgoingContext(ctx)
				return nil, serveDirect(ep, out)
			})
		return err
	}
	return fmt.Errorf("bad transport %q", ep.spec.Transport)
}
