// mon-c12: "any DSL program yields a design or located errors, never a crash"
// (property C12, DESIGN §7.C12).
//
// Two workloads, both executing the real goa code in child processes:
//   - chaos:    random trees of calls over ALL exported functions of package dsl
//     (table regenerated from $VERIF_REPO/dsl/*.go at check time), any function
//     inside any other, arguments drawn per static parameter type;
//   - dangling: valid specs plus exactly one reference to a name that does not
//     exist; goa must reject them.
//
// The oracle shares no code with goa: a panic/fatal error/non-termination is
// observed from outside, "rejected" needs a non-empty, located error list, and
// a dangling mutant is wrong by construction.
package main

import (
	"encoding/json"
	"flag"
	"fmt"
	"os"
	"path/filepath"
	"regexp"
	"sort"
	"strings"
	"sync"
	"time"

	"verif.local/lab/chaos"
	"verif.local/lab/chaos/prog"
	"verif.local/lab/chaos/runner"
	"verif.local/lab/vc"
)

// finding is one oracle alarm.
type finding struct {
	Key, What string
}

// chaosWitness replays one chaos program.
type chaosWitness struct {
	Kind    string        `json:"kind"` // chaos
	Program *prog.Program `json:"program"`
	Source  string        `json:"source"`
	Outcome string        `json:"outcome"`
	Phase   string        `json:"phase,omitempty"`
	Panic   string        `json:"panic,omitempty"`
	Top     string        `json:"top,omitempty"`
	Stack   string        `json:"stack,omitempty"`
	ErrText string        `json:"err_text,omitempty"`
	Dump    string        `json:"dump,omitempty"`
	BoundS  float64       `json:"bound_s,omitempty"`
	// dangling replays
	Class     string `json:"class,omitempty"`
	Profile   string `json:"profile,omitempty"`
	Site      string `json:"site,omitempty"`
	BaseDSL   string `json:"base_dsl,omitempty"`
	MutantDSL string `json:"mutant_dsl,omitempty"`
	Status    string `json:"status,omitempty"`
}

func scratch() string {
	if d := os.Getenv("VERIF_SCRATCH_DIR"); d != "" {
		return d
	}
	d, _ := os.MkdirTemp("/var/tmp", "verif.c12.")
	return d
}

var (
	quotedRe = regexp.MustCompile(`"[^"]*"|'[^']*'|` + "`[^`]*`")
	numRe    = regexp.MustCompile(`\d+`)
	hexRe    = regexp.MustCompile(`0x[0-9a-fA-F]+`)
)

// normMsg abstracts data out of a message so that it can be part of a key.
func normMsg(s string) string {
	s = quotedRe.ReplaceAllString(s, "Q")
	s = hexRe.ReplaceAllString(s, "X")
	s = numRe.ReplaceAllString(s, "N")
	s = strings.Join(strings.Fields(s), " ")
	if len(s) > 70 {
		s = s[:70]
	}
	return s
}

func firstWords(s string, n int) string {
	f := strings.Fields(s)
	if len(f) > n {
		f = f[:n]
	}
	return strings.Join(f, " ")
}

// judgeErrors applies the "non-empty list of errors that name the offending expression" clause.
//
// Rule (deliberately lenient, see run.Assume): the list must render to a non-empty text; each
// DSL-execution error must carry a file:line location or an "in <expression>"/"(top level)" suffix;
// each validation error must be attached to an expression whose name is not empty.
func judgeErrors(res *runner.Result) []finding {
	var out []finding
	if strings.TrimSpace(res.ErrText) == "" {
		return []finding{{"rejected-with-empty-message", "eval.RunDSL returned an error whose text is empty"}}
	}
	if len(res.Errors) == 0 {
		return nil
	}
	for _, e := range res.Errors {
		switch e.Kind {
		case "validation":
			for _, v := range e.Validation {
				if strings.TrimSpace(v.Msg) == "" {
					out = append(out, finding{"rejected-with-empty-message:validation:" + v.ExprType, "a validation error of " + v.ExprType + " has no text"})
				} else if strings.TrimSpace(v.Expr) == "" {
					out = append(out, finding{"unlocated-error:validation:" + v.ExprType,
						fmt.Sprintf("validation error %q is attached to an expression (%s) whose name is empty: the message names nothing", v.Msg, v.ExprType)})
				}
			}
		case "dsl":
			t := strings.TrimSpace(e.Text)
			switch {
			case t == "":
				out = append(out, finding{"rejected-with-empty-message:dsl", "one error of the list has no text"})
			case e.File == "" && !strings.Contains(t, " in ") && !strings.Contains(t, "(top level)"):
				out = append(out, finding{"unlocated-error:" + firstWords(normMsg(t), 3), fmt.Sprintf("error %q has neither a file:line location nor an expression", t)})
			}
		default:
			// plain error returned by RunDSL itself (dependency cycles): non-empty text is all that is demanded
		}
	}
	return out
}

// judgeResult applies the chaos oracle to the outcome of one program.
func judgeResult(res *runner.Result, repo string) []finding {
	switch res.Outcome {
	case "panic":
		top := res.Top
		if top == "" {
			top = "-"
		}
		key, site := chaos.PanicKey(res.Stack, repo, res.Panic)
		what := fmt.Sprintf("panic %q escaped (phase %s) at %s; innermost program call: %s", chaos.HeadS(res.Panic, 200), res.Phase, site, top)
		return []finding{{key, what}}
	case "rejected":
		return judgeErrors(res)
	}
	return nil
}

// judgeDeath turns a dead child (alone run) into a finding.
func judgeDeath(d *chaos.Death, repo string) finding {
	fn, dslFn, innermost := chaos.RepoFrames(d.Stderr, repo)
	if d.Kind == "timeout" {
		if dslFn == "" {
			dslFn = innermost
		}
		return finding{"nontermination:" + dslFn, fmt.Sprintf("program still running after %.0f s alone (innermost goa frame %s)", d.Bound.Seconds(), innermost)}
	}
	switch {
	case strings.Contains(d.Stderr, "stack overflow") || strings.Contains(d.Stderr, "goroutine stack exceeds"):
		return finding{"fatal:stack-overflow:" + fn, "unbounded recursion: the process died with a stack overflow in " + fn}
	case strings.Contains(d.Stderr, "CHAOS-MEMORY-GUARD"):
		return finding{"fatal:out-of-memory:" + fn, "unbounded allocation (heap above 6 GiB) in " + fn}
	}
	first := ""
	for _, l := range strings.Split(d.Stderr, "\n") {
		if strings.HasPrefix(l, "fatal error:") || strings.HasPrefix(l, "panic:") {
			first = l
			break
		}
	}
	return finding{"fatal:" + normMsg(first) + ":" + fn, fmt.Sprintf("the process died (exit %s): %s", d.Exit, first)}
}

var minimizeFlag = flag.Bool("minimize", false, "with --replay: shrink the chaos program while the violation key stays the same and print it")

func main() {
	run := vc.New("C12")
	run.Rule("chaos: programs are trees (dsl function, arguments, func() bodies) over every exported function of package dsl " +
		"(table regenerated from $VERIF_REPO/dsl/*.go), depth <=4, <=25 calls, any function inside any other (half of the nestings follow the " +
		"contexts named in the doc comments, half are uniform), arguments drawn per static parameter type from pools of names, numbers, " +
		"data types, earlier results, nested calls, func() bodies, nil. Each program runs after a full reset in a batch child, alarms are " +
		"re-run ALONE in a fresh process and judged there. dangling: valid spec + exactly one reference to a missing attribute/error/view/scheme, " +
		"evaluated in a fresh process; must be rejected. distinct = distinct (sorted multiset of functions called, outcome class) and (mutation class, profile, outcome).")
	run.Assume(
		"located errors, lenient reading: the rendered error list must be non-empty; an error recorded during DSL execution must carry a file:line location or an 'in <expression>'/'(top level)' suffix; a validation error must be attached to an expression with a non-empty name; a plain error returned by RunDSL (dependency cycle) only needs text",
		"termination: a batch watchdog is inconclusive; only a program still running ALONE after max(60 s, 200 x batch median) is reported; this is the one place a clock contributes to a verdict (the statement is about termination)",
		"a panic seen in a batch but not when the program runs alone in a fresh process is counted as inconclusive (state left by an earlier program of the batch), never as a violation",
		"arguments only take values a Go program could pass for the static parameter type (others are replaced by the zero value); nil funcs and nil data types are legal Go and are included",
		"dangling: only classes the statement covers (transport mappings, requirements, views, error responses referring to missing attributes/schemes/views/errors); mutants whose base spec goa rejects are skipped (inconclusive)")
	repo := chaos.Repo()
	dir := filepath.Join(scratch(), "c12")
	_ = os.MkdirAll(dir, 0o755)

	sigs, info, err := chaos.Scan(repo)
	if err != nil {
		run.Infra("cannot scan %s/dsl: %v", repo, err)
		run.Finish()
	}
	run.Count("dsl_functions_in_table", len(sigs))
	run.Count("dsl_functions_skipped_testing", len(info.SkippedTesting))
	run.Count("dsl_functions_skipped_generic", len(info.SkippedGeneric))
	g := chaos.NewGen(sigs)
	if u := g.UnknownParamTypes(); len(u) > 0 {
		run.Extra("param_types_fed_zero_values_only", u)
	}
	h, err := chaos.Build(dir, sigs)
	if err != nil {
		run.Infra("%v", err)
		run.Finish()
	}

	if run.Replay != "" {
		replay(run, h, g, repo, dir)
		run.Finish()
	}

	only := os.Getenv("VERIF_C12_ONLY") // calibration aid: chaos | dangling
	var wg sync.WaitGroup
	if only != "chaos" {
		wg.Add(1)
		go func() {
			defer wg.Done()
			runDangling(run, filepath.Join(dir, "dangling"), run.N(480, 6000))
		}()
	}
	if only != "dangling" {
		runChaos(run, h, g, repo, run.N(4000, 150000))
	}
	wg.Wait()
	run.Floor(run.N(300, 3000))
	run.Finish()
}

func witnessOf(p *prog.Program, res *runner.Result) chaosWitness {
	w := chaosWitness{Kind: "chaos", Program: p, Source: p.GoSource()}
	if res != nil {
		w.Outcome, w.Phase, w.Panic, w.Top = res.Outcome, res.Phase, chaos.HeadS(res.Panic, 2000), res.Top
		w.Stack = chaos.HeadS(res.Stack, 6000)
		w.ErrText = chaos.HeadS(res.ErrText, 3000)
	}
	return w
}

// confirmAlone runs one program in a fresh process and reports findings.
func confirmAlone(run *vc.Run, h *chaos.Harness, repo string, p *prog.Program, bound time.Duration) (fs []finding, w chaosWitness, res *runner.Result) {
	out := h.Run([]*prog.Program{p}, bound)
	for _, s := range out.Infra {
		run.Infra("%s", s)
	}
	if len(out.Deaths) > 0 {
		d := out.Deaths[0]
		w = witnessOf(p, nil)
		w.Outcome = d.Kind
		w.Dump = chaos.HeadS(d.Stderr, 12000)
		w.BoundS = bound.Seconds()
		return []finding{judgeDeath(d, repo)}, w, nil
	}
	res = out.Results[p.ID]
	if res == nil {
		return nil, witnessOf(p, nil), nil
	}
	return judgeResult(res, repo), witnessOf(p, res), res
}

func runChaos(run *vc.Run, h *chaos.Harness, g *chaos.Gen, repo string, n int) {
	const batchSize = 250
	h.GenEvery = 4
	batchBound := 30 * time.Second
	type job struct{ lo, hi int }
	jobs := make(chan job, 1024)
	var wg sync.WaitGroup
	perKey := map[string]int{}
	var mu sync.Mutex
	confirmCap := run.N(1000000, 6)
	worker := func() {
		defer wg.Done()
		for j := range jobs {
			progs := make([]*prog.Program, 0, j.hi-j.lo)
			byID := map[int]*prog.Program{}
			for i := j.lo; i < j.hi; i++ {
				p := g.Program(run.Rand(1, uint64(i)), i)
				progs = append(progs, p)
				byID[i] = p
			}
			out := h.Run(progs, batchBound)
			for _, s := range out.Infra {
				run.Infra("%s", s)
			}
			median := chaos.MedianMicros(out.Results)
			for _, p := range progs {
				res := out.Results[p.ID]
				run.Eval(1)
				if res == nil {
					continue // died or never ran: handled below
				}
				sig := strings.Join(p.Funcs(), ",") + "|" + res.Outcome
				run.Distinct(sig)
				run.Count("programs_"+res.Outcome, 1)
				run.Count("programs_"+p.Mode+"_"+res.Outcome, 1)
				if res.Outcome == "rejected" && os.Getenv("VERIF_C12_DEBUG") != "" && len(res.Errors) > 0 {
					t := res.Errors[0].Text
					if i := strings.Index(t, "] "); i > 0 {
						t = t[i+2:]
					}
					fmt.Fprintf(os.Stderr, "DEBUGERR %s n=%d %s\n", p.Mode, len(res.Errors), normMsg(t))
				}
				if res.Outcome == "rejected" {
					phase := "execution"
					for _, e := range res.Errors {
						if e.Kind == "validation" {
							phase = "validation"
						}
					}
					run.Count("programs_rejected_during_"+phase, 1)
				}
				run.Count("dsl_calls_executed", res.NCalls)
				run.Max("max_calls_in_a_program", p.NumCalls())
				for _, f := range res.Called {
					run.Seen("dsl_functions_called", f)
				}
				for _, pr := range res.Pairs {
					run.Seen("nesting_pairs", pr)
				}
				if res.Gen != "" {
					g := res.Gen
					if strings.HasPrefix(g, "panic:") {
						site, _ := chaos.PanicSite(res.GenSite, repo)
						run.Seen("generator_panic_sites_on_accepted_programs", site)
						g = "panic"
					}
					run.Count("accepted_programs_to_generator_"+g, 1)
				}
				fs := judgeResult(res, repo)
				if len(fs) == 0 {
					if len(res.Errors) > 0 {
						run.Count("error_entries_checked", len(res.Errors))
					}
					continue
				}
				// an alarm: judge the program alone in a fresh process
				mu.Lock()
				skip := true
				for _, f := range fs {
					run.Count("alarms "+f.Key, 1)
					perKey[f.Key]++
					if perKey[f.Key] <= confirmCap {
						skip = false
					}
				}
				mu.Unlock()
				if skip {
					run.Count("alarms_beyond_confirmation_cap", 1)
					continue
				}
				afs, w, _ := confirmAlone(run, h, repo, p, 60*time.Second)
				if len(afs) == 0 {
					run.Inconclusive("alarm in a batch did not reproduce alone")
					continue
				}
				for _, f := range afs {
					noteFirst(f.Key, p)
					if strings.HasPrefix(f.Key, "panic:") {
						run.Seen("panic_sites", f.Key)
					}
					if strings.HasPrefix(f.Key, "fatal:") {
						run.Seen("fatal_sites", f.Key)
					}
					run.Violation(f.Key, f.What, w)
				}
			}
			for _, d := range out.Deaths {
				bound := 60 * time.Second
				if b := time.Duration(median*200) * time.Microsecond; b > bound {
					bound = b
				}
				if d.Kind == "timeout" {
					run.Count("batch_watchdog_fired", 1)
				} else {
					run.Count("batch_child_died", 1)
				}
				afs, w, res := confirmAlone(run, h, repo, d.Prog, bound)
				if len(afs) == 0 {
					if res != nil {
						run.Count("programs_"+res.Outcome, 1)
						run.Distinct(strings.Join(d.Prog.Funcs(), ",") + "|" + res.Outcome)
					}
					if d.Kind == "timeout" {
						run.Inconclusive("batch watchdog fired, program terminates alone")
					} else {
						run.Inconclusive("child died in a batch, program survives alone")
					}
					continue
				}
				run.Count("programs_died_or_hung", 1)
				for _, f := range afs {
					noteFirst(f.Key, d.Prog)
					run.Violation(f.Key, f.What, w)
				}
			}
		}
	}
	for i := 0; i < 16; i++ {
		wg.Add(1)
		go worker()
	}
	for lo := 0; lo < n; lo += batchSize {
		hi := lo + batchSize
		if hi > n {
			hi = n
		}
		jobs <- job{lo, hi}
	}
	close(jobs)
	wg.Wait()
	if os.Getenv("VERIF_C12_CATALOGUE") != "" {
		// calibration aid: a minimal program per violation key
		for _, key := range sortedProgKeys(firstProg) {
			key := key
			min := g.Minimize(firstProg[key], func(c *prog.Program) bool {
				cfs, _, _ := confirmAlone(run, h, repo, c, 60*time.Second)
				for _, f := range cfs {
					if f.Key == key {
						return true
					}
				}
				return false
			})
			fmt.Printf("CATALOGUE key=%s known=%v\n%s\n", key, run.IsKnown(key), min.GoSource())
		}
	}
}

var (
	firstMu   sync.Mutex
	firstProg = map[string]*prog.Program{}
)

func noteFirst(key string, p *prog.Program) {
	firstMu.Lock()
	if q, ok := firstProg[key]; !ok || p.NumCalls() < q.NumCalls() {
		firstProg[key] = p
	}
	firstMu.Unlock()
}

func sortedProgKeys(m map[string]*prog.Program) []string {
	ks := make([]string, 0, len(m))
	for k := range m {
		ks = append(ks, k)
	}
	sort.Strings(ks)
	return ks
}

func replay(run *vc.Run, h *chaos.Harness, g *chaos.Gen, repo, dir string) {
	var w chaosWitness
	if err := run.LoadReplay(&w); err != nil {
		fmt.Println("replay:", err)
		run.Infra("cannot load replay")
		return
	}
	if w.Kind == "dangling" {
		replayDangling(run, filepath.Join(dir, "dangling"), &w)
		return
	}
	if w.Program == nil {
		run.Infra("replay file has no program")
		return
	}
	fmt.Printf("replaying chaos program %d (%d calls) alone in a fresh process:\n%s\n", w.Program.ID, w.Program.NumCalls(), w.Program.GoSource())
	bound := 60 * time.Second
	if w.BoundS > 60 {
		bound = time.Duration(w.BoundS) * time.Second
	}
	fs, w2, res := confirmAlone(run, h, repo, w.Program, bound)
	run.Eval(1)
	if res != nil {
		fmt.Printf("outcome: %s phase=%s\n", res.Outcome, res.Phase)
		if res.Outcome == "panic" {
			fmt.Printf("panic: %s\ninnermost program call: %s\n%s\n", res.Panic, res.Top, chaos.HeadS(res.Stack, 3000))
		}
		if res.Outcome == "rejected" {
			fmt.Printf("errors:\n%s\n", chaos.HeadS(res.ErrText, 3000))
		}
	} else if w2.Dump != "" {
		fmt.Printf("child died/hung:\n%s\n", chaos.HeadS(w2.Dump, 3000))
	}
	if len(fs) == 0 {
		fmt.Println("oracle: no panic, no fatal error, terminated, errors (if any) are non-empty and located: held")
	}
	for _, f := range fs {
		fmt.Printf("oracle: %s: %s\n", f.Key, f.What)
		run.Violation(f.Key, f.What, w2)
	}
	if *minimizeFlag && len(fs) > 0 {
		key := fs[0].Key
		trials := 0
		min := g.Minimize(w.Program, func(c *prog.Program) bool {
			trials++
			cfs, _, _ := confirmAlone(run, h, repo, c, bound)
			for _, f := range cfs {
				if f.Key == key {
					return true
				}
			}
			return false
		})
		fmt.Printf("MINIMAL key=%s calls=%d trials=%d\n%s", key, min.NumCalls(), trials, min.GoSource())
		b, _ := json.Marshal(min)
		fmt.Printf("MINIMAL-JSON %s\n", b)
	}
}
