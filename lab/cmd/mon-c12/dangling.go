package main

import (
	"fmt"
	"os"
	"path/filepath"
	"regexp"
	"strings"

	"verif.local/lab/chaos"
	"verif.local/lab/gen"
	"verif.local/lab/pipeline"
	"verif.local/lab/spec"
	"verif.local/lab/vc"
)

var danglingProfiles = []string{"http-loc", "errors", "security", "views", "mixed", "grpc"}

const designHeader = "package designs\n\nimport (\n\t. \"goa.design/goa/v3/dsl\"\n\t\"goa.design/goa/v3/expr\"\n)\n\nvar _ expr.UserType\nvar _ = API\n\n"

type danglingCase struct {
	idx     int
	profile string
	mut     *chaos.Mutation
	base    *pipeline.Design
	mutant  *pipeline.Design
}

// setDSL replaces the printed DSL of a design (text-level mutations and replays).
func setDSL(b *pipeline.Batch, d *pipeline.Design, dsl string) error {
	d.DSL = dsl
	return os.WriteFile(filepath.Join(b.Dir, "designs", d.ID+".go"), []byte(designHeader+dsl), 0o644)
}

// judgeDangling applies the oracle to one (base, mutant) pair.
func judgeDangling(run *vc.Run, c *danglingCase, explain bool) {
	say := func(format string, a ...any) {
		if explain {
			fmt.Printf(format+"\n", a...)
		}
	}
	w := chaosWitness{Kind: "dangling", Class: c.mut.Class, Profile: c.profile, Site: c.mut.Site, BaseDSL: c.base.DSL, MutantDSL: c.mutant.DSL,
		Status: c.mutant.Status, ErrText: chaos.HeadS(c.mutant.Errors, 3000), Stack: chaos.HeadS(c.mutant.Stack, 6000)}
	run.Eval(1)
	say("base spec: %s %s", c.base.Status, chaos.HeadS(c.base.Errors, 600))
	switch c.base.Status {
	case "accepted":
	case "panic":
		key, _ := chaos.PanicKey(c.base.Stack, chaos.Repo(), c.base.Errors)
		wb := w
		wb.Status, wb.Stack, wb.ErrText, wb.MutantDSL = "panic(base)", chaos.HeadS(c.base.Stack, 6000), c.base.Errors, ""
		run.Violation(key, "a valid generated design panics: "+chaos.HeadS(c.base.Errors, 200), wb)
		return
	case "crash":
		if strings.Contains(c.base.Stack, "stack overflow") || strings.Contains(c.base.Stack, "goroutine stack exceeds") {
			fn, _ := chaos.FirstRepoFrame(c.base.Stack, chaos.Repo())
			wb := w
			wb.Status, wb.Stack, wb.MutantDSL = "crash(base)", chaos.HeadS(c.base.Stack, 6000), ""
			run.Violation("fatal:stack-overflow:"+fn, "a valid generated design overflows the stack in "+fn, wb)
			return
		}
		run.Inconclusive("dangling: child crashed on the unmutated spec without a recognisable fatal error")
		return
	default:
		run.Inconclusive("dangling: goa does not accept the unmutated spec (" + c.base.Status + ")")
		run.Count("base_not_accepted_profile_"+c.profile, 1)
		if os.Getenv("VERIF_C12_DEBUG") != "" {
			fmt.Fprintf(os.Stderr, "DEBUG base %s profile=%s: %s\n", c.base.Status, c.profile, chaos.HeadS(c.base.Errors, 300))
		}
		say("oracle: base not accepted, mutant not judged (inconclusive)")
		return
	}
	say("mutant (%s at %s): %s %s", c.mut.Class, c.mut.Site, c.mutant.Status, chaos.HeadS(c.mutant.Errors, 600))
	run.Seen("mutation_classes", c.mut.Class)
	run.Distinct("dangling|" + c.mut.Class + "|" + c.profile + "|" + c.mutant.Status)
	run.Count("mutants_"+c.mutant.Status, 1)
	run.Count("mutants "+c.mut.Class+" "+c.mutant.Status, 1)
	switch c.mutant.Status {
	case "rejected":
		if strings.TrimSpace(c.mutant.Errors) == "" {
			run.Violation("rejected-with-empty-message", "mutant rejected with an empty error text", w)
		}
		if chaos.MentionsName(c.mutant.Errors, c.mut.Name) {
			run.Count("mutants_rejected_naming_the_dangling_name", 1)
		} else {
			run.Count("mutants_rejected_without_naming_the_dangling_name", 1)
			run.Seen("classes_rejected_without_naming_the_name", c.mut.Class)
		}
		say("oracle: rejected as required")
	case "accepted":
		if c.mut.Benign {
			run.Count("benign_mutants_accepted", 1)
			say("oracle: accepted (nothing is missing in this mutant: fine)")
			break
		}
		run.Violation("dangling-accepted:"+c.mut.Class,
			fmt.Sprintf("design accepted although %s refers to %q which does not exist", c.mut.Site, c.mut.Name), w)
		say("oracle: ACCEPTED although %q does not exist: violation", c.mut.Name)
	case "panic":
		key, site := chaos.PanicKey(c.mutant.Stack, chaos.Repo(), c.mutant.Errors)
		run.Violation(key, "dangling reference ("+c.mut.Class+") panics at "+site+": "+chaos.HeadS(c.mutant.Errors, 200), w)
		say("oracle: panic at %s: violation", site)
	case "crash":
		if strings.Contains(c.mutant.Stack, "stack overflow") || strings.Contains(c.mutant.Stack, "goroutine stack exceeds") {
			fn, _ := chaos.FirstRepoFrame(c.mutant.Stack, chaos.Repo())
			run.Violation("fatal:stack-overflow:"+fn, "dangling reference ("+c.mut.Class+") overflows the stack", w)
			return
		}
		run.Inconclusive("dangling: child crashed without a recognisable fatal error")
	default:
		run.Inconclusive("dangling: child " + c.mutant.Status)
	}
}

func runDangling(run *vc.Run, dir string, n int) {
	const perBatch = 500
	for lo, bi := 0, 0; lo < n; lo, bi = lo+perBatch, bi+1 {
		hi := lo + perBatch
		if hi > n {
			hi = n
		}
		var specs []*spec.Spec
		var cases []*danglingCase
		for i := lo; i < hi; i++ {
			prof := danglingProfiles[i%len(danglingProfiles)]
			id := fmt.Sprintf("g%05d", i)
			o := gen.Opts{Profile: prof, NoStreams: true}
			base := gen.Generate(run.Rand(2, uint64(i)), id, o)
			mutant := gen.Generate(run.Rand(2, uint64(i)), id, o) // same stream: an identical, independent copy
			if prof == "grpc" {
				// gen's grpc profile does not assign field tags yet (goa rejects its designs): own small gRPC designs
				base, mutant = chaos.GRPCSpec(run.Rand(2, uint64(i)), id), chaos.GRPCSpec(run.Rand(2, uint64(i)), id)
			}
			if i%8 == 7 {
				// half of the Meta mutants decorate a fixed nested design (types holding types, used as payload and result)
				base, mutant = chaos.NestedSpec(run.Rand(2, uint64(i)), id), chaos.NestedSpec(run.Rand(2, uint64(i)), id)
			}
			m := chaos.PickMutation(run.Rand(3, uint64(i)), chaos.Mutations(mutant))
			if i%4 == 3 {
				// every fourth mutant decorates the design with documented Meta keys instead (nothing goes missing:
				// accepted or rejected, never a crash)
				if mms := chaos.MetaMutations(mutant); len(mms) > 0 {
					// the classes in turn, so that every key is tried several times even in the quick tier
					cs := chaos.Classes(mms)
					want := cs[(i/8)%len(cs)]
					for _, mm := range mms {
						if mm.Class == want {
							m = mm
						}
					}
				}
			}
			if m == nil {
				continue
			}
			m.Apply()
			specs = append(specs, base, mutant)
			cases = append(cases, &danglingCase{idx: i, profile: prof, mut: m})
		}
		b, err := pipeline.NewBatch(filepath.Join(dir, fmt.Sprintf("b%03d", bi)), specs)
		if err != nil {
			run.Infra("dangling: %v", err)
			return
		}
		b.Cmds = []string{} // eval.RunDSL only
		for k, c := range cases {
			c.base, c.mutant = b.Designs[2*k], b.Designs[2*k+1]
			if c.mut.Text != nil {
				nd := c.mut.Text(c.mutant.DSL)
				if nd == c.mutant.DSL {
					run.Infra("dangling: text mutation %s did not apply", c.mut.Class)
					return
				}
				if err := setDSL(b, c.mutant, nd); err != nil {
					run.Infra("dangling: %v", err)
					return
				}
			} else if c.base.DSL == c.mutant.DSL {
				run.Infra("dangling: mutation %s left the printed DSL unchanged", c.mut.Class)
				return
			}
		}
		if err := b.BuildLabgen(); err != nil {
			run.Infra("dangling: %v", err)
			return
		}
		b.Generate()
		for _, c := range cases {
			judgeDangling(run, c, false)
		}
		_ = os.RemoveAll(b.Dir)
	}
}

var funcNameRe = regexp.MustCompile(`^func D\d+\(\)`)

func replayDangling(run *vc.Run, dir string, w *chaosWitness) {
	mk := func(id string) *spec.Spec {
		return &spec.Spec{ID: id, API: spec.API{Name: "x"}, Services: []*spec.Service{}}
	}
	b, err := pipeline.NewBatch(filepath.Join(dir, "replay"), []*spec.Spec{mk("a"), mk("b")})
	if err != nil {
		run.Infra("replay: %v", err)
		return
	}
	b.Cmds = []string{}
	if w.MutantDSL == "" {
		w.MutantDSL = w.BaseDSL
	}
	if err := setDSL(b, b.Designs[0], funcNameRe.ReplaceAllString(w.BaseDSL, "func D0000()")); err != nil {
		run.Infra("replay: %v", err)
		return
	}
	if err := setDSL(b, b.Designs[1], funcNameRe.ReplaceAllString(w.MutantDSL, "func D0001()")); err != nil {
		run.Infra("replay: %v", err)
		return
	}
	if err := b.BuildLabgen(); err != nil {
		run.Infra("replay: %v", err)
		return
	}
	b.Generate()
	fmt.Printf("replaying dangling mutant class=%s profile=%s site=%s\n--- mutant DSL ---\n%s\n", w.Class, w.Profile, w.Site, w.MutantDSL)
	name := chaos.NoAttr
	for _, n := range []string{chaos.NoError, chaos.NoView, chaos.NoScheme} {
		if strings.Contains(w.MutantDSL, n) {
			name = n
		}
	}
	c := &danglingCase{profile: w.Profile, mut: &chaos.Mutation{Class: w.Class, Site: w.Site, Name: name, Benign: strings.HasPrefix(w.Class, "meta-key-only:") || strings.HasPrefix(w.Class, "inheritance-cycle:")}, base: b.Designs[0], mutant: b.Designs[1]}
	judgeDangling(run, c, true)
}
