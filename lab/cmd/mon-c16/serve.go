package main

import (
	"fmt"
	"io"
	"net/http"
	"net/http/httptest"
	"os"
	"strconv"
	"strings"
	"sync"

	goahttp "goa.design/goa/v3/http"
	"goa.design/goa/v3/http/middleware"

	"verif.local/lab/vc"
)

// obs is what the monitor saw for one request.
type obs struct {
	Status      int    `json:"status"`
	ContentType string `json:"content_type,omitempty"`
	Body        []byte `json:"-"`
	BodyText    string `json:"body,omitempty"`
	Panic       string `json:"panic,omitempty"`
	PanicSite   string `json:"panic_site,omitempty"`
	TransportEr string `json:"transport_error,omitempty"`

	HandlerCalls int               `json:"handler_calls"`
	Handler      int               `json:"handler"` // route index of the (last) handler reached, -1 none
	HVars        map[string]string `json:"handler_vars"`
	HPattern     string            `json:"handler_pattern"`
	SeenRawPath  string            `json:"seen_raw_path"` // r.URL.EscapedPath() as seen by the server side
	SeenRawSet   bool              `json:"seen_rawpath_set"`
	PreAtHandler int               `json:"mw_pre_at_handler"` // counting middlewares entered when the handler ran
	MwCalls      []int             `json:"mw_calls"`
	MwPostAfter  []bool            `json:"mw_post_after_handler"`

	Probed      bool              `json:"probed"`
	PreDone     bool              `json:"pre_done"`
	PrePattern  string            `json:"pre_pattern"`
	PreVars     map[string]string `json:"pre_vars"`
	PostDone    bool              `json:"post_done"`
	PostPattern string            `json:"post_pattern"`
}

// lab is one muxer built from a setSpec plus the recording plumbing.
type lab struct {
	spec   setSpec
	mux    goahttp.ResolverMuxer
	mu     sync.Mutex
	cur    *obs
	srv    *httptest.Server
	client *http.Client
	tables string
	hookOK bool
}

// sites lists the path fragments a panic frame is attributed to, goa first.
func sites() []string {
	out := []string{}
	if r := os.Getenv("VERIF_REPO"); r != "" {
		out = append(out, strings.TrimSuffix(r, "/")+"/")
	}
	return append(out, "/repo/", "goa/v3/", "chi/v5@v5.1.0/", "/src/net/")
}

const probeHeader = "X-Verif-Probe"

func copyVars(m map[string]string) map[string]string {
	if m == nil {
		return nil
	}
	out := make(map[string]string, len(m))
	for k, v := range m {
		out[k] = v
	}
	return out
}

// newLab registers the middlewares (before the first Handle) and the routes.
func newLab(spec setSpec) (l *lab, pan, site string) {
	l = &lab{spec: spec, mux: goahttp.NewMuxer()}
	pan, st := vc.Try(func() {
		ci := 0
		for i, u := range spec.Uses {
			if u == "smart" {
				l.mux.Use(middleware.SmartRedirectSlashes)
				continue
			}
			idx, probe := ci, i == spec.ProbeAt
			ci++
			l.mux.Use(func(next http.Handler) http.Handler {
				return http.HandlerFunc(func(w http.ResponseWriter, r *http.Request) {
					l.mu.Lock()
					o := l.cur
					o.MwCalls[idx]++
					if o.SeenRawPath == "" {
						o.SeenRawPath, o.SeenRawSet = r.URL.EscapedPath(), r.URL.RawPath != ""
					}
					l.mu.Unlock()
					if probe && r.Header.Get(probeHeader) != "" {
						p, v := l.mux.ResolvePattern(r), copyVars(l.mux.Vars(r))
						l.mu.Lock()
						o.Probed, o.PreDone, o.PrePattern, o.PreVars = true, true, p, v
						l.mu.Unlock()
					}
					next.ServeHTTP(w, r)
					l.mu.Lock()
					o.MwPostAfter[idx] = o.HandlerCalls > 0
					l.mu.Unlock()
					if probe {
						p := l.mux.ResolvePattern(r)
						l.mu.Lock()
						o.PostDone, o.PostPattern = true, p
						l.mu.Unlock()
					}
				})
			})
		}
		for i, rt := range spec.Routes {
			id := i
			l.mux.Handle(rt.Verb, rt.Pattern, func(w http.ResponseWriter, r *http.Request) {
				v, p := copyVars(l.mux.Vars(r)), l.mux.ResolvePattern(r)
				l.mu.Lock()
				o := l.cur
				o.HandlerCalls++
				o.Handler, o.HVars, o.HPattern = id, v, p
				o.SeenRawPath, o.SeenRawSet = r.URL.EscapedPath(), r.URL.RawPath != ""
				n := 0
				for _, c := range o.MwCalls {
					n += c
				}
				o.PreAtHandler = n
				l.mu.Unlock()
				w.Header().Set("X-Handler", strconv.Itoa(id))
				w.WriteHeader(http.StatusOK)
				io.WriteString(w, "ok") // nolint: errcheck
			})
		}
	})
	if pan != "" {
		return nil, pan, vc.PanicSite(st, sites()...)
	}
	l.tables, l.hookOK = muxTables(l.mux)
	return l, "", ""
}

func (l *lab) close() {
	if l.srv != nil {
		l.client.CloseIdleConnections()
		l.srv.Close()
	}
}

func (l *lab) fresh() *obs {
	n := l.spec.counters()
	o := &obs{Handler: -1, MwCalls: make([]int, n), MwPostAfter: make([]bool, n)}
	l.mu.Lock()
	l.cur = o
	l.mu.Unlock()
	return o
}

func target(c reqCase) string {
	if c.Query != "" {
		return c.RawPath + "?" + c.Query
	}
	return c.RawPath
}

// do sends one request. via = "recorder" (httptest.NewRequest + ServeHTTP) or
// "wire" (real loopback server, URL parsed by net/http from the request line).
func (l *lab) do(c reqCase, via string, probe bool) *obs {
	o := l.fresh()
	switch via {
	case "recorder":
		var w *httptest.ResponseRecorder
		pan, st := vc.Try(func() {
			r := httptest.NewRequest(c.Verb, target(c), nil)
			if c.Accept != "" {
				r.Header.Set("Accept", c.Accept)
			}
			if probe {
				r.Header.Set(probeHeader, "1")
			}
			w = httptest.NewRecorder()
			l.mux.ServeHTTP(w, r)
		})
		l.mu.Lock()
		defer l.mu.Unlock()
		if pan != "" {
			o.Panic, o.PanicSite = pan, vc.PanicSite(st, sites()...)
			return o
		}
		o.Status, o.ContentType, o.Body = w.Code, w.Header().Get("Content-Type"), w.Body.Bytes()
	case "wire":
		if l.srv == nil {
			l.srv = httptest.NewServer(l.mux)
			l.client = l.srv.Client()
		}
		req, err := http.NewRequest(c.Verb, l.srv.URL+target(c), nil)
		if err != nil {
			o.TransportEr = "NewRequest: " + err.Error()
			return o
		}
		if c.Accept != "" {
			req.Header.Set("Accept", c.Accept)
		}
		if probe {
			req.Header.Set(probeHeader, "1")
		}
		// RoundTrip, not Do: redirects must be observed, not followed or even parsed
		resp, err := l.client.Transport.RoundTrip(req)
		if err != nil {
			l.mu.Lock()
			o.TransportEr = "RoundTrip: " + err.Error()
			l.mu.Unlock()
			return o
		}
		b, _ := io.ReadAll(resp.Body)
		resp.Body.Close()
		l.mu.Lock()
		defer l.mu.Unlock()
		o.Status, o.ContentType, o.Body = resp.StatusCode, resp.Header.Get("Content-Type"), b
	default:
		panic("bad via " + via)
	}
	if len(o.Body) <= 300 {
		o.BodyText = fmt.Sprintf("%q", o.Body)
	} else {
		o.BodyText = fmt.Sprintf("%q…", o.Body[:300])
	}
	return o
}
