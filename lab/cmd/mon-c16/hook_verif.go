//go:build verif

package main

import (
	"fmt"
	"sort"
	"strings"

	goahttp "goa.design/goa/v3/http"
)

// muxTables renders the private tables of the muxer (wildcard name table and
// pending-middleware count) through the verif hook.
func muxTables(m goahttp.Muxer) (string, bool) {
	w, pending, ok := goahttp.VerifMuxTables(m)
	if !ok {
		return "", false
	}
	keys := make([]string, 0, len(w))
	for k := range w {
		keys = append(keys, k)
	}
	sort.Strings(keys)
	var b strings.Builder
	fmt.Fprintf(&b, "pending=%d", pending)
	for _, k := range keys {
		fmt.Fprintf(&b, " %q=%q", k, w[k])
	}
	return b.String(), true
}
