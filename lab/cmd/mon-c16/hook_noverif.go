//go:build !verif

package main

import goahttp "goa.design/goa/v3/http"

// muxTables: the hook is not compiled in; the table invariant is inconclusive.
func muxTables(goahttp.Muxer) (string, bool) { return "", false }
