package main

import (
	"bytes"
	"encoding/gob"
	"encoding/json"
	"encoding/xml"
	"fmt"
	"mime"
	"net/url"
	"sort"
	"strings"

	goahttp "goa.design/goa/v3/http"
)

type finding struct {
	Key  string
	What string
}

// witness is everything needed to re-execute one judged request.
type witness struct {
	Set     setSpec   `json:"set"`
	Req     *reqCase  `json:"req,omitempty"`
	Via     string    `json:"via,omitempty"`
	Probed  bool      `json:"probed,omitempty"`
	Got     *obs      `json:"got,omitempty"`
	Base    *obs      `json:"got_unprobed,omitempty"`
	Special string    `json:"special,omitempty"` // "tables": replay all Cases and compare the hook snapshot
	Cases   []reqCase `json:"cases,omitempty"`
	Before  string    `json:"tables_before,omitempty"`
	After   string    `json:"tables_after,omitempty"`
}

// rawPathSet tells (with the stdlib parser only) whether net/http will keep a
// RawPath for this request path, i.e. whether the router sees escaped text.
func rawPathSet(raw string) string {
	u, err := url.ParseRequestURI(raw)
	if err != nil {
		return "rawpath=unparsable"
	}
	if u.RawPath != "" {
		return "rawpath=set"
	}
	return "rawpath=empty"
}

func sameVars(a, b map[string]string) bool {
	if len(a) != len(b) {
		return false
	}
	for k, v := range a {
		if w, ok := b[k]; !ok || w != v {
			return false
		}
	}
	return true
}

// varCauses compares captured values with the originals and names, per
// differing wildcard, how the captured text relates to the original.
func varCauses(segs []seg, want, got map[string]string) []string {
	if sameVars(want, got) {
		return nil
	}
	kind := map[string]string{}
	for _, s := range segs {
		switch s.K {
		case 'S':
			kind[s.T] = "single"
		case 'C':
			kind[s.T] = "catchall"
		}
	}
	set := map[string]bool{}
	for k := range got {
		if _, ok := want[k]; !ok {
			set["cause=unexpected-key"] = true
		}
	}
	for k, w := range want {
		g, ok := got[k]
		switch {
		case !ok:
			set["cause=missing-key"] = true
		case g != w:
			c := "other"
			if u, err := url.PathUnescape(w); err == nil && u == g {
				c = "decoded-twice"
			} else if u, err := url.PathUnescape(g); err == nil && u == w {
				c = "still-escaped"
			}
			set["cause="+c] = true
			_ = kind
		}
	}
	out := make([]string, 0, len(set))
	for k := range set {
		out = append(out, k)
	}
	sort.Strings(out)
	return out
}

// side judges what the handler side of one request shows, per aspect.
func side(spec setSpec, c reqCase, o *obs) map[string][]finding {
	out := map[string][]finding{}
	add := func(aspect, key, what string) { out[aspect] = append(out[aspect], finding{key, what}) }
	rp := rawPathSet(c.RawPath)
	want := spec.Routes[c.Want]
	segs := parsePattern(want.Pattern)
	if o.Panic != "" {
		add("dispatch", "serve-panic site="+o.PanicSite, "ServeHTTP panicked: "+o.Panic)
		return out
	}
	switch {
	case o.HandlerCalls == 0:
		k := fmt.Sprintf("dispatch-miss status=%d %s", o.Status, rp)
		if spec.smart() && o.Status == 301 {
			k += " by=SmartRedirectSlashes"
		}
		add("dispatch", k, fmt.Sprintf("%s %s was built from %q but no handler ran (status %d, body %s)", c.Verb, c.RawPath, want.Pattern, o.Status, o.BodyText))
		return out
	case o.HandlerCalls > 1:
		add("dispatch", "dispatch-handler-ran-twice", fmt.Sprintf("%d handler invocations for one request", o.HandlerCalls))
		return out
	case o.Handler != c.Want:
		add("dispatch", "dispatch-wrong-handler "+rp, fmt.Sprintf("%s %s was built from route %d %q but reached route %d %q", c.Verb, c.RawPath, c.Want, want.Pattern, o.Handler, spec.Routes[o.Handler].Pattern))
		return out
	}
	for _, cause := range varCauses(segs, c.Values, o.HVars) {
		add("vars", "vars-mismatch at=handler "+cause+" "+rp, fmt.Sprintf("Vars=%q, original values %q (sent as %s)", o.HVars, c.Values, c.RawPath))
	}
	sh := "plain"
	if hasCatchAll(segs) {
		sh = "catchall"
	}
	if o.HPattern != want.Pattern {
		add("resolve", "resolve-mismatch at=handler pattern="+sh+" "+rp, fmt.Sprintf("ResolvePattern=%q, registered %q", o.HPattern, want.Pattern))
	}
	if o.PostDone && o.PostPattern != want.Pattern && o.PostPattern != o.HPattern {
		add("resolve-post", "resolve-mismatch at=mw-post pattern="+sh+" "+rp, fmt.Sprintf("ResolvePattern after next=%q, registered %q", o.PostPattern, want.Pattern))
	}
	n := spec.counters()
	for i := 0; i < n; i++ {
		if o.MwCalls[i] != 1 || !o.MwPostAfter[i] || o.PreAtHandler != n {
			add("wrap", "middleware-not-wrapping registered=before-first-handle", fmt.Sprintf("middleware calls=%v, entered before handler=%d of %d, returned after handler=%v", o.MwCalls, o.PreAtHandler, n, o.MwPostAfter))
			break
		}
	}
	return out
}

// judgePositive judges the unprobed run a and (if any) the probed run b.
func judgePositive(spec setSpec, c reqCase, a, b *obs) (fa, fb []finding) {
	sa := side(spec, c, a)
	for _, asp := range []string{"dispatch", "vars", "resolve", "resolve-post", "wrap"} {
		fa = append(fa, sa[asp]...)
	}
	if b == nil {
		return
	}
	rp := rawPathSet(c.RawPath)
	want := spec.Routes[c.Want]
	segs := parsePattern(want.Pattern)
	if b.PreDone {
		// what the middleware itself was told before calling next; a wrong answer identical to the
		// one the handler gets without any probe is the same defect and is not reported twice
		if b.PrePattern != want.Pattern && !(len(sa["resolve"]) > 0 && b.PrePattern == a.HPattern) {
			fb = append(fb, finding{"resolve-mismatch at=mw-pre " + rp,
				fmt.Sprintf("ResolvePattern in a Use'd middleware before next=%q, registered %q (path %s)", b.PrePattern, want.Pattern, c.RawPath)})
		}
		if !(len(sa["vars"]) > 0 && sameVars(b.PreVars, a.HVars)) {
			if causes := varCauses(segs, c.Values, b.PreVars); len(causes) > 0 {
				fb = append(fb, finding{"vars-mismatch at=mw-pre " + rp,
					fmt.Sprintf("Vars in a Use'd middleware before next=%q, original values %q (sent as %s; %s)", b.PreVars, c.Values, c.RawPath, strings.Join(causes, ", "))})
			}
		}
	}
	// whatever was right without the probe must still be right after a middleware asked
	sb := side(spec, c, b)
	if len(sa["dispatch"]) > 0 {
		return
	}
	for _, asp := range []string{"dispatch", "vars", "resolve", "resolve-post", "wrap"} {
		if len(sa[asp]) == 0 && len(sb[asp]) > 0 {
			fb = append(fb, finding{"mw-pre-resolve-corrupts aspect=" + asp,
				"after a Use'd middleware called ResolvePattern/Vars before next: " + sb[asp][0].What + " (correct without the middleware call)"})
		}
	}
	return
}

func acceptClass(a string) string {
	if a == "" {
		return "absent"
	}
	return a
}

// judgeNegative: the path matches no pattern (Want -1) or only patterns of
// other verbs (Want -2).
func judgeNegative(c reqCase, o *obs, smart bool) (fs []finding, outcome string) {
	if o.Panic != "" {
		return []finding{{"serve-panic site=" + o.PanicSite, "ServeHTTP panicked: " + o.Panic}}, "panic"
	}
	if o.HandlerCalls > 0 {
		return []finding{{"unmatched-request-reached-handler how=" + c.How, fmt.Sprintf("%s %s matches no registered (verb, pattern) yet handler %d ran", c.Verb, c.RawPath, o.Handler)}}, "handler"
	}
	if c.Want == -2 && o.Status == 405 {
		return nil, "405"
	}
	if smart && o.Status == 301 {
		// same class as the positive-case key "dispatch-miss status=301 ... by=SmartRedirectSlashes":
		// neither this path nor its slash-toggled form matches any pattern, yet it was redirected
		return []finding{{"unmatched-path-redirected status=301 " + rawPathSet(c.RawPath) + " by=SmartRedirectSlashes",
			fmt.Sprintf("%s %s matches no pattern with or without a trailing slash but was answered 301", c.Verb, c.RawPath)}}, "301"
	}
	if o.Status != 404 {
		w := "404"
		if c.Want == -2 {
			w = "404|405"
		}
		return []finding{{fmt.Sprintf("notfound-status got=%d want=%s how=%s", o.Status, w, c.How), fmt.Sprintf("%s %s answered %d %s", c.Verb, c.RawPath, o.Status, o.BodyText)}}, "status"
	}
	mt, _, err := mime.ParseMediaType(o.ContentType)
	if err != nil {
		mt = "unparsable"
	}
	ok := false
	switch c.Accept {
	case "", "*/*":
		ok = mt == "application/json" || mt == "application/xml" || mt == "application/gob"
	default:
		ok = mt == c.Accept
	}
	if !ok {
		return []finding{{"notfound-content-type accept=" + acceptClass(c.Accept) + " got=" + mt, fmt.Sprintf("404 body announced as %q for Accept %q: %s", o.ContentType, c.Accept, o.BodyText)}}, "ctype"
	}
	var er goahttp.ErrorResponse
	switch mt {
	case "application/json":
		err = json.Unmarshal(o.Body, &er)
	case "application/xml":
		err = xml.Unmarshal(o.Body, &er)
	case "application/gob":
		err = gob.NewDecoder(bytes.NewReader(o.Body)).Decode(&er)
	}
	if err != nil {
		return []finding{{"notfound-body-undecodable type=" + mt, fmt.Sprintf("404 body does not decode as ErrorResponse (%v): %s", err, o.BodyText)}}, "body"
	}
	if er.Name == "" && er.Message == "" {
		return []finding{{"notfound-body-empty-error type=" + mt, "404 body decodes to an ErrorResponse without name and message: " + o.BodyText}}, "body"
	}
	return nil, "404+" + strings.TrimPrefix(mt, "application/")
}
