package main

import (
	"fmt"
	"net/url"
	"sort"
	"strings"

	"verif.local/lab/vc"
)

// ---------------------------------------------------------------- patterns

// seg is one '/'-separated piece of a pattern: 'L' literal, 'S' single-segment
// wildcard {name}, 'C' trailing catch-all {*name}.
type seg struct {
	K byte
	T string
}

// parsePattern is the lab's own reading of the pattern syntax documented on
// goahttp.Muxer ("{name}" one segment, "{*name}" trailing rest).
func parsePattern(p string) []seg {
	if !strings.HasPrefix(p, "/") {
		return nil
	}
	var out []seg
	for _, s := range strings.Split(p[1:], "/") {
		switch {
		case strings.HasPrefix(s, "{*") && strings.HasSuffix(s, "}"):
			out = append(out, seg{'C', s[2 : len(s)-1]})
		case strings.HasPrefix(s, "{") && strings.HasSuffix(s, "}"):
			out = append(out, seg{'S', s[1 : len(s)-1]})
		default:
			out = append(out, seg{'L', s})
		}
	}
	return out
}

func patternText(segs []seg) string {
	parts := make([]string, len(segs))
	for i, s := range segs {
		switch s.K {
		case 'L':
			parts[i] = s.T
		case 'S':
			parts[i] = "{" + s.T + "}"
		case 'C':
			parts[i] = "{*" + s.T + "}"
		}
	}
	return "/" + strings.Join(parts, "/")
}

func shape(segs []seg) string {
	b := make([]byte, len(segs))
	for i, s := range segs {
		b[i] = s.K
		if s.K == 'L' && s.T == "" {
			b[i] = 'R' // root
		}
	}
	return string(b)
}

func hasCatchAll(segs []seg) bool { return len(segs) > 0 && segs[len(segs)-1].K == 'C' }

// overlap reports whether some path could be matched by both patterns. It is
// conservative (a single-segment wildcard is assumed to match any segment,
// even an empty one), so "no overlap" is certain.
func overlap(p, q []seg) bool {
	for i := 0; ; i++ {
		pe, qe := i >= len(p), i >= len(q)
		switch {
		case pe && qe:
			return true
		case pe || qe:
			return false // the one that ended needs exactly i segments, the other at least i+1
		}
		if p[i].K == 'C' || q[i].K == 'C' {
			return true
		}
		if p[i].K == 'L' && q[i].K == 'L' && p[i].T != q[i].T {
			return false
		}
	}
}

// refMatch is the conservative reference matcher used to decide that a raw
// path matches NO pattern: literals match raw-equal or decoded-equal, single
// wildcards match any segment, catch-alls any remainder.
func refMatch(p []seg, rawPath string) bool {
	if !strings.HasPrefix(rawPath, "/") {
		return false
	}
	rs := strings.Split(rawPath[1:], "/")
	for i, s := range p {
		if s.K == 'C' {
			return len(rs) >= i+1
		}
		if i >= len(rs) {
			return false
		}
		if s.K == 'L' {
			dec, err := url.PathUnescape(rs[i])
			if rs[i] != s.T && (err != nil || dec != s.T) {
				return false
			}
		}
	}
	return len(rs) == len(p)
}

// ---------------------------------------------------------------- specs

type route struct {
	Verb    string `json:"verb"`
	Pattern string `json:"pattern"`
}

// setSpec fully describes one muxer configuration.
type setSpec struct {
	Routes []route `json:"routes"`
	// Uses is the list of middlewares registered with Use before the first
	// Handle, outermost first: "count" (counting/recording middleware) or
	// "smart" (middleware.SmartRedirectSlashes).
	Uses []string `json:"uses"`
	// ProbeAt is the index in Uses of the counting middleware that calls
	// ResolvePattern/Vars before calling next when the request asks for it.
	ProbeAt int `json:"probe_at"`
}

func (s setSpec) counters() int {
	n := 0
	for _, u := range s.Uses {
		if u == "count" {
			n++
		}
	}
	return n
}

func (s setSpec) smart() bool {
	for _, u := range s.Uses {
		if u == "smart" {
			return true
		}
	}
	return false
}

// reqCase is one request with the oracle's expectation, fully expanded.
type reqCase struct {
	Verb    string `json:"verb"`
	RawPath string `json:"raw_path"` // exactly the bytes placed on the request line
	Query   string `json:"query,omitempty"`
	Accept  string `json:"accept"` // "" = header absent
	// Want: index in Routes of the route the URL was built from; -1 = the path
	// matches no pattern (404 expected); -2 = the path matches only patterns
	// registered with other verbs (404 or 405 accepted).
	Want   int               `json:"want"`
	Values map[string]string `json:"values,omitempty"` // original wildcard values
	Modes  map[string]string `json:"modes,omitempty"`  // how each value was escaped
	How    string            `json:"how,omitempty"`    // how a negative path was derived
}

var verbs = []string{"GET", "POST", "PUT", "DELETE", "PATCH", "OPTIONS"}
var literals = []string{"a", "b", "users", "v1", "files", "x-y", "img.png", "A", "0", "posts", "~u", "_"}
var names = []string{"id", "name", "p", "x_1", "ID", "0", "path", "q", "post_id", "_"}
var accepts = []string{"", "application/json", "application/xml", "application/gob", "*/*"}

func genPattern(r *vc.Rand) []seg {
	n := r.Intn(5) // 0..4 segments before an optional catch-all
	used := map[string]bool{}
	name := func() string {
		for {
			s := names[r.Intn(len(names))]
			if !used[s] {
				used[s] = true
				return s
			}
		}
	}
	var out []seg
	for i := 0; i < n; i++ {
		if r.Chance(55, 100) {
			out = append(out, seg{'L', literals[r.Intn(len(literals))]})
		} else {
			out = append(out, seg{'S', name()})
		}
	}
	if r.Chance(30, 100) {
		out = append(out, seg{'C', name()})
	}
	if len(out) == 0 {
		out = []seg{{'L', ""}} // "/"
	}
	return out
}

// renamed returns the same shape with fresh wildcard names.
func renamed(r *vc.Rand, p []seg) []seg {
	out := make([]seg, len(p))
	used := map[string]bool{}
	for i, s := range p {
		out[i] = s
		if s.K != 'L' {
			for {
				n := names[r.Intn(len(names))]
				if !used[n] {
					used[n] = true
					out[i].T = n
					break
				}
			}
		}
	}
	return out
}

func genSet(r *vc.Rand) setSpec {
	want := r.Range(1, 6)
	nv := r.Range(1, 3)
	vs := make([]string, nv)
	for i, j := range r.Perm(len(verbs))[:nv] {
		vs[i] = verbs[j]
	}
	var spec setSpec
	var parsed [][]seg
	for tries := 0; len(spec.Routes) < want && tries < 60; tries++ {
		verb := vs[r.Intn(nv)]
		var p []seg
		switch {
		case len(parsed) > 0 && r.Chance(1, 4):
			// same shape as an existing route (other verb, other wildcard names): exercises the
			// per-method tables
			p = renamed(r, parsed[r.Intn(len(parsed))])
		case len(parsed) > 0 && r.Chance(1, 4):
			// shared prefix, different continuation
			base := parsed[r.Intn(len(parsed))]
			k := r.Intn(len(base) + 1)
			p = append([]seg{}, base[:k]...)
			if len(p) > 0 && p[len(p)-1].K == 'C' {
				p = p[:len(p)-1]
			}
			tail := genPattern(r)
			if !(len(tail) == 1 && tail[0] == (seg{'L', ""})) {
				p = append(p, tail...)
			}
			if len(p) == 0 {
				p = []seg{{'L', ""}}
			}
			// names must stay distinct inside one pattern
			seen := map[string]bool{}
			dup := false
			for _, s := range p {
				if s.K != 'L' {
					if seen[s.T] {
						dup = true
					}
					seen[s.T] = true
				}
			}
			if dup {
				p = renamed(r, p)
			}
		default:
			p = genPattern(r)
		}
		ok := true
		for i, q := range parsed {
			if spec.Routes[i].Verb == verb && overlap(p, q) {
				ok = false
				break
			}
		}
		if !ok {
			continue
		}
		parsed = append(parsed, p)
		spec.Routes = append(spec.Routes, route{verb, patternText(p)})
	}
	// middlewares registered before the first Handle
	nu := 0
	if !r.Chance(1, 6) {
		nu = r.Range(1, 3)
	}
	for i := 0; i < nu; i++ {
		spec.Uses = append(spec.Uses, "count")
	}
	if nu > 0 {
		spec.ProbeAt = r.Intn(nu)
	}
	if r.Chance(1, 4) {
		at := r.Intn(len(spec.Uses) + 1)
		spec.Uses = append(spec.Uses[:at], append([]string{"smart"}, spec.Uses[at:]...)...)
		if nu > 0 && at <= spec.ProbeAt {
			spec.ProbeAt++
		}
	}
	return spec
}

// ---------------------------------------------------------------- values

var plainAtoms = []string{"a", "b", "Z", "0", "9", "-", "_", "~", "x.y", "abc"}
var hostileAtoms = []string{
	"/", "/", "%", "%41", "%2F", "%2f", "%25", "%zz", "%4", "+", " ", "?", "#", ";", ":", "@", "&", "=", ",", "$", "!", "*", "'", "(", ")",
	"\"", "<", ">", "\\", "{", "}", "|", "^", "`", "[", "]", "\t", "\n", ".", "..", "é", "ß", "日本", "😀", "я", " ", " ", "é", "%C3%A9", "%00",
}

func genValue(r *vc.Rand, catchAll bool) string {
	if catchAll && r.Chance(1, 8) {
		return ""
	}
	n := r.Range(1, 4)
	if catchAll {
		n = r.Range(1, 6)
	}
	var b strings.Builder
	for i := 0; i < n; i++ {
		switch {
		case catchAll && r.Chance(1, 4):
			b.WriteString("/")
		case r.Chance(2, 5):
			b.WriteString(plainAtoms[r.Intn(len(plainAtoms))])
		default:
			b.WriteString(hostileAtoms[r.Intn(len(hostileAtoms))])
		}
	}
	return b.String()
}

const upperhex = "0123456789ABCDEF"

func hexAll(s string) string {
	var b strings.Builder
	for i := 0; i < len(s); i++ {
		b.WriteByte('%')
		b.WriteByte(upperhex[s[i]>>4])
		b.WriteByte(upperhex[s[i]&15])
	}
	return b.String()
}

// lowerHex rewrites the hex digits of every %XX triple of an escaped string in lower case.
func lowerHex(esc string) string {
	b := []byte(esc)
	for i := 0; i+2 < len(b); i++ {
		if b[i] == '%' {
			b[i+1] = lower(b[i+1])
			b[i+2] = lower(b[i+2])
			i += 2
		}
	}
	return string(b)
}

func lower(c byte) byte {
	if c >= 'A' && c <= 'F' {
		return c + 'a' - 'A'
	}
	return c
}

func escapeOne(v, mode string) string {
	switch mode {
	case "hexall":
		return hexAll(v)
	case "lower":
		return lowerHex(url.PathEscape(v))
	}
	return url.PathEscape(v)
}

// escapeValue turns an original value into the text substituted in the URL.
// mode: std | lower | hexall, prefixed with "pieces-" for catch-alls whose '/'
// are sent literally (each piece escaped on its own).
func escapeValue(v, mode string) string {
	if strings.HasPrefix(mode, "pieces-") {
		m := strings.TrimPrefix(mode, "pieces-")
		ps := strings.Split(v, "/")
		for i := range ps {
			ps[i] = escapeOne(ps[i], m)
		}
		return strings.Join(ps, "/")
	}
	return escapeOne(v, mode)
}

// admissible excludes what the property excludes: empty single-segment values
// and dot segments on the wire.
func admissible(v, mode string, catchAll bool) bool {
	if !catchAll {
		return v != "" && v != "." && v != ".."
	}
	if strings.HasPrefix(mode, "pieces-") {
		for _, p := range strings.Split(v, "/") {
			if p == "." || p == ".." {
				return false
			}
		}
		return true
	}
	return v != "." && v != ".."
}

func pickMode(r *vc.Rand, catchAll bool) string {
	m := "std"
	switch r.Intn(10) {
	case 0:
		m = "lower"
	case 1:
		m = "hexall"
	}
	if catchAll && r.Chance(2, 3) {
		m = "pieces-" + m
	}
	return m
}

// buildPath substitutes escaped values into a pattern.
func buildPath(segs []seg, vals, modes map[string]string) string {
	parts := make([]string, len(segs))
	for i, s := range segs {
		if s.K == 'L' {
			parts[i] = s.T
		} else {
			parts[i] = escapeValue(vals[s.T], modes[s.T])
		}
	}
	return "/" + strings.Join(parts, "/")
}

func valueClass(v string) string {
	var f []string
	if v == "" {
		f = append(f, "empty")
	}
	if strings.Contains(v, "/") {
		f = append(f, "slash")
	}
	if lookalike(v) {
		f = append(f, "pctXX")
	} else if strings.Contains(v, "%") {
		f = append(f, "pct")
	}
	if strings.ContainsAny(v, "+") {
		f = append(f, "plus")
	}
	if strings.ContainsAny(v, " \t\n") {
		f = append(f, "space")
	}
	if strings.ContainsAny(v, "?#;") {
		f = append(f, "delim")
	}
	for _, c := range v {
		if c > 127 {
			f = append(f, "uni")
			break
		}
	}
	if len(f) == 0 {
		return "plain"
	}
	return strings.Join(f, "+")
}

func ishex(c byte) bool {
	return c >= '0' && c <= '9' || c >= 'a' && c <= 'f' || c >= 'A' && c <= 'F'
}

// lookalike: the VALUE itself contains a well-formed %XX triple.
func lookalike(v string) bool {
	for i := 0; i+2 < len(v); i++ {
		if v[i] == '%' && ishex(v[i+1]) && ishex(v[i+2]) {
			return true
		}
	}
	return false
}

// ---------------------------------------------------------------- cases

func genCases(r *vc.Rand, spec setSpec, n int) []reqCase {
	parsed := make([][]seg, len(spec.Routes))
	for i, rt := range spec.Routes {
		parsed[i] = parsePattern(rt.Pattern)
	}
	matchers := func(raw string) (any bool, byVerb map[string]bool) {
		byVerb = map[string]bool{}
		for i, p := range parsed {
			if refMatch(p, raw) {
				any = true
				byVerb[spec.Routes[i].Verb] = true
			}
		}
		return
	}
	positive := func() reqCase {
		i := r.Intn(len(parsed))
		c := reqCase{Verb: spec.Routes[i].Verb, Want: i, Accept: accepts[r.Intn(len(accepts))]}
		for _, s := range parsed[i] {
			if s.K == 'L' {
				continue
			}
			if c.Values == nil {
				c.Values, c.Modes = map[string]string{}, map[string]string{}
			}
			for {
				m := pickMode(r, s.K == 'C')
				v := genValue(r, s.K == 'C')
				if admissible(v, m, s.K == 'C') {
					c.Values[s.T], c.Modes[s.T] = v, m
					break
				}
			}
		}
		c.RawPath = buildPath(parsed[i], c.Values, c.Modes)
		if r.Chance(1, 6) {
			c.Query = r.Pick("q=1", "a=%2F&b=/x", "x", "id=7&name=%41")
		}
		return c
	}
	var out []reqCase
	for len(out) < n {
		k := r.Intn(100)
		switch {
		case k < 66:
			out = append(out, positive())
		case k < 78:
			// a matched path with a verb no matching pattern is registered for
			c := positive()
			_, by := matchers(c.RawPath)
			var free []string
			for _, v := range verbs {
				if !by[v] {
					free = append(free, v)
				}
			}
			if len(free) == 0 {
				continue
			}
			c.Verb, c.Want, c.How = free[r.Intn(len(free))], -2, "other-verb"
			c.Values, c.Modes = nil, nil
			if spec.smart() && toggledMatches(c.RawPath, matchers) {
				continue
			}
			out = append(out, c)
		default:
			c := positive()
			segs := strings.Split(c.RawPath[1:], "/")
			switch r.Intn(5) {
			case 0:
				segs[r.Intn(len(segs))] = "zz9"
				c.How = "replace-segment"
			case 1:
				segs = append(segs, "extra")
				c.How = "append-segment"
			case 2:
				segs = segs[:len(segs)-1]
				c.How = "drop-segment"
			case 3:
				segs = append(segs, "")
				c.How = "trailing-slash"
			default:
				k := r.Range(1, 4)
				segs = segs[:0]
				for j := 0; j < k; j++ {
					segs = append(segs, r.Pick("zz9", "a", "users", "nope", "%41", "v1", "q%2Fr"))
				}
				c.How = "random"
			}
			c.RawPath = "/" + strings.Join(segs, "/")
			c.Values, c.Modes = nil, nil
			any, by := matchers(c.RawPath)
			if any && by[c.Verb] {
				continue
			}
			if spec.smart() && toggledMatches(c.RawPath, matchers) {
				continue
			}
			c.Want = -1
			if any {
				c.Want = -2
			}
			out = append(out, c)
		}
	}
	return out
}

// toggledMatches: SmartRedirectSlashes legitimately answers 301 when the
// slash-toggled path matches a pattern, so such paths are not negative cases.
func toggledMatches(raw string, matchers func(string) (bool, map[string]bool)) bool {
	t := raw + "/"
	if strings.HasSuffix(raw, "/") {
		t = strings.TrimSuffix(raw, "/")
	}
	if t == "" {
		t = "/"
	}
	a, _ := matchers(t)
	return a
}

func caseSig(spec setSpec, c reqCase, via string) string {
	if c.Want < 0 {
		return fmt.Sprintf("neg/%d/%s/%s/%s/%s", c.Want, c.How, c.Accept, c.Verb, via)
	}
	var cls []string
	for k, v := range c.Values {
		cls = append(cls, valueClass(v)+"@"+c.Modes[k])
	}
	sort.Strings(cls)
	return fmt.Sprintf("pos/%s/%s/%s/%s", shape(parsePattern(spec.Routes[c.Want].Pattern)), c.Verb, strings.Join(cls, ","), via)
}
