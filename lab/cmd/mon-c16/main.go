// mon-c16: router dispatch / path value monitor (property C16).
//
// Refutation events and oracle are described in DESIGN.md §7.C16. Pattern
// sets are unambiguous by construction (no two patterns registered with the
// same verb can match the same path), URLs are built by substituting escaped
// values into a registered pattern, and the expectation of every request is
// part of its construction: the route it was built from and the original
// values. Nothing in the oracle calls goa or chi.
package main

import (
	"encoding/json"
	"fmt"
	"net/http"
	"os"
	"runtime"
	"sync"

	goahttp "goa.design/goa/v3/http"

	"verif.local/lab/vc"
)

type emit struct {
	f finding
	w witness
}

func js(v any) string {
	b, _ := json.Marshal(v)
	return string(b)
}

// evalCase sends one case through every requested transport, unprobed and
// (when the set has a counting middleware) probed, and judges it.
func evalCase(run *vc.Run, l *lab, c reqCase, vias []string, verbose bool) []emit {
	var out []emit
	raised := map[string]bool{}
	for _, via := range vias {
		a := l.do(c, via, false)
		var b *obs
		if c.Want >= 0 && l.spec.counters() > 0 {
			b = l.do(c, via, true)
		}
		run.Count("requests_"+via, 1)
		if b != nil {
			run.Count("requests_"+via, 1)
			run.Count("requests_with_middleware_probe", 1)
		}
		if verbose {
			fmt.Printf("--- via %s: %s %s  Accept=%q  (%s)\n", via, c.Verb, target(c), c.Accept, rawPathSet(c.RawPath))
			fmt.Printf("    unprobed: %s\n", js(a))
			if b != nil {
				fmt.Printf("    probed:   %s\n", js(b))
			}
		}
		bad := false
		for _, o := range []*obs{a, b} {
			if o == nil {
				continue
			}
			if o.TransportEr != "" {
				run.Inconclusive("transport error via " + via)
				if os.Getenv("C16_DEBUG") != "" {
					fmt.Fprintf(os.Stderr, "transport: %s %q: %s\n", c.Verb, c.RawPath, o.TransportEr)
				}
				bad = true
			} else if o.SeenRawPath != "" && o.SeenRawPath != c.RawPath {
				// the transport did not deliver the path as built: not the router's doing
				run.Inconclusive("transport altered the request path via " + via)
				bad = true
			}
		}
		if bad {
			if verbose {
				fmt.Println("    inconclusive: transport did not deliver the request as built")
			}
			continue
		}
		run.Eval(1)
		if b != nil {
			run.Eval(1)
		}
		if a.SeenRawSet {
			run.Count("requests_rawpath_set_seen_by_server", 1)
		}
		run.Seen("status_codes", fmt.Sprint(a.Status))
		var fa, fb []finding
		if c.Want >= 0 {
			fa, fb = judgePositive(l.spec, c, a, b)
			if a.HandlerCalls == 1 && a.Handler == c.Want {
				run.Count("expected_handler_reached", 1)
			}
			if verbose {
				fmt.Printf("    oracle: built from route %d %s %q with values %q (modes %v) => that handler must run once, Vars must equal the values, ResolvePattern must equal the pattern text\n",
					c.Want, l.spec.Routes[c.Want].Verb, l.spec.Routes[c.Want].Pattern, c.Values, c.Modes)
			}
		} else {
			var outc string
			fa, outc = judgeNegative(c, a, l.spec.smart())
			run.Seen("notfound_outcomes", outc)
			run.Count("unmatched_requests_checked", 1)
			if verbose {
				fmt.Printf("    oracle: path derived by %q matches no pattern registered for %s (want=%d: -1 => 404 with decodable ErrorResponse in the negotiated type; -2 => 404 or 405) => outcome %s\n", c.How, c.Verb, c.Want, outc)
			}
		}
		for i, fs := range [][]finding{fa, fb} {
			for _, f := range fs {
				key := f.Key
				if via != "recorder" {
					if raised[key] {
						if verbose {
							fmt.Printf("    violated %s (same finding as via recorder)\n", key)
						}
						continue
					}
					key += " via=" + via + "-only"
				}
				raised[f.Key] = true
				cc := c
				w := witness{Set: l.spec, Req: &cc, Via: via, Probed: i == 1, Got: a}
				if i == 1 {
					w.Got, w.Base = b, a
				}
				out = append(out, emit{finding{key, f.What}, w})
				if verbose {
					fmt.Printf("    VIOLATED %s: %s\n", key, f.What)
				}
			}
		}
		if verbose && len(fa)+len(fb) == 0 {
			fmt.Println("    held")
		}
	}
	return out
}

// runSet builds the muxer of one set, serves its cases and checks the table
// invariant. Everything it reports is returned so that the caller can emit in
// set order (deterministic witnesses).
type setResult struct {
	emits   []emit
	sigs    []string
	sample  any
	hookOff bool
}

func runSet(run *vc.Run, spec setSpec, cases []reqCase, wire bool, verbose bool) setResult {
	var res setResult
	l, pan, site := newLab(spec)
	if pan != "" {
		res.emits = append(res.emits, emit{finding{"register-panic site=" + site, "Use/Handle panicked while registering an unambiguous pattern set: " + pan}, witness{Set: spec, Special: "register"}})
		return res
	}
	defer l.close()
	run.Max("max_routes_per_set", len(spec.Routes))
	run.Count("routes_registered", len(spec.Routes))
	run.Count("middlewares_registered_before_first_handle", len(spec.Uses))
	for _, rt := range spec.Routes {
		run.Seen("pattern_shapes", shape(parsePattern(rt.Pattern)))
		run.Seen("verbs", rt.Verb)
	}
	vias := []string{"recorder"}
	if wire {
		vias = append(vias, "wire")
	}
	for _, c := range cases {
		res.emits = append(res.emits, evalCase(run, l, c, vias, verbose)...)
		for _, via := range vias {
			if c.Want < 0 || len(c.Values) > 0 {
				res.sigs = append(res.sigs, caseSig(spec, c, via))
			}
		}
		for k, v := range c.Values {
			run.Seen("value_classes", valueClass(v)+"@"+c.Modes[k])
			run.Max("max_value_bytes", len(v))
		}
		run.Seen("accept_headers", acceptClass(c.Accept))
	}
	after, ok := muxTables(l.mux)
	switch {
	case !ok || !l.hookOK:
		res.hookOff = true
	case after != l.tables:
		res.emits = append(res.emits, emit{finding{"mux-tables-written-while-serving", fmt.Sprintf("private tables changed while serving: before %s, after %s", l.tables, after)},
			witness{Set: spec, Special: "tables", Cases: cases, Before: l.tables, After: after}})
	default:
		run.Count("table_snapshots_compared", 1)
	}
	if verbose {
		fmt.Printf("--- tables before serving: %s\n--- tables after serving:  %s (hook available: %v)\n", l.tables, after, ok)
	}
	if len(cases) > 0 {
		res.sample = map[string]any{"set": spec, "first_case": cases[0], "cases": len(cases), "wire": wire}
	}
	return res
}

// lateUse records what Use does once handlers are mounted. The doc comments of
// Muxer/MiddlewareMuxer promise nothing for that order, so a panic is an
// observation, not a verdict; if the call is accepted the middleware must wrap.
func lateUse(run *vc.Run, verbose bool) {
	m := goahttp.NewMuxer()
	m.Handle("GET", "/late/{x}", func(w http.ResponseWriter, _ *http.Request) { w.WriteHeader(200) })
	calls := 0
	pan, _ := vc.Try(func() {
		m.Use(func(next http.Handler) http.Handler {
			return http.HandlerFunc(func(w http.ResponseWriter, r *http.Request) { calls++; next.ServeHTTP(w, r) })
		})
	})
	if pan != "" {
		run.Count("use_after_handle_panics", 1)
		run.Extra("use_after_first_handle", "panics: "+pan)
		run.Inconclusive("Use after the first Handle panics (" + pan + "); no doc comment promises late registration, not judged")
		if verbose {
			fmt.Println("late Use: panics:", pan)
		}
		return
	}
	r, _ := http.NewRequest("GET", "/late/v", nil)
	w := &nullWriter{h: http.Header{}}
	m.ServeHTTP(w, r)
	run.Eval(1)
	run.Extra("use_after_first_handle", fmt.Sprintf("accepted; middleware ran %d time(s) for one request", calls))
	if calls != 1 {
		run.Violation("middleware-not-wrapping registered=after-handlers", fmt.Sprintf("Use after Handle was accepted but the middleware ran %d times for one matched request", calls), witness{Special: "late-use"})
	}
}

type nullWriter struct {
	h    http.Header
	code int
}

func (n *nullWriter) Header() http.Header         { return n.h }
func (n *nullWriter) Write(b []byte) (int, error) { return len(b), nil }
func (n *nullWriter) WriteHeader(c int)           { n.code = c }

func main() {
	run := vc.New("C16")
	run.Rule("sets of 1-6 (verb, pattern) routes over literal segments, {name} and trailing {*name}, 1-3 verbs per set out of 6, built so that no two same-verb patterns can match one path (lab overlap test, conservative); 0-3 counting middlewares and optionally SmartRedirectSlashes registered with Use before the first Handle. Per set N requests: ~2/3 URLs built from a route by substituting values (atoms: ASCII, '/', '%', '%41' '%2F' '%25' '%C3%A9' look-alikes, '%zz', '+', space, delimiters, control, non-ASCII; empty catch-all) escaped with url.PathEscape (also lower-case hex and escape-every-byte variants; catch-alls per piece or as a whole), ~1/8 matched paths with an unregistered verb, ~1/5 paths matching nothing (segment replaced/appended/dropped, trailing slash, random), Accept in {absent, json, xml, gob, */*}. Every request goes through httptest.NewRequest+ServeHTTP, and (all sets in thorough, 1 set in 4 in quick) through a loopback http.Server/http.Client; every URL of a set with a counting middleware is sent twice, the second time asking that middleware to call ResolvePattern/Vars before next. A case is non-trivial when it carries at least one wildcard value or is a negative case; distinct = (pattern shape, verb, value classes+escape modes, transport) resp. (negative kind, derivation, Accept, verb, transport).")
	run.Assume(
		"a path that matches only patterns registered with other verbs may be answered 404 (with the error body) or 405 (chi's default); both accepted",
		"empty single-segment values and '.'/'..' path segments are outside the property (net/http clients, proxies and chi clean or cannot match them)",
		"Vars may return nil or an empty map for a pattern without wildcards",
		"a 404 body is well-formed when it decodes with the stdlib decoder of the announced Content-Type into goahttp.ErrorResponse with a name or a message, and the announced type is the Accept type (any of json/xml/gob when Accept is absent or */*)",
		"middleware order is not judged, only that every middleware registered with Use before the first Handle runs exactly once around the handler",
		"Use after the first Handle panics inside chi on this tree; the Muxer/MiddlewareMuxer doc comments promise nothing about late registration, so it is recorded (use_after_first_handle) and not judged; were it accepted, the middleware would have to wrap",
		"with SmartRedirectSlashes mounted, a URL that exactly matches a registered pattern must still reach its handler; negative cases whose slash-toggled path matches a pattern are not generated",
		"the mux-table invariant needs the verif hook; without it that one invariant is inconclusive",
	)

	if run.Replay != "" {
		var w witness
		if err := run.LoadReplay(&w); err != nil {
			fmt.Println("replay:", err)
			run.Infra("cannot load replay")
			run.Finish()
		}
		fmt.Printf("replaying set: %s\n", js(w.Set))
		switch w.Special {
		case "late-use":
			lateUse(run, true)
		case "register":
			_, pan, site := newLab(w.Set)
			fmt.Printf("registering: panic=%q site=%s\n", pan, site)
			run.Eval(1)
			if pan != "" {
				run.Violation("register-panic site="+site, pan, w)
			}
		case "tables":
			res := runSet(run, w.Set, w.Cases, true, true)
			for _, e := range res.emits {
				run.Violation(e.f.Key, e.f.What, e.w)
			}
		default:
			res := runSet(run, w.Set, []reqCase{*w.Req}, true, true)
			for _, e := range res.emits {
				run.Violation(e.f.Key, e.f.What, e.w)
			}
		}
		run.Finish()
	}

	lateUse(run, false)

	nsets, ncases, wireEvery := 600, 30, 4
	if run.Thorough() {
		nsets, ncases, wireEvery = 30000, 30, 1
	}
	results := make([]setResult, nsets)
	var wg sync.WaitGroup
	next := make(chan int)
	workers := runtime.NumCPU()
	if workers > 16 {
		workers = 16
	}
	for w := 0; w < workers; w++ {
		wg.Add(1)
		go func() {
			defer wg.Done()
			for i := range next {
				spec := genSet(run.Rand(16, 1, uint64(i)))
				cases := genCases(run.Rand(16, 2, uint64(i)), spec, ncases)
				results[i] = runSet(run, spec, cases, i%wireEvery == 0, false)
			}
		}()
	}
	for i := 0; i < nsets; i++ {
		next <- i
	}
	close(next)
	wg.Wait()

	hookOff := false
	for i := range results {
		for _, e := range results[i].emits {
			run.Violation(e.f.Key, e.f.What, e.w)
		}
		for _, s := range results[i].sigs {
			run.Distinct(s)
		}
		if i < 3 && results[i].sample != nil {
			run.Sample(results[i].sample)
		}
		hookOff = hookOff || results[i].hookOff
	}
	if hookOff {
		run.Inconclusive("verif hook VerifMuxTables not available: table invariant not decided")
	}
	run.Count("sets", nsets)
	run.Floor(run.N(400, 2000))
	run.Finish()
}
