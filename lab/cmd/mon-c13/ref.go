package main

// Reference oracle: structural comparison of two spec graphs under the rules
// documented on expr.Hash, computed coinductively on the specs (no goa code).
//
//   - both types have the same kind
//   - array types have elements whose types have the same hash
//   - map types have keys and elements whose types have the same hash
//   - user types have the same name if ignoreNames is false or ignoreFields is true
//   - user types have the same attribute names and the attribute types have the
//     same hash if ignoreFields is false
//   - object attributes have the same "struct:field:xxx" tags if ignoreTags is false
//
// The rules are silent about unions (type name, alternative names, alternative
// types), about user type vs result type, and about struct:field tags carried
// by a user type's own attribute: differences that are only of those sorts
// make the verdict "ambiguous" (not judged).

import (
	"fmt"
	"sort"
)

type flags struct{ F, N, T bool } // ignoreFields, ignoreNames, ignoreTags

func (f flags) String() string {
	b := func(x bool, c string) string {
		if x {
			return c
		}
		return "-"
	}
	return b(f.F, "F") + b(f.N, "N") + b(f.T, "T")
}

func allFlags() []flags {
	var out []flags
	for m := 0; m < 8; m++ {
		out = append(out, flags{m&4 != 0, m&2 != 0, m&1 != 0})
	}
	return out
}

func flagsIndex(f flags) int {
	i := 0
	if f.F {
		i |= 4
	}
	if f.N {
		i |= 2
	}
	if f.T {
		i |= 1
	}
	return i
}

type verdict struct {
	Rel   string `json:"rel"`             // equal | different | ambiguous
	Class string `json:"class,omitempty"` // rule that distinguishes (different) or the silent area (ambiguous)
	Where string `json:"where,omitempty"`
}

type cmp struct {
	ga, gb *Graph
	fl     flags
	seen   map[[2]int]bool
	ambig  *verdict
}

// compare judges two graphs under the documented rules.
func compare(ga, gb *Graph, fl flags) verdict {
	c := &cmp{ga: ga, gb: gb, fl: fl, seen: map[[2]int]bool{}}
	if v := c.typ(ga.Root.T, gb.Root.T, "root", false); v != nil {
		return *v
	}
	if c.ambig != nil {
		return *c.ambig
	}
	return verdict{Rel: "equal"}
}

func (c *cmp) amb(class, where string) {
	if c.ambig == nil {
		c.ambig = &verdict{Rel: "ambiguous", Class: class, Where: where}
	}
}

func sameStrings(a, b []string) bool {
	if len(a) != len(b) {
		return false
	}
	for i := range a {
		if a[i] != b[i] {
			return false
		}
	}
	return true
}

func sameTags(a, b map[string][]string) bool {
	if len(a) != len(b) {
		return false
	}
	for k, v := range a {
		w, ok := b[k]
		if !ok || !sameStrings(v, w) {
			return false
		}
	}
	return true
}

func fieldNames(t *Type) []string {
	ns := make([]string, len(t.Fields))
	for i, f := range t.Fields {
		ns[i] = f.Name
	}
	sort.Strings(ns)
	return ns
}

func fieldByName(t *Type, n string) *Field {
	for _, f := range t.Fields {
		if f.Name == n {
			return f
		}
	}
	return nil
}

// typ returns a definite difference or nil. inUnion: the position is inside a
// union alternative, where every difference is only "ambiguous".
func (c *cmp) typ(a, b *Type, path string, inUnion bool) *verdict {
	differ := func(class string) *verdict {
		if inUnion {
			c.amb("union-subposition:"+class, path)
			return nil
		}
		return &verdict{Rel: "different", Class: class, Where: path}
	}
	if a.K != b.K {
		return differ("kind")
	}
	switch a.K {
	case "prim":
		if a.Prim != b.Prim {
			return differ("kind")
		}
	case "array":
		return c.typ(a.Elem.T, b.Elem.T, path+"[]", inUnion)
	case "map":
		if v := c.typ(a.Key.T, b.Key.T, path+"{key}", inUnion); v != nil {
			return v
		}
		return c.typ(a.Elem.T, b.Elem.T, path+"{elem}", inUnion)
	case "object":
		na, nb := fieldNames(a), fieldNames(b)
		if !sameStrings(na, nb) {
			return differ("attr-names")
		}
		for _, n := range na {
			fa, fb := fieldByName(a, n), fieldByName(b, n)
			if !c.fl.T && !sameTags(tagsOf(fa.A), tagsOf(fb.A)) {
				if v := differ("tags"); v != nil {
					return v
				}
			}
			if v := c.typ(fa.A.T, fb.A.T, path+"."+n, inUnion); v != nil {
				return v
			}
		}
	case "union":
		if a.UName != b.UName {
			c.amb("union-type-name", path)
		}
		na, nb := fieldNames(a), fieldNames(b)
		if !sameStrings(na, nb) {
			c.amb("union-alternative-names", path)
			return nil
		}
		for _, n := range na {
			if v := c.typ(fieldByName(a, n).A.T, fieldByName(b, n).A.T, path+"|"+n, true); v != nil {
				return v
			}
		}
	case "ref":
		ua, ub := c.ga.UTs[a.Ref], c.gb.UTs[b.Ref]
		if ua.Result != ub.Result {
			c.amb("user-type-vs-result-type", path)
		}
		if (!c.fl.N || c.fl.F) && ua.Name != ub.Name {
			if v := differ("ut-name"); v != nil {
				return v
			}
		}
		if c.fl.F {
			return nil
		}
		if !c.fl.T && !sameTags(tagsOf(ua.A), tagsOf(ub.A)) {
			c.amb("user-type-own-tags", path)
		}
		k := [2]int{a.Ref, b.Ref}
		if c.seen[k] {
			// coinductive hypothesis; (a pair first met inside a union and met again
			// outside has already been explored: any difference was recorded as ambiguous,
			// so re-explore when we are now outside a union)
			if inUnion || c.seen[[2]int{-1 - a.Ref, -1 - b.Ref}] {
				return nil
			}
		}
		c.seen[k] = true
		if !inUnion {
			c.seen[[2]int{-1 - a.Ref, -1 - b.Ref}] = true
		}
		return c.typ(ua.A.T, ub.A.T, fmt.Sprintf("%s>%s", path, ua.Name), inUnion)
	}
	return nil
}

// expected computes the relation a single difference must produce under fl,
// from the construction alone.
func expected(d diff, fl flags) string {
	if d.Class == "ref-retarget" {
		return "" // not decidable from the construction: the reference oracle alone judges
	}
	if fl.F && d.Below {
		return "equal"
	}
	if d.Class == "tag-change" && fl.T {
		return "equal"
	}
	if d.Class == "ut-name" && fl.N && !fl.F {
		return "equal"
	}
	if fl.F && d.AmbigF || !fl.F && d.Ambig {
		return "ambiguous"
	}
	return "different"
}
