package main

// Independent deep snapshot of any Go value by reflection: every reachable
// field (exported or not), pointers numbered in visit order (so the snapshot
// of a faithful deep copy equals the snapshot of the original), cycle safe,
// map keys sorted. Used to decide "the original did not change".

import (
	"fmt"
	"math"
	"reflect"
	"sort"
	"strconv"
)

type snapLine struct{ Path, Val string }

type snapper struct {
	ids   map[snapKey]int
	lines []snapLine
	fast  bool   // hash only: no paths, no lines
	h     uint64 // FNV-1a over the emitted tokens
}

type snapKey struct {
	p uintptr
	t reflect.Type
}

func snapshot(v any) []snapLine {
	s := &snapper{ids: map[snapKey]int{}}
	s.walk("", reflect.ValueOf(v))
	return s.lines
}

func (s *snapper) emit(path, val string) {
	if s.fast {
		s.feed(val)
		return
	}
	s.lines = append(s.lines, snapLine{path, val})
}

func (s *snapper) feed(val string) {
	h := s.h
	for i := 0; i < len(val); i++ {
		h ^= uint64(val[i])
		h *= 1099511628211
	}
	h ^= 0xff
	h *= 1099511628211
	s.h = h
}

func (s *snapper) feedU(x uint64) {
	h := s.h
	for i := 0; i < 8; i++ {
		h ^= x & 0xff
		h *= 1099511628211
		x >>= 8
	}
	s.h = h
}

// snapHash is the snapshot folded into 64 bits (same traversal, same tokens in
// the same order, no allocation per node). A difference between two snapHash
// values is always re-derived with full snapshots before it is reported.
func snapHash(v any) uint64 {
	s := &snapper{ids: map[snapKey]int{}, fast: true, h: 14695981039346656037}
	s.walk("", reflect.ValueOf(v))
	return s.h
}

func scalarString(v reflect.Value) (string, bool) {
	switch v.Kind() {
	case reflect.Bool:
		return strconv.FormatBool(v.Bool()), true
	case reflect.Int, reflect.Int8, reflect.Int16, reflect.Int32, reflect.Int64:
		return strconv.FormatInt(v.Int(), 10), true
	case reflect.Uint, reflect.Uint8, reflect.Uint16, reflect.Uint32, reflect.Uint64, reflect.Uintptr:
		return strconv.FormatUint(v.Uint(), 10), true
	case reflect.Float32, reflect.Float64:
		return strconv.FormatFloat(v.Float(), 'g', -1, 64), true
	case reflect.String:
		return strconv.Quote(v.String()), true
	}
	return "", false
}

func keyString(k reflect.Value) string {
	for k.Kind() == reflect.Interface && !k.IsNil() {
		k = k.Elem()
	}
	if s, ok := scalarString(k); ok {
		return k.Type().String() + ":" + s
	}
	return fmt.Sprintf("%s:?", k.Type())
}

func (s *snapper) walk(path string, v reflect.Value) {
	if !v.IsValid() {
		s.emit(path, "<invalid>")
		return
	}
	if s.fast {
		switch v.Kind() {
		case reflect.Bool:
			s.feedU(1)
			if v.Bool() {
				s.feedU(1)
			} else {
				s.feedU(0)
			}
			return
		case reflect.Int, reflect.Int8, reflect.Int16, reflect.Int32, reflect.Int64:
			s.feedU(2)
			s.feedU(uint64(v.Kind()))
			s.feedU(uint64(v.Int()))
			return
		case reflect.Uint, reflect.Uint8, reflect.Uint16, reflect.Uint32, reflect.Uint64, reflect.Uintptr:
			s.feedU(3)
			s.feedU(uint64(v.Kind()))
			s.feedU(v.Uint())
			return
		case reflect.Float32, reflect.Float64:
			s.feedU(4)
			s.feedU(math.Float64bits(v.Float()))
			return
		case reflect.String:
			s.feedU(5)
			s.feed(v.String())
			return
		case reflect.Ptr:
			if v.IsNil() {
				s.feedU(6)
				return
			}
			k := snapKey{v.Pointer(), v.Type()}
			if id, ok := s.ids[k]; ok {
				s.feedU(7)
				s.feedU(uint64(id))
				return
			}
			id := len(s.ids) + 1
			s.ids[k] = id
			s.feedU(8)
			s.feedU(uint64(id))
			s.walk("", v.Elem())
			return
		case reflect.Struct:
			s.feedU(9)
			for i := 0; i < v.NumField(); i++ {
				s.walk("", v.Field(i))
			}
			return
		case reflect.Slice:
			if v.IsNil() {
				s.feedU(10)
				return
			}
			s.feedU(11)
			s.feedU(uint64(v.Len()))
			for i := 0; i < v.Len(); i++ {
				s.walk("", v.Index(i))
			}
			return
		case reflect.Interface:
			if v.IsNil() {
				s.feedU(12)
				return
			}
			s.feedU(13)
			s.feed(v.Elem().Type().String())
			s.walk("", v.Elem())
			return
		}
	}
	if str, ok := scalarString(v); ok {
		s.emit(path, v.Type().String()+" "+str)
		return
	}
	switch v.Kind() {
	case reflect.Interface:
		if v.IsNil() {
			s.emit(path, "nil-interface")
			return
		}
		s.walk(path, v.Elem())
	case reflect.Ptr:
		if v.IsNil() {
			s.emit(path, "nil "+v.Type().String())
			return
		}
		k := snapKey{v.Pointer(), v.Type()}
		if id, ok := s.ids[k]; ok {
			s.emit(path, fmt.Sprintf("-> #%d", id))
			return
		}
		id := len(s.ids) + 1
		s.ids[k] = id
		s.emit(path, fmt.Sprintf("&#%d %s", id, v.Type().Elem()))
		s.walk(path, v.Elem())
	case reflect.Struct:
		t := v.Type()
		for i := 0; i < v.NumField(); i++ {
			s.walk(path+"."+t.Field(i).Name, v.Field(i))
		}
	case reflect.Slice:
		if v.IsNil() {
			s.emit(path, "nil "+v.Type().String())
			return
		}
		s.emit(path, fmt.Sprintf("%s len=%d", v.Type(), v.Len()))
		for i := 0; i < v.Len(); i++ {
			s.walk(path+"["+strconv.Itoa(i)+"]", v.Index(i))
		}
	case reflect.Array:
		for i := 0; i < v.Len(); i++ {
			s.walk(path+"["+strconv.Itoa(i)+"]", v.Index(i))
		}
	case reflect.Map:
		if v.IsNil() {
			s.emit(path, "nil "+v.Type().String())
			return
		}
		k := snapKey{v.Pointer(), v.Type()}
		if id, ok := s.ids[k]; ok {
			s.emit(path, fmt.Sprintf("-> #%d", id))
			return
		}
		id := len(s.ids) + 1
		s.ids[k] = id
		s.emit(path, fmt.Sprintf("map#%d %s len=%d", id, v.Type(), v.Len()))
		type kv struct {
			ks string
			k  reflect.Value
		}
		keys := make([]kv, 0, v.Len())
		for _, mk := range v.MapKeys() {
			keys = append(keys, kv{keyString(mk), mk})
		}
		sort.Slice(keys, func(i, j int) bool { return keys[i].ks < keys[j].ks })
		for _, e := range keys {
			if s.fast {
				s.feed(e.ks)
				s.walk("", v.MapIndex(e.k))
				continue
			}
			s.walk(path+"{"+e.ks+"}", v.MapIndex(e.k))
		}
	case reflect.Func:
		if v.IsNil() {
			s.emit(path, "nil func")
		} else {
			s.emit(path, "func")
		}
	case reflect.Chan, reflect.UnsafePointer:
		s.emit(path, v.Kind().String())
	default:
		s.emit(path, "?"+v.Kind().String())
	}
}

// snapDiff returns a description of the first difference ("" if none).
func snapDiff(a, b []snapLine) string {
	n := len(a)
	if len(b) < n {
		n = len(b)
	}
	for i := 0; i < n; i++ {
		if a[i] != b[i] {
			return fmt.Sprintf("at %s: %s  =>  %s: %s", a[i].Path, a[i].Val, b[i].Path, b[i].Val)
		}
	}
	if len(a) != len(b) {
		return fmt.Sprintf("snapshot length %d => %d", len(a), len(b))
	}
	return ""
}

// sharedMutable lists memory that is reachable from both values through
// pointers, maps or non-empty slices (observation only; exemptions are the
// caller's business). It returns path pairs of the first few shared nodes.
func sharedMutable(a, b any) []string {
	collect := func(v any) map[snapKey]string {
		m := map[snapKey]string{}
		var walk func(path string, v reflect.Value)
		walk = func(path string, v reflect.Value) {
			if !v.IsValid() {
				return
			}
			switch v.Kind() {
			case reflect.Interface:
				if !v.IsNil() {
					walk(path, v.Elem())
				}
			case reflect.Ptr:
				if v.IsNil() {
					return
				}
				k := snapKey{v.Pointer(), v.Type()}
				if _, ok := m[k]; ok {
					return
				}
				m[k] = path
				walk(path, v.Elem())
			case reflect.Struct:
				t := v.Type()
				for i := 0; i < v.NumField(); i++ {
					walk(path+"."+t.Field(i).Name, v.Field(i))
				}
			case reflect.Slice:
				if v.IsNil() || v.Len() == 0 {
					return
				}
				k := snapKey{v.Pointer(), v.Type()}
				if _, ok := m[k]; !ok {
					m[k] = path
				}
				for i := 0; i < v.Len(); i++ {
					walk(path+"[]", v.Index(i))
				}
			case reflect.Map:
				if v.IsNil() {
					return
				}
				k := snapKey{v.Pointer(), v.Type()}
				if _, ok := m[k]; ok {
					return
				}
				m[k] = path
				it := v.MapRange()
				for it.Next() {
					walk(path+"{}", it.Value())
				}
			}
		}
		walk("", reflect.ValueOf(v))
		return m
	}
	ma, mb := collect(a), collect(b)
	set := map[string]bool{}
	for k, pa := range ma {
		if _, ok := mb[k]; ok {
			set[lastField(pa)+" ("+k.t.String()+")"] = true
		}
	}
	var out []string
	for s := range set {
		out = append(out, s)
	}
	sort.Strings(out)
	return out
}
