package main

// Mutations applied to a COPY returned by expr.Dup / expr.DupAtt. Each class
// edits every applicable site reachable from the copy; the caller then checks
// (snapshot walker) that the original did not move.

import (
	"goa.design/goa/v3/expr"
	"reflect"
)

type collected struct {
	atts    []*expr.AttributeExpr // every attribute node (root, user type attributes, elems, keys, fields, alternatives)
	objects []*expr.Object
	arrays  []*expr.Array
	maps    []*expr.Map
	unions  []*expr.Union
	uts     []*expr.UserTypeExpr
	rts     []*expr.ResultTypeExpr
	vatts   []*expr.AttributeExpr // view attributes and the attributes of view objects
	vobjs   []*expr.Object
}

// collect walks a copy (cycle safe, by node identity).
func collect(root *expr.AttributeExpr, rootType expr.DataType) *collected {
	c := &collected{}
	seenA := map[*expr.AttributeExpr]bool{}
	seenT := map[any]bool{}
	var att func(a *expr.AttributeExpr)
	var typ func(t expr.DataType)
	att = func(a *expr.AttributeExpr) {
		if a == nil || seenA[a] {
			return
		}
		seenA[a] = true
		c.atts = append(c.atts, a)
		typ(a.Type)
	}
	typ = func(t expr.DataType) {
		switch x := t.(type) {
		case *expr.Array:
			if seenT[x] {
				return
			}
			seenT[x] = true
			c.arrays = append(c.arrays, x)
			att(x.ElemType)
		case *expr.Map:
			if seenT[x] {
				return
			}
			seenT[x] = true
			c.maps = append(c.maps, x)
			att(x.KeyType)
			att(x.ElemType)
		case *expr.Object:
			if seenT[x] {
				return
			}
			seenT[x] = true
			c.objects = append(c.objects, x)
			for _, nat := range *x {
				att(nat.Attribute)
			}
		case *expr.Union:
			if seenT[x] {
				return
			}
			seenT[x] = true
			c.unions = append(c.unions, x)
			for _, nat := range x.Values {
				att(nat.Attribute)
			}
		case *expr.ResultTypeExpr:
			if seenT[x] {
				return
			}
			seenT[x] = true
			c.rts = append(c.rts, x)
			c.uts = append(c.uts, x.UserTypeExpr)
			att(x.AttributeExpr)
			for _, v := range x.Views {
				if v == nil || v.AttributeExpr == nil {
					continue
				}
				c.vatts = append(c.vatts, v.AttributeExpr)
				if o, ok := v.AttributeExpr.Type.(*expr.Object); ok {
					c.vobjs = append(c.vobjs, o)
					for _, nat := range *o {
						c.vatts = append(c.vatts, nat.Attribute)
						// types reachable through a view only (projections) are part of the copy too
						if nat.Attribute != nil {
							typ(nat.Attribute.Type)
						}
					}
				}
			}
		case *expr.UserTypeExpr:
			if seenT[x] {
				return
			}
			seenT[x] = true
			c.uts = append(c.uts, x)
			att(x.AttributeExpr)
		}
	}
	if root != nil {
		att(root)
	} else {
		typ(rootType)
	}
	return c
}

// mutation classes. "deep" classes edit memory behind a pointer, slice or map
// value that a shallow field copy would share.
var mutationClasses = []string{
	"rename-attribute", "add-attribute", "remove-attribute", "replace-attribute",
	"change-element-type", "change-attribute-type",
	"validation-replace-fields", "validation-edit-bounds-in-place", "validation-edit-enum-in-place",
	"required-list-add-remove", "required-list-edit-in-place",
	"meta-set-delete-key", "meta-append-value", "meta-edit-value-in-place",
	"default-replace", "default-edit-in-place", "description",
	"user-type-rename", "user-type-set-attribute",
	"union-rename-alternative", "union-add-remove-alternative", "union-type-name",
	"view-rename", "view-edit-attributes",
}

func f64(f float64) *float64 { return &f }

// mutate applies one class everywhere; it returns the number of edits.
func mutate(class string, c *collected) int {
	n := 0
	switch class {
	case "rename-attribute":
		for _, o := range c.objects {
			for _, nat := range *o {
				nat.Name += "_mut"
				n++
			}
		}
	case "add-attribute":
		for _, o := range c.objects {
			o.Set("zz_added", &expr.AttributeExpr{Type: expr.String})
			n++
		}
	case "remove-attribute":
		for _, o := range c.objects {
			if len(*o) > 0 {
				o.Delete((*o)[0].Name)
				n++
			}
		}
	case "replace-attribute":
		for _, o := range c.objects {
			for _, nat := range *o {
				nat.Attribute = &expr.AttributeExpr{Type: expr.Bytes, Description: "replaced"}
				n++
			}
		}
	case "change-element-type":
		for _, a := range c.arrays {
			a.ElemType.Type = expr.Bytes
			n++
		}
		for _, m := range c.maps {
			m.KeyType.Type = expr.Bytes
			m.ElemType.Type = expr.Bytes
			n++
		}
		for _, a := range c.arrays {
			a.ElemType = &expr.AttributeExpr{Type: expr.Float32}
		}
	case "change-attribute-type":
		for _, a := range c.atts {
			a.Type = expr.Float64
			n++
		}
	case "validation-replace-fields":
		for _, a := range c.atts {
			if a.Validation == nil {
				a.Validation = &expr.ValidationExpr{Pattern: "mut"}
			} else {
				v := a.Validation
				v.Pattern = "mut"
				v.Format = expr.FormatMAC
				v.Minimum = f64(-77)
				v.Maximum = f64(77)
				v.ExclusiveMinimum = f64(-78)
				ml := 77
				v.MinLength = &ml
				v.MaxLength = &ml
				v.Values = []any{"mut"}
			}
			n++
		}
	case "validation-edit-bounds-in-place":
		for _, a := range c.atts {
			if v := a.Validation; v != nil {
				for _, p := range []*float64{v.Minimum, v.Maximum, v.ExclusiveMinimum, v.ExclusiveMaximum} {
					if p != nil {
						*p += 1000
						n++
					}
				}
				for _, p := range []*int{v.MinLength, v.MaxLength} {
					if p != nil {
						*p += 1000
						n++
					}
				}
			}
		}
	case "validation-edit-enum-in-place":
		for _, a := range c.atts {
			if v := a.Validation; v != nil && len(v.Values) > 0 {
				v.Values[0] = "mut"
				n++
			}
		}
	case "required-list-add-remove":
		for _, a := range c.atts {
			if v := a.Validation; v != nil {
				if len(v.Required) > 0 {
					v.RemoveRequired(v.Required[0])
				}
				v.AddRequired("zz_required")
				n++
			}
		}
	case "required-list-edit-in-place":
		for _, a := range c.atts {
			if v := a.Validation; v != nil && len(v.Required) > 0 {
				v.Required[0] = "mut"
				n++
			}
		}
	case "meta-set-delete-key":
		for _, a := range c.atts {
			if a.Meta != nil {
				first := ""
				for k := range a.Meta {
					if first == "" || k < first {
						first = k
					}
				}
				delete(a.Meta, first)
				a.Meta["mut:key"] = []string{"mut"}
				n++
			}
		}
	case "meta-append-value":
		for _, a := range c.atts {
			for k := range a.Meta {
				a.AddMeta(k, "mut")
				n++
			}
		}
	case "meta-edit-value-in-place":
		for _, a := range c.atts {
			for _, v := range a.Meta {
				if len(v) > 0 {
					v[0] = "mut"
					n++
				}
			}
		}
	case "default-replace":
		for _, a := range c.atts {
			a.DefaultValue = "mut"
			n++
		}
	case "default-edit-in-place":
		// every element that can be written in place, at every depth, generic trees and typed values alike
		for _, a := range c.atts {
			if a.DefaultValue != nil {
				n += editInPlace(reflect.ValueOf(a.DefaultValue), 0)
			}
		}
	case "description":
		for _, a := range c.atts {
			a.Description = "mut"
			n++
		}
	case "user-type-rename":
		for i, u := range c.uts {
			if i%2 == 0 {
				u.TypeName += "Mut"
			} else {
				u.Rename(u.TypeName + "Mut")
			}
			n++
		}
	case "user-type-set-attribute":
		for _, u := range c.uts {
			u.SetAttribute(&expr.AttributeExpr{Type: expr.Int})
			n++
		}
	case "union-rename-alternative":
		for _, u := range c.unions {
			for _, nat := range u.Values {
				nat.Name += "_mut"
				n++
			}
		}
	case "union-add-remove-alternative":
		for _, u := range c.unions {
			if len(u.Values) > 0 {
				u.Values[0] = &expr.NamedAttributeExpr{Name: "zz_swapped", Attribute: &expr.AttributeExpr{Type: expr.Int}}
				u.Values = u.Values[:len(u.Values)-1]
			}
			u.Values = append(u.Values, &expr.NamedAttributeExpr{Name: "zz_added", Attribute: &expr.AttributeExpr{Type: expr.String}})
			n++
		}
	case "union-type-name":
		for _, u := range c.unions {
			u.TypeName += "Mut"
			n++
		}
	case "view-rename":
		for _, rt := range c.rts {
			for _, v := range rt.Views {
				v.Name += "_mut"
				n++
			}
		}
	case "view-edit-attributes":
		for _, o := range c.vobjs {
			o.Set("zz_view_added", &expr.AttributeExpr{Type: expr.String})
			for _, nat := range *o {
				nat.Name += "_mut"
			}
			n++
		}
		for _, a := range c.vatts {
			a.Description = "mut"
		}
	}
	return n
}

// editInPlace writes into everything reachable from a default value WITHOUT replacing the value itself: slice
// elements (strings and numbers are overwritten, interface elements that hold scalars too), map entries (one
// added, slices and maps held as values edited through their own storage). Returns the number of writes.
func editInPlace(v reflect.Value, depth int) int {
	if depth > 8 || !v.IsValid() {
		return 0
	}
	n := 0
	switch v.Kind() {
	case reflect.Interface, reflect.Pointer:
		if !v.IsNil() {
			n += editInPlace(v.Elem(), depth+1)
		}
	case reflect.Slice:
		for i := 0; i < v.Len(); i++ {
			e := v.Index(i)
			switch e.Kind() {
			case reflect.String:
				e.SetString("mut")
				n++
			case reflect.Float64, reflect.Float32:
				e.SetFloat(-4242)
				n++
			case reflect.Int, reflect.Int64, reflect.Int32:
				e.SetInt(-4242)
				n++
			case reflect.Interface:
				if !e.IsNil() {
					switch e.Elem().Kind() {
					case reflect.Slice, reflect.Map:
						n += editInPlace(e.Elem(), depth+1)
					default:
						e.Set(reflect.ValueOf("mut"))
						n++
					}
				}
			default:
				n += editInPlace(e, depth+1)
			}
		}
	case reflect.Map:
		if v.IsNil() {
			return 0
		}
		for _, k := range v.MapKeys() {
			e := v.MapIndex(k)
			if e.Kind() == reflect.Interface && !e.IsNil() {
				e = e.Elem()
			}
			if e.Kind() == reflect.Slice || e.Kind() == reflect.Map {
				n += editInPlace(e, depth+1)
			}
		}
		if v.Type().Key().Kind() == reflect.String {
			switch v.Type().Elem().Kind() {
			case reflect.Interface, reflect.String:
				v.SetMapIndex(reflect.ValueOf("mut").Convert(v.Type().Key()), reflect.ValueOf("mut").Convert(v.Type().Elem()))
				n++
			case reflect.Slice:
				if v.Type().Elem().Elem().Kind() == reflect.String {
					v.SetMapIndex(reflect.ValueOf("mut").Convert(v.Type().Key()), reflect.ValueOf([]string{"mut"}).Convert(v.Type().Elem()))
					n++
				}
			}
		}
	}
	return n
}
