package main

// The checks. Every check is a function of a Witness, so that the random
// driver, the exhaustive driver and --replay all run the same code.

import (
	"fmt"
	"strings"
	"sync"
	"sync/atomic"

	"goa.design/goa/v3/expr"

	"verif.local/lab/vc"
)

type Witness struct {
	Check   string `json:"check"` // pair | determinism | dup-mutation | dup-equal | risky | cross-process
	G       *Graph `json:"g"`
	H       *Graph `json:"h,omitempty"`
	Flags   string `json:"flags,omitempty"`  // e.g. "F-T"
	Expect  string `json:"expect,omitempty"` // relation by construction: equal | different | ambiguous
	Class   string `json:"class,omitempty"`  // transform, difference or mutation class
	D       *diff  `json:"diff,omitempty"`
	API     string `json:"api,omitempty"` // Dup | DupAtt
	Reps    int    `json:"reps,omitempty"`
	Hostile bool   `json:"hostile,omitempty"`
	Op      string `json:"op,omitempty"`
	Note    string `json:"note,omitempty"`

	bg, bh  *built // prebuilt values of G and H (never serialised)
	observe bool   // also record the not-judged observations (fidelity, shared memory)
}

func parseFlags(s string) flags {
	return flags{F: strings.Contains(s, "F"), N: strings.Contains(s, "N"), T: strings.Contains(s, "T")}
}

// ---------------------------------------------------------------- recorder

type event struct {
	kind string
	a, b string
	n    int
	w    *Witness
}

// rec buffers what one case observed; it is flushed into the run in case
// order, so the evidence does not depend on goroutine scheduling.
type rec struct {
	verbose bool
	evs     []event
}

func (r *rec) say(format string, a ...any) {
	if r.verbose {
		fmt.Printf(format+"\n", a...)
	}
}
func (r *rec) Violation(key, what string, w Witness) {
	r.say("  => VIOLATED [%s] %s", key, what)
	r.evs = append(r.evs, event{kind: "viol", a: key, b: what, w: &w})
}
func (r *rec) Eval(n int)               { r.evs = append(r.evs, event{kind: "eval", n: n}) }
func (r *rec) Count(name string, n int) { r.evs = append(r.evs, event{kind: "count", a: name, n: n}) }
func (r *rec) Max(name string, n int)   { r.evs = append(r.evs, event{kind: "max", a: name, n: n}) }
func (r *rec) Seen(set, m string)       { r.evs = append(r.evs, event{kind: "seen", a: set, b: m}) }
func (r *rec) Distinct(sig string)      { r.evs = append(r.evs, event{kind: "distinct", a: sig}) }
func (r *rec) Inconclusive(why string) {
	r.say("  => inconclusive: %s", why)
	r.evs = append(r.evs, event{kind: "inconcl", a: why})
}

var (
	forwardedMu sync.Mutex
	forwarded   = map[string]int{}
)

func (r *rec) flush(run *vc.Run) {
	for _, e := range r.evs {
		switch e.kind {
		case "viol":
			// the runtime keeps at most 40 witnesses per run: forward two per key so that every key gets one
			forwardedMu.Lock()
			forwarded[e.a]++
			n := forwarded[e.a]
			forwardedMu.Unlock()
			run.Count("violating_cases["+e.a+"]", 1)
			if n <= 2 {
				run.Violation(e.a, e.b, e.w)
			}
		case "eval":
			run.Eval(e.n)
		case "count":
			run.Count(e.a, e.n)
		case "max":
			run.Max(e.a, e.n)
		case "seen":
			run.Seen(e.a, e.b)
		case "distinct":
			run.Distinct(e.a)
		case "inconcl":
			run.Inconclusive(e.a)
		}
	}
	r.evs = nil
}

// ---------------------------------------------------------------- guarded calls

func safeHash(dt expr.DataType, fl flags) (h string, pan string) {
	p, st := vc.Try(func() { h = expr.Hash(dt, fl.F, fl.N, fl.T) })
	if p != "" {
		return "", "panic:expr/" + vc.PanicSite(st, "/expr/") + " " + p
	}
	return h, ""
}

func safeDup(b *built, api string) (att *expr.AttributeExpr, dt expr.DataType, pan string) {
	p, st := vc.Try(func() {
		if api == "DupAtt" {
			att = expr.DupAtt(b.root)
			dt = att.Type
		} else {
			dt = expr.Dup(b.root.Type)
		}
	})
	if p != "" {
		return nil, nil, "panic:expr/" + vc.PanicSite(st, "/expr/") + " " + p
	}
	return
}

func panicKey(p string) string { return strings.SplitN(p, " ", 2)[0] }

// metaOrderBroken is set as soon as one value was seen to hash unstably in this
// run (the exhaustive probes run first). From then on a mismatch between two
// graphs that should hash equally is attributed to that finding -- not to the
// transform under test -- when ignoreTags is off and one of the graphs has an
// attribute with >= 2 struct:field keys (20 repetitions alone miss a 2-key map
// about 7% of the time). Once Hash is stable nothing is masked.
var metaOrderBroken atomic.Bool

func maskByMetaOrder(fl flags, gs ...*Graph) bool {
	if fl.T || !metaOrderBroken.Load() {
		return false
	}
	for _, g := range gs {
		if g.multiTagAny() {
			return true
		}
	}
	return false
}

// unstable reports whether hashing the same value again gives another answer.
func unstable(dt expr.DataType, fl flags, reps int) (bool, int) {
	first, p := safeHash(dt, fl)
	if p != "" {
		return false, 0
	}
	seen := map[string]bool{first: true}
	for i := 1; i < reps; i++ {
		h, _ := safeHash(dt, fl)
		seen[h] = true
	}
	return len(seen) > 1, len(seen)
}

// ---------------------------------------------------------------- keys

func equalKey(w Witness, fl flags) string {
	switch w.Class {
	case "permute-objects":
		return "hash-order-dependent members=object-attributes"
	case "permute-unions":
		return "hash-order-dependent members=union-alternatives"
	case "permute-both":
		return "hash-order-dependent members=objects-and-unions"
	case "decorate-desc", "decorate-validation", "decorate-meta", "decorate-default":
		return "hash-depends-on-undocumented what=" + strings.TrimPrefix(w.Class, "decorate-")
	case "rename-uts":
		return "hash-ignoreNames-not-honoured"
	case "retag":
		return "hash-ignoreTags-not-honoured"
	case "below-ut":
		return "hash-ignoreFields-not-honoured"
	case "identical":
		return "hash-differs-for-identical-construction"
	case "dup":
		return "dup-hash-differs-from-original"
	}
	if w.D != nil {
		switch {
		case fl.F && w.D.Below:
			return "hash-ignoreFields-not-honoured"
		case w.D.Class == "tag-change" && fl.T:
			return "hash-ignoreTags-not-honoured"
		case w.D.Class == "ut-name" && fl.N && !fl.F:
			return "hash-ignoreNames-not-honoured"
		}
	}
	return "hash-unequal-for-equal-graphs transform=" + w.Class
}

func differentKey(w Witness, ref verdict) string {
	if w.Hostile {
		if ref.Class == "tags" {
			return "tag-values-with-delimiters"
		}
		return "names-with-delimiters"
	}
	c := w.Class
	if w.D == nil || c == "" {
		c = ref.Class
	}
	return "hash-equal-but-different rule=" + c
}

// ---------------------------------------------------------------- pair check

// evalPair hashes G and H under the witness flags and judges the relation with
// the reference oracle. status: held | violated | masked | ambiguous | inconclusive.
func evalPair(rc *rec, w Witness) (status, key, what string) {
	fl := parseFlags(w.Flags)
	if cyclesUnsafe.Load() && (hasCycle(w.G) || hasCycle(w.H)) {
		return "unsafe", "", ""
	}
	ref := compare(w.G, w.H, fl)
	rc.say("pair class=%s flags=%s (ignoreFields=%v ignoreNames=%v ignoreTags=%v)", w.Class, fl, fl.F, fl.N, fl.T)
	if w.D != nil {
		rc.say("  construction: single difference %s at %s (below user type: %v) => expected %s", w.D.Class, w.D.Where, w.D.Below, w.Expect)
	} else if w.Expect != "" {
		rc.say("  construction: transform %s => expected %s", w.Class, w.Expect)
	}
	rc.say("  reference oracle (documented rules, computed on the specs): %s %s %s", ref.Rel, ref.Class, ref.Where)
	if w.Expect != "" && ref.Rel != w.Expect {
		return "inconclusive", "", fmt.Sprintf("construction says %s, reference oracle says %s (%s at %s)", w.Expect, ref.Rel, ref.Class, ref.Where)
	}
	if w.G.objectFreeCycle() || w.H.objectFreeCycle() {
		return "skipped", "", "a cycle avoids every object (separate class, child processes only)"
	}
	bg, bh := w.bg, w.bh
	if bg == nil {
		bg = build(w.G)
	}
	if bh == nil {
		bh = build(w.H)
	}
	hg, p1 := safeHash(bg.root.Type, fl)
	hh, p2 := safeHash(bh.root.Type, fl)
	if p1 != "" || p2 != "" {
		return "violated", panicKey(p1 + p2), "Hash panicked: " + p1 + p2
	}
	rc.say("  Hash(G) = %q", hg)
	rc.say("  Hash(H) = %q", hh)
	if w.Class == "ref-retarget" && ref.Rel == "equal" {
		// old and new target are bisimilar: whether shared and copied sub-graphs hash
		// alike is not settled by the documented rules; observed only
		return "ambiguous", "retargeted-reference-to-bisimilar-type", fmt.Sprintf("hashes equal=%v", hg == hh)
	}
	switch ref.Rel {
	case "ambiguous":
		return "ambiguous", ref.Class, fmt.Sprintf("hashes equal=%v", hg == hh)
	case "equal":
		if hg == hh {
			return "held", "", ""
		}
		ug, ng := unstable(bg.root.Type, fl, 20)
		uh, nh := unstable(bh.root.Type, fl, 20)
		if ug || uh {
			rc.say("  hashes differ but Hash is not even stable on one side (%d / %d distinct values in 20 calls): attributed to the nondeterminism finding", ng, nh)
			return "masked", "", ""
		}
		if maskByMetaOrder(fl, w.G, w.H) {
			rc.say("  hashes differ, but this run already found Hash unstable on attributes with >=2 struct:field keys and these graphs have such attributes: attributed to that finding")
			return "masked", "", ""
		}
		return "violated", equalKey(w, fl), fmt.Sprintf("structurally equal under the documented rules (flags %s, %s) but Hash differs: %q vs %q", fl, w.Class, clip(hg), clip(hh))
	case "different":
		if hg != hh {
			return "held", "", ""
		}
		return "violated", differentKey(w, ref), fmt.Sprintf("types differ by rule %q at %s (flags %s) but Hash is equal: %q", ref.Class, ref.Where, fl, clip(hg))
	}
	return "inconclusive", "", "bad verdict"
}

func clip(s string) string {
	if len(s) > 140 {
		return s[:140] + "…"
	}
	return s
}

func doPair(rc *rec, w Witness) string {
	w.Check = "pair"
	st, key, what := evalPair(rc, w)
	rc.Eval(1)
	switch st {
	case "violated":
		rc.Violation(key, what, w)
	case "inconclusive":
		rc.Inconclusive("construction and reference oracle disagree")
		rc.Seen("judge_disagreements", w.Class+" "+w.Flags+" "+what)
	case "masked":
		rc.Count("equal_pairs_masked_by_hash_nondeterminism", 1)
	case "skipped":
		rc.Count("pairs_skipped_cycle_without_object", 1)
	case "unsafe":
		rc.Inconclusive("cyclic graph not evaluated in-process: a canary child crashed or hung on a cyclic graph")
	case "ambiguous":
		rc.Count("pairs_not_judged_documentation_silent", 1)
		rc.Seen("silent_areas", key+" "+what)
	case "held":
		rc.say("  => held")
		if w.Expect == "different" || w.D != nil && w.Expect == "" {
			rc.Count("different_pairs_held", 1)
		} else {
			rc.Count("equal_pairs_held", 1)
		}
	}
	return st
}

// ---------------------------------------------------------------- determinism

func multiTagSites(g *Graph) (obj, ut bool) {
	for _, p := range g.positions() {
		if p.objField && len(tagsOf(p.a)) >= 2 {
			obj = true
		}
	}
	for _, i := range g.reachable() {
		if len(tagsOf(g.UTs[i].A)) >= 2 {
			ut = true
		}
	}
	return
}

func nondetKey(g *Graph) string {
	obj, ut := multiTagSites(g)
	switch {
	case obj && ut:
		return "hash-nondeterministic site=object-and-user-type-tags"
	case obj:
		return "hash-nondeterministic site=object-attribute-tags"
	case ut:
		return "hash-nondeterministic site=user-type-attribute-tags"
	}
	return "hash-nondeterministic site=unknown"
}

// doDeterminism hashes the same value reps times under every flag combination
// and hashes a second, identically constructed value.
func doDeterminism(rc *rec, w Witness) (stable [8]bool) {
	w.Check = "determinism"
	if skipCyclic(rc, w.G) {
		return
	}
	reps := w.Reps
	if reps == 0 {
		reps = 20
	}
	b := build(w.G)
	b2 := build(w.G)
	for _, fl := range allFlags() {
		if w.Flags != "" && parseFlags(w.Flags) != fl {
			continue
		}
		rc.Eval(1)
		first, p := safeHash(b.root.Type, fl)
		if p != "" {
			ww := w
			ww.Flags = fl.String()
			rc.Violation(panicKey(p), "Hash panicked: "+p, ww)
			continue
		}
		u, n := unstable(b.root.Type, fl, reps)
		rc.say("determinism flags=%s: %d distinct values in %d calls on the same value", fl, max(n, 1), reps)
		if u {
			metaOrderBroken.Store(true)
			ww := w
			ww.Flags = fl.String()
			rc.Violation(nondetKey(w.G), fmt.Sprintf("Hash of one and the same value returned %d distinct strings in %d calls (flags %s)", n, reps, fl), ww)
			continue
		}
		stable[flagsIndex(fl)] = true
		rc.Count("hash_repeat_calls", reps)
		h2, _ := safeHash(b2.root.Type, fl)
		if h2 != first {
			if u2, _ := unstable(b2.root.Type, fl, reps); !u2 && !maskByMetaOrder(fl, w.G) {
				ww := w
				ww.Flags = fl.String()
				ww.Class = "identical"
				rc.Violation("hash-differs-for-identical-construction", fmt.Sprintf("two values built by the same steps hash differently (flags %s): %q vs %q", fl, clip(first), clip(h2)), ww)
			}
		}
	}
	return
}

// ---------------------------------------------------------------- Dup

func lastField(path string) string {
	// last ".Name" component of a snapshot path
	i := strings.LastIndex(path, ".")
	if i < 0 {
		return path
	}
	f := path[i+1:]
	if j := strings.IndexAny(f, "[{"); j >= 0 {
		f = f[:j]
	}
	return f
}

func firstDiffField(a, b []snapLine) string {
	n := min(len(a), len(b))
	for i := 0; i < n; i++ {
		if a[i] != b[i] {
			return lastField(a[i].Path)
		}
	}
	return "length"
}

// doDupMutation copies, mutates the copy, and checks the original with the snapshot walker.
func doDupMutation(rc *rec, w Witness) {
	w.Check = "dup-mutation"
	if skipCyclic(rc, w.G) {
		return
	}
	b := build(w.G)
	before := snapHash(b.root)
	att, dt, p := safeDup(b, w.API)
	if p != "" {
		rc.Eval(1)
		rc.Violation(panicKey(p), w.API+" panicked: "+p, w)
		return
	}
	c := collect(att, dt)
	var n int
	if p, st := vc.Try(func() { n = mutate(w.Class, c) }); p != "" {
		// a panic while editing the copy through goa's own mutators (Set, Delete, Rename...) on a malformed copy
		rc.Eval(1)
		rc.Violation("dup-copy-malformed mutation="+w.Class, "editing the copy panicked: "+p+" at "+vc.PanicSite(st, "/expr/", "/mon-c13/"), w)
		return
	}
	if n == 0 {
		rc.say("mutation %s: not applicable to this graph", w.Class)
		return
	}
	rc.Eval(1)
	rc.Count("copy_mutations_applied", n)
	rc.Seen("mutation_classes_applied", w.Class)
	if after := snapHash(b.root); after == before && !rc.verbose {
		return
	}
	// the original moved (or replay): redo the same steps with full snapshots to say where
	b = build(w.G)
	beforeL := snapshot(b.root)
	att, dt, _ = safeDup(b, w.API)
	n = mutate(w.Class, collect(att, dt))
	afterL := snapshot(b.root)
	d := snapDiff(beforeL, afterL)
	rc.say("%s then %s on the copy (%d edits); snapshot of the original: %d lines before, %d after; first difference: %q", w.API, w.Class, n, len(beforeL), len(afterL), d)
	if d != "" {
		rc.Violation("dup-not-independent mutation="+w.Class,
			fmt.Sprintf("after %s, %s applied to the COPY changed the ORIGINAL (field %s): %s", w.API, w.Class, firstDiffField(beforeL, afterL), d), w)
	} else {
		rc.say("  => held")
	}
}

// doDupEqual checks that the copy is structurally equal, deterministic, and records sharing.
func doDupEqual(rc *rec, w Witness) {
	w.Check = "dup-equal"
	if skipCyclic(rc, w.G) {
		return
	}
	b := build(w.G)
	att, dt, p := safeDup(b, w.API)
	rc.Eval(1)
	if p != "" {
		rc.Violation(panicKey(p), w.API+" panicked: "+p, w)
		return
	}
	// 1. goa's own Equal
	var eq bool
	if p, _ := vc.Try(func() { eq = expr.Equal(b.root.Type, dt) }); p != "" {
		rc.Violation("dup-equal-panics", "Equal(t, Dup(t)) panicked: "+p, w)
		return
	}
	rc.say("%s: expr.Equal(original, copy) = %v", w.API, eq)
	if !eq {
		rc.Violation("dup-not-equal-by-expr-Equal", "expr.Equal(t, "+w.API+"(t)) is false", w)
	}
	// 2. reference oracle on what the copy really contains
	catt := att
	if catt == nil {
		catt = &expr.AttributeExpr{Type: dt}
	}
	cg, err := readGraph(catt)
	if err != nil {
		rc.Violation("dup-copy-malformed", "copy cannot be read back: "+err.Error(), w)
		return
	}
	if og, err := readGraph(b.root); err != nil || compare(og, w.G, flags{}).Rel != "equal" {
		rc.Inconclusive("reader does not reproduce the spec of the original")
		return
	}
	for _, fl := range allFlags() {
		v := compare(w.G, cg, fl)
		if v.Rel != "equal" {
			rc.say("  reference oracle flags=%s: copy is %s (%s at %s)", fl, v.Rel, v.Class, v.Where)
			ww := w
			ww.Flags = fl.String()
			rc.Violation("dup-not-structurally-equal rule="+v.Class, fmt.Sprintf("copy differs from original by rule %s at %s", v.Class, v.Where), ww)
			break
		}
	}
	// 3. hashes of copy and original
	for _, fl := range allFlags() {
		ho, _ := safeHash(b.root.Type, fl)
		hc, p := safeHash(dt, fl)
		if p != "" {
			rc.Violation(panicKey(p), "Hash(copy) panicked: "+p, w)
			break
		}
		if ho != hc {
			if u, _ := unstable(b.root.Type, fl, 20); u || maskByMetaOrder(fl, w.G) {
				rc.Count("equal_pairs_masked_by_hash_nondeterminism", 1)
				continue
			}
			ww := w
			ww.Flags = fl.String()
			rc.Violation("dup-hash-differs-from-original", fmt.Sprintf("Hash(copy) != Hash(original) under flags %s: %q vs %q", fl, clip(hc), clip(ho)), ww)
			break
		}
	}
	// 4. determinism of the copy operation
	reps := w.Reps
	if reps == 0 {
		reps = 20
	}
	var top any = dt
	if att != nil {
		top = att
	}
	first := snapHash(top)
	for i := 1; i < reps; i++ {
		a2, d2, p := safeDup(b, w.API)
		if p != "" {
			rc.Violation(panicKey(p), w.API+" panicked on repeat: "+p, w)
			break
		}
		var t2 any = d2
		if a2 != nil {
			t2 = a2
		}
		if snapHash(t2) != first {
			rc.Violation("dup-nondeterministic", fmt.Sprintf("two calls of %s on the same value gave different copies: %s", w.API, snapDiff(snapshot(top), snapshot(t2))), w)
			break
		}
	}
	rc.Count("dup_repeat_calls", reps)
	// 5. observations (not judged): fidelity and shared memory
	if !w.observe && !rc.verbose {
		return
	}
	var orig any = b.root.Type
	if att != nil {
		orig = b.root
	}
	so, sc := snapshot(orig), snapshot(top)
	if d := snapDiff(so, sc); d != "" {
		rc.Seen("dup_copy_differs_from_original_in_field", firstDiffField(so, sc))
		rc.say("  observation (not judged): copy is not a field-for-field replica: %s", d)
	}
	for _, s := range sharedMutable(orig, top) {
		rc.Seen("dup_memory_shared_with_original", s)
		rc.say("  observation (not judged): memory shared between original and copy: %s", s)
	}
}
