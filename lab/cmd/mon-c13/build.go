package main

// Spec -> real expr values, and the reverse reader (expr values -> spec) used
// to judge copies with the reference oracle.

import (
	"fmt"
	"sort"

	"goa.design/goa/v3/expr"
)

var primOf = map[string]expr.Primitive{
	"boolean": expr.Boolean, "int": expr.Int, "int32": expr.Int32, "int64": expr.Int64,
	"uint": expr.UInt, "uint32": expr.UInt32, "uint64": expr.UInt64, "float32": expr.Float32,
	"float64": expr.Float64, "string": expr.String, "bytes": expr.Bytes, "any": expr.Any,
}

var primName = func() map[expr.Primitive]string {
	m := map[expr.Primitive]string{}
	for k, v := range primOf {
		m[v] = k
	}
	return m
}()

type built struct {
	root *expr.AttributeExpr
	uts  []expr.UserType
}

func build(g *Graph) *built {
	b := &built{uts: make([]expr.UserType, len(g.UTs))}
	for i, u := range g.UTs {
		ute := &expr.UserTypeExpr{TypeName: u.Name, UID: u.UID}
		if u.Result {
			b.uts[i] = &expr.ResultTypeExpr{UserTypeExpr: ute, Identifier: u.UID, ContentType: u.CT}
		} else {
			b.uts[i] = ute
		}
	}
	for i, u := range g.UTs {
		b.uts[i].SetAttribute(b.att(u.A))
		if rt, ok := b.uts[i].(*expr.ResultTypeExpr); ok {
			for _, v := range u.Views {
				obj := &expr.Object{}
				for _, fn := range v.Fields {
					for _, f := range u.A.T.Fields {
						if f.Name == fn {
							ft := b.typ(f.A.T)
							if k, ok := v.Alt[fn]; ok {
								ft = b.uts[k]
							}
							*obj = append(*obj, &expr.NamedAttributeExpr{Name: fn, Attribute: &expr.AttributeExpr{Type: ft, Description: "view field"}})
						}
					}
				}
				rt.Views = append(rt.Views, &expr.ViewExpr{Name: v.Name, Parent: rt, AttributeExpr: &expr.AttributeExpr{Type: obj}})
			}
		}
	}
	b.root = b.att(g.Root)
	return b
}

func (b *built) att(a *Att) *expr.AttributeExpr {
	e := &expr.AttributeExpr{Type: b.typ(a.T), Description: a.Desc, DefaultValue: cloneAny(a.Def)}
	if a.DefTyped {
		e.DefaultValue = typedDefault(e.DefaultValue)
	}
	if a.Meta != nil {
		e.Meta = expr.MetaExpr{}
		for k, v := range a.Meta {
			e.Meta[k] = append([]string{}, v...)
		}
	}
	if a.Val != nil {
		v := a.Val.clone()
		e.Validation = &expr.ValidationExpr{Pattern: v.Pattern, Format: expr.ValidationFormat(v.Format), Minimum: v.Min, Maximum: v.Max,
			MinLength: v.MinLen, MaxLength: v.MaxLen, Values: v.Enum, Required: v.Required}
	}
	return e
}

func (b *built) typ(t *Type) expr.DataType {
	switch t.K {
	case "prim":
		p, ok := primOf[t.Prim]
		if !ok {
			panic("bad primitive " + t.Prim)
		}
		return p
	case "array":
		return &expr.Array{ElemType: b.att(t.Elem)}
	case "map":
		return &expr.Map{KeyType: b.att(t.Key), ElemType: b.att(t.Elem)}
	case "object":
		o := make(expr.Object, 0, len(t.Fields))
		for _, f := range t.Fields {
			o = append(o, &expr.NamedAttributeExpr{Name: f.Name, Attribute: b.att(f.A)})
		}
		return &o
	case "union":
		u := &expr.Union{TypeName: t.UName}
		for _, f := range t.Fields {
			u.Values = append(u.Values, &expr.NamedAttributeExpr{Name: f.Name, Attribute: b.att(f.A)})
		}
		return u
	case "ref":
		return b.uts[t.Ref]
	}
	panic("bad kind " + t.K)
}

// ---------------------------------------------------------------- reverse reader

type reader struct {
	g   *Graph
	idx map[expr.UserType]int
}

// readGraph reads a real expr attribute back into a spec by looking at the
// data structure only (fields and dynamic types; no goa method is consulted
// for anything the oracle judges).
func readGraph(root *expr.AttributeExpr) (g *Graph, err error) {
	defer func() {
		if x := recover(); x != nil {
			err = fmt.Errorf("reader: %v", x)
		}
	}()
	r := &reader{g: &Graph{}, idx: map[expr.UserType]int{}}
	r.g.Root = r.att(root)
	return r.g, nil
}

func (r *reader) att(e *expr.AttributeExpr) *Att {
	if e == nil {
		panic("nil attribute")
	}
	a := &Att{T: r.typ(e.Type), Desc: e.Description, Def: e.DefaultValue}
	if e.Meta != nil {
		a.Meta = map[string][]string{}
		ks := make([]string, 0, len(e.Meta))
		for k := range e.Meta {
			ks = append(ks, k)
		}
		sort.Strings(ks)
		for _, k := range ks {
			a.Meta[k] = append([]string{}, e.Meta[k]...)
		}
	}
	return a
}

func (r *reader) typ(t expr.DataType) *Type {
	switch x := t.(type) {
	case expr.Primitive:
		n, ok := primName[x]
		if !ok {
			panic(fmt.Sprintf("unknown primitive %d", x))
		}
		return &Type{K: "prim", Prim: n}
	case *expr.Array:
		return &Type{K: "array", Elem: r.att(x.ElemType)}
	case *expr.Map:
		return &Type{K: "map", Key: r.att(x.KeyType), Elem: r.att(x.ElemType)}
	case *expr.Object:
		o := &Type{K: "object"}
		for _, nat := range *x {
			o.Fields = append(o.Fields, &Field{Name: nat.Name, A: r.att(nat.Attribute)})
		}
		return o
	case *expr.Union:
		o := &Type{K: "union", UName: x.TypeName}
		for _, nat := range x.Values {
			o.Fields = append(o.Fields, &Field{Name: nat.Name, A: r.att(nat.Attribute)})
		}
		return o
	case *expr.ResultTypeExpr:
		return r.ut(x, x.UserTypeExpr, true)
	case *expr.UserTypeExpr:
		return r.ut(x, x, false)
	}
	panic(fmt.Sprintf("unknown data type %T", t))
}

func (r *reader) ut(key expr.UserType, u *expr.UserTypeExpr, result bool) *Type {
	if i, ok := r.idx[key]; ok {
		return &Type{K: "ref", Ref: i}
	}
	i := len(r.g.UTs)
	r.idx[key] = i
	s := &UT{Name: u.TypeName, UID: u.UID, Result: result}
	r.g.UTs = append(r.g.UTs, s)
	s.A = r.att(u.AttributeExpr)
	return &Type{K: "ref", Ref: i}
}
