// mon-c13: type copies are independent and structural hashes match equality
// (property C13, DESIGN.md §7.C13).
//
// The monitor builds real expr type graphs from a spec IR, runs the real
// expr.Dup / expr.DupAtt / expr.Hash / expr.Equal on them, and decides with
//   - a reference comparison of the SPECS under the rules documented on
//     expr.Hash (ref.go), cross-checked against the case's construction,
//   - a reflection-based deep snapshot of the original before/after the copy
//     is mutated (snap.go).
//
// Neither shares code with goa.
package main

import (
	"bytes"
	"crypto/sha256"
	"encoding/json"
	"flag"
	"fmt"
	"os"
	"os/exec"
	"runtime"
	"runtime/debug"
	"runtime/pprof"
	"strings"
	"sync"
	"sync/atomic"
	"time"

	"goa.design/goa/v3/expr"

	"verif.local/lab/vc"
)

const caseTimeout = 180 * time.Second // generous; firing => inconclusive, never a violation

// parallel runs f on cases [0,n) with a bounded number of goroutines, each
// case under a watchdog, and flushes the per-case records in case order.
func parallel(run *vc.Run, n int, f func(i int, rc *rec), after func(i int)) {
	const chunk = 256
	workers := runtime.GOMAXPROCS(0)
	for lo := 0; lo < n; lo += chunk {
		hi := min(n, lo+chunk)
		recs := make([]*rec, hi-lo)
		var wg sync.WaitGroup
		sem := make(chan struct{}, workers)
		for i := lo; i < hi; i++ {
			wg.Add(1)
			sem <- struct{}{}
			go func(i int) {
				defer wg.Done()
				defer func() { <-sem }()
				rc := &rec{}
				done := make(chan string, 1)
				go func() {
					p, st := vc.Try(func() { f(i, rc) })
					if p != "" {
						p += " @ " + vc.PanicSite(st, "/mon-c13/", "/expr/")
					}
					done <- p
				}()
				select {
				case p := <-done:
					if p != "" {
						run.Infra("monitor bug in case %d: %s", i, p)
						rc = &rec{}
					}
					recs[i-lo] = rc
				case <-time.After(caseTimeout):
					t := &rec{}
					t.Eval(1)
					t.Inconclusive("case watchdog fired (possible non-termination)")
					recs[i-lo] = t
				}
			}(i)
		}
		wg.Wait()
		for i := lo; i < hi; i++ {
			recs[i-lo].flush(run)
			if after != nil {
				after(i)
			}
		}
	}
}

// ---------------------------------------------------------------- spec helpers

func P(p string) *Att            { return &Att{T: &Type{K: "prim", Prim: p}} }
func Fd(n string, a *Att) *Field { return &Field{Name: n, A: a} }
func O(fs ...*Field) *Att        { return &Att{T: &Type{K: "object", Fields: fs}} }
func U(n string, fs ...*Field) *Att {
	return &Att{T: &Type{K: "union", UName: n, Fields: fs}}
}
func Ar(e *Att) *Att    { return &Att{T: &Type{K: "array", Elem: e}} }
func Mp(k, e *Att) *Att { return &Att{T: &Type{K: "map", Key: k, Elem: e}} }
func Rf(i int) *Att     { return &Att{T: &Type{K: "ref", Ref: i}} }
func tagged(a *Att, kv ...string) *Att {
	if a.Meta == nil {
		a.Meta = map[string][]string{}
	}
	for i := 0; i+1 < len(kv); i += 2 {
		a.Meta[kv[i]] = []string{kv[i+1]}
	}
	return a
}

var nameSets = [][]string{{"a", "b", "c", "d"}, {"b", "B", "ab", "a"}}
var basePrims = []string{"string", "int", "boolean", "bytes"}

var baseVariants = []string{"object", "tagged-object", "union", "ut-object", "result-type", "recursive", "array-of-object", "object-of-union", "mutual"}

func fieldsN(names []string, n int, tag bool) []*Field {
	var fs []*Field
	for i := 0; i < n; i++ {
		a := P(basePrims[i])
		if tag {
			tagged(a, "struct:field:name", "F"+names[i])
		}
		fs = append(fs, Fd(names[i], a))
	}
	return fs
}

func permBase(variant string, n int, names []string) *Graph {
	switch variant {
	case "object":
		return &Graph{Root: O(fieldsN(names, n, false)...)}
	case "tagged-object":
		return &Graph{Root: O(fieldsN(names, n, true)...)}
	case "union":
		return &Graph{Root: U("U", fieldsN(names, n, false)...)}
	case "ut-object":
		return &Graph{UTs: []*UT{{Name: "T0", A: O(fieldsN(names, n, false)...)}}, Root: Rf(0)}
	case "result-type":
		fs := fieldsN(names, n, false)
		all := []string{}
		for _, f := range fs {
			all = append(all, f.Name)
		}
		return &Graph{UTs: []*UT{{Name: "T0", UID: "application/vnd.t0", Result: true, Views: []View{{Name: "default", Fields: all}, {Name: "tiny", Fields: all[:1]}}, A: O(fs...)}}, Root: Rf(0)}
	case "recursive":
		fs := fieldsN(names, n, false)
		fs[n-1].A = Rf(0)
		return &Graph{UTs: []*UT{{Name: "T0", A: O(fs...)}}, Root: Rf(0)}
	case "array-of-object":
		return &Graph{Root: Ar(O(fieldsN(names, n, true)...))}
	case "object-of-union":
		return &Graph{Root: O(Fd("x", U("U", fieldsN(names, n, false)...)), Fd("y", P("string")))}
	case "mutual":
		fs := fieldsN(names, n, false)
		fs[0].A = Rf(1)
		alts := fieldsN(names, n, false)
		alts[n-1].A = Rf(0)
		return &Graph{UTs: []*UT{{Name: "T0", A: O(fs...)}, {Name: "T1", UID: "uid#1", A: U("U1", alts...)}}, Root: Rf(0)}
	}
	panic(variant)
}

// richBase carries every decoration the mutation classes need.
func richBase() *Graph {
	inner := O(
		Fd("id", &Att{T: &Type{K: "prim", Prim: "int"}, Val: &Val{Min: fp(1), Max: fp(9)}, Meta: map[string][]string{"struct:field:name": {"ID"}, "struct:field:type": {"int64"}, "rpc:tag": {"1"}}, Def: float64(3)}),
		Fd("tags", &Att{T: Ar(&Att{T: &Type{K: "prim", Prim: "string"}, Val: &Val{MinLen: ip(1), MaxLen: ip(8), Enum: []any{"x", "y"}}}).T, Def: []any{"x", "y"}, Meta: map[string][]string{"openapi:example": {"false", "x"}}}),
		Fd("attrs", &Att{T: Mp(P("string"), Rf(1)).T, Def: map[string]any{"k": "v"}}),
		Fd("alt", U("Alt", Fd("s", P("string")), Fd("n", &Att{T: &Type{K: "prim", Prim: "float64"}, Val: &Val{Min: fp(0)}}), Fd("me", Rf(0)))),
		Fd("next", Rf(0)),
	)
	inner.Val = &Val{Required: []string{"id", "tags"}}
	inner.Desc = "T0 body"
	inner.Meta = map[string][]string{"struct:field:name": {"Body"}, "struct:tag:json": {"body"}}
	rtBody := O(Fd("href", &Att{T: &Type{K: "prim", Prim: "string"}, Val: &Val{Pattern: "^/", Format: "uri"}}), Fd("owner", Rf(0)), Fd("peer", Rf(1)))
	rtBody.Val = &Val{Required: []string{"href"}}
	return &Graph{
		UTs: []*UT{
			{Name: "T0", A: inner},
			{Name: "T1", UID: "application/vnd.t1", Result: true, CT: "application/json", A: rtBody,
				Views: []View{{Name: "default", Fields: []string{"href", "owner", "peer"}}, {Name: "link", Fields: []string{"href"}}}},
		},
		Root: &Att{T: O(Fd("one", Rf(0)), Fd("two", Rf(1)), Fd("list", Ar(Rf(1)))).T, Desc: "root", Val: &Val{Required: []string{"one"}}, Meta: map[string][]string{"rpc:tag": {"7"}}},
	}
}

func perms(n int) [][]int {
	if n == 0 {
		return [][]int{{}}
	}
	var out [][]int
	var rec func(cur []int, used []bool)
	rec = func(cur []int, used []bool) {
		if len(cur) == n {
			out = append(out, append([]int{}, cur...))
			return
		}
		for i := 0; i < n; i++ {
			if !used[i] {
				used[i] = true
				rec(append(cur, i), used)
				used[i] = false
			}
		}
	}
	rec(nil, make([]bool, n))
	return out
}

func applyPerm(g *Graph, p []int, objs, unions bool) {
	g.allTypes(func(t *Type) {
		if (t.K == "object" && objs || t.K == "union" && unions) && len(t.Fields) == len(p) {
			nf := make([]*Field, len(p))
			for i, v := range p {
				nf[i] = t.Fields[v]
			}
			t.Fields = nf
		}
	})
}

// ---------------------------------------------------------------- exhaustive part

func exhaustive(run *vc.Run) {
	rc := &rec{}
	// A. every permutation of objects / unions with <= 4 members x all flag combinations
	nperm := 0
	for ns, names := range nameSets {
		for n := 1; n <= 4; n++ {
			for _, variant := range baseVariants {
				base := permBase(variant, n, names)
				hasObj, hasUnion := false, false
				base.allTypes(func(t *Type) {
					if len(t.Fields) == n {
						hasObj = hasObj || t.K == "object"
						hasUnion = hasUnion || t.K == "union"
					}
				})
				for pi, p := range perms(n) {
					type mode struct {
						o, u bool
						cls  string
					}
					var modes []mode
					if hasObj {
						modes = append(modes, mode{true, false, "permute-objects"})
					}
					if hasUnion {
						modes = append(modes, mode{false, true, "permute-unions"})
					}
					if hasObj && hasUnion {
						modes = append(modes, mode{true, true, "permute-both"})
					}
					var singleFailed [8]bool
					for _, m := range modes {
						h := base.clone()
						applyPerm(h, p, m.o, m.u)
						for fi, fl := range allFlags() {
							w := Witness{G: base, H: h, Flags: fl.String(), Expect: "equal", Class: m.cls}
							if m.cls == "permute-both" && singleFailed[fi] {
								// already explained by reordering only the objects or only the unions
								rc.Eval(1)
								continue
							}
							if doPair(rc, w) == "violated" {
								singleFailed[fi] = true
							}
						}
						nperm++
						rc.Distinct(fmt.Sprintf("perm/%s/%d/%d/%d/%s", variant, ns, n, pi, m.cls))
					}
				}
			}
		}
		rc.flush(run)
	}
	run.Count("exhaustive_permutations", nperm)

	// B. every single difference at every position of the small bases x all flag combinations
	ndiff := 0
	bases := []*Graph{richBase()}
	for _, variant := range baseVariants {
		for _, n := range []int{2, 3} {
			bases = append(bases, permBase(variant, n, nameSets[0]))
		}
	}
	bases = append(bases,
		&Graph{Root: Mp(P("string"), Ar(P("int")))},
		&Graph{Root: Ar(Ar(P("string")))},
		&Graph{UTs: []*UT{{Name: "T0", A: P("string")}, {Name: "T1", UID: "u1", A: Ar(Rf(0))}}, Root: O(Fd("a", Rf(0)), Fd("b", Rf(1)), Fd("c", Mp(Rf(0), Rf(1))))},
	)
	// mutually recursive bases: which type of the cycle a back edge points to must show in the hash
	bases = append(bases,
		&Graph{UTs: []*UT{{Name: "T0", A: O(Fd("l", Rf(1)), Fd("r", P("string")))}, {Name: "T1", UID: "u1", A: O(Fd("l", Rf(0)), Fd("r", P("int")))}}, Root: Rf(0)},
		&Graph{UTs: []*UT{{Name: "T0", A: O(Fd("l", Rf(1)), Fd("r", P("string")))}, {Name: "T1", UID: "u1", A: O(Fd("m", Mp(P("string"), Rf(0))), Fd("r", P("int")))}}, Root: O(Fd("a", Rf(0)), Fd("b", Rf(1)))},
		&Graph{UTs: []*UT{{Name: "T0", A: O(Fd("n", Ar(Rf(1))), Fd("v", P("string")))}, {Name: "T1", UID: "u1", A: O(Fd("n", Rf(2)), Fd("v", P("int")))},
			{Name: "T2", UID: "u2", A: O(Fd("n", Rf(0)), Fd("w", P("boolean")))}}, Root: Rf(0)},
		&Graph{UTs: []*UT{{Name: "T0", A: O(Fd("n", Rf(1)), Fd("s", Rf(0)))}, {Name: "T1", UID: "u1", A: O(Fd("n", Rf(2)), Fd("v", P("int")))},
			{Name: "T2", UID: "u2", A: O(Fd("n", Rf(1)), Fd("o", Rf(0)), Fd("w", P("boolean")))}}, Root: Rf(0)},
	)
	for bi, base := range bases {
		for _, c := range diffClasses {
			_, _, total := diffAt(base, c, -1, 0)
			for k := 0; k < total; k++ {
				for salt := 0; salt < 2; salt++ {
					h := base.clone()
					d, ok, _ := diffAt(h, c, k, salt)
					if !ok {
						continue
					}
					for _, fl := range allFlags() {
						doPair(rc, Witness{G: base, H: h, Flags: fl.String(), Expect: expected(d, fl), Class: c, D: &d})
					}
					ndiff++
					rc.Distinct(fmt.Sprintf("diff/%d/%s/%d/%d", bi, c, k, salt))
				}
			}
		}
		rc.flush(run)
	}
	run.Count("exhaustive_single_differences", ndiff)

	// B2. a recursive reference must not hash like a finite type: T0 = {p1..pk, r: T0} against
	// T0 = {p1..pk, r: T1}, T1 = {the members of T0 that sort before r}
	for k := 0; k <= 3; k++ {
		for _, rname := range []string{"zz", "bb", "a0", "0"} {
			fs := fieldsN(nameSets[0], k, false)
			var before []*Field
			for _, f := range fieldsN(nameSets[0], k, false) {
				if f.Name < rname {
					before = append(before, f)
				}
			}
			g := &Graph{UTs: []*UT{{Name: "T0", A: O(append(fs, Fd(rname, Rf(0)))...)}}, Root: Rf(0)}
			h := &Graph{UTs: []*UT{{Name: "T0", A: O(append(fieldsN(nameSets[0], k, false), Fd(rname, Rf(1)))...)}, {Name: "T1", UID: "u1", A: O(before...)}}, Root: Rf(0)}
			for _, fl := range allFlags() {
				doPair(rc, Witness{G: g, H: h, Flags: fl.String(), Class: "recursion-vs-finite-prefix", D: &diff{Class: "recursion-vs-finite-prefix", Where: "UT0." + rname, Below: true}})
			}
			rc.Distinct(fmt.Sprintf("recfin/%d/%s", k, rname))
		}
	}
	rc.flush(run)

	// B3. the end of a nested object must be visible: moving the last attribute of a nested
	// object one level up changes two attribute name sets
	{
		X, Y := func() *Att { return P("string") }, func() *Att { return P("int") }
		ut := func(fs ...*Field) []*UT { return []*UT{{Name: "T0", A: O(fs...)}} }
		pairs := []struct {
			name string
			g, h *Graph
		}{
			{"object-in-object", &Graph{Root: O(Fd("a", O(Fd("b", X()), Fd("c", Y()))))}, &Graph{Root: O(Fd("a", O(Fd("b", X()))), Fd("c", Y()))}},
			{"empty-object-in-object", &Graph{Root: O(Fd("a", O(Fd("b", X()))))}, &Graph{Root: O(Fd("a", O()), Fd("b", X()))}},
			{"object-in-array", &Graph{Root: O(Fd("a", Ar(O(Fd("b", X()), Fd("c", Y())))))}, &Graph{Root: O(Fd("a", Ar(O(Fd("b", X())))), Fd("c", Y()))}},
			{"object-in-map", &Graph{Root: O(Fd("a", Mp(P("string"), O(Fd("b", X()), Fd("c", Y())))))}, &Graph{Root: O(Fd("a", Mp(P("string"), O(Fd("b", X())))), Fd("c", Y()))}},
			{"object-in-user-type", &Graph{UTs: ut(Fd("b", X()), Fd("c", Y())), Root: O(Fd("a", Rf(0)))}, &Graph{UTs: ut(Fd("b", X())), Root: O(Fd("a", Rf(0)), Fd("c", Y()))}},
			{"tag-after-nested-object", &Graph{Root: O(Fd("a", tagged(O(Fd("b", X())), "struct:field:name", "N")))}, &Graph{Root: O(Fd("a", O(Fd("b", tagged(X(), "struct:field:name", "N")))))}},
		}
		for _, p := range pairs {
			for _, fl := range allFlags() {
				doPair(rc, Witness{G: p.g, H: p.h, Flags: fl.String(), Class: "nested-object-boundary", D: &diff{Class: "nested-object-boundary", Where: p.name}})
			}
			rc.Distinct("nested/" + p.name)
		}
		rc.flush(run)
	}

	// C. determinism probes: one value hashed 200 times
	probes := []*Graph{
		{Root: O(Fd("a", tagged(P("string"), "struct:field:name", "A", "struct:field:type", "T", "struct:field:proto", "p")))},
		{Root: O(Fd("a", tagged(P("string"), "struct:field:name", "A", "struct:field:type", "T")), Fd("b", P("int")))},
		{UTs: []*UT{{Name: "T0", A: tagged(O(Fd("a", P("string"))), "struct:field:name", "A", "struct:field:type", "T", "struct:field:proto", "p")}}, Root: Rf(0)},
		{UTs: []*UT{{Name: "T0", A: tagged(O(Fd("a", P("string"))), "struct:field:name", "A", "struct:field:type", "T")}}, Root: Ar(Rf(0))},
		{Root: O(Fd("a", tagged(P("string"), "struct:field:name", "A", "rpc:tag", "1", "openapi:example", "x")))}, // one tag + other meta: must be stable
		richBase(),
	}
	for i, g := range probes {
		doDeterminism(rc, Witness{G: g, Reps: 200})
		rc.Distinct(fmt.Sprintf("probe/%d", i))
	}
	rc.flush(run)

	// D. copies of every base: equality, determinism, every mutation class through both APIs
	for bi, base := range bases {
		for _, api := range []string{"Dup", "DupAtt"} {
			doDupEqual(rc, Witness{G: base, API: api, observe: true})
			for _, mc := range mutationClasses {
				doDupMutation(rc, Witness{G: base, API: api, Class: mc})
			}
		}
		rc.Distinct(fmt.Sprintf("dupbase/%d", bi))
		rc.flush(run)
	}
	// E. the same bases embedded in a result type one of whose views renders a nested result type through a
	// sibling type that no attribute refers to (what expr.Project produces): the copy must own those too
	for bi, base := range bases {
		for variant := 0; variant < 4; variant++ {
			gv := withViewOnly(base, variant)
			for _, api := range []string{"Dup", "DupAtt"} {
				doDupEqual(rc, Witness{G: gv, API: api})
				for _, mc := range viewOnlyClasses {
					doDupMutation(rc, Witness{G: gv, API: api, Class: mc})
				}
			}
			rc.Count("dup_graphs_with_view_only_types", 1)
		}
		rc.Distinct(fmt.Sprintf("dupbase-viewonly/%d", bi))
		rc.flush(run)
	}
}

// viewOnlyClasses are the copy mutations that can reach memory behind a view.
var viewOnlyClasses = []string{"view-rename", "view-edit-attributes", "rename-attribute", "validation-replace-fields", "meta-set-delete-key", "user-type-rename", "user-type-set-attribute", "description"}

// ---------------------------------------------------------------- names containing the hash's delimiters

func hostile(run *vc.Run) {
	rc := &rec{}
	// constructed pairs: different attribute name sets / tags whose renderings coincide
	for _, p1 := range []string{"int", "string"} {
		for _, p2 := range []string{"string", "bytes"} {
			g := &Graph{Root: O(Fd("a", P(p1)), Fd("b", P(p2)))}
			h := &Graph{Root: O(Fd("a/"+p1+"-b", P(p2)))}
			gt := &Graph{Root: O(Fd("a", tagged(P(p1), "struct:field:name", "x")), Fd("b", P(p2)))}
			ht := &Graph{Root: O(Fd("a/"+p1+"+struct:field:name[x]-b", P(p2)))}
			for _, fl := range allFlags() {
				doPair(rc, Witness{G: g, H: h, Flags: fl.String(), Class: "delimiter-in-attribute-name", Hostile: true})
				if !fl.T {
					doPair(rc, Witness{G: gt, H: ht, Flags: fl.String(), Class: "delimiter-in-attribute-name", Hostile: true})
				}
			}
			rc.Distinct("hostile/" + p1 + p2)
		}
	}
	v1 := &Graph{Root: O(Fd("a", &Att{T: P("string").T, Meta: map[string][]string{"struct:field:name": {"x y"}}}))}
	v2 := &Graph{Root: O(Fd("a", &Att{T: P("string").T, Meta: map[string][]string{"struct:field:name": {"x", "y"}}}))}
	for _, fl := range allFlags() {
		if !fl.T {
			doPair(rc, Witness{G: v1, H: v2, Flags: fl.String(), Class: "delimiter-in-tag-value", Hostile: true})
		}
	}
	rc.flush(run)
	// random graphs with hostile names: single differences must still separate
	n := run.N(300, 6000)
	parallel(run, n, func(i int, rc *rec) {
		r := run.Rand(1313, uint64(i))
		g := genGraph(r.Fork(2), genOpt{hostile: true, maxDepth: r.Range(1, 3), nUT: r.Range(0, 2)})
		differentVariants(rc, g, build(g), r.Fork(4), true)
		rc.Count("hostile_name_graphs", 1)
	}, nil)
}

// ---------------------------------------------------------------- cycles that avoid every object (child processes)

var riskyShapes = []struct {
	name string
	g    *Graph
}{
	{"control: T0 = object{a: T0}", &Graph{UTs: []*UT{{Name: "T0", A: O(Fd("a", Rf(0)))}}, Root: Rf(0)}},
	{"T0 = array of T0", &Graph{UTs: []*UT{{Name: "T0", A: Ar(Rf(0))}}, Root: Rf(0)}},
	{"T0 = map[string]T0", &Graph{UTs: []*UT{{Name: "T0", A: Mp(P("string"), Rf(0))}}, Root: Rf(0)}},
	{"T0 = union{a: T0, b: string}", &Graph{UTs: []*UT{{Name: "T0", A: U("U", Fd("a", Rf(0)), Fd("b", P("string")))}}, Root: Rf(0)}},
	{"T0 = array of T1, T1 = array of T0", &Graph{UTs: []*UT{{Name: "T0", A: Ar(Rf(1))}, {Name: "T1", UID: "u1", A: Ar(Rf(0))}}, Root: O(Fd("x", Rf(0)))}},
	{"T0 = array of union{a: T0}", &Graph{UTs: []*UT{{Name: "T0", A: Ar(U("U", Fd("a", Rf(0))))}}, Root: Rf(0)}},
}

func runChild(op string, stdin []byte, timeout time.Duration) (out []byte, stderr string, err error, timedOut bool) {
	exe, e := os.Executable()
	if e != nil {
		return nil, "", e, false
	}
	cmd := exec.Command(exe, "--child", op)
	cmd.Stdin = bytes.NewReader(stdin)
	var ob, eb bytes.Buffer
	cmd.Stdout, cmd.Stderr = &ob, &eb
	if e := cmd.Start(); e != nil {
		return nil, "", e, false
	}
	done := make(chan error, 1)
	go func() { done <- cmd.Wait() }()
	select {
	case e := <-done:
		return ob.Bytes(), eb.String(), e, false
	case <-time.After(timeout):
		_ = cmd.Process.Kill()
		<-done
		return ob.Bytes(), eb.String(), nil, true
	}
}

func doRisky(rc *rec, w Witness) {
	w.Check = "risky"
	in, _ := json.Marshal(w)
	out, stderr, err, to := runChild(w.Op, in, 120*time.Second)
	rc.Eval(1)
	rc.say("child op=%s on %s: err=%v timedOut=%v stdout=%q", w.Op, w.Note, err, to, strings.TrimSpace(string(out)))
	api := "hash"
	if w.Op == "dup" {
		api = "dup"
	}
	switch {
	case to:
		rc.Inconclusive("child watchdog fired on " + api + " (possible non-termination)")
	case err == nil && strings.Contains(string(out), "RESULT ok"):
		rc.Count("cycle_without_object_ops_terminated", 1)
		rc.say("  => held")
	case strings.Contains(stderr, "stack overflow") || strings.Contains(stderr, "goroutine stack exceeds"):
		first := strings.SplitN(strings.TrimSpace(stderr), "\n", 2)[0]
		rc.Violation(api+"-nontermination cycle-without-object",
			fmt.Sprintf("%s on %q recursed until the stack limit (%s): a cycle through user types that contains no object is never cut", w.Op, w.Note, first), w)
	case strings.Contains(string(out), "RESULT unstable"):
		rc.Violation("hash-nondeterministic site=cycle-without-object", "child reports unstable hash: "+strings.TrimSpace(string(out)), w)
	default:
		rc.Inconclusive("child failed for another reason")
		rc.Seen("child_failures", clip(strings.TrimSpace(stderr)))
	}
}

func risky(run *vc.Run) {
	ops := []string{"dup"}
	for _, fl := range allFlags() {
		ops = append(ops, "hash:"+fl.String())
	}
	parallel(run, len(riskyShapes)*len(ops), func(i int, rc *rec) {
		s := riskyShapes[i/len(ops)]
		doRisky(rc, Witness{G: s.g, Op: ops[i%len(ops)], Note: s.name})
		rc.Distinct(fmt.Sprintf("risky/%d", i/len(ops)))
	}, nil)
}

// ---------------------------------------------------------------- canaries: cyclic graphs first in a child process

var canaryShapes = []struct {
	name string
	g    *Graph
}{
	{"T0 = object{a: T0}", &Graph{UTs: []*UT{{Name: "T0", A: O(Fd("a", Rf(0)))}}, Root: Rf(0)}},
	{"T0 = object{a: int, kids: array of T0, idx: map[string]T0}", &Graph{UTs: []*UT{{Name: "T0", A: O(Fd("a", P("int")), Fd("kids", Ar(Rf(0))), Fd("idx", Mp(P("string"), Rf(0))))}}, Root: Ar(Rf(0))}},
	{"T0 = object{u: union{x: T0, y: string}}", &Graph{UTs: []*UT{{Name: "T0", A: O(Fd("u", U("U", Fd("x", Rf(0)), Fd("y", P("string")))))}}, Root: Rf(0)}},
	{"T0 = object{p: T1}, T1 = object{q: T0}", &Graph{UTs: []*UT{{Name: "T0", A: O(Fd("p", Rf(1)))}, {Name: "T1", UID: "u1", A: O(Fd("q", Rf(0)))}}, Root: O(Fd("r", Rf(0)), Fd("s", Rf(1)))}},
	{"result type RT0 = object{self: RT0, other: T1}, T1 = object{back: RT0}", &Graph{UTs: []*UT{
		{Name: "T0", UID: "application/vnd.t0", Result: true, Views: []View{{Name: "default", Fields: []string{"self", "other"}}}, A: O(Fd("self", Rf(0)), Fd("other", Rf(1)))},
		{Name: "T1", A: O(Fd("back", Rf(0)))}}, Root: Rf(0)}},
	{"rich base", richBase()},
}

// cyclesUnsafe is set when a canary child crashed or hung on a cyclic graph:
// from then on cyclic graphs are not handed to goa inside this process (a Go
// stack overflow cannot be recovered) and count as inconclusive.
var cyclesUnsafe atomic.Bool

type canaryCase struct {
	G    *Graph `json:"g"`
	Note string `json:"note"`
}

// canaries runs Dup, Hash (8 flag combinations) and Equal on cyclic graphs in
// a child process: the fixed shapes above plus the first cyclic graphs of the
// random population.
func canaries(run *vc.Run) {
	rc := &rec{}
	var cases []canaryCase
	for _, s := range canaryShapes {
		cases = append(cases, canaryCase{s.g, s.name})
	}
	want := run.N(150, 600)
	for i := 0; len(cases) < len(canaryShapes)+want && i < 20*want; i++ {
		if g, _ := randomGraph(run, i); hasCycle(g) {
			cases = append(cases, canaryCase{g, fmt.Sprintf("random case %d", i)})
		}
	}
	start, restarts := 0, 0
	for start < len(cases) && restarts < 6 {
		in, _ := json.Marshal(cases[start:])
		out, stderr, err, to := runChild("canary", in, 600*time.Second)
		lines := strings.Split(string(out), "\n")
		done, last, lastOp := 0, -1, ""
		for _, l := range lines {
			var k int
			switch {
			case strings.HasPrefix(l, "START "):
				fmt.Sscanf(l, "START %d", &k)
				last = k
			case strings.HasPrefix(l, "OP "):
				lastOp = strings.TrimPrefix(l, "OP ")
			case strings.HasPrefix(l, "DONE "):
				done++
			}
		}
		rc.Eval(done)
		rc.Count("cyclic_graphs_passed_in_child", done)
		if err == nil && !to && strings.Contains(string(out), "ALLDONE") {
			break
		}
		restarts++
		cyclesUnsafe.Store(true)
		if last < 0 {
			rc.Inconclusive("canary child failed before the first case")
			rc.Seen("child_failures", clip(stderr))
			break
		}
		c := cases[start+last]
		api := "hash"
		if strings.HasPrefix(lastOp, "dup") {
			api = "dup"
		}
		rc.Eval(1)
		w := Witness{Check: "risky", G: c.G, Op: lastOp, Note: c.Note}
		switch {
		case to:
			rc.Inconclusive("canary child watchdog fired during " + lastOp + " (possible non-termination)")
		case strings.Contains(stderr, "stack overflow") || strings.Contains(stderr, "goroutine stack exceeds"):
			rc.Violation(api+"-nontermination cycle-through-object",
				fmt.Sprintf("%s on %q recursed until the stack limit: the recursion through a user type is not cut", lastOp, c.Note), w)
		default:
			first := strings.SplitN(strings.TrimSpace(stderr), "\n", 2)[0]
			rc.Violation(api+"-crash cyclic-graph", fmt.Sprintf("%s on %q killed the process: %s", lastOp, c.Note, clip(first)), w)
		}
		start += last + 1
	}
	if cyclesUnsafe.Load() {
		run.Extra("cyclic_graphs_in_process", "skipped: a canary child crashed or hung on a cyclic graph")
	}
	rc.Distinct("canaries")
	rc.flush(run)
}

func skipCyclic(rc *rec, gs ...*Graph) bool {
	if !cyclesUnsafe.Load() {
		return false
	}
	for _, g := range gs {
		if g != nil && hasCycle(g) {
			rc.Eval(1)
			rc.Inconclusive("cyclic graph not evaluated in-process: a canary child crashed or hung on a cyclic graph")
			return true
		}
	}
	return false
}

// ---------------------------------------------------------------- child modes

func childMain(op string) {
	debug.SetMaxStack(16 << 20)
	in, err := readAll(os.Stdin)
	if err != nil {
		fmt.Fprintln(os.Stderr, "child: ", err)
		os.Exit(3)
	}
	switch {
	case op == "hashes":
		var gs []*Graph
		if err := json.Unmarshal(in, &gs); err != nil {
			fmt.Fprintln(os.Stderr, "child: ", err)
			os.Exit(3)
		}
		out := make([][8]string, len(gs))
		for i, g := range gs {
			b := build(g)
			for _, fl := range allFlags() {
				h, p := safeHash(b.root.Type, fl)
				if p != "" {
					h = "PANIC " + p
				}
				out[i][flagsIndex(fl)] = h
			}
		}
		b, _ := json.Marshal(out)
		os.Stdout.Write(b)
	case op == "canary":
		var cs []canaryCase
		if err := json.Unmarshal(in, &cs); err != nil {
			fmt.Fprintln(os.Stderr, "child: ", err)
			os.Exit(3)
		}
		for k, c := range cs {
			fmt.Printf("START %d\n", k)
			b := build(c.G)
			fmt.Println("OP dup")
			d := expr.Dup(b.root.Type)
			_ = snapHash(d)
			fmt.Println("OP dupatt")
			_ = snapHash(expr.DupAtt(b.root))
			for _, fl := range allFlags() {
				fmt.Println("OP hash:" + fl.String())
				_ = expr.Hash(b.root.Type, fl.F, fl.N, fl.T)
				_ = expr.Hash(d, fl.F, fl.N, fl.T)
			}
			fmt.Println("OP hash:-NT (Equal)")
			_ = expr.Equal(b.root.Type, d)
			fmt.Printf("DONE %d\n", k)
		}
		fmt.Println("ALLDONE")
	case op == "dup" || op == "dupatt" || strings.HasPrefix(op, "hash:"):
		var w Witness
		if err := json.Unmarshal(in, &w); err != nil {
			fmt.Fprintln(os.Stderr, "child: ", err)
			os.Exit(3)
		}
		b := build(w.G)
		if op == "dup" || op == "dupatt" {
			first := snapshot(expr.Dup(b.root.Type))
			_ = expr.DupAtt(b.root)
			for i := 0; i < 5; i++ {
				if d := snapDiff(first, snapshot(expr.Dup(b.root.Type))); d != "" {
					fmt.Println("RESULT unstable", d)
					return
				}
			}
			fmt.Println("RESULT ok")
			return
		}
		fl := parseFlags(strings.TrimPrefix(op, "hash:"))
		h := expr.Hash(b.root.Type, fl.F, fl.N, fl.T)
		for i := 0; i < 5; i++ {
			if h2 := expr.Hash(b.root.Type, fl.F, fl.N, fl.T); h2 != h {
				fmt.Println("RESULT unstable", h, h2)
				return
			}
		}
		fmt.Println("RESULT ok", h)
	default:
		fmt.Fprintln(os.Stderr, "child: bad op", op)
		os.Exit(3)
	}
}

func readAll(f *os.File) ([]byte, error) {
	var buf bytes.Buffer
	_, err := buf.ReadFrom(f)
	return buf.Bytes(), err
}

// ---------------------------------------------------------------- random part

const randomClass = 13

func randomGraph(run *vc.Run, i int) (*Graph, genOpt) {
	r := run.Rand(randomClass, uint64(i))
	opt := randomOpt(r.Fork(1))
	return genGraph(r.Fork(2), opt), opt
}

type singleTransform struct {
	cls   string
	apply func(h *Graph, r *vc.Rand) int
	when  func(fl flags) bool
}

var always = func(flags) bool { return true }

var singles = []singleTransform{
	{"permute-objects", func(h *Graph, r *vc.Rand) int { return permute(h, r, true, false) }, always},
	{"permute-unions", func(h *Graph, r *vc.Rand) int { return permute(h, r, false, true) }, always},
	{"decorate-desc", func(h *Graph, r *vc.Rand) int { return decorate(h, r, "desc") }, always},
	{"decorate-validation", func(h *Graph, r *vc.Rand) int { return decorate(h, r, "validation") }, always},
	{"decorate-meta", func(h *Graph, r *vc.Rand) int { return decorate(h, r, "meta") }, always},
	{"decorate-default", func(h *Graph, r *vc.Rand) int { return decorate(h, r, "default") }, always},
	{"rename-uts", func(h *Graph, r *vc.Rand) int { return renameUTs(h) }, func(fl flags) bool { return fl.N && !fl.F }},
	{"retag", func(h *Graph, r *vc.Rand) int { return retag(h, r) }, func(fl flags) bool { return fl.T }},
	{"below-ut", func(h *Graph, r *vc.Rand) int { return belowUT(h, r) }, func(fl flags) bool { return fl.F }},
}

// equalVariants: all transforms the documented rules declare irrelevant under
// fl are applied at once; on a mismatch each is retried alone to name the culprit.
func equalVariants(rc *rec, g *Graph, bg *built, r *vc.Rand) {
	base := g.clone()
	permSeed := r.Uint64()
	permute(base, vc.NewRand(permSeed), true, true)
	decorate(base, r.Fork(2), "all")
	for fi, fl := range allFlags() {
		h := base.clone()
		for _, s := range singles[6:] {
			if s.when(fl) {
				s.apply(h, r.Fork(uint64(10+fi)))
			}
		}
		w := Witness{Check: "pair", G: g, H: h, Flags: fl.String(), Expect: "equal", Class: "combined", bg: bg}
		st, key, what := evalPair(rc, w)
		rc.Eval(1)
		switch st {
		case "held":
			rc.Count("equal_pairs_held", 1)
		case "masked":
			rc.Count("equal_pairs_masked_by_hash_nondeterminism", 1)
		case "skipped":
			rc.Count("pairs_skipped_cycle_without_object", 1)
		case "unsafe":
			rc.Inconclusive("cyclic graph not evaluated in-process: a canary child crashed or hung on a cyclic graph")
		case "inconclusive":
			rc.Inconclusive("construction and reference oracle disagree")
			rc.Seen("judge_disagreements", "combined "+fl.String()+" "+what)
		case "violated":
			found := false
			for si, s := range singles {
				if !s.when(fl) {
					continue
				}
				h1 := g.clone()
				sr := r.Fork(uint64(100 + 10*fi + si))
				if strings.HasPrefix(s.cls, "permute-") {
					sr = vc.NewRand(permSeed) // the very permutations of the combined variant
				}
				if s.apply(h1, sr) == 0 {
					continue
				}
				if doPair(rc, Witness{G: g, H: h1, Flags: fl.String(), Expect: "equal", Class: s.cls}) == "violated" {
					found = true
				}
			}
			if !found {
				rc.Violation(key, what, w)
			}
		}
	}
}

func differentVariants(rc *rec, g *Graph, bg *built, r *vc.Rand, hostile bool) {
	for ci, c := range diffClasses {
		_, _, total := diffAt(g, c, -1, 0)
		if total == 0 {
			continue
		}
		dr := r.Fork(uint64(ci))
		h := g.clone()
		d, ok, _ := diffAt(h, c, dr.Intn(total), dr.Intn(4))
		if !ok {
			continue
		}
		var bh *built
		if !h.objectFreeCycle() {
			bh = build(h)
		}
		for _, fl := range allFlags() {
			doPair(rc, Witness{G: g, H: h, Flags: fl.String(), Expect: expected(d, fl), Class: c, D: &d, Hostile: hostile, bg: bg, bh: bh})
		}
		rc.Seen("difference_classes_exercised", c)
	}
}

func hasCycle(g *Graph) bool {
	// a cycle among reachable user types
	state := map[int]int{}
	var visit func(i int) bool
	visit = func(i int) bool {
		if state[i] == 1 {
			return true
		}
		if state[i] == 2 {
			return false
		}
		state[i] = 1
		m := map[int]bool{}
		refsOf(g.UTs[i].A, m)
		for j := range m {
			if visit(j) {
				return true
			}
		}
		state[i] = 2
		return false
	}
	for _, i := range g.reachable() {
		if visit(i) {
			return true
		}
	}
	return false
}

func randomCase(run *vc.Run, i int, rc *rec, hashes *[8]string, stable *[8]bool) {
	g, opt := randomGraph(run, i)
	r := run.Rand(randomClass, uint64(i), 99)
	if g.nontrivial() {
		rc.Distinct(g.shape())
	}
	if skipCyclic(rc, g) {
		return
	}
	reach := g.reachable()
	rc.Max("max_reachable_user_types", len(reach))
	rc.Max("max_positions", len(g.positions()))
	if hasCycle(g) {
		rc.Count("graphs_with_cycles", 1)
	}
	for _, j := range reach {
		if g.UTs[j].Result {
			rc.Count("graphs_with_result_types", 1)
			break
		}
	}
	if opt.multiTag != "" {
		rc.Count("graphs_with_multi_tag_meta_"+opt.multiTag, 1)
	}
	*stable = doDeterminism(rc, Witness{G: g})
	b := build(g)
	for _, fl := range allFlags() {
		hashes[flagsIndex(fl)], _ = safeHash(b.root.Type, fl)
	}
	equalVariants(rc, g, b, r.Fork(3))
	differentVariants(rc, g, b, r.Fork(4), false)
	api := []string{"Dup", "DupAtt"}
	doDupEqual(rc, Witness{G: g, API: api[i%2], observe: i < 300})
	for mi, mc := range mutationClasses {
		doDupMutation(rc, Witness{G: g, API: api[(i+mi)%2], Class: mc})
	}
	if i%4 == 0 {
		gv := withViewOnly(g, i/4)
		doDupEqual(rc, Witness{G: gv, API: api[(i/4)%2]})
		for mi, mc := range viewOnlyClasses {
			doDupMutation(rc, Witness{G: gv, API: api[(i/4+mi)%2], Class: mc})
		}
		rc.Count("dup_graphs_with_view_only_types", 1)
	}
}

func random(run *vc.Run) (sampleForChildren []*Graph) {
	n := run.N(5000, 120000)
	type slot struct {
		h [8]string
		s [8]bool
	}
	slots := map[int]*slot{}
	var mu sync.Mutex
	pop := make([]map[[12]byte]int32, 8)
	for i := range pop {
		pop[i] = map[[12]byte]int32{}
	}
	rc := &rec{}
	parallel(run, n, func(i int, rc *rec) {
		s := &slot{}
		randomCase(run, i, rc, &s.h, &s.s)
		mu.Lock()
		slots[i] = s
		mu.Unlock()
	}, func(i int) {
		mu.Lock()
		s := slots[i]
		delete(slots, i)
		mu.Unlock()
		if s == nil {
			return
		}
		if i < 3 {
			g, _ := randomGraph(run, i)
			run.Sample(map[string]any{"case": i, "graph": g, "hash_flags_---": s.h[0]})
		}
		// population: two unrelated graphs with the same hash must not differ by a documented rule
		for fi, fl := range allFlags() {
			if !s.s[fi] || s.h[fi] == "" {
				continue
			}
			sum := sha256.Sum256([]byte(s.h[fi]))
			var k [12]byte
			copy(k[:], sum[:12])
			j, ok := pop[fi][k]
			if !ok {
				pop[fi][k] = int32(i)
				continue
			}
			ga, _ := randomGraph(run, int(j))
			gb, _ := randomGraph(run, i)
			v := compare(ga, gb, fl)
			run.Eval(1)
			switch v.Rel {
			case "equal":
				run.Count("population_same_hash_pairs_confirmed_equal", 1)
			case "ambiguous":
				run.Count("pairs_not_judged_documentation_silent", 1)
			case "different":
				// make sure it is a real collision of the full strings
				ba := build(ga)
				ha, _ := safeHash(ba.root.Type, fl)
				if ha == s.h[fi] {
					key := "hash-collision rule=" + v.Class
					if hasCycle(ga) || hasCycle(gb) {
						key = "hash-collision-with-recursive-type rule=" + v.Class
					}
					rc.Violation(key, fmt.Sprintf("random cases %d and %d differ by rule %s at %s but hash equally under flags %s: %q", j, i, v.Class, v.Where, fl, clip(ha)),
						Witness{Check: "pair", G: ga, H: gb, Flags: fl.String(), Class: ""})
					rc.flush(run)
				}
			}
		}
	})
	m := run.N(64, 512)
	for i := 0; i < m && i < n; i++ {
		g, _ := randomGraph(run, i)
		if cyclesUnsafe.Load() && hasCycle(g) {
			continue
		}
		sampleForChildren = append(sampleForChildren, g)
	}
	return
}

// crossProcess hashes a sample in 4 fresh processes and compares with this process.
func crossProcess(run *vc.Run, gs []*Graph) {
	rc := &rec{}
	in, _ := json.Marshal(gs)
	mine := make([][8]string, len(gs))
	for i, g := range gs {
		b := build(g)
		for _, fl := range allFlags() {
			mine[i][flagsIndex(fl)], _ = safeHash(b.root.Type, fl)
		}
	}
	for c := 0; c < 4; c++ {
		out, stderr, err, to := runChild("hashes", in, 300*time.Second)
		if to || err != nil {
			rc.Inconclusive("cross-process child did not complete")
			rc.Seen("child_failures", clip(stderr))
			continue
		}
		var theirs [][8]string
		if e := json.Unmarshal(out, &theirs); e != nil || len(theirs) != len(gs) {
			rc.Inconclusive("cross-process child output unreadable")
			continue
		}
		for i := range gs {
			for _, fl := range allFlags() {
				fi := flagsIndex(fl)
				rc.Eval(1)
				if theirs[i][fi] != mine[i][fi] {
					key := nondetKey(gs[i])
					if key == "hash-nondeterministic site=unknown" {
						key = "hash-differs-across-processes"
					}
					rc.Violation(key, fmt.Sprintf("a fresh process hashes the same spec differently (flags %s): %q vs %q", fl, clip(theirs[i][fi]), clip(mine[i][fi])),
						Witness{Check: "cross-process", G: gs[i], Flags: fl.String()})
				} else {
					rc.Count("cross_process_hashes_agree", 1)
				}
			}
		}
	}
	rc.flush(run)
}

// ---------------------------------------------------------------- replay

func replay(run *vc.Run) {
	var w Witness
	if err := run.LoadReplay(&w); err != nil {
		fmt.Println("replay:", err)
		run.Infra("cannot load replay")
		return
	}
	rc := &rec{verbose: true}
	js, _ := json.Marshal(w.G)
	fmt.Printf("replaying check=%s class=%s api=%s flags=%s\nG = %s\n", w.Check, w.Class, w.API, w.Flags, js)
	if w.H != nil {
		js, _ = json.Marshal(w.H)
		fmt.Printf("H = %s\n", js)
	}
	switch w.Check {
	case "pair":
		doPair(rc, w)
	case "determinism":
		if w.Reps == 0 {
			w.Reps = 200
		}
		doDeterminism(rc, w)
	case "dup-mutation":
		doDupMutation(rc, w)
	case "dup-equal":
		doDupEqual(rc, w)
	case "risky":
		doRisky(rc, w)
	case "cross-process":
		crossProcess(run, []*Graph{w.G})
	default:
		run.Infra("unknown check %q in replay file", w.Check)
	}
	rc.flush(run)
}

// ---------------------------------------------------------------- main

func main() {
	child := flag.String("child", "", "internal: child mode")
	run := vc.New("C13")
	if *child != "" {
		childMain(*child)
		return
	}
	run.Rule("type graphs over 12 primitives, arrays, maps, objects (0-4 attributes), unions (1-4 alternatives), user types and result types with views (0-4 per graph, references anywhere => cycles, every cycle contains an object; cycles without any object are a separate fixed class run in child processes), depth 2-5, metadata with 0-4 struct:field:* keys plus other keys, validations, defaults. Per graph: Hash 20x under each of the 8 flag combinations; one combined equal-variant per flag combination (members of every object/union reordered, decorations changed, user types renamed under ignoreNames, tags rewritten under ignoreTags, user type bodies replaced under ignoreFields); one single-difference variant per difference class x 8 flag combinations; Dup/DupAtt equality, 20x determinism and 24 mutation classes on the copy with a reflection snapshot of the original. Exhaustive: every permutation of <=4 members for 9 base shapes x 2 name sets x 8 flag combinations; every single difference at every position of 22 small bases x 8 flag combinations. distinct = distinct graph shapes (kinds, names, references, tag counts) plus exhaustive cases.")
	run.Assume(
		"expected relations come from the case construction AND from a coinductive comparison of the specs under the six rules in the doc comment of expr.Hash; if the two disagree the case is inconclusive",
		"the doc comment is silent about unions (type name, alternative names/types), about user type vs result type, and about struct:field tags on a user type's own attribute: differences only of those sorts are not judged (counted as pairs_not_judged_documentation_silent); union alternative ORDER is judged because the property statement names it",
		"'exactly when' is read as: description, validation, default value and metadata other than struct:field:* must not influence the hash",
		"folded and unfolded presentations of the same infinite tree are never compared; compared graphs always have the same sharing structure",
		"user type IDs are unique within a graph (same name with distinct UIDs is generated; same ID for distinct types is outside the envelope); expr.Empty, Bases, References, UserExamples, Docs are not generated",
		"names containing the hash's own delimiter strings are a separate class (keys names-with-delimiters / tag-values-with-delimiters)",
		"a stack overflow in a child process on a 1-2 node graph is reported as non-termination; an in-process watchdog firing is inconclusive",
	)
	if run.Replay != "" {
		replay(run)
		run.Finish()
	}
	if pf := os.Getenv("VERIF_C13_PROF"); pf != "" {
		f, _ := os.Create(pf)
		_ = pprof.StartCPUProfile(f)
		defer pprof.StopCPUProfile()
	}
	t0 := time.Now()
	lap := func(what string) {
		if os.Getenv("VERIF_C13_TIMING") != "" {
			fmt.Fprintf(os.Stderr, "timing: %s %.1fs\n", what, time.Since(t0).Seconds())
		}
		t0 = time.Now()
	}
	debug.SetGCPercent(400)
	canaries(run)
	lap("canaries")
	exhaustive(run)
	lap("exhaustive")
	hostile(run)
	lap("hostile")
	risky(run)
	lap("risky")
	sample := random(run)
	lap("random")
	crossProcess(run, sample)
	lap("cross-process")
	run.Extra("exhaustive_part", "all permutations of objects/unions with <=4 members x 8 flag combinations; all single differences on 22 small bases x 8 flag combinations")
	run.Floor(run.N(2000, 50000))
	pprof.StopCPUProfile()
	run.Finish()
}
