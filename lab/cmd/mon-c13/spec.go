package main

// The spec IR of a type graph: a plain, JSON-serialisable description that the
// generator produces, the builder turns into real expr values, and the
// reference oracle (ref.go) reasons about without ever touching goa.

import (
	"fmt"
	"sort"
	"strings"

	"verif.local/lab/vc"
)

type Val struct {
	Pattern  string   `json:"pattern,omitempty"`
	Format   string   `json:"format,omitempty"`
	Min      *float64 `json:"min,omitempty"`
	Max      *float64 `json:"max,omitempty"`
	MinLen   *int     `json:"minlen,omitempty"`
	MaxLen   *int     `json:"maxlen,omitempty"`
	Enum     []any    `json:"enum,omitempty"`
	Required []string `json:"required,omitempty"`
}

type Att struct {
	T    *Type               `json:"t"`
	Desc string              `json:"desc,omitempty"`
	Meta map[string][]string `json:"meta,omitempty"`
	Val  *Val                `json:"val,omitempty"`
	Def  any                 `json:"def,omitempty"` // string | float64 | bool | []any | map[string]any
	// DefTyped: the default is handed to goa as a TYPED Go value ([][]string, []map[string]any, map[string][]string,
	// []string, []float64: what Default([][]string{...}) stores) instead of a tree of []any / map[string]any
	DefTyped bool `json:"def_typed,omitempty"`
}

type Field struct {
	Name string `json:"n"`
	A    *Att   `json:"a"`
}

// Type kinds: prim | array | map | object | union | ref
type Type struct {
	K      string   `json:"k"`
	Prim   string   `json:"p,omitempty"`
	Elem   *Att     `json:"elem,omitempty"`
	Key    *Att     `json:"key,omitempty"`
	Fields []*Field `json:"f,omitempty"`
	UName  string   `json:"uname,omitempty"`
	Ref    int      `json:"ref,omitempty"`
}

type View struct {
	Name   string   `json:"name"`
	Fields []string `json:"fields"`
	// Alt renders a field of the view with another user type than the attribute's own (index into UTs):
	// what expr.Project leaves behind -- a type reachable through a view only.
	Alt map[string]int `json:"alt,omitempty"`
}

type UT struct {
	Name   string `json:"name"`
	UID    string `json:"uid,omitempty"`
	Result bool   `json:"result,omitempty"`
	CT     string `json:"ct,omitempty"`
	Views  []View `json:"views,omitempty"`
	A      *Att   `json:"a"`
}

type Graph struct {
	UTs  []*UT `json:"uts,omitempty"`
	Root *Att  `json:"root"`
}

var prims = []string{"boolean", "int", "int32", "int64", "uint", "uint32", "uint64", "float32", "float64", "string", "bytes", "any"}

const tagPfx = "struct:field:"

var tagKeys = []string{"struct:field:name", "struct:field:type", "struct:field:proto", "struct:field:external"}
var otherMetaKeys = []string{"struct:tag:json", "openapi:example", "swagger:summary", "rpc:tag", "struct:pkg:path", "struct:error:name"}

// ---------------------------------------------------------------- clone

// typedDefault turns a default tree into the typed Go value a design written with typed literals stores:
// []any of strings -> []string, of numbers -> []float64, of string lists -> [][]string, of maps -> []map[string]any;
// map[string]any whose values are all string lists -> map[string][]string. Anything else is kept.
func typedDefault(v any) any {
	switch x := v.(type) {
	case []any:
		if len(x) == 0 {
			return v
		}
		allS, allF, allL, allM := true, true, true, true
		for _, e := range x {
			_, isS := e.(string)
			_, isF := e.(float64)
			_, isM := e.(map[string]any)
			l, isL := typedDefault(e).([]string)
			_ = l
			allS, allF, allL, allM = allS && isS, allF && isF, allL && isL, allM && isM
		}
		switch {
		case allS:
			o := make([]string, len(x))
			for i, e := range x {
				o[i] = e.(string)
			}
			return o
		case allF:
			o := make([]float64, len(x))
			for i, e := range x {
				o[i] = e.(float64)
			}
			return o
		case allL:
			o := make([][]string, len(x))
			for i, e := range x {
				o[i] = typedDefault(e).([]string)
			}
			return o
		case allM:
			o := make([]map[string]any, len(x))
			for i, e := range x {
				o[i] = e.(map[string]any)
			}
			return o
		}
	case map[string]any:
		if len(x) == 0 {
			return v
		}
		o := map[string][]string{}
		for k, e := range x {
			l, ok := typedDefault(e).([]string)
			if !ok {
				return v
			}
			o[k] = l
		}
		return o
	}
	return v
}

func cloneAny(v any) any {
	switch x := v.(type) {
	case []any:
		o := make([]any, len(x))
		for i := range x {
			o[i] = cloneAny(x[i])
		}
		return o
	case map[string]any:
		o := make(map[string]any, len(x))
		for k, e := range x {
			o[k] = cloneAny(e)
		}
		return o
	}
	return v
}

func (v *Val) clone() *Val {
	if v == nil {
		return nil
	}
	o := *v
	if v.Min != nil {
		f := *v.Min
		o.Min = &f
	}
	if v.Max != nil {
		f := *v.Max
		o.Max = &f
	}
	if v.MinLen != nil {
		f := *v.MinLen
		o.MinLen = &f
	}
	if v.MaxLen != nil {
		f := *v.MaxLen
		o.MaxLen = &f
	}
	if v.Enum != nil {
		o.Enum = cloneAny(v.Enum).([]any)
	}
	if v.Required != nil {
		o.Required = append([]string{}, v.Required...)
	}
	return &o
}

func (a *Att) clone() *Att {
	if a == nil {
		return nil
	}
	o := &Att{T: a.T.clone(), Desc: a.Desc, Val: a.Val.clone(), Def: cloneAny(a.Def), DefTyped: a.DefTyped}
	if a.Meta != nil {
		o.Meta = make(map[string][]string, len(a.Meta))
		for k, v := range a.Meta {
			o.Meta[k] = append([]string{}, v...)
		}
	}
	return o
}

func (t *Type) clone() *Type {
	if t == nil {
		return nil
	}
	o := &Type{K: t.K, Prim: t.Prim, Elem: t.Elem.clone(), Key: t.Key.clone(), UName: t.UName, Ref: t.Ref}
	if t.Fields != nil {
		o.Fields = make([]*Field, len(t.Fields))
		for i, f := range t.Fields {
			o.Fields[i] = &Field{Name: f.Name, A: f.A.clone()}
		}
	}
	return o
}

func (g *Graph) clone() *Graph {
	o := &Graph{Root: g.Root.clone()}
	for _, u := range g.UTs {
		nu := *u
		nu.A = u.A.clone()
		nu.Views = nil
		for _, v := range u.Views {
			nv := View{Name: v.Name, Fields: append([]string{}, v.Fields...)}
			if v.Alt != nil {
				nv.Alt = map[string]int{}
				for k, x := range v.Alt {
					nv.Alt[k] = x
				}
			}
			nu.Views = append(nu.Views, nv)
		}
		o.UTs = append(o.UTs, &nu)
	}
	return o
}

// ---------------------------------------------------------------- traversal

// pos is one attribute position of a graph with its context.
type pos struct {
	a          *Att
	ut         int    // -1: in the root tree, else index of the user type whose body holds it
	objField   bool   // the attribute is a named attribute of an object
	underUnion bool   // some ancestor inside the same tree is a union
	path       string // human readable
}

func walkTree(a *Att, ut int, path string, out *[]pos) {
	var walk func(a *Att, objField, underUnion bool, path string)
	walk = func(a *Att, objField, underUnion bool, path string) {
		*out = append(*out, pos{a, ut, objField, underUnion, path})
		t := a.T
		switch t.K {
		case "array":
			walk(t.Elem, false, underUnion, path+"[]")
		case "map":
			walk(t.Key, false, underUnion, path+"{key}")
			walk(t.Elem, false, underUnion, path+"{elem}")
		case "object":
			for _, f := range t.Fields {
				walk(f.A, true, underUnion, path+"."+f.Name)
			}
		case "union":
			for _, f := range t.Fields {
				walk(f.A, false, true, path+"|"+f.Name)
			}
		}
	}
	walk(a, false, false, path)
}

// positions lists every attribute of the root tree and of every user type
// reachable from the root, in deterministic order.
func (g *Graph) positions() []pos {
	var out []pos
	walkTree(g.Root, -1, "root", &out)
	for _, i := range g.reachable() {
		walkTree(g.UTs[i].A, i, fmt.Sprintf("UT%d(%s)", i, g.UTs[i].Name), &out)
	}
	return out
}

// visible returns the user types reachable from the root along a path that
// never enters a union alternative (the documented rules say nothing about
// unions, so only those positions are judged in the "different" direction).
func (g *Graph) visible() map[int]bool {
	vis := map[int]bool{}
	var todo []int
	scan := func(a *Att, ut int) {
		var ps []pos
		walkTree(a, ut, "", &ps)
		for _, p := range ps {
			if p.a.T.K == "ref" && !p.underUnion && !vis[p.a.T.Ref] {
				vis[p.a.T.Ref] = true
				todo = append(todo, p.a.T.Ref)
			}
		}
	}
	scan(g.Root, -1)
	for len(todo) > 0 {
		i := todo[0]
		todo = todo[1:]
		scan(g.UTs[i].A, i)
	}
	return vis
}

func refsOf(a *Att, into map[int]bool) {
	t := a.T
	switch t.K {
	case "ref":
		into[t.Ref] = true
	case "array":
		refsOf(t.Elem, into)
	case "map":
		refsOf(t.Key, into)
		refsOf(t.Elem, into)
	case "object", "union":
		for _, f := range t.Fields {
			refsOf(f.A, into)
		}
	}
}

// reachable returns the sorted indices of user types reachable from the root.
func (g *Graph) reachable() []int {
	seen := map[int]bool{}
	var todo []int
	add := func(a *Att) {
		m := map[int]bool{}
		refsOf(a, m)
		for i := range m {
			if !seen[i] {
				seen[i] = true
				todo = append(todo, i)
			}
		}
	}
	add(g.Root)
	for len(todo) > 0 {
		i := todo[0]
		todo = todo[1:]
		add(g.UTs[i].A)
	}
	out := make([]int, 0, len(seen))
	for i := range seen {
		out = append(out, i)
	}
	sort.Ints(out)
	return out
}

// directRefs returns the user types referenced from the root tree itself.
func (g *Graph) directRefs() map[int]bool {
	m := map[int]bool{}
	refsOf(g.Root, m)
	return m
}

func tagsOf(a *Att) map[string][]string {
	var m map[string][]string
	for k, v := range a.Meta {
		if strings.HasPrefix(k, tagPfx) {
			if m == nil {
				m = map[string][]string{}
			}
			m[k] = v
		}
	}
	return m
}

// shape is a compact signature of the structure (kinds, names, refs, tag keys).
func (g *Graph) shape() string {
	var b strings.Builder
	var w func(a *Att)
	w = func(a *Att) {
		t := a.T
		switch t.K {
		case "prim":
			b.WriteString(t.Prim)
		case "ref":
			fmt.Fprintf(&b, "@%d", t.Ref)
		case "array":
			b.WriteString("[")
			w(t.Elem)
			b.WriteString("]")
		case "map":
			b.WriteString("{")
			w(t.Key)
			b.WriteString(":")
			w(t.Elem)
			b.WriteString("}")
		case "object", "union":
			if t.K == "union" {
				b.WriteString("U" + t.UName)
			}
			b.WriteString("(")
			for _, f := range t.Fields {
				b.WriteString(f.Name)
				b.WriteString("=")
				w(f.A)
				b.WriteString(",")
			}
			b.WriteString(")")
		}
		if n := len(tagsOf(a)); n > 0 {
			fmt.Fprintf(&b, "+%d", n)
		}
	}
	w(g.Root)
	for _, i := range g.reachable() {
		u := g.UTs[i]
		fmt.Fprintf(&b, ";%d:%s/%v=", i, u.Name, u.Result)
		w(u.A)
	}
	return b.String()
}

func (g *Graph) nontrivial() bool {
	return g.Root.T.K != "prim"
}

// ---------------------------------------------------------------- generator

type genOpt struct {
	multiTag string // "", "obj" (>=2 struct:field keys on object attributes), "ut" (on user type attributes)
	hostile  bool   // names containing the hash's delimiter strings
	maxDepth int
	nUT      int
}

type gen struct {
	r     *vc.Rand
	o     genOpt
	g     *Graph
	fresh int
}

var plainNames = []string{"a", "b", "c", "d", "e", "id", "name", "Aa", "a_b", "x1", "z", "B", "ab", "aa", "_"}
var hostileNames = []string{"a", "b", "a/int-b", "a/string", "-a", "a-b", "b/int", "a/string+struct:field:name[x]", "_o_", "a/_o_-b",
	"!", "a/_t_T0!", ":", "_*_a", "a_|_int", "_u_", "+", "a/int", "int", "-", "/", "a/int-b/string-c"}

func (g *gen) namePool() []string {
	if g.o.hostile {
		return hostileNames
	}
	return plainNames
}

func (g *gen) pickNames(n int) []string {
	pool := g.namePool()
	p := g.r.Perm(len(pool))
	out := make([]string, n)
	for i := 0; i < n; i++ {
		out[i] = pool[p[i]]
	}
	return out
}

func (g *gen) prim() *Type { return &Type{K: "prim", Prim: prims[g.r.Intn(len(prims))]} }

// typ generates a type. ut is the index of the user type whose body is being
// generated (-1 for the root); guarded says an object has been passed on the
// path from that user type's root (so any reference is allowed: the cycle it
// may close contains an object). Unguarded references only go to higher
// indices, which rules out cycles that avoid every object (those are the
// separate cycle-without-object class).
func (g *gen) typ(depth, ut int, guarded bool) *Type {
	r := g.r
	k := r.Intn(100)
	if depth <= 0 {
		if k < 55 || g.o.nUT == 0 {
			return g.prim()
		}
		return g.ref(ut, guarded)
	}
	switch {
	case k < 26:
		return g.prim()
	case k < 38:
		return &Type{K: "array", Elem: g.att(depth-1, ut, guarded, "elem")}
	case k < 46:
		var key *Att
		if r.Chance(4, 5) {
			key = &Att{T: &Type{K: "prim", Prim: r.Pick("string", "int", "uint32", "int64", "string")}}
		} else {
			key = g.att(depth-1, ut, guarded, "elem")
		}
		return &Type{K: "map", Key: key, Elem: g.att(depth-1, ut, guarded, "elem")}
	case k < 70:
		return g.object(depth, ut)
	case k < 79:
		n := r.Range(1, 4)
		t := &Type{K: "union", UName: fmt.Sprintf("U%d", r.Intn(3))}
		for _, nm := range g.pickNames(n) {
			t.Fields = append(t.Fields, &Field{Name: nm, A: g.att(depth-1, ut, guarded, "alt")})
		}
		return t
	default:
		if g.o.nUT == 0 {
			return g.prim()
		}
		return g.ref(ut, guarded)
	}
}

func (g *gen) object(depth, ut int) *Type {
	n := g.r.Range(0, 4)
	if n == 0 && g.r.Chance(3, 4) {
		n = g.r.Range(1, 4)
	}
	t := &Type{K: "object"}
	for _, nm := range g.pickNames(n) {
		t.Fields = append(t.Fields, &Field{Name: nm, A: g.att(depth-1, ut, true, "field")})
	}
	return t
}

func (g *gen) ref(ut int, guarded bool) *Type {
	if guarded || ut < 0 {
		return &Type{K: "ref", Ref: g.r.Intn(g.o.nUT)}
	}
	if ut+1 >= g.o.nUT {
		return g.prim()
	}
	return &Type{K: "ref", Ref: g.r.Range(ut+1, g.o.nUT-1)}
}

func fp(f float64) *float64 { return &f }
func ip(i int) *int         { return &i }

func (g *gen) val(t *Type) *Val {
	r := g.r
	v := &Val{}
	switch r.Intn(6) {
	case 0:
		v.Pattern = r.Pick("^a+$", "[0-9]+", ".*")
	case 1:
		v.Format = r.Pick("date", "uuid", "email", "ipv4")
	case 2:
		v.Min = fp(float64(r.Intn(10)))
		if r.Bool() {
			v.Max = fp(float64(10 + r.Intn(10)))
		}
	case 3:
		v.MinLen = ip(r.Intn(3))
		v.MaxLen = ip(3 + r.Intn(5))
	case 4:
		v.Enum = []any{r.Pick("x", "y"), "z", float64(r.Intn(5))}
	case 5:
		v.Min = fp(1)
		v.Enum = []any{"p", "q"}
	}
	if t.K == "object" && len(t.Fields) > 0 {
		for _, f := range t.Fields {
			if r.Bool() {
				v.Required = append(v.Required, f.Name)
			}
		}
	}
	return v
}

func (g *gen) def() any {
	r := g.r
	switch r.Intn(8) {
	case 5:
		return []any{[]any{r.Pick("u", "v"), "w"}, []any{"x"}}
	case 6:
		return []any{map[string]any{"k": r.Pick("u", "v"), "l": []any{"p", "q"}}, map[string]any{"k": "z"}}
	case 7:
		return map[string]any{"l": []any{r.Pick("u", "v"), "w"}, "m": []any{"x"}}
	case 0:
		return r.Pick("dflt", "", "x y")
	case 1:
		return float64(r.Intn(100))
	case 2:
		return r.Bool()
	case 3:
		return []any{r.Pick("u", "v"), "w"}
	default:
		return map[string]any{"k": r.Pick("u", "v"), "n": float64(r.Intn(9))}
	}
}

// att generates an attribute; role is field | elem | alt | ut | root.
func (g *gen) att(depth, ut int, guarded bool, role string) *Att {
	r := g.r
	a := &Att{T: g.typ(depth, ut, guarded)}
	if r.Chance(1, 4) {
		a.Desc = r.Pick("d1", "some description", "x")
	}
	if r.Chance(1, 3) {
		a.Val = g.val(a.T)
	}
	if r.Chance(1, 5) {
		a.Def = g.def()
		a.DefTyped = r.Bool()
	}
	if r.Chance(1, 3) {
		a.Meta = map[string][]string{}
		for i, n := 0, r.Range(1, 2); i < n; i++ {
			a.Meta[otherMetaKeys[r.Intn(len(otherMetaKeys))]] = []string{r.Pick("m1", "m2", "m 3")}
		}
	}
	// struct:field:* tags
	ntag := 0
	switch {
	case role == "field" && g.o.multiTag == "obj":
		ntag = r.Range(0, 3)
		if r.Chance(1, 2) {
			ntag = r.Range(2, 4)
		}
	case role == "ut" && g.o.multiTag == "ut":
		ntag = r.Range(2, 4)
	case role == "field" || role == "ut":
		if r.Chance(1, 3) {
			ntag = 1
		}
	default:
		if r.Chance(1, 8) {
			ntag = 1
		}
	}
	if ntag > 0 {
		if a.Meta == nil {
			a.Meta = map[string][]string{}
		}
		p := r.Perm(len(tagKeys))
		for i := 0; i < ntag; i++ {
			a.Meta[tagKeys[p[i]]] = []string{r.Pick("Foo", "Bar", "int64", "pkg.T", "f1")}
		}
	}
	return a
}

func (g *gen) utName(i int) string {
	if g.o.hostile && g.r.Chance(1, 2) {
		return g.r.Pick("T!_o_", "_t_T", "A+", "T0!_o_-a/int", "T/x", "T-a") + fmt.Sprint(i)
	}
	return fmt.Sprintf("T%d", i)
}

func (g *gen) userType(i int) *UT {
	r := g.r
	u := &UT{Name: g.utName(i)}
	if r.Chance(1, 2) {
		u.UID = fmt.Sprintf("uid#%d", i)
	}
	depth := r.Range(1, max(1, g.o.maxDepth-1))
	if r.Chance(35, 100) {
		u.Result = true
		u.UID = fmt.Sprintf("application/vnd.t%d", i)
		if r.Chance(1, 3) {
			u.CT = "application/json"
		}
	}
	if u.Result || r.Chance(7, 10) {
		a := g.att(0, i, true, "ut")
		a.T = g.object(depth, i)
		if u.Result && len(a.T.Fields) == 0 {
			a.T.Fields = append(a.T.Fields, &Field{Name: "id", A: &Att{T: &Type{K: "prim", Prim: "string"}}})
		}
		if a.Val != nil {
			a.Val.Required = nil
			for _, f := range a.T.Fields {
				if r.Bool() {
					a.Val.Required = append(a.Val.Required, f.Name)
				}
			}
		}
		u.A = a
	} else {
		u.A = g.att(depth, i, false, "ut")
		if u.A.T.K == "ref" && u.A.T.Ref == i {
			u.A.T = g.prim()
		}
	}
	if u.Result {
		all := make([]string, len(u.A.T.Fields))
		for j, f := range u.A.T.Fields {
			all[j] = f.Name
		}
		u.Views = append(u.Views, View{Name: "default", Fields: all})
		if r.Bool() {
			u.Views = append(u.Views, View{Name: "tiny", Fields: all[:1]})
		}
	}
	return u
}

// genGraph draws one graph.
func genGraph(r *vc.Rand, o genOpt) *Graph {
	g := &gen{r: r, o: o, g: &Graph{}}
	for i := 0; i < o.nUT; i++ {
		g.g.UTs = append(g.g.UTs, g.userType(i))
	}
	// same name, distinct UID (documented as legal for generated types)
	if o.nUT >= 2 && r.Chance(1, 10) {
		a, b := g.g.UTs[0], g.g.UTs[1]
		if a.UID == "" {
			a.UID = "uid#0"
		}
		if b.UID == "" {
			b.UID = "uid#1"
		}
		b.Name = a.Name
	}
	g.g.Root = g.att(o.maxDepth, -1, true, "root")
	if g.g.Root.T.K == "prim" && r.Chance(9, 10) {
		g.g.Root.T = g.object(o.maxDepth, -1)
	}
	return g.g
}

// randomOpt draws the generator options of random case i.
func randomOpt(r *vc.Rand) genOpt {
	o := genOpt{maxDepth: r.Range(2, 5), nUT: r.Range(0, 4)}
	switch r.Intn(4) {
	case 0:
		o.multiTag = "obj"
	case 1:
		o.multiTag = "ut"
	}
	return o
}

// ---------------------------------------------------------------- equal-direction transforms (on a clone)

func (g *Graph) allTypes(f func(t *Type)) {
	var w func(a *Att)
	w = func(a *Att) {
		t := a.T
		f(t)
		switch t.K {
		case "array":
			w(t.Elem)
		case "map":
			w(t.Key)
			w(t.Elem)
		case "object", "union":
			for _, fl := range t.Fields {
				w(fl.A)
			}
		}
	}
	w(g.Root)
	for _, u := range g.UTs {
		w(u.A)
	}
}

// permute reorders the members of every object and/or union (never the
// identity where avoidable). The permutation of a node depends only on the
// stream and on the node's own member names, not on the traversal order, so
// permuting objects and unions separately reproduces what permuting both did.
func permute(g *Graph, r *vc.Rand, objs, unions bool) int {
	n := 0
	seed := r.Uint64()
	g.allTypes(func(t *Type) {
		if (t.K == "object" && objs || t.K == "union" && unions) && len(t.Fields) >= 2 {
			ns := fieldNames(t)
			var k uint64 = 1469598103934665603
			for _, c := range []byte(t.K + "|" + strings.Join(ns, "|")) {
				k = (k ^ uint64(c)) * 1099511628211
			}
			// permute relative to the sorted order so that the result does not depend on the current order
			byName := map[string]*Field{}
			for _, f := range t.Fields {
				byName[f.Name] = f
			}
			p := vc.NewRand(seed, k).Perm(len(ns))
			same := true
			for i, v := range p {
				if t.Fields[i].Name != ns[v] {
					same = false
				}
			}
			if same {
				p[0], p[1] = p[1], p[0]
			}
			nf := make([]*Field, len(p))
			for i, v := range p {
				nf[i] = byName[ns[v]]
			}
			t.Fields = nf
			n++
		}
	})
	return n
}

// multiTagAny reports whether some attribute carries >= 2 struct:field:* keys.
func (g *Graph) multiTagAny() bool {
	for _, p := range g.allPositions() {
		if len(tagsOf(p.a)) >= 2 {
			return true
		}
	}
	return false
}

// decorate changes things the documented rules do not mention: description,
// validation, non-"struct:field:" metadata, default value. what selects one or "all".
func decorate(g *Graph, r *vc.Rand, what string) int {
	gg := &gen{r: r, o: genOpt{}, g: g}
	n := 0
	for _, p := range g.allPositions() {
		a := p.a
		if (what == "desc" || what == "all") && r.Bool() {
			a.Desc += "~changed"
			n++
		}
		if (what == "validation" || what == "all") && r.Bool() {
			if a.Val == nil || r.Bool() {
				a.Val = gg.val(a.T)
			} else {
				a.Val = nil
			}
			n++
		}
		if (what == "meta" || what == "all") && r.Bool() {
			if a.Meta == nil {
				a.Meta = map[string][]string{}
			}
			k := otherMetaKeys[r.Intn(len(otherMetaKeys))]
			if _, ok := a.Meta[k]; ok && r.Bool() {
				delete(a.Meta, k)
			} else {
				a.Meta[k] = append(a.Meta[k], "decor")
			}
			n++
		}
		if (what == "default" || what == "all") && r.Bool() {
			if a.Def == nil || r.Bool() {
				a.Def = gg.def()
				a.DefTyped = r.Bool()
			} else {
				a.Def = nil
			}
			n++
		}
	}
	return n
}

// allPositions is positions() over every user type, reachable or not.
func (g *Graph) allPositions() []pos {
	var out []pos
	var walk func(a *Att, ut int, objField bool)
	walk = func(a *Att, ut int, objField bool) {
		out = append(out, pos{a: a, ut: ut, objField: objField})
		t := a.T
		switch t.K {
		case "array":
			walk(t.Elem, ut, false)
		case "map":
			walk(t.Key, ut, false)
			walk(t.Elem, ut, false)
		case "object":
			for _, f := range t.Fields {
				walk(f.A, ut, true)
			}
		case "union":
			for _, f := range t.Fields {
				walk(f.A, ut, false)
			}
		}
	}
	walk(g.Root, -1, false)
	for i, u := range g.UTs {
		walk(u.A, i, false)
	}
	return out
}

// renameUTs gives every user type a new (still distinct) name.
func renameUTs(g *Graph) int {
	for _, u := range g.UTs {
		u.Name = "Rn" + u.Name + "x"
	}
	return len(g.UTs)
}

// retag rewrites the struct:field:* tags of object attributes.
func retag(g *Graph, r *vc.Rand) int {
	n := 0
	for _, p := range g.allPositions() {
		if !p.objField {
			continue
		}
		a := p.a
		switch r.Intn(3) {
		case 0:
			for k := range tagsOf(a) {
				delete(a.Meta, k)
				n++
			}
		case 1:
			if a.Meta == nil {
				a.Meta = map[string][]string{}
			}
			a.Meta["struct:field:name"] = []string{"Retag" + fmt.Sprint(r.Intn(9))}
			n++
		}
	}
	return n
}

// belowUT replaces the body of every user type by a fresh random body (names,
// result-ness and identifiers are kept).
func belowUT(g *Graph, r *vc.Rand) int {
	gg := &gen{r: r, o: genOpt{maxDepth: 3, nUT: len(g.UTs)}, g: g}
	for i, u := range g.UTs {
		nu := gg.userType(i)
		if u.Result {
			if nu.A.T.K != "object" || len(nu.A.T.Fields) == 0 {
				nu.A.T = &Type{K: "object", Fields: []*Field{{Name: "only", A: &Att{T: &Type{K: "prim", Prim: "int"}}}}}
			}
			all := []string{}
			for _, f := range nu.A.T.Fields {
				all = append(all, f.Name)
			}
			u.Views = []View{{Name: "default", Fields: all}}
		}
		// the user type's own struct:field tags are not covered by the documented rules: keep them
		own := tagsOf(u.A)
		for k := range tagsOf(nu.A) {
			delete(nu.A.Meta, k)
		}
		for k, v := range own {
			if nu.A.Meta == nil {
				nu.A.Meta = map[string][]string{}
			}
			nu.A.Meta[k] = v
		}
		u.A = nu.A
	}
	return len(g.UTs)
}

// ---------------------------------------------------------------- single-difference transforms

var diffClasses = []string{"prim-kind", "container-kind", "elem-type", "attr-rename", "attr-add", "attr-remove", "ut-name", "tag-change", "ref-retarget"}

// diff describes one applied single difference.
type diff struct {
	Class  string `json:"class"`
	Where  string `json:"where"`
	Below  bool   `json:"below"`   // strictly inside a user type body (irrelevant under ignoreFields)
	Ambig  bool   `json:"ambig"`   // only visible through union alternatives (documentation is silent) when fields are hashed
	AmbigF bool   `json:"ambig_f"` // same, under ignoreFields (only positions of the root tree count)
}

func otherPrim(p string, salt int) string {
	for i := 0; i < len(prims); i++ {
		c := prims[(salt+i)%len(prims)]
		if c != p {
			return c
		}
	}
	return "string"
}

func sortedKeys(m map[string][]string) []string {
	ks := make([]string, 0, len(m))
	for k := range m {
		ks = append(ks, k)
	}
	sort.Strings(ks)
	return ks
}

// diffAt applies the k-th candidate of class c to g (in place) and describes
// it. With k<0 nothing is changed and total is the number of candidates.
func diffAt(g *Graph, c string, k int, salt int) (d diff, ok bool, total int) {
	ps := g.positions()
	vis := g.visible()
	idx := 0
	hit := func() bool { idx++; return idx-1 == k }
	mk := func(p pos) diff {
		d := diff{Class: c, Where: p.path, Below: p.ut >= 0}
		if p.ut < 0 {
			d.Ambig, d.AmbigF = p.underUnion, p.underUnion
		} else {
			d.Ambig = p.underUnion || !vis[p.ut]
		}
		return d
	}
	for _, p := range ps {
		t := p.a.T
		d := mk(p)
		switch c {
		case "prim-kind":
			if t.K == "prim" && hit() {
				t.Prim = otherPrim(t.Prim, salt)
				return d, true, idx
			}
		case "container-kind":
			switch t.K {
			case "array":
				if hit() {
					p.a.T = &Type{K: "map", Key: &Att{T: &Type{K: "prim", Prim: "string"}}, Elem: t.Elem}
					return d, true, idx
				}
			case "map":
				if hit() {
					p.a.T = &Type{K: "array", Elem: t.Elem}
					return d, true, idx
				}
			case "object":
				if hit() {
					if len(t.Fields) > 0 {
						p.a.T = &Type{K: "union", UName: "Uk", Fields: t.Fields}
					} else {
						p.a.T = &Type{K: "prim", Prim: "string"}
					}
					return d, true, idx
				}
			case "union":
				if hit() {
					p.a.T = &Type{K: "object", Fields: t.Fields}
					return d, true, idx
				}
			case "prim":
				if hit() {
					p.a.T = &Type{K: "array", Elem: &Att{T: t}}
					return d, true, idx
				}
			}
		case "elem-type":
			if (t.K == "array" || t.K == "map") && hit() {
				target := t.Elem
				d.Where += "[elem]"
				if t.K == "map" && salt%2 == 1 {
					target = t.Key
					d.Where = p.path + "{key}"
				}
				if target.T.K == "prim" {
					target.T = &Type{K: "prim", Prim: otherPrim(target.T.Prim, salt)}
				} else {
					target.T = &Type{K: "prim", Prim: "string"}
				}
				return d, true, idx
			}
		case "ref-retarget":
			// the reference now points at another user type: whether the graphs differ is
			// decided by the reference oracle alone (the two targets may be bisimilar)
			if t.K == "ref" && len(g.UTs) >= 2 && hit() {
				n := len(g.UTs)
				nt := (t.Ref + 1 + salt%(n-1)) % n
				d.Where += fmt.Sprintf("(UT%d->UT%d)", t.Ref, nt)
				p.a.T = &Type{K: "ref", Ref: nt}
				return d, true, idx
			}
		case "attr-rename":
			if t.K == "object" && len(t.Fields) > 0 && hit() {
				f := t.Fields[salt%len(t.Fields)]
				d.Where += "." + f.Name
				f.Name = "zq9" + f.Name
				return d, true, idx
			}
		case "attr-add":
			if t.K == "object" && hit() {
				t.Fields = append(t.Fields, &Field{Name: "zq_new", A: &Att{T: &Type{K: "prim", Prim: "string"}}})
				return d, true, idx
			}
		case "attr-remove":
			if t.K == "object" && len(t.Fields) > 0 && hit() {
				i := salt % len(t.Fields)
				d.Where += "." + t.Fields[i].Name
				t.Fields = append(append([]*Field{}, t.Fields[:i]...), t.Fields[i+1:]...)
				return d, true, idx
			}
		case "tag-change":
			if p.objField && hit() {
				a := p.a
				tags := tagsOf(a)
				if a.Meta == nil {
					a.Meta = map[string][]string{}
				}
				ks := sortedKeys(tags)
				switch {
				case len(tags) == 0:
					a.Meta["struct:field:name"] = []string{"Zq"}
				case salt%2 == 0:
					delete(a.Meta, ks[0])
				default:
					a.Meta[ks[0]] = []string{a.Meta[ks[0]][0] + "Zq"}
				}
				return d, true, idx
			}
		}
	}
	if c == "ut-name" {
		for _, i := range g.reachable() {
			if hit() {
				u := g.UTs[i]
				d := diff{Class: c, Where: fmt.Sprintf("UT%d(%s)", i, u.Name), Below: true, Ambig: true, AmbigF: true}
				for _, p := range ps {
					if p.a.T.K != "ref" || p.a.T.Ref != i {
						continue
					}
					if p.ut < 0 {
						d.Below = false
						if !p.underUnion {
							d.AmbigF, d.Ambig = false, false
						}
					} else if !p.underUnion && vis[p.ut] {
						d.Ambig = false
					}
				}
				u.Name += "_r"
				return d, true, idx
			}
		}
	}
	return diff{}, false, idx
}

// objectFreeCycle reports whether some cycle through user types avoids every
// object (such graphs are only ever handed to goa inside a child process).
func (g *Graph) objectFreeCycle() bool {
	edges := func(i int) []int {
		var out []int
		var w func(t *Type)
		w = func(t *Type) {
			switch t.K {
			case "ref":
				out = append(out, t.Ref)
			case "array":
				w(t.Elem.T)
			case "map":
				w(t.Key.T)
				w(t.Elem.T)
			case "union":
				for _, f := range t.Fields {
					w(f.A.T)
				}
			}
		}
		w(g.UTs[i].A.T)
		return out
	}
	state := make([]int, len(g.UTs))
	var visit func(i int) bool
	visit = func(i int) bool {
		if state[i] == 1 {
			return true
		}
		if state[i] == 2 {
			return false
		}
		state[i] = 1
		for _, j := range edges(i) {
			if visit(j) {
				return true
			}
		}
		state[i] = 2
		return false
	}
	for i := range g.UTs {
		if visit(i) {
			return true
		}
	}
	return false
}

// withViewOnly embeds g in a result type whose default view renders a nested result type field with a
// sibling result type that NO attribute refers to (reachable through the view only), as the projections
// computed by expr.Project do. variant selects what the view-only type looks like.
func withViewOnly(g *Graph, variant int) *Graph {
	o := g.clone()
	n := len(o.UTs)
	leafAtt := func() *Att {
		return O(Fd("a", P("string")), Fd("b", P("int")))
	}
	// n: nested type used by the attribute; n+1: its view-only sibling; n+2: the parent
	vn := &UT{Name: "VN", UID: "application/vnd.vn", Result: true, A: leafAtt(),
		Views: []View{{Name: "default", Fields: []string{"a", "b"}}, {Name: "tiny", Fields: []string{"a"}}}}
	vn2 := &UT{Name: "VN", UID: "application/vnd.vn; view=default", Result: true, A: leafAtt(),
		Views: []View{{Name: "default", Fields: []string{"a", "b"}}}}
	if variant%2 == 1 {
		// the view-only type itself renders a field through a further view-only type (two levels)
		vn2.A = O(Fd("a", P("string")), Fd("b", P("int")), Fd("deep", Rf(n)))
		vn2.Views = []View{{Name: "default", Fields: []string{"a", "deep"}, Alt: map[string]int{"deep": n + 3}}, {Name: "tiny", Fields: []string{"a"}}}
	}
	vp := &UT{Name: "VP", UID: "application/vnd.vp", Result: true,
		A:     O(Fd("x", P("int")), Fd("nested", Rf(n)), Fd("orig", o.Root)),
		Views: []View{{Name: "default", Fields: []string{"x", "nested"}, Alt: map[string]int{"nested": n + 1}}, {Name: "link", Fields: []string{"x"}}}}
	o.UTs = append(o.UTs, vn, vn2, vp)
	if variant%2 == 1 {
		o.UTs = append(o.UTs, &UT{Name: "VD", UID: "application/vnd.vd; view=tiny", Result: true, A: leafAtt(),
			Views: []View{{Name: "default", Fields: []string{"a"}}, {Name: "other", Fields: []string{"b"}}}})
	}
	o.Root = Rf(n + 2)
	if variant%4 >= 2 {
		o.Root = Ar(Rf(n + 2))
	}
	return o
}
