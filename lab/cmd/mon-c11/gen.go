package main

import (
	"fmt"

	"verif.local/lab/vc"
)

// ---------------------------------------------------------------- exhaustive class

// permutations of [0,n)
func permutations(n int) [][]int {
	var out [][]int
	p := make([]int, n)
	used := make([]bool, n)
	var rec func(k int)
	rec = func(k int) {
		if k == n {
			out = append(out, append([]int(nil), p...))
			return
		}
		for i := 0; i < n; i++ {
			if !used[i] {
				used[i] = true
				p[k] = i
				rec(k + 1)
				used[i] = false
			}
		}
	}
	rec(0)
	return out
}

var rootNames = []string{"R0", "R1", "R2", "R3", "R4", "R5"}

// graphCase builds the case for the digraph `mask` on n labelled roots (bit
// i*n+j set = root i lists root j in DependsOn, diagonal bits are
// self-dependencies) registered in the order perm. Every root owns one set with
// one expression implementing all four interfaces.
func graphCase(n int, mask uint32, perm []int) *Case {
	c := &Case{Class: "exhaustive-loopfree", Roots: make([]*RootSpec, n)}
	for k, i := range perm {
		rs := &RootSpec{Name: rootNames[i], Sets: [][]*ExprSpec{{{ID: rootNames[i] + ".e", Caps: "SPVF"}}}}
		for j := 0; j < n; j++ {
			if mask&(1<<uint(i*n+j)) != 0 {
				rs.Deps = append(rs.Deps, rootNames[j])
				if i == j {
					c.Class = "exhaustive-selfloop"
				}
			}
		}
		c.Roots[k] = rs
	}
	return c
}

func diagMask(n int) uint32 {
	var d uint32
	for i := 0; i < n; i++ {
		d |= 1 << uint(i*n+i)
	}
	return d
}

// ---------------------------------------------------------------- random class

type gen struct {
	r        *vc.Rand
	errMode  string // none | dsl | validate | both
	initial  []string
	nexpr    int
	dynRoots int
	ghosts   []string // ghost roots no DSL has been scripted to register yet
}

var capChoices = []string{"SPVF", "SPVF", "SPVF", "SPVF", "SPVF", "SPVF", "S", "SV", "SF", "SP", "SPV", "SVF", "SPF", "PVF", "V", "P", "F", "VF", "PV", "PF", ""}

func (g *gen) validation(mode1in int) (string, int) {
	if (g.errMode == "validate" || g.errMode == "both") && g.r.Chance(1, mode1in) {
		switch g.r.Intn(5) {
		case 0:
			return "plain", 1
		case 1:
			return "wrapped", g.r.Range(1, 3)
		case 2:
			return "recorded", g.r.Range(1, 3)
		default:
			return "multi", g.r.Range(1, 3)
		}
	}
	if g.r.Chance(1, 10) {
		return "empty", 0
	}
	return "", 0
}

// expr generates one expression sitting in set setIdx of a root that has (at
// generation time) nsets sets. chain holds the dynamic roots on the registration
// path to this expression: they are registered for sure when it runs.
func (g *gen) expr(root string, setIdx, nsets, depth int, chain []string) *ExprSpec {
	g.nexpr++
	x := &ExprSpec{ID: fmt.Sprintf("%s.x%d", root, g.nexpr), Caps: capChoices[g.r.Intn(len(capChoices))]}
	if has(x.Caps, 'V') {
		x.VKind, x.VN = g.validation(3)
	}
	if has(x.Caps, 'P') && g.errMode == "prepare" && g.r.Chance(1, 3) {
		x.PN = g.r.Range(1, 2)
	}
	if !has(x.Caps, 'S') {
		return x
	}
	for k := 0; k < 3; k++ {
		switch {
		case (g.errMode == "dsl" || g.errMode == "both") && g.r.Chance(1, 4):
			x.DSL = append(x.DSL, Action{Op: "report", N: g.r.Range(1, 3)})
		case depth < 3 && g.r.Chance(1, 5):
			ops := []string{"sibling", "newset"}
			if setIdx+1 < nsets {
				ops = append(ops, "later", "later")
			}
			if setIdx >= 1 {
				ops = append(ops, "earlier")
			}
			op := ops[g.r.Intn(len(ops))]
			at := setIdx
			switch op {
			case "later":
				at = setIdx + 1
			case "earlier":
				at = 0
			case "newset":
				at = nsets // some index >= 1, nothing after it is known
				nsets++
			}
			x.DSL = append(x.DSL, Action{Op: op, Expr: g.expr(root, at, nsets, depth+1, chain)})
		case depth < 2 && g.dynRoots < 3 && g.r.Chance(1, 8):
			x.DSL = append(x.DSL, Action{Op: "register", Root: g.dynRoot(depth+1, chain)})
		case len(g.ghosts) > 0 && g.r.Chance(1, 10):
			x.DSL = append(x.DSL, Action{Op: "register", Root: &RootSpec{Name: g.ghosts[0], Ghost: true}})
			g.ghosts = g.ghosts[1:]
		}
	}
	return x
}

func (g *gen) sets(root string, maxSets, maxPer, depth int, chain []string) [][]*ExprSpec {
	ns := g.r.Range(1, maxSets)
	out := make([][]*ExprSpec, ns)
	for i := range out {
		k := g.r.Range(0, maxPer)
		out[i] = []*ExprSpec{}
		for j := 0; j < k; j++ {
			out[i] = append(out[i], g.expr(root, i, ns, depth, chain))
		}
	}
	return out
}

// dynRoot generates a root to be registered from inside a DSL. Its dependencies
// are drawn only from roots certainly registered at that moment: the initial
// ones and the dynamic roots on its own registration path.
func (g *gen) dynRoot(depth int, chain []string) *RootSpec {
	g.dynRoots++
	name := fmt.Sprintf("N%d", g.dynRoots)
	rs := &RootSpec{Name: name}
	cands := append(append([]string{}, g.initial...), chain...)
	nd := g.r.Intn(3)
	for _, i := range g.r.Perm(len(cands)) {
		if nd == 0 {
			break
		}
		rs.Deps = append(rs.Deps, cands[i])
		nd--
	}
	rs.VKind, rs.VN = g.validation(6)
	rs.Sets = g.sets(name, 2, 2, depth, append(append([]string{}, chain...), name))
	return rs
}

func genRandom(r *vc.Rand) *Case {
	g := &gen{r: r}
	switch k := r.Intn(22); {
	case k < 9:
		g.errMode = "none"
	case k < 13:
		g.errMode = "dsl"
	case k < 18:
		g.errMode = "validate"
	case k < 20:
		g.errMode = "both"
	default:
		g.errMode = "prepare"
	}
	n := r.Range(5, 6)
	if r.Chance(1, 4) {
		n = r.Range(1, 4)
	}
	g.initial = append([]string{}, rootNames[:n]...)
	// a DAG: edges only from later to earlier positions of a random order
	ord := r.Perm(n)
	pden := []int{5, 3, 2}[r.Intn(3)]
	deps := make([][]int, n)
	for a := 0; a < n; a++ {
		for b := 0; b < a; b++ {
			if r.Chance(1, pden) {
				deps[ord[a]] = append(deps[ord[a]], ord[b])
			}
		}
	}
	// sometimes extra arbitrary edges: may close a cycle, rarely a self-dependency
	if r.Chance(1, 8) {
		for k := r.Range(1, 2); k > 0; k-- {
			a, b := r.Intn(n), r.Intn(n)
			if a == b && !r.Chance(1, 4) {
				b = (b + 1) % n
			}
			dup := false
			for _, d := range deps[a] {
				dup = dup || d == b
			}
			if !dup {
				deps[a] = append(deps[a], b)
			}
		}
	}
	c := &Case{Class: "random"}
	// ghosts: dependency targets that exist but are not registered up front
	ghostDeps := map[int][]string{}
	if r.Chance(1, 3) {
		for k := r.Range(1, 2); k > 0; k-- {
			name := fmt.Sprintf("G%d", k)
			gs := &RootSpec{Name: name, Ghost: true, Sets: [][]*ExprSpec{{all(name + ".e")}}}
			if r.Chance(1, 2) {
				gs.Sets = append(gs.Sets, []*ExprSpec{all(name + ".f")})
			}
			c.Roots = append(c.Roots, gs)
			for _, i := range r.Perm(n)[:r.Range(1, 2)%(n+1)] {
				ghostDeps[i] = append(ghostDeps[i], name)
			}
			if r.Chance(1, 2) {
				g.ghosts = append(g.ghosts, name)
			}
		}
	}
	for _, i := range r.Perm(n) { // registration order
		rs := &RootSpec{Name: rootNames[i]}
		for _, k := range r.Perm(len(deps[i])) { // DependsOn lists in arbitrary order
			rs.Deps = append(rs.Deps, rootNames[deps[i][k]])
		}
		rs.Deps = append(rs.Deps, ghostDeps[i]...)
		rs.VKind, rs.VN = g.validation(6)
		rs.Sets = g.sets(rs.Name, 3, 3, 0, nil)
		c.Roots = append(c.Roots, rs)
	}
	return c
}

// ---------------------------------------------------------------- directed class

func all(id string, dsl ...Action) *ExprSpec { return &ExprSpec{ID: id, Caps: "SPVF", DSL: dsl} }

// directedCases are the smallest cases of each script kind. They run first so
// that the witnesses kept for a violation key are minimal.
func directedCases() []*Case {
	one := func(rs ...*RootSpec) *Case { return &Case{Class: "directed", Roots: rs} }
	root := func(name string, deps []string, sets ...[]*ExprSpec) *RootSpec {
		return &RootSpec{Name: name, Deps: deps, Sets: sets}
	}
	set := func(x ...*ExprSpec) []*ExprSpec { return x }
	verr := func(x *ExprSpec, kind string, n int) *ExprSpec { x.VKind, x.VN = kind, n; return x }
	return []*Case{
		// a DSL registers a new root
		one(root("R0", nil, set(all("R0.e", Action{Op: "register", Root: root("N1", nil, set(all("N1.e")))})))),
		// ... which depends on an initial root that has not been executed yet
		one(root("R0", nil, set(all("R0.e", Action{Op: "register", Root: root("N1", []string{"R1"}, set(all("N1.e")))}))),
			root("R1", nil, set(all("R1.e")))),
		// ... and whose own DSL registers another one depending on it
		one(root("R0", nil, set(all("R0.e", Action{Op: "register", Root: root("N1", []string{"R0"},
			set(all("N1.e", Action{Op: "register", Root: root("N2", []string{"N1"}, set(all("N2.e")))})))})))),
		// a root depends on one nobody registered, and its DSL registers a new root
		one(&RootSpec{Name: "G1", Ghost: true, Sets: [][]*ExprSpec{{all("G1.e")}}},
			root("R0", []string{"G1"}, set(all("R0.e", Action{Op: "register", Root: root("N1", nil, set(all("N1.e")))})))),
		// ... whose DSL registers the dependency itself
		one(&RootSpec{Name: "G1", Ghost: true, Sets: [][]*ExprSpec{{all("G1.e")}}},
			root("R0", []string{"G1"}, set(all("R0.e", Action{Op: "register", Root: root("N1", nil,
				set(all("N1.e", Action{Op: "register", Root: &RootSpec{Name: "G1", Ghost: true}})))})))),
		// ... or reports an execution error
		one(&RootSpec{Name: "G1", Ghost: true, Sets: [][]*ExprSpec{{all("G1.e")}}},
			root("R0", []string{"G1"}, set(all("R0.e", Action{Op: "register", Root: root("N1", nil, set(all("N1.e", Action{Op: "report", N: 1})))})))),
		// two unregistered dependencies, two roots registered in the same round
		one(&RootSpec{Name: "G1", Ghost: true, Sets: [][]*ExprSpec{{all("G1.e")}}}, &RootSpec{Name: "G2", Ghost: true, Sets: [][]*ExprSpec{{all("G2.e")}}},
			root("R0", []string{"G1"}, set(all("R0.e", Action{Op: "register", Root: root("N1", nil, set(all("N1.e")))}))),
			root("R1", []string{"G2", "R0"}, set(all("R1.e", Action{Op: "register", Root: root("N2", []string{"R0"}, set(all("N2.e")))})))),
		// a root registered during execution reports an execution error
		one(root("R0", nil, set(all("R0.e", Action{Op: "register", Root: root("N1", nil, set(all("N1.e", Action{Op: "report", N: 1})))})))),
		// appends
		one(root("R0", nil, set(all("R0.e", Action{Op: "sibling", Expr: all("R0.s")})))),
		one(root("R0", nil, set(all("R0.e", Action{Op: "sibling", Expr: all("R0.s", Action{Op: "sibling", Expr: all("R0.t")})})))),
		one(root("R0", nil, set(all("R0.e", Action{Op: "later", Expr: all("R0.l")})), set(all("R0.f")))),
		one(root("R0", nil, set(all("R0.e", Action{Op: "newset", Expr: all("R0.n")})))),
		one(root("R0", nil, set(all("R0.a")), set(all("R0.b", Action{Op: "earlier", Expr: all("R0.x")})))),
		// an appended sibling reports an error
		one(root("R0", nil, set(all("R0.e", Action{Op: "sibling", Expr: all("R0.s", Action{Op: "report", N: 2})})))),
		// errors during execution in two roots
		one(root("R0", []string{"R1"}, set(all("R0.e", Action{Op: "report", N: 1}), all("R0.f"))),
			root("R1", nil, set(all("R1.e", Action{Op: "report", N: 2})), set(all("R1.f")))),
		// validation errors of every kind in two roots and several sets
		one(root("R0", []string{"R1"}, set(verr(all("R0.e"), "plain", 1), all("R0.f")), set(verr(all("R0.g"), "multi", 2))),
			verrRoot(root("R1", nil, set(verr(all("R1.e"), "wrapped", 2)), set(verr(all("R1.f"), "empty", 0))), "multi", 1)),
		// both
		one(root("R0", nil, set(all("R0.e", Action{Op: "report", N: 1}), verr(all("R0.f"), "plain", 1)))),
		// a validator that records its failure in the context instead of returning it
		one(root("R0", nil, set(verr(all("R0.e"), "recorded", 2), all("R0.f")))),
		// a Prepare that reports errors (e.g. runs a DSL with eval.Execute), nothing else fails
		one(root("R0", nil, set(prep(all("R0.e"), 2), all("R0.f")))),
	}
}

func prep(x *ExprSpec, n int) *ExprSpec { x.PN = n; return x }

func verrRoot(r *RootSpec, kind string, n int) *RootSpec { r.VKind, r.VN = kind, n; return r }
