package main

// The harness: instrumented roots and expressions that record every callback
// the goa DSL engine makes on them, and that follow a script (append
// expressions, register roots, report errors) while the engine runs.
//
// Nothing here decides anything: it only builds the workload from a Case and
// records what happened. The oracle is in oracle.go.

import (
	"fmt"

	"goa.design/goa/v3/eval"

	"verif.local/lab/vc"
)

// ---------------------------------------------------------------- case description

// Action is one step of the script an expression runs when its DSL executes.
type Action struct {
	// Op: report   – call eval.ReportError N times
	//     sibling  – append Expr to the set being executed
	//     later    – append Expr to the next set of the same root (not walked yet)
	//     earlier  – append Expr to the first set of the same root (already walked)
	//     newset   – append a new set {Expr} to the root
	//     register – eval.Register(Root) from inside the DSL
	Op   string    `json:"op"`
	N    int       `json:"n,omitempty"`
	Expr *ExprSpec `json:"expr,omitempty"`
	Root *RootSpec `json:"root,omitempty"`
}

// ExprSpec describes one expression.
type ExprSpec struct {
	ID string `json:"id"`
	// Caps is the subset of "SPVF": which of eval.Source, Preparer, Validator,
	// Finalizer the expression implements.
	Caps string   `json:"caps"`
	DSL  []Action `json:"dsl,omitempty"`
	// What Validate returns: "" nil; plain = one fmt error; multi = *ValidationErrors
	// with VN entries; wrapped = fmt.Errorf("%w") around a *ValidationErrors with VN
	// entries; empty = a non-nil *ValidationErrors holding no error (goa's own idiom
	// for "valid").
	// "recorded" = Validate calls eval.ReportError VN times and returns nil (the
	// failure is recorded in the evaluation context instead of being returned).
	VKind string `json:"vkind,omitempty"`
	VN    int    `json:"vn,omitempty"`
	// PN: Prepare calls eval.ReportError PN times (e.g. a Prepare that runs a DSL
	// with eval.Execute and that DSL fails).
	PN int `json:"pn,omitempty"`
}

// RootSpec describes one root. The root itself always implements Preparer,
// Validator and Finalizer (it is not a Source: RunDSL only executes the sets a
// root hands out).
type RootSpec struct {
	Name  string        `json:"name"`
	Deps  []string      `json:"deps,omitempty"`
	Sets  [][]*ExprSpec `json:"sets"`
	VKind string        `json:"vkind,omitempty"`
	VN    int           `json:"vn,omitempty"`
	// Ghost: the root object exists from the start and other roots may name it in
	// DependsOn, but nobody registers it before RunDSL (a "register" action naming
	// it registers that same object later). Ghosts are a stimulus: the oracle owes
	// them nothing unless they end up registered.
	Ghost bool `json:"ghost,omitempty"`
}

// Case is the fully expanded workload of one RunDSL call.
type Case struct {
	Class string      `json:"class"` // exhaustive-loopfree | exhaustive-selfloop | random
	Roots []*RootSpec `json:"roots"` // in registration order
}

// ---------------------------------------------------------------- recording

const (
	phDSL = iota
	phPrepare
	phValidate
	phFinalize
)

var phaseName = [4]string{"dsl", "prepare", "validate", "finalize"}
var phaseDone = [4]string{"executed", "prepared", "validated", "finalized"}

type event struct {
	Phase int
	Root  string
	Expr  string // "" = the root itself
}

func (e event) String() string {
	x := e.Expr
	if x == "" {
		x = "<root>"
	}
	return fmt.Sprintf("%s(%s,%s)", phaseName[e.Phase], e.Root, x)
}

type token struct {
	Tok  string
	By   string
	Kind string // report | plain | multi | wrapped
}

type world struct {
	log        []event
	roots      map[string]*tRoot
	registered []*tRoot
	tokens     [4][]token
	ntok       int
	notes      []string
}

func (w *world) newToken(phase int, by, kind string) string {
	w.ntok++
	t := fmt.Sprintf("<<E%d>>", w.ntok)
	w.tokens[phase] = append(w.tokens[phase], token{t, by, kind})
	return t
}

// ---------------------------------------------------------------- roots

type tRoot struct {
	w       *world
	spec    *RootSpec
	dynamic bool                 // registered while RunDSL was executing
	sets    []eval.ExpressionSet // what WalkSets hands to the engine (live)
	nodes   [][]*tNode           // same shape as sets
	cur     int                  // index of the set being walked, -1 outside WalkSets
}

func (r *tRoot) EvalName() string { return r.spec.Name }

// WalkSets hands the engine every set in turn; it reads the live list so sets
// (and members of sets not reached yet) added by executing DSLs are handed out
// in the same walk.
func (r *tRoot) WalkSets(walk eval.SetWalker) {
	for i := 0; i < len(r.sets); i++ {
		r.cur = i
		walk(r.sets[i])
	}
	r.cur = -1
}

func (r *tRoot) DependsOn() []eval.Root {
	var out []eval.Root
	for _, d := range r.spec.Deps {
		if o := r.w.roots[d]; o != nil {
			out = append(out, o)
		}
	}
	return out
}

func (r *tRoot) Packages() []string { return nil }

func (r *tRoot) Prepare() { r.w.log = append(r.w.log, event{phPrepare, r.spec.Name, ""}) }
func (r *tRoot) Validate() error {
	r.w.log = append(r.w.log, event{phValidate, r.spec.Name, ""})
	return r.w.validationResult(r, r.spec.Name, r.spec.VKind, r.spec.VN)
}
func (r *tRoot) Finalize() { r.w.log = append(r.w.log, event{phFinalize, r.spec.Name, ""}) }

func (w *world) validationResult(def eval.Expression, by, kind string, n int) error {
	switch kind {
	case "":
		return nil
	case "empty":
		return &eval.ValidationErrors{}
	case "plain":
		return fmt.Errorf("invalid %s", w.newToken(phValidate, by, kind))
	case "recorded":
		for i := 0; i < n; i++ {
			eval.ReportError("invalid %s", w.newToken(phValidate, by, kind))
		}
		return nil
	case "multi", "wrapped":
		verr := &eval.ValidationErrors{}
		for i := 0; i < n; i++ {
			verr.Add(def, "invalid %s", w.newToken(phValidate, by, kind))
		}
		if kind == "wrapped" {
			return fmt.Errorf("while validating: %w", verr)
		}
		return verr
	}
	panic("bad vkind " + kind)
}

func (w *world) buildRoot(s *RootSpec, dynamic bool) *tRoot {
	r := &tRoot{w: w, spec: s, dynamic: dynamic, cur: -1}
	for _, set := range s.Sets {
		es := eval.ExpressionSet{}
		ns := []*tNode{}
		for _, x := range set {
			n := w.buildNode(r, x, "initial")
			es = append(es, n.wrapped)
			ns = append(ns, n)
		}
		r.sets = append(r.sets, es)
		r.nodes = append(r.nodes, ns)
	}
	w.roots[s.Name] = r
	return r
}

// ---------------------------------------------------------------- expressions

type tNode struct {
	w       *world
	root    *tRoot
	spec    *ExprSpec
	origin  string // initial | sibling | later | earlier | newset
	wrapped eval.Expression
}

func (n *tNode) EvalName() string { return n.spec.ID }
func (n *tNode) DSL() func()      { return n.runDSL }
func (n *tNode) Prepare() {
	n.w.log = append(n.w.log, event{phPrepare, n.root.spec.Name, n.spec.ID})
	for i := 0; i < n.spec.PN; i++ {
		eval.ReportError("cannot prepare %s", n.w.newToken(phPrepare, n.spec.ID, "prepare"))
	}
}
func (n *tNode) Finalize() { n.w.log = append(n.w.log, event{phFinalize, n.root.spec.Name, n.spec.ID}) }
func (n *tNode) Validate() error {
	n.w.log = append(n.w.log, event{phValidate, n.root.spec.Name, n.spec.ID})
	return n.w.validationResult(n.wrapped, n.spec.ID, n.spec.VKind, n.spec.VN)
}

func (n *tNode) runDSL() {
	w, r := n.w, n.root
	w.log = append(w.log, event{phDSL, r.spec.Name, n.spec.ID})
	for _, a := range n.spec.DSL {
		switch a.Op {
		case "report":
			for i := 0; i < a.N; i++ {
				eval.ReportError("scripted failure %s", w.newToken(phDSL, n.spec.ID, "report"))
			}
		case "sibling", "later", "earlier", "newset":
			if r.cur < 0 {
				w.notes = append(w.notes, "DSL of "+n.spec.ID+" ran outside WalkSets")
				continue
			}
			idx := r.cur
			switch a.Op {
			case "later":
				idx = r.cur + 1
			case "earlier":
				idx = 0
				if r.cur == 0 {
					w.notes = append(w.notes, "earlier: "+n.spec.ID+" is in the first set")
					continue
				}
			case "newset":
				idx = len(r.sets)
			}
			x := w.buildNode(r, a.Expr, a.Op)
			if idx >= len(r.sets) {
				r.sets = append(r.sets, eval.ExpressionSet{x.wrapped})
				r.nodes = append(r.nodes, []*tNode{x})
			} else {
				r.sets[idx] = append(r.sets[idx], x.wrapped)
				r.nodes[idx] = append(r.nodes[idx], x)
			}
		case "register":
			for _, d := range a.Root.Deps {
				if !w.isRegistered(d) {
					w.notes = append(w.notes, "dependency "+d+" of "+a.Root.Name+" not registered yet")
				}
			}
			var nr *tRoot
			if a.Root.Ghost {
				if nr = w.roots[a.Root.Name]; nr == nil {
					w.notes = append(w.notes, "ghost "+a.Root.Name+" does not exist")
					continue
				}
				nr.dynamic = true
			} else {
				nr = w.buildRoot(a.Root, true)
			}
			if err := eval.Register(nr); err != nil {
				w.notes = append(w.notes, "Register("+a.Root.Name+"): "+err.Error())
				delete(w.roots, a.Root.Name)
				continue
			}
			w.registered = append(w.registered, nr)
		default:
			panic("bad op " + a.Op)
		}
	}
}

func (w *world) isRegistered(name string) bool {
	for _, r := range w.registered {
		if r.spec.Name == name {
			return true
		}
	}
	return false
}

func has(caps string, c byte) bool {
	for i := 0; i < len(caps); i++ {
		if caps[i] == c {
			return true
		}
	}
	return false
}

// buildNode wraps the node in a struct that exposes exactly the interfaces named
// by Caps, so that the engine's type assertions see an expression with that
// capability set and no other.
func (w *world) buildNode(r *tRoot, s *ExprSpec, origin string) *tNode {
	n := &tNode{w: w, root: r, spec: s, origin: origin}
	type (
		E = eval.Expression
		S = eval.Source
		P = eval.Preparer
		V = eval.Validator
		F = eval.Finalizer
	)
	m := 0
	if has(s.Caps, 'S') {
		m |= 8
	}
	if has(s.Caps, 'P') {
		m |= 4
	}
	if has(s.Caps, 'V') {
		m |= 2
	}
	if has(s.Caps, 'F') {
		m |= 1
	}
	switch m {
	case 0:
		n.wrapped = &struct{ E }{n}
	case 1:
		n.wrapped = &struct {
			E
			F
		}{n, n}
	case 2:
		n.wrapped = &struct {
			E
			V
		}{n, n}
	case 3:
		n.wrapped = &struct {
			E
			V
			F
		}{n, n, n}
	case 4:
		n.wrapped = &struct {
			E
			P
		}{n, n}
	case 5:
		n.wrapped = &struct {
			E
			P
			F
		}{n, n, n}
	case 6:
		n.wrapped = &struct {
			E
			P
			V
		}{n, n, n}
	case 7:
		n.wrapped = &struct {
			E
			P
			V
			F
		}{n, n, n, n}
	case 8:
		n.wrapped = &struct {
			E
			S
		}{n, n}
	case 9:
		n.wrapped = &struct {
			E
			S
			F
		}{n, n, n}
	case 10:
		n.wrapped = &struct {
			E
			S
			V
		}{n, n, n}
	case 11:
		n.wrapped = &struct {
			E
			S
			V
			F
		}{n, n, n, n}
	case 12:
		n.wrapped = &struct {
			E
			S
			P
		}{n, n, n}
	case 13:
		n.wrapped = &struct {
			E
			S
			P
			F
		}{n, n, n, n}
	case 14:
		n.wrapped = &struct {
			E
			S
			P
			V
		}{n, n, n, n}
	case 15:
		n.wrapped = n
	}
	return n
}

// ---------------------------------------------------------------- one run

// item is one thing that was registered with the engine by the time RunDSL
// returned: a root, or an expression sitting in one of a registered root's sets.
type item struct {
	Root    string
	Expr    string // "" for the root itself
	Caps    string
	Origin  string // initial | sibling | later | earlier | newset
	DynRoot bool
}

type obs struct {
	Log       []event
	ErrNil    bool
	ErrText   string
	Panic     string
	PanicSite string
	Items     []item
	Roots     []*tRoot // registered, in registration order
	Tokens    [4][]token
	Notes     []string
}

// runCase executes the real engine on the case.
func runCase(c *Case) *obs {
	eval.Reset()
	w := &world{roots: map[string]*tRoot{}}
	for _, rs := range c.Roots {
		w.buildRoot(rs, false)
	}
	o := &obs{}
	for _, rs := range c.Roots {
		if rs.Ghost {
			continue
		}
		r := w.roots[rs.Name]
		if err := eval.Register(r); err != nil {
			o.Notes = append(o.Notes, "initial Register("+rs.Name+"): "+err.Error())
			continue
		}
		w.registered = append(w.registered, r)
	}
	var err error
	p, st := vc.Try(func() { err = eval.RunDSL() })
	if p != "" {
		o.Panic = p
		o.PanicSite = vc.PanicSite(st, "/eval/", "/repo/")
	}
	o.Log = w.log
	o.ErrNil = err == nil
	if err != nil {
		o.ErrText = err.Error()
	}
	o.Roots = w.registered
	o.Tokens = w.tokens
	o.Notes = append(o.Notes, w.notes...)
	for _, r := range w.registered {
		o.Items = append(o.Items, item{Root: r.spec.Name, Caps: "PVF", Origin: "initial", DynRoot: r.dynamic})
		for _, set := range r.nodes {
			for _, n := range set {
				o.Items = append(o.Items, item{Root: r.spec.Name, Expr: n.spec.ID, Caps: n.spec.Caps, Origin: n.origin, DynRoot: r.dynamic})
			}
		}
	}
	eval.Reset()
	return o
}
