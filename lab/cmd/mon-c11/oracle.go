package main

// The oracle. It sees the case description (what was registered, who depends on
// whom, which scripts exist) and the observation (callback log, returned error
// text, what the harness really registered) and decides with its own graph
// routines. It never calls into goa.

import (
	"fmt"
	"sort"
	"strings"
)

type finding struct{ Key, What string }

type verdict struct {
	bad   []finding
	why   []string // reasoning, only filled when verbose
	class string   // graph class of the initially registered roots
	// facts used for the run's counters
	accepted           bool
	earlierNotExecuted int
	dups               int // callbacks made more than once on the same (phase, expression): observed, not judged
}

func (v *verdict) add(key, format string, a ...any) {
	for _, f := range v.bad {
		if f.Key == key {
			return
		}
	}
	v.bad = append(v.bad, finding{key, fmt.Sprintf(format, a...)})
}

// graph over names, adjacency as reachability matrix
type graph struct {
	names []string
	idx   map[string]int
	adj   [][]bool
}

func newGraph(names []string) *graph {
	g := &graph{names: names, idx: map[string]int{}}
	for i, n := range names {
		g.idx[n] = i
	}
	g.adj = make([][]bool, len(names))
	for i := range g.adj {
		g.adj[i] = make([]bool, len(names))
	}
	return g
}

// closure returns reach[i][j] = there is a path of length >= 1 from i to j.
func (g *graph) closure() [][]bool {
	n := len(g.names)
	r := make([][]bool, n)
	for i := range r {
		r[i] = append([]bool(nil), g.adj[i]...)
	}
	for k := 0; k < n; k++ {
		for i := 0; i < n; i++ {
			if !r[i][k] {
				continue
			}
			for j := 0; j < n; j++ {
				if r[k][j] {
					r[i][j] = true
				}
			}
		}
	}
	return r
}

// shortestCycle returns the length of the shortest cycle, 0 if none (self-loops count as 1).
func (g *graph) shortestCycle() int {
	n := len(g.names)
	best := 0
	for s := 0; s < n; s++ {
		dist := make([]int, n)
		for i := range dist {
			dist[i] = -1
		}
		q := []int{}
		for j := 0; j < n; j++ {
			if g.adj[s][j] {
				if j == s {
					return 1
				}
				if dist[j] < 0 {
					dist[j] = 1
					q = append(q, j)
				}
			}
		}
		for len(q) > 0 {
			u := q[0]
			q = q[1:]
			for j := 0; j < n; j++ {
				if !g.adj[u][j] {
					continue
				}
				if j == s {
					if l := dist[u] + 1; best == 0 || l < best {
						best = l
					}
					continue
				}
				if dist[j] < 0 {
					dist[j] = dist[u] + 1
					q = append(q, j)
				}
			}
		}
	}
	return best
}

func judge(c *Case, o *obs, verbose bool) *verdict {
	v := &verdict{}
	say := func(format string, a ...any) {
		if verbose {
			v.why = append(v.why, fmt.Sprintf(format, a...))
		}
	}
	if len(o.Notes) > 0 {
		// the harness could not build the workload it was asked for: not a verdict
		v.class = "harness-note"
		v.why = append(v.why, o.Notes...)
		return v
	}

	// ---- 1. the dependency graph of the initially registered roots
	var names []string
	for _, r := range c.Roots {
		if !r.Ghost {
			names = append(names, r.Name)
		}
	}
	g := newGraph(names)
	selfLoops := 0
	for _, r := range c.Roots {
		if r.Ghost {
			continue // ghosts have no dependencies of their own (generator invariant)
		}
		for _, d := range r.Deps {
			if d == r.Name {
				selfLoops++
				continue
			}
			if j, ok := g.idx[d]; ok {
				g.adj[g.idx[r.Name]][j] = true
			}
		}
	}
	cyc := g.shortestCycle() // self-loops were left out of g
	switch {
	case cyc > 0 && selfLoops > 0:
		v.class = "cyclic+self-loops"
	case cyc > 0:
		v.class = "cyclic"
	case selfLoops > 0:
		v.class = "self-loops-only"
	default:
		v.class = "acyclic"
	}
	say("initial roots %v, graph class %s (shortest cycle ignoring self-dependencies: %d, self-dependencies: %d)", names, v.class, cyc, selfLoops)

	if o.Panic != "" {
		v.add("panic:"+o.PanicSite, "RunDSL panicked: %s", o.Panic)
		say("RunDSL panicked at %s: %s", o.PanicSite, o.Panic)
		return v
	}
	nTok := len(o.Tokens[phDSL]) + len(o.Tokens[phPrepare]) + len(o.Tokens[phValidate])
	v.accepted = o.ErrNil
	say("RunDSL returned %s; errors reported by scripts: %d during execution, %d by validators",
		map[bool]string{true: "nil", false: "error " + fmt.Sprintf("%q", o.ErrText)}[o.ErrNil], len(o.Tokens[phDSL]), len(o.Tokens[phValidate]))

	if cyc > 0 {
		// a dependency cycle must be reported as an error; nothing else is promised
		if o.ErrNil {
			k := fmt.Sprintf("cycle-accepted:shortest=%d", cyc)
			if selfLoops > 0 {
				k += "+self-loops"
			}
			v.add(k, "roots with a dependency cycle of length %d were accepted: RunDSL returned nil and made %d callbacks", cyc, len(o.Log))
			say("VIOLATED: a cycle of length %d exists and RunDSL returned nil", cyc)
		} else {
			say("held: cycle reported as an error")
		}
		return v
	}
	if selfLoops > 0 {
		if !o.ErrNil && len(o.Log) == 0 {
			say("held: self-dependency rejected with an error before any callback")
			return v
		}
		v.add("self-dependency-accepted", "a root listing itself in DependsOn (no other cycle) was accepted: %d callbacks made, RunDSL returned %s", len(o.Log), errOrNil(o))
		say("VIOLATED: a self-dependency is a dependency cycle of length 1 and it was not reported")
		say("continuing with the self-dependencies ignored for the ordering checks")
	}
	if nTok == 0 && !o.ErrNil {
		if len(o.Log) == 0 {
			v.add("acyclic-rejected", "acyclic roots, no callback made: RunDSL returned %q", o.ErrText)
			say("VIOLATED: the graph is acyclic, yet RunDSL failed before any callback")
			return v
		}
		v.add("spurious-error", "nothing reported an error, yet RunDSL returned %q after %d callbacks", o.ErrText, len(o.Log))
		say("VIOLATED: nothing reported an error, yet RunDSL failed")
	}

	// ---- 2. phase barrier automaton
	maxPhase, maxAt := -1, -1
	for i, e := range o.Log {
		if e.Phase < maxPhase {
			v.add(fmt.Sprintf("phase-barrier:%s-after-%s", phaseName[e.Phase], phaseName[maxPhase]),
				"log[%d]=%s happens after log[%d]=%s", i, e, maxAt, o.Log[maxAt])
			say("VIOLATED: %s entered after %s had started (log[%d] vs log[%d])", e, o.Log[maxAt], i, maxAt)
		}
		if e.Phase > maxPhase {
			maxPhase, maxAt = e.Phase, i
		}
	}
	if maxPhase >= 0 {
		say("phase barrier scanned over %d callbacks, last phase reached: %s", len(o.Log), phaseName[maxPhase])
	}

	// index the log
	type key struct {
		ph         int
		root, expr string
	}
	count := map[key]int{}
	first := map[[2]string]int{} // (phase,root) -> first index
	last := map[[2]string]int{}
	for i, e := range o.Log {
		count[key{e.Phase, e.Root, e.Expr}]++
		pr := [2]string{phaseName[e.Phase], e.Root}
		if _, ok := first[pr]; !ok {
			first[pr] = i
		}
		last[pr] = i
	}

	for _, n := range count {
		if n > 1 {
			v.dups += n - 1
		}
	}

	// ---- 3. completeness: everything registered goes through every phase
	dslFailed := len(o.Tokens[phDSL]) > 0
	valFailed := len(o.Tokens[phValidate]) > 0
	prepFailed := len(o.Tokens[phPrepare]) > 0
	capOf := [4]byte{'S', 'P', 'V', 'F'}
	// a root registered during execution that is skipped is ONE failure whatever the
	// capabilities of its expressions: collected here, reported once per kind below
	dynMissing := map[string]int{} // root -> earliest phase owed and missing
	dynExample := map[string]string{}
	for _, it := range o.Items {
		for ph := 0; ph < 4; ph++ {
			if !has(it.Caps, capOf[ph]) {
				continue
			}
			// execution always runs to its end; prepare and validate are owed when execution
			// reported nothing; finalize is owed when nothing at all was reported
			if ph >= phPrepare && dslFailed {
				break
			}
			if ph == phFinalize && (valFailed || !o.ErrNil) {
				break
			}
			if count[key{ph, it.Root, it.Expr}] > 0 {
				continue
			}
			if ph == phDSL && it.Origin == "earlier" {
				// appended to a set the root had already handed out: whether the engine owes
				// it an execution is not settled by the statement (see Assume); observed only
				v.earlierNotExecuted++
				continue
			}
			what := it.Expr
			if what == "" {
				what = "the root itself"
			}
			if it.Origin == "initial" && it.DynRoot {
				if p, ok := dynMissing[it.Root]; !ok || ph < p {
					dynMissing[it.Root] = ph
					dynExample[it.Root] = what
				}
				break
			}
			var k string
			switch {
			case it.Origin != "initial":
				k = fmt.Sprintf("appended-expression-not-%s:%s", phaseDone[ph], it.Origin)
			case it.Expr == "":
				k = "root-not-" + phaseDone[ph]
			default:
				k = "expression-not-" + phaseDone[ph]
			}
			v.add(k, "%s of root %s (caps %s, origin %s, root registered during execution: %v) was never %s", what, it.Root, it.Caps, it.Origin, it.DynRoot, phaseDone[ph])
			say("VIOLATED: %s/%s never %s", it.Root, what, phaseDone[ph])
			break // later phases missing too is the same failure
		}
	}
	for _, r := range o.Roots {
		ph, ok := dynMissing[r.spec.Name]
		if !ok {
			continue
		}
		seen := false
		for _, e := range o.Log {
			seen = seen || e.Root == r.spec.Name
		}
		if !seen {
			v.add("root-registered-during-execution-never-walked", "root %s was registered with eval.Register from inside a DSL during execution; RunDSL made no callback at all on it or its expressions (first owed: %s never %s)", r.spec.Name, dynExample[r.spec.Name], phaseDone[ph])
			say("VIOLATED: root %s registered during execution never appears in the log", r.spec.Name)
		} else {
			v.add("root-registered-during-execution-not-"+phaseDone[ph], "root %s was registered during execution; %s was never %s", r.spec.Name, dynExample[r.spec.Name], phaseDone[ph])
			say("VIOLATED: root %s registered during execution: %s never %s", r.spec.Name, dynExample[r.spec.Name], phaseDone[ph])
		}
	}
	say("completeness checked for %d registered roots/expressions", len(o.Items))

	// ---- 4. dependency order, per phase, over every registered root
	rn := make([]string, len(o.Roots))
	for i, r := range o.Roots {
		rn[i] = r.spec.Name
	}
	rg := newGraph(rn)
	dyn := map[string]bool{}
	for _, r := range o.Roots {
		dyn[r.spec.Name] = r.dynamic
		for _, d := range r.spec.Deps {
			if j, ok := rg.idx[d]; ok && d != r.spec.Name {
				rg.adj[rg.idx[r.spec.Name]][j] = true
			}
		}
	}
	reach := rg.closure()
	pairs := 0
	for i, R := range rn {
		for j, D := range rn {
			if i == j || !reach[i][j] {
				continue
			}
			for ph := 0; ph < 4; ph++ {
				f, ok1 := first[[2]string{phaseName[ph], R}]
				l, ok2 := last[[2]string{phaseName[ph], D}]
				if !ok1 || !ok2 {
					continue
				}
				pairs++
				if l > f {
					k := "dependency-order:" + phaseName[ph]
					if dyn[R] || dyn[D] {
						k += ":root-registered-during-execution"
					}
					v.add(k, "%s depends on %s but %s (log[%d]) precedes %s (log[%d])", R, D, o.Log[f], f, o.Log[l], l)
					say("VIOLATED: %s depends (transitively) on %s; %s at log[%d] is before %s at log[%d]", R, D, o.Log[f], f, o.Log[l], l)
				}
			}
		}
	}
	say("dependency order checked on %d (dependent, dependency, phase) triples", pairs)

	// ---- 5. errors
	nFinal := 0
	for _, e := range o.Log {
		if e.Phase == phFinalize {
			nFinal++
		}
	}
	missing := func(toks []token) (n int, kinds []string, ex string) {
		seen := map[string]bool{}
		for _, t := range toks {
			if !strings.Contains(o.ErrText, t.Tok) {
				n++
				if ex == "" {
					ex = t.Tok + " reported by " + t.By
				}
				if !seen[t.Kind] {
					seen[t.Kind] = true
					kinds = append(kinds, t.Kind)
				}
			}
		}
		sort.Strings(kinds)
		return
	}
	switch {
	case dslFailed:
		if o.ErrNil {
			v.add("execution-error-not-returned", "%d errors were reported with ReportError during execution, RunDSL returned nil", len(o.Tokens[phDSL]))
			say("VIOLATED: execution reported errors, RunDSL returned nil")
		} else if n, _, ex := missing(o.Tokens[phDSL]); n > 0 {
			v.add("execution-errors-not-all-returned", "%d of %d errors reported during execution are absent from the returned error (e.g. %s)", n, len(o.Tokens[phDSL]), ex)
			say("VIOLATED: %d of %d execution errors missing from the returned error", n, len(o.Tokens[phDSL]))
		} else {
			say("held: all %d execution errors are in the returned error", len(o.Tokens[phDSL]))
		}
		if nFinal > 0 {
			v.add("finalize-after-execution-error", "%d Finalize callbacks although execution reported %d errors", nFinal, len(o.Tokens[phDSL]))
			say("VIOLATED: Finalize observed after a failed execution")
		}
	case valFailed:
		if o.ErrNil {
			v.add("validation-error-not-returned", "%d validation errors were returned by validators, RunDSL returned nil", len(o.Tokens[phValidate]))
			say("VIOLATED: validators failed, RunDSL returned nil")
		} else if n, kinds, ex := missing(o.Tokens[phValidate]); n > 0 {
			v.add("validation-errors-not-all-returned:"+strings.Join(kinds, "+"), "%d of %d validation errors are absent from the returned error (e.g. %s)", n, len(o.Tokens[phValidate]), ex)
			say("VIOLATED: %d of %d validation errors missing from the returned error", n, len(o.Tokens[phValidate]))
		} else {
			say("held: all %d validation errors are in the returned error", len(o.Tokens[phValidate]))
		}
		if nFinal > 0 {
			v.add("finalize-after-validation-error", "%d Finalize callbacks although validators returned %d errors", nFinal, len(o.Tokens[phValidate]))
			say("VIOLATED: Finalize observed after a failed validation")
		}
	case prepFailed:
	default:
		say("no error was scripted to happen; %d Finalize callbacks observed", nFinal)
	}
	// errors reported while preparing: a phase of its own, "all errors of a phase are
	// returned together". Whether Finalize may run afterwards is not stated: not judged.
	if prepFailed && !dslFailed {
		if o.ErrNil {
			v.add("prepare-error-not-returned", "%d errors were reported with ReportError during the prepare phase, RunDSL returned nil", len(o.Tokens[phPrepare]))
			say("VIOLATED: prepare reported errors, RunDSL returned nil")
		} else if n, _, ex := missing(o.Tokens[phPrepare]); n > 0 {
			v.add("prepare-errors-not-all-returned", "%d of %d errors reported during the prepare phase are absent from the returned error (e.g. %s)", n, len(o.Tokens[phPrepare]), ex)
			say("VIOLATED: %d of %d prepare errors missing from the returned error", n, len(o.Tokens[phPrepare]))
		} else {
			say("held: all %d prepare errors are in the returned error", len(o.Tokens[phPrepare]))
		}
	}
	return v
}

func errOrNil(o *obs) string {
	if o.ErrNil {
		return "nil"
	}
	return fmt.Sprintf("%q", o.ErrText)
}
