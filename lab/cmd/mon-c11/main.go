// mon-c11: DSL evaluation runs in global phases and dependency order (property C11).
//
// Instrumented roots and expressions (harness.go) are registered with the real
// goa.design/goa/v3/eval engine; eval.RunDSL is run; the recorded callback
// sequence, the returned error text and the set of things the harness really
// registered are judged by an oracle (oracle.go) built from the case description
// and its own graph routines. See DESIGN.md §7.C11.
package main

import (
	"encoding/json"
	"fmt"

	"verif.local/lab/vc"
)

func record(run *vc.Run, c *Case, o *obs, v *verdict) {
	run.Eval(1)
	run.Count("rundsl_calls", 1)
	run.Count("callbacks_logged", len(o.Log))
	run.Max("max_callbacks_in_one_run", len(o.Log))
	run.Count("duplicate_callbacks_same_phase", v.dups)
	run.Count("appended_to_already_walked_set_and_not_executed", v.earlierNotExecuted)
	if v.class == "harness-note" {
		run.Inconclusive("harness could not build the scripted workload: " + o.Notes[0])
		return
	}
	acc := "returned-error"
	if v.accepted {
		acc = "returned-nil"
	}
	run.Count(c.Class+"/"+v.class+"/"+acc, 1)
	for _, f := range v.bad {
		run.Violation(f.Key, f.What, c)
	}
}

func exhaustive(run *vc.Run, maxN int, selfLoopPermsN4 int) {
	for n := 1; n <= maxN; n++ {
		perms := permutations(n)
		diag := diagMask(n)
		for mask := uint32(0); mask < 1<<uint(n*n); mask++ {
			ps := perms
			if mask&diag != 0 && n == 4 && selfLoopPermsN4 < len(perms) {
				// quick tier: the self-dependency class at n=4 uses a PRNG-chosen subset of
				// registration orders per graph (thorough: all 24)
				r := run.Rand(11, 4, uint64(mask))
				ps = nil
				for _, k := range r.Perm(len(perms))[:selfLoopPermsN4] {
					ps = append(ps, perms[k])
				}
			}
			for _, p := range ps {
				c := graphCase(n, mask, p)
				o := runCase(c)
				v := judge(c, o, false)
				record(run, c, o, v)
				run.Distinct(fmt.Sprintf("g/%d/%x/%v", n, mask, p))
				if n == 3 && mask == 0x0a && len(p) == 3 && p[0] == 2 && p[1] == 0 {
					run.Sample(map[string]any{"case": c, "log": logStrings(o), "error": o.ErrText})
				}
			}
		}
	}
}

func logStrings(o *obs) []string {
	out := make([]string, len(o.Log))
	for i, e := range o.Log {
		out[i] = e.String()
	}
	return out
}

func random(run *vc.Run, n int) {
	for i := 0; i < n; i++ {
		c := genRandom(run.Rand(1100, uint64(i)))
		o := runCase(c)
		v := judge(c, o, false)
		record(run, c, o, v)
		dynR, dynX := 0, 0
		for _, it := range o.Items {
			if it.Expr == "" && it.DynRoot {
				dynR++
			}
			if it.Origin != "initial" {
				dynX++
				run.Seen("append_modes_exercised", it.Origin)
			}
		}
		run.Count("random/roots_registered_during_execution", dynR)
		run.Count("random/expressions_appended_during_execution", dynX)
		run.Count("random/errors_reported_during_execution", len(o.Tokens[phDSL]))
		run.Count("random/errors_returned_by_validators", len(o.Tokens[phValidate]))
		b, _ := json.Marshal(c)
		run.Distinct("r/" + string(b))
		if i < 3 {
			run.Sample(map[string]any{"case": c, "log": logStrings(o), "error": o.ErrText})
		}
	}
}

func replay(run *vc.Run) {
	var c Case
	if err := run.LoadReplay(&c); err != nil {
		fmt.Println("replay:", err)
		run.Infra("cannot load replay")
		run.Finish()
	}
	b, _ := json.MarshalIndent(&c, "", " ")
	fmt.Printf("replaying case:\n%s\n", b)
	o := runCase(&c)
	fmt.Println("callback log:")
	for i, e := range o.Log {
		fmt.Printf("  [%d] %s\n", i, e)
	}
	fmt.Println("registered when RunDSL returned:")
	for _, it := range o.Items {
		x := it.Expr
		if x == "" {
			x = "<root>"
		}
		fmt.Printf("  %s/%s caps=%s origin=%s root-registered-during-execution=%v\n", it.Root, x, it.Caps, it.Origin, it.DynRoot)
	}
	v := judge(&c, o, true)
	fmt.Println("oracle:")
	for _, w := range v.why {
		fmt.Println("  " + w)
	}
	record(run, &c, o, v)
	for _, f := range v.bad {
		fmt.Printf("  => %s: %s\n", f.Key, f.What)
	}
	if len(v.bad) == 0 {
		fmt.Println("  => held")
	}
	run.Finish()
}

func main() {
	run := vc.New("C11")
	run.Rule("one case = one eval.RunDSL call on instrumented roots after eval.Reset(). Directed: 13 minimal scripts (one per script kind). Exhaustive: every digraph on 1..4 labelled roots without self-dependencies (1+4+64+4096) x every registration order (n!), plus, as a separate class, every digraph with at least one self-dependency (n<=3: all orders; n=4: all 61440 graphs x 24 orders in thorough, x 2 PRNG-chosen orders in quick). Random: 5-6 roots (1-4 in a quarter of the cases), random DAG with shared/transitive dependencies (1 in 8 with extra arbitrary edges), 1-3 sets of 0-3 expressions with random Source/Preparer/Validator/Finalizer subsets, scripts appending expressions (sibling / later set / earlier set / new set), registering up to 3 new roots from inside DSLs (nested up to depth 2), ReportError during execution, validators returning plain / multi / wrapped / empty ValidationErrors or recording errors with ReportError, Prepare callbacks reporting errors. distinct = distinct (graph, order) or distinct expanded random case.")
	run.Assume(
		"a root listing itself in DependsOn is read as a dependency cycle of length 1 (it cannot come before itself); reported under its own key self-dependency-accepted, separately from longer cycles",
		"for a cyclic graph only 'RunDSL returns an error' is demanded; callbacks made before the error are not judged",
		"'all errors of a phase returned together' is read as: every error reported in the first failing phase (each carries a unique token) appears in the text of the returned error; execution and validation run to their end even after an error",
		"Prepare/Validate callbacks after a failed execution are not forbidden by the statement and are not judged; only Finalize is",
		"a Validate that records its failure with eval.ReportError instead of returning it has failed validation all the same (judged like a returned error); errors reported with ReportError from a Prepare are errors of the prepare phase: they must all be in the returned error, whether Finalize may still run is not stated and not judged. ReportError from Finalize is outside the envelope (nothing runs after it that the statement constrains)",
		"a Validate returning a non-nil *ValidationErrors that holds no error counts as success (goa's own idiom)",
		"an expression appended, during execution, to a set its root has ALREADY handed to the engine ('earlier') is accepted executed or not (goa documents only appending to the set being executed; WalkSets owns the order): counted, not judged. Appending to the set being executed, to a set not handed out yet, or as a new set must lead to execution",
		"DependsOn only names registered roots; a root registered during execution depends only on roots registered before it",
		"callbacks made more than once on the same expression in one phase are counted (duplicate_callbacks_same_phase), not judged: the statement does not forbid them",
		"roots are not Sources: RunDSL only executes expressions handed out by WalkSets")
	if run.Replay != "" {
		replay(run)
	}
	run.Exhaustive(true)
	for i, c := range directedCases() {
		o := runCase(c)
		record(run, c, o, judge(c, o, false))
		run.Distinct(fmt.Sprintf("d/%d", i))
	}
	exhaustive(run, 4, run.N(2, 24))
	random(run, run.N(2000, 100000))
	run.Floor(50000)
	run.Finish()
}
