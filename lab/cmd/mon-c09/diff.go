package main

import (
	"crypto/sha256"
	"encoding/hex"
	"fmt"
	"os"
	"path/filepath"
	"regexp"
	"sort"
	"strings"
)

// entry is what the monitor records about one file of an output tree.
type entry struct {
	Sum   string `json:"sha256"`
	Size  int64  `json:"size"`
	Mtime int64  `json:"mtime_ns"`
}

// manifest is relative path -> entry for every regular file of a tree.
type manifest map[string]entry

var goaTmpRe = regexp.MustCompile(`^goa\d+$`)

// takeManifest walks root. skip decides (on the slash-separated relative path)
// which files/directories are not part of the observed output.
func takeManifest(root string, skip func(rel string, dir bool) bool) manifest {
	m := manifest{}
	_ = filepath.Walk(root, func(p string, info os.FileInfo, err error) error {
		if err != nil {
			return nil
		}
		rel, _ := filepath.Rel(root, p)
		rel = filepath.ToSlash(rel)
		if rel == "." {
			return nil
		}
		if skip != nil && skip(rel, info.IsDir()) {
			if info.IsDir() {
				return filepath.SkipDir
			}
			return nil
		}
		if info.IsDir() || !info.Mode().IsRegular() {
			return nil
		}
		b, e := os.ReadFile(p)
		if e != nil {
			return nil
		}
		h := sha256.Sum256(b)
		m[rel] = entry{Sum: hex.EncodeToString(h[:]), Size: info.Size(), Mtime: info.ModTime().UnixNano()}
		return nil
	})
	return m
}

func (m manifest) paths() []string {
	ps := make([]string, 0, len(m))
	for p := range m {
		ps = append(ps, p)
	}
	sort.Strings(ps)
	return ps
}

// sub returns the entries below prefix (prefix "" = all).
func (m manifest) sub(keep func(rel string) bool) manifest {
	o := manifest{}
	for p, e := range m {
		if keep(p) {
			o[p] = e
		}
	}
	return o
}

// fileDiff is one difference between two trees.
type fileDiff struct {
	Path string `json:"path"`
	Kind string `json:"kind"` // content | only-in-a | only-in-b | mtime
}

// diffManifests compares bytes (and optionally mtimes) of two manifests.
func diffManifests(a, b manifest, mtime bool) []fileDiff {
	var out []fileDiff
	for _, p := range a.paths() {
		eb, ok := b[p]
		switch {
		case !ok:
			out = append(out, fileDiff{p, "only-in-a"})
		case eb.Sum != a[p].Sum:
			out = append(out, fileDiff{p, "content"})
		case mtime && eb.Mtime != a[p].Mtime:
			out = append(out, fileDiff{p, "mtime"})
		}
	}
	for _, p := range b.paths() {
		if _, ok := a[p]; !ok {
			out = append(out, fileDiff{p, "only-in-b"})
		}
	}
	return out
}

func clip(s string, n int) string {
	if len(s) > n {
		return s[:n] + "…"
	}
	return s
}

// firstDiffLine returns the 1-based number of the first differing line and both lines.
func firstDiffLine(a, b []byte) (int, string, string) {
	la := strings.Split(string(a), "\n")
	lb := strings.Split(string(b), "\n")
	for i := 0; i < len(la) || i < len(lb); i++ {
		var x, y string
		xe, ye := i < len(la), i < len(lb)
		if xe {
			x = la[i]
		}
		if ye {
			y = lb[i]
		}
		if !xe {
			x = "<end of file>"
		}
		if !ye {
			y = "<end of file>"
		}
		if x != y {
			return i + 1, window(x, y), window(y, x)
		}
	}
	return 0, "", ""
}

// window shows a line around its first difference with other (long single-line JSON documents).
func window(line, other string) string {
	if len(line) <= 240 {
		return line
	}
	c := 0
	for c < len(line) && c < len(other) && line[c] == other[c] {
		c++
	}
	lo, hi := c-100, c+120
	if lo < 0 {
		lo = 0
	}
	if hi > len(line) {
		hi = len(line)
	}
	return fmt.Sprintf("…(col %d)…%s…", c+1, line[lo:hi])
}

// copyTree copies regular files of src (filtered) to dst, preserving modes.
func copyTree(src, dst string, skip func(rel string, dir bool) bool) error {
	return filepath.Walk(src, func(p string, info os.FileInfo, err error) error {
		if err != nil {
			return err
		}
		rel, _ := filepath.Rel(src, p)
		rel = filepath.ToSlash(rel)
		if rel != "." && skip != nil && skip(rel, info.IsDir()) {
			if info.IsDir() {
				return filepath.SkipDir
			}
			return nil
		}
		t := filepath.Join(dst, rel)
		if info.IsDir() {
			return os.MkdirAll(t, 0o755)
		}
		if !info.Mode().IsRegular() {
			return nil
		}
		b, e := os.ReadFile(p)
		if e != nil {
			return e
		}
		return os.WriteFile(t, b, 0o644)
	})
}

var (
	absPathRe = regexp.MustCompile(`(/[A-Za-z0-9_.\-]+){2,}`)
	digitsRe  = regexp.MustCompile(`\d+`)
	spaceRe   = regexp.MustCompile(`\s+`)
)

// normErr turns the first non-empty line of an error text into a stable key part.
func normErr(s string) string {
	line := ""
	for _, l := range strings.Split(s, "\n") {
		if t := strings.TrimSpace(l); t != "" && !strings.HasPrefix(t, "exit status") {
			line = strings.TrimSpace(l)
			break
		}
	}
	line = absPathRe.ReplaceAllString(line, "<path>")
	line = digitsRe.ReplaceAllString(line, "N")
	line = spaceRe.ReplaceAllString(line, " ")
	return clip(line, 120)
}
