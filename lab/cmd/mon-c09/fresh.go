package main

import (
	"bytes"
	"encoding/json"
	"fmt"
	"os"
	"os/exec"
	"path/filepath"
	"sort"
	"strings"
	"sync"
	"time"

	"verif.local/lab/pipeline"
	"verif.local/lab/vc"
)

// Part A: fresh-directory determinism through the in-process pipeline.
//
// Every generation of one design writes to the SAME path (the directory is
// moved away / removed in between) because generated import paths embed the
// output location and the property only promises "a function of the design and
// the command line".

// gomaxprocs used by successive generations of one design.
var procsList = []string{"1", "2", "16", "4", "3", "8", "5", "32"}

// labrepMain: same-process repetition. One design per process; the DSL is
// evaluated once, then the generators run twice into the same (fresh) path.
// The first tree is moved to <dir>.sp1 before the second round starts.
const labrepMain = `// labrep: two generations of ONE design inside ONE process, each into a fresh directory at the same path.
package main

import (
	"encoding/json"
	"fmt"
	"os"
	"runtime/debug"

	"goa.design/goa/v3/codegen/generator"
	"goa.design/goa/v3/eval"
	"labbatch/designs"
)

type round struct {
	Status string              ` + "`json:\"status\"`" + `
	Phase  string              ` + "`json:\"phase\"`" + `
	Errors string              ` + "`json:\"errors\"`" + `
	Stack  string              ` + "`json:\"stack\"`" + `
	Files  map[string][]string ` + "`json:\"files\"`" + `
}

func main() {
	id, dir := os.Args[1], os.Args[2]
	debug.SetMaxStack(96 << 20)
	var rounds []*round
	evalOK := false
	func() {
		st := &round{Files: map[string][]string{}}
		defer func() {
			if x := recover(); x != nil {
				st.Status = "panic"
				st.Errors = fmt.Sprint(x)
				st.Stack = string(debug.Stack())
				rounds = append(rounds, st)
			}
		}()
		st.Phase = "dsl"
		f := designs.All[id]
		if f == nil {
			st.Status = "nodesign"
			rounds = append(rounds, st)
			return
		}
		f()
		st.Phase = "eval"
		if err := eval.RunDSL(); err != nil {
			st.Status = "rejected"
			st.Errors = err.Error()
			rounds = append(rounds, st)
			return
		}
		evalOK = true
	}()
	for r := 0; evalOK && r < 2; r++ {
		st := &round{Files: map[string][]string{}}
		rounds = append(rounds, st)
		func() {
			defer func() {
				if x := recover(); x != nil {
					st.Status = "panic"
					st.Errors = fmt.Sprint(x)
					st.Stack = string(debug.Stack())
				}
			}()
			if err := os.MkdirAll(dir, 0o755); err != nil {
				st.Status = "infra"
				st.Errors = err.Error()
				return
			}
			for _, cmd := range os.Args[3:] {
				st.Phase = cmd
				out, err := generator.Generate(dir, cmd)
				if err != nil {
					st.Status = "generror"
					st.Errors = err.Error()
					return
				}
				st.Files[cmd] = out
			}
			st.Status = "accepted"
		}()
		if r == 0 {
			if err := os.Rename(dir, dir+".sp1"); err != nil {
				st.Status = "infra"
				st.Errors = err.Error()
				break
			}
		}
	}
	b, _ := json.Marshal(rounds)
	fmt.Println("LABREP-STATUS " + string(b))
}
`

type repRound struct {
	Status string              `json:"status"`
	Phase  string              `json:"phase"`
	Errors string              `json:"errors"`
	Stack  string              `json:"stack"`
	Files  map[string][]string `json:"files"`
}

type freshLab struct {
	run    *vc.Run
	b      *pipeline.Batch
	labrep string
	k      int
	same   bool
	// results
	mu       sync.Mutex
	accepted []*pipeline.Design // designs whose generations were all compared (candidates for the CLI part)
}

func runTool(dir string, env []string, timeout time.Duration, name string, args ...string) (string, string, error) {
	cmd := exec.Command(name, args...)
	cmd.Dir = dir
	cmd.Env = env
	var so, se bytes.Buffer
	cmd.Stdout, cmd.Stderr = &so, &se
	if err := cmd.Start(); err != nil {
		return "", "", err
	}
	done := make(chan error, 1)
	go func() { done <- cmd.Wait() }()
	select {
	case err := <-done:
		return so.String(), se.String(), err
	case <-time.After(timeout):
		_ = cmd.Process.Signal(os.Interrupt)
		time.Sleep(200 * time.Millisecond)
		_ = cmd.Process.Kill()
		<-done
		return so.String(), se.String(), fmt.Errorf("timeout after %v", timeout)
	}
}

func envWith(base []string, kv ...string) []string {
	out := make([]string, 0, len(base)+len(kv))
	for _, e := range base {
		drop := false
		for _, n := range kv {
			if strings.HasPrefix(e, n[:strings.IndexByte(n, '=')+1]) {
				drop = true
			}
		}
		if !drop {
			out = append(out, e)
		}
	}
	return append(out, kv...)
}

func (l *freshLab) buildLabrep() error {
	dir := filepath.Join(l.b.Dir, "cmd", "labrep")
	if err := os.MkdirAll(dir, 0o755); err != nil {
		return err
	}
	if err := os.WriteFile(filepath.Join(dir, "main.go"), []byte(labrepMain), 0o644); err != nil {
		return err
	}
	l.labrep = filepath.Join(l.b.Dir, "labrep.bin")
	_, se, err := runTool(l.b.Dir, l.b.Env, 10*time.Minute, "go", "build", "-o", l.labrep, "./cmd/labrep")
	if err != nil {
		return fmt.Errorf("labrep build failed: %v\n%s", err, se)
	}
	return nil
}

func sortedCopy(m map[string][]string) string {
	ks := make([]string, 0, len(m))
	for k := range m {
		ks = append(ks, k)
	}
	sort.Strings(ks)
	var sb strings.Builder
	for _, k := range ks {
		sb.WriteString(k + ":")
		sb.WriteString(strings.Join(m[k], ","))
		sb.WriteString(";")
	}
	return sb.String()
}

// compareTrees reports every difference between the reference tree and another
// generation of the same design as a violation (one key per file role).
func (l *freshLab) compareTrees(d *pipeline.Design, part, refDir, dir string, refM, m manifest, descA, descB string) int {
	diffs := diffManifests(refM, m, false)
	l.run.Count("files_compared", len(refM))
	for p := range refM {
		l.run.Seen("file_roles_compared", pipeline.FileRole(p))
	}
	seen := map[string]bool{}
	for _, df := range diffs {
		role := pipeline.FileRole(df.Path)
		key := "nondeterministic-file:" + role
		if part == "same-process" {
			// a different mechanism (state kept between two generations of one process): its own keys
			key = "same-process-regeneration-differs:" + roleClass(role)
		}
		if seen[key] {
			continue
		}
		seen[key] = true
		w := &witness{Part: part, Spec: d.Spec, DSL: d.DSL, File: df.Path, Role: role, Kind: df.Kind, RunA: descA, RunB: descB}
		what := ""
		switch df.Kind {
		case "content":
			a, _ := os.ReadFile(filepath.Join(refDir, df.Path))
			b, _ := os.ReadFile(filepath.Join(dir, df.Path))
			w.Line, w.LineA, w.LineB = firstDiffLine(a, b)
			if part != "same-process" && strings.HasSuffix(df.Path, ".yaml") && sameLineMultiset(a, b) {
				// the two renderings hold the same lines in another order (and their JSON twins are equal or are
				// reported under their own key): one root cause of its own, the order of YAML mapping keys
				key += ":same-lines-other-order"
				if seen[key] {
					continue
				}
				seen[key] = true
			}
			what = fmt.Sprintf("%s: two generations of the same design (%s vs %s) wrote different bytes to %s; first difference at line %d: %q vs %q",
				part, descA, descB, df.Path, w.Line, clip(w.LineA, 120), clip(w.LineB, 120))
		case "only-in-a":
			what = fmt.Sprintf("%s: %s was written by %s but not by %s", part, df.Path, descA, descB)
		default:
			what = fmt.Sprintf("%s: %s was written by %s but not by %s", part, df.Path, descB, descA)
		}
		logf("  VIOLATION %s: %s", key, what)
		l.run.Violation(key, what, w)
	}
	return len(diffs)
}

// sameLineMultiset reports whether two texts consist of the same lines, order aside.
func sameLineMultiset(a, b []byte) bool {
	la, lb := strings.Split(string(a), "\n"), strings.Split(string(b), "\n")
	if len(la) != len(lb) {
		return false
	}
	n := map[string]int{}
	for _, l := range la {
		n[l]++
	}
	for _, l := range lb {
		n[l]--
	}
	for _, c := range n {
		if c != 0 {
			return false
		}
	}
	return true
}

// roleClass groups the four renderings of the OpenAPI documents (one document, one cause).
func roleClass(role string) string {
	if strings.HasPrefix(role, "gen/http/openapi") {
		return "gen/http/openapi-documents"
	}
	return role
}

// one runs every generation of one design (sequentially: they share a path).
func (l *freshLab) one(d *pipeline.Design) {
	run := l.run
	dir := d.Dir
	ref := dir + ".ref"
	defer func() {
		if os.Getenv("VERIF_KEEP") == "" {
			os.RemoveAll(dir)
			os.RemoveAll(ref)
			os.RemoveAll(dir + ".sp1")
		}
	}()
	gen := func(k int) *pipeline.Design {
		os.RemoveAll(dir)
		bk := *l.b
		bk.Env = envWith(l.b.Env, "GOMAXPROCS="+procsList[k%len(procsList)])
		dd := *d
		bk.GenerateOne(&dd, dir)
		run.Count("generations", 1)
		return &dd
	}
	first := gen(0)
	d.Status, d.Phase, d.Errors = first.Status, first.Phase, first.Errors
	logf("design %s (%s): run 0 status=%s phase=%s %s", d.ID, d.Spec.Signature(), first.Status, first.Phase, clip(first.Errors, 300))
	if first.Status == "timeout" || first.Status == "crash" && first.Stack == "" {
		run.Eval(1)
		run.Inconclusive("labgen " + first.Status)
		return
	}
	if first.Status != "accepted" {
		// not this property's business (C01/C12) - but the OUTCOME must still be repeatable
		second := gen(1)
		run.Eval(1)
		if second.Status != first.Status && second.Status != "timeout" {
			key := "nondeterministic-outcome:fresh-process:" + first.Status + "->" + second.Status
			run.Violation(key, fmt.Sprintf("the same design was %s (%s) in one process and %s (%s) in the next", first.Status, clip(first.Errors, 150), second.Status, clip(second.Errors, 150)),
				&witness{Part: "fresh-process", Spec: d.Spec, DSL: d.DSL, Kind: "outcome", RunA: "run 0", RunB: "run 1"})
			return
		}
		run.Inconclusive("design not generated: " + first.Status)
		return
	}
	if err := os.Rename(dir, ref); err != nil {
		run.Infra("rename: %v", err)
		return
	}
	refM := takeManifest(ref, nil)
	refFiles := sortedCopy(first.Files)
	compared := 0
	for k := 1; k < l.k; k++ {
		dd := gen(k)
		run.Eval(1)
		descA, descB := "fresh process #0 GOMAXPROCS="+procsList[0], fmt.Sprintf("fresh process #%d GOMAXPROCS=%s", k, procsList[k%len(procsList)])
		if dd.Status == "timeout" {
			run.Inconclusive("labgen timeout")
			continue
		}
		if dd.Status != "accepted" {
			key := "nondeterministic-outcome:fresh-process:accepted->" + dd.Status
			run.Violation(key, fmt.Sprintf("generation succeeded in %s and ended with %s in %s: %s", descA, dd.Status, descB, clip(dd.Errors, 200)),
				&witness{Part: "fresh-process", Spec: d.Spec, DSL: d.DSL, Kind: "outcome", RunA: descA, RunB: descB, LineB: clip(dd.Errors, 600)})
			continue
		}
		m := takeManifest(dir, nil)
		n := l.compareTrees(d, "fresh-process", ref, dir, refM, m, descA, descB)
		if n == 0 && sortedCopy(dd.Files) != refFiles {
			run.Violation("nondeterministic-output-list", "generator.Generate returned different output lists for identical trees",
				&witness{Part: "fresh-process", Spec: d.Spec, DSL: d.DSL, Kind: "output-list", RunA: descA, RunB: descB, LineA: clip(refFiles, 600), LineB: clip(sortedCopy(dd.Files), 600)})
		}
		logf("  run %d (GOMAXPROCS=%s): %d files, %d differences", k, procsList[k%len(procsList)], len(m), n)
		compared++
	}
	// same process, twice
	if l.same {
		os.RemoveAll(dir)
		os.RemoveAll(dir + ".sp1")
		args := append([]string{d.ID, dir}, l.b.Cmds...)
		so, se, err := runTool(l.b.Dir, l.b.Env, 90*time.Second, l.labrep, args...)
		run.Count("generations", 2)
		run.Eval(1)
		var rounds []repRound
		if i := strings.LastIndex(so, "LABREP-STATUS "); i >= 0 {
			line := so[i+len("LABREP-STATUS "):]
			if j := strings.IndexByte(line, '\n'); j >= 0 {
				line = line[:j]
			}
			_ = json.Unmarshal([]byte(line), &rounds)
		}
		switch {
		case len(rounds) == 0:
			why := "labrep crash"
			if err != nil && strings.Contains(err.Error(), "timeout") {
				why = "labrep timeout"
			}
			logf("  same-process: %s %v %s", why, err, clip(se, 400))
			run.Inconclusive(why)
		case rounds[0].Status != "accepted":
			key := "nondeterministic-outcome:same-process-round1:accepted->" + rounds[0].Status
			run.Violation(key, fmt.Sprintf("generation succeeded in fresh processes and ended with %s in another: %s", rounds[0].Status, clip(rounds[0].Errors, 200)),
				&witness{Part: "same-process", Spec: d.Spec, DSL: d.DSL, Kind: "outcome", RunA: "fresh process #0", RunB: "labrep round 1", LineB: clip(rounds[0].Errors, 600)})
		default:
			m1 := takeManifest(dir+".sp1", nil)
			n1 := l.compareTrees(d, "fresh-process", ref, dir+".sp1", refM, m1, "fresh process #0", "fresh process (labrep round 1)")
			if len(rounds) < 2 || rounds[1].Status != "accepted" {
				st, errs := "missing", ""
				if len(rounds) > 1 {
					st, errs = rounds[1].Status, rounds[1].Errors
				}
				key := "nondeterministic-outcome:same-process-round2:accepted->" + st + ":" + normErr(errs)
				run.Violation(key, fmt.Sprintf("the second generation inside one process (into a fresh directory) ended with %s: %s", st, clip(errs, 200)),
					&witness{Part: "same-process", Spec: d.Spec, DSL: d.DSL, Kind: "outcome", RunA: "round 1", RunB: "round 2", LineB: clip(errs, 600)})
			} else {
				m2 := takeManifest(dir, nil)
				n2 := l.compareTrees(d, "same-process", dir+".sp1", dir, m1, m2, "round 1", "round 2 (same process, fresh directory)")
				logf("  same-process: round1 vs fresh #0: %d differences; round2 vs round1: %d differences", n1, n2)
				run.Count("same_process_pairs", 1)
			}
			compared++
		}
	}
	if compared >= 1 {
		run.Distinct("A:" + d.Spec.Signature())
		run.Seen("feature_signatures", d.Spec.Signature())
		for _, f := range d.Spec.Features {
			run.Seen("features", f)
		}
		run.Count("specs_compared", 1)
		run.Max("max_files_per_design", len(refM))
		run.Sample(map[string]any{"part": "A", "features": d.Spec.Features, "files": len(refM), "generations": compared + 1})
		l.mu.Lock()
		l.accepted = append(l.accepted, d)
		l.mu.Unlock()
	}
}

func (l *freshLab) all() {
	var wg sync.WaitGroup
	sem := make(chan struct{}, 16)
	for _, d := range l.b.Designs {
		wg.Add(1)
		sem <- struct{}{}
		go func(d *pipeline.Design) {
			defer wg.Done()
			defer func() { <-sem }()
			l.one(d)
		}(d)
	}
	wg.Wait()
	sort.Slice(l.accepted, func(i, j int) bool { return l.accepted[i].ID < l.accepted[j].ID })
}
