package main

import (
	"verif.local/lab/spec"
	"verif.local/lab/vc"
)

// enrich adds several Meta keys to the API, to object user types and to their
// attributes. Meta is a Go map inside goa: every place that iterates it while
// emitting text (struct tags, OpenAPI tags and extensions, type hashes) is
// order-sensitive unless goa sorts. All keys are documented goa Meta keys
// whose values do not change the shape of the generated Go code.
func enrich(r *vc.Rand, s *spec.Spec) {
	add := func(m map[string][]string, kv map[string][]string) map[string][]string {
		if m == nil {
			m = map[string][]string{}
		}
		for k, v := range kv {
			if _, ok := m[k]; !ok {
				m[k] = v
			}
		}
		return m
	}
	s.API.Meta = add(s.API.Meta, map[string][]string{
		"openapi:tag:c09alpha":         nil,
		"openapi:tag:c09alpha:desc":    {"alpha things"},
		"openapi:tag:c09beta":          nil,
		"openapi:tag:c09beta:url":      {"http://example.com/beta"},
		"openapi:tag:c09gamma":         nil,
		"openapi:extension:x-c09-api":  {`{"tier":"gold","n":[1,2,3]}`},
		"openapi:extension:x-c09-api2": {"plain text"},
		"openapi:extension:x-c09-api3": {"42"},
	})
	s.AddFeature("meta-openapi-tags", "meta-openapi-extensions")
	tags := false
	for _, t := range s.Types {
		if t.Def == nil || t.Def.Kind != spec.Object || t.Kind == "alias" {
			continue
		}
		if r.Chance(2, 3) {
			t.Meta = add(t.Meta, map[string][]string{
				"openapi:extension:x-c09-type":  {`{"a":1,"b":[true,null]}`},
				"openapi:extension:x-c09-owner": {"team-" + t.Name},
				"openapi:extension:x-c09-level": {"3"},
			})
		}
		for _, a := range t.Def.Attrs {
			if a.Name == "" || !r.Chance(2, 3) {
				continue
			}
			tags = true
			a.Meta = add(a.Meta, map[string][]string{
				"struct:tag:c09a":               {spec.Norm(a.Name)},
				"struct:tag:c09b":               {spec.Norm(a.Name), "omitempty"},
				"struct:tag:c09c":               {"-"},
				"struct:tag:c09d":               {"d"},
				"openapi:extension:x-c09-attr":  {`{"k":"v"}`},
				"openapi:extension:x-c09-attr2": {"w"},
			})
		}
	}
	if tags {
		s.AddFeature("meta-multi-struct-tags")
	}
}
