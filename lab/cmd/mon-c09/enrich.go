package main

import (
	"verif.local/lab/spec"
	"verif.local/lab/vc"
)

// enrich adds several Meta keys to the API, to object user types and to their
// attributes. Meta is a Go map inside goa: every place that iterates it while
// emitting text (struct tags, OpenAPI tags and extensions, type hashes) is
// order-sensitive unless goa sorts. All keys are documented goa Meta keys
// whose values do not change the shape of the generated Go code.
func enrich(r *vc.Rand, s *spec.Spec) {
	examples(s)
	add := func(m map[string][]string, kv map[string][]string) map[string][]string {
		if m == nil {
			m = map[string][]string{}
		}
		for k, v := range kv {
			if _, ok := m[k]; !ok {
				m[k] = v
			}
		}
		return m
	}
	s.API.Meta = add(s.API.Meta, map[string][]string{
		"openapi:tag:c09alpha":         nil,
		"openapi:tag:c09alpha:desc":    {"alpha things"},
		"openapi:tag:c09beta":          nil,
		"openapi:tag:c09beta:url":      {"http://example.com/beta"},
		"openapi:tag:c09gamma":         nil,
		"openapi:extension:x-c09-api":  {`{"tier":"gold","n":[1,2,3]}`},
		"openapi:extension:x-c09-api2": {"plain text"},
		"openapi:extension:x-c09-api3": {"42"},
	})
	s.AddFeature("meta-openapi-tags", "meta-openapi-extensions")
	tags := false
	for _, t := range s.Types {
		if t.Def == nil || t.Def.Kind != spec.Object || t.Kind == "alias" {
			continue
		}
		if r.Chance(2, 3) {
			t.Meta = add(t.Meta, map[string][]string{
				"openapi:extension:x-c09-type":  {`{"a":1,"b":[true,null]}`},
				"openapi:extension:x-c09-owner": {"team-" + t.Name},
				"openapi:extension:x-c09-level": {"3"},
			})
		}
		for _, a := range t.Def.Attrs {
			if a.Name == "" || !r.Chance(2, 3) {
				continue
			}
			tags = true
			a.Meta = add(a.Meta, map[string][]string{
				"struct:tag:c09a":               {spec.Norm(a.Name)},
				"struct:tag:c09b":               {spec.Norm(a.Name), "omitempty"},
				"struct:tag:c09c":               {"-"},
				"struct:tag:c09d":               {"d"},
				"openapi:extension:x-c09-attr":  {`{"k":"v"}`},
				"openapi:extension:x-c09-attr2": {"w"},
			})
		}
	}
	if tags {
		s.AddFeature("meta-multi-struct-tags")
	}
}

// examples adds a service whose payload and result carry one attribute per way
// goa computes an example value (every format, pattern, enum, bounds, lengths
// on strings/arrays/maps, nested types): the OpenAPI documents and the CLI help
// render those examples, so they must be the same in every generation.
func examples(s *spec.Spec) {
	if s.Type("C09Examples") != nil {
		return
	}
	str := func() *spec.Type { return &spec.Type{Kind: spec.String} }
	ip := func(i int) *int { return &i }
	fp := func(f float64) *float64 { return &f }
	def := &spec.Type{Kind: spec.Object}
	for _, f := range []string{"date", "date-time", "uuid", "email", "hostname", "ipv4", "ipv6", "ip", "uri", "mac", "cidr", "regexp", "json", "rfc1123"} {
		def.Attrs = append(def.Attrs, &spec.Attr{Name: "fmt_" + spec.Norm(f), Type: str(), Val: &spec.Val{Format: f}})
	}
	def.Attrs = append(def.Attrs,
		&spec.Attr{Name: "pat", Type: str(), Val: &spec.Val{Pattern: `^[a-z]{3,8}[0-9]?$`}},
		&spec.Attr{Name: "len", Type: str(), Val: &spec.Val{MinLen: ip(3), MaxLen: ip(40)}},
		&spec.Attr{Name: "bounded", Type: &spec.Type{Kind: spec.Int}, Val: &spec.Val{Min: fp(-5), Max: fp(500)}},
		&spec.Attr{Name: "ratio", Type: &spec.Type{Kind: spec.Float64}, Val: &spec.Val{Min: fp(0), Max: fp(1)}},
		&spec.Attr{Name: "raw", Type: &spec.Type{Kind: spec.Bytes}},
		&spec.Attr{Name: "anything", Type: &spec.Type{Kind: spec.Any}},
		&spec.Attr{Name: "ids", Type: &spec.Type{Kind: spec.Array, Elem: &spec.Attr{Type: str(), Val: &spec.Val{Format: "uuid"}}}, Val: &spec.Val{MinLen: ip(1), MaxLen: ip(6)}},
		&spec.Attr{Name: "scores", Type: &spec.Type{Kind: spec.Map, Key: &spec.Attr{Type: str()}, Elem: &spec.Attr{Type: &spec.Type{Kind: spec.Float64}}}, Val: &spec.Val{MinLen: ip(1), MaxLen: ip(5)}},
		&spec.Attr{Name: "flags", Type: &spec.Type{Kind: spec.Map, Key: &spec.Attr{Type: &spec.Type{Kind: spec.Int}}, Elem: &spec.Attr{Type: &spec.Type{Kind: spec.Boolean}}}},
	)
	s.Types = append(s.Types, &spec.UserType{Name: "C09Examples", Kind: "type", Def: def})
	nosec := len(s.API.Security) > 0
	ref := func() *spec.Attr { return &spec.Attr{Type: &spec.Type{Kind: spec.Ref, Ref: "C09Examples"}} }
	s.Services = append(s.Services, &spec.Service{Name: "generator_c09", BasePath: "/c09examples", Methods: []*spec.Method{
		{Name: "show", NoSec: nosec, Payload: ref(), Result: ref(), HTTP: &spec.HTTP{Routes: []spec.Route{{Verb: "POST", Path: "/show"}}}},
		{Name: "find", NoSec: nosec, Payload: ref(), Result: ref(), HTTP: &spec.HTTP{Routes: []spec.Route{{Verb: "GET", Path: "/find/{fmt_uuid}"}},
			Path: []spec.Loc{{Attr: "fmt_uuid"}}, Query: []spec.Loc{{Attr: "fmt_date"}, {Attr: "ids"}, {Attr: "pat"}}, Headers: []spec.Loc{{Attr: "fmt_email", Wire: "X-Email"}}, Body: "empty"}},
		// several cookies and headers in the request and in one response: whatever the generators collect by name
		// (maps) before they print it must come out in one order
		{Name: "jar", NoSec: nosec, Payload: ref(), Result: ref(), HTTP: &spec.HTTP{Routes: []spec.Route{{Verb: "PUT", Path: "/jar"}},
			Cookies: []spec.Loc{{Attr: "pat", Wire: "c-pat"}, {Attr: "len", Wire: "c-len"}, {Attr: "fmt_mac", Wire: "c-mac"}, {Attr: "fmt_ip"}},
			Headers: []spec.Loc{{Attr: "fmt_email", Wire: "X-Email"}, {Attr: "fmt_hostname", Wire: "X-Host"}, {Attr: "fmt_uri", Wire: "X-Uri"}},
			Responses: []*spec.HTTPResponse{{Status: 200,
				Cookies: []spec.Loc{{Attr: "pat", Wire: "r-pat"}, {Attr: "len", Wire: "r-len"}, {Attr: "fmt_mac", Wire: "r-mac"}, {Attr: "fmt_ip"}, {Attr: "fmt_cidr", Wire: "r-cidr"}},
				Headers: []spec.Loc{{Attr: "fmt_email", Wire: "X-Email"}, {Attr: "fmt_hostname", Wire: "X-Host"}, {Attr: "fmt_uri", Wire: "X-Uri"}, {Attr: "fmt_date", Wire: "X-Date"}}}}}},
	}})
	s.AddFeature("example-bearing-attributes")
}
