package main

import (
	"fmt"
	"os"
	"path/filepath"
	"sort"
	"strings"
	"sync"
	"sync/atomic"
	"time"

	"verif.local/lab/dslprint"
	"verif.local/lab/pipeline"
	"verif.local/lab/spec"
	"verif.local/lab/vc"
)

// Part B: histories of REAL `goa gen` / `goa example` invocations over one
// directory. The wipe of gen/ lives in cmd/goa (cleanupDirs + the generated
// main), so nothing here re-implements it: the monitor only creates the module,
// runs the binary, edits files the way a user would and takes manifests.

type stepRec struct {
	History string  `json:"history"`
	Step    string  `json:"step"`
	Cmd     string  `json:"cmd"`
	Env     string  `json:"env,omitempty"`
	Err     string  `json:"err,omitempty"`
	Stderr  string  `json:"stderr,omitempty"`
	Secs    float64 `json:"secs"`
	Files   int     `json:"files_after"`
}

type cliLab struct {
	run   *vc.Run
	goa   string // the real binary
	repo  string
	root  string // scratch root for modules
	env   []string
	sem   chan struct{}
	seq   atomic.Int64
	calls atomic.Int64
}

const cliModule = "clitest"

// skipNonOutput: files of the module that are not generator output.
func skipNonOutput(rel string, dir bool) bool {
	if rel == "go.mod" || rel == "go.sum" {
		return true
	}
	if dir && rel == "design" {
		return true
	}
	if dir && !strings.Contains(rel, "/") && goaTmpRe.MatchString(rel) {
		return true // goa's temporary generator package (removed by the tool itself)
	}
	return false
}

func isGenPath(p string) bool { return strings.HasPrefix(p, "gen/") }

func (c *cliLab) newModule(name string, s *spec.Spec) (string, error) {
	dir := filepath.Join(c.root, name)
	if err := os.MkdirAll(filepath.Join(dir, "design"), 0o755); err != nil {
		return "", err
	}
	gomod := fmt.Sprintf("module %s\n\ngo 1.22.0\n\nrequire goa.design/goa/v3 v3.0.0\n\nreplace goa.design/goa/v3 => %s\n", cliModule, c.repo)
	if err := os.WriteFile(filepath.Join(dir, "go.mod"), []byte(gomod), 0o644); err != nil {
		return "", err
	}
	sum, err := os.ReadFile(filepath.Join(c.repo, "go.sum"))
	if err != nil {
		return "", err
	}
	if err := os.WriteFile(filepath.Join(dir, "go.sum"), sum, 0o644); err != nil {
		return "", err
	}
	return dir, os.WriteFile(filepath.Join(dir, "design", "design.go"), []byte(dslprint.Package(s, "design")), 0o644)
}

// chain is one history over one directory.
type chain struct {
	c       *cliLab
	history string
	dir     string   // module directory (cwd of the tool)
	out     string   // output root observed ("" = dir)
	args    []string // extra command line arguments (e.g. -o out)
	steps   []stepRec
	n       int
}

func (h *chain) root() string {
	if h.out != "" {
		return h.out
	}
	return h.dir
}

// invoke runs the real CLI: `goa <cmd> clitest/design` in the module directory.
func (h *chain) invoke(cmd string, extraEnv ...string) (manifest, *stepRec) {
	h.c.sem <- struct{}{}
	defer func() { <-h.c.sem }()
	h.n++
	env := h.c.env
	if len(extraEnv) > 0 {
		env = envWith(env, extraEnv...)
	}
	t0 := time.Now()
	_, se, err := runTool(h.dir, env, 8*time.Minute, h.c.goa, append([]string{cmd, cliModule + "/design"}, h.args...)...)
	h.c.calls.Add(1)
	h.c.run.Count("cli_invocations", 1)
	m := takeManifest(h.root(), skipNonOutput)
	st := stepRec{History: h.history, Step: fmt.Sprintf("%d:%s", h.n, cmd), Cmd: strings.TrimSpace("goa " + cmd + " " + cliModule + "/design " + strings.Join(h.args, " ")), Env: strings.Join(extraEnv, " "),
		Secs: time.Since(t0).Seconds(), Files: len(m)}
	if err != nil {
		st.Err = err.Error()
		st.Stderr = clip(se, 1500)
	}
	h.steps = append(h.steps, st)
	logf("  [%s] step %s -> err=%v files=%d (%.1fs)", h.history, st.Step, err, len(m), st.Secs)
	return m, &h.steps[len(h.steps)-1]
}

type cliCase struct {
	c    *cliLab
	idx  int
	spec *spec.Spec
	dsl  string
	mu   sync.Mutex
}

func (cc *cliCase) witness(h *chain, df *fileDiff, role, a, b string) *witness {
	w := &witness{Part: "cli", History: h.history, Spec: cc.spec, DSL: cc.dsl, RunA: a, RunB: b, Role: role, Steps: append([]stepRec(nil), h.steps...)}
	if df != nil {
		w.File, w.Kind = df.Path, df.Kind
	}
	return w
}

// failed reports a CLI failure. first==true: the very first use of that command
// on this design (a generator failure is C01's business): inconclusive.
func (cc *cliCase) failed(h *chain, st *stepRec, first bool) {
	run := cc.c.run
	if strings.Contains(st.Err, "timeout") {
		run.Inconclusive("goa CLI timeout")
		return
	}
	if first {
		run.Inconclusive("goa " + strings.SplitN(st.Step, ":", 2)[1] + " failed on a fresh module: " + normErr(st.Stderr))
		return
	}
	key := "cli-command-failed:" + h.history + "/" + st.Step + ":" + normErr(st.Stderr)
	what := fmt.Sprintf("history %s: %s failed although the same command succeeds on a fresh directory: %s", h.history, st.Cmd, clip(st.Stderr, 300))
	logf("  VIOLATION %s", key)
	run.Violation(key, what, cc.witness(h, nil, "", "", ""))
}

// compareGen demands that every file of the reference gen output is reproduced
// byte for byte and nothing else appears below gen/ (extraOK lists tolerated paths).
func (cc *cliCase) compareGen(h *chain, refDir string, ref manifest, dir string, got manifest, descA, descB string, ignore func(string) bool) int {
	run := cc.c.run
	a := ref.sub(func(p string) bool { return ignore == nil || !ignore(p) })
	b := got.sub(func(p string) bool { return ignore == nil || !ignore(p) })
	diffs := diffManifests(a, b, false)
	run.Count("files_compared", len(a))
	for p := range a {
		run.Seen("file_roles_compared", pipeline.FileRole(p))
	}
	seen := map[string]bool{}
	for i := range diffs {
		df := diffs[i]
		role := pipeline.FileRole(df.Path)
		kind := "cli-gen-not-repeatable"
		w := cc.witness(h, &df, role, descA, descB)
		what := ""
		switch df.Kind {
		case "content":
			x, _ := os.ReadFile(filepath.Join(refDir, df.Path))
			y, _ := os.ReadFile(filepath.Join(dir, df.Path))
			w.Line, w.LineA, w.LineB = firstDiffLine(x, y)
			if len(y) > len(x) && len(x) > 0 && (strings.HasPrefix(string(y), string(x)) || strings.Count(string(y), string(x)) >= 2 || strings.Contains(string(y), userMarker)) {
				kind = "cli-gen-leftover-duplicated-content"
			}
			what = fmt.Sprintf("history %s: %s differs between %s and %s; first difference at line %d: %q vs %q", h.history, df.Path, descA, descB, w.Line, clip(w.LineA, 120), clip(w.LineB, 120))
		case "only-in-a":
			what = fmt.Sprintf("history %s: %s written by %s is missing after %s", h.history, df.Path, descA, descB)
		default:
			what = fmt.Sprintf("history %s: %s exists after %s but was not written by %s", h.history, df.Path, descB, descA)
		}
		key := kind + ":" + role
		if seen[key] {
			continue
		}
		seen[key] = true
		logf("  VIOLATION %s: %s", key, what)
		run.Violation(key, what, w)
	}
	return len(diffs)
}

const userMarker = "// c09: line added by the user after generation"

func (cc *cliCase) done(history string) {
	run := cc.c.run
	run.Count("history_"+history, 1)
	run.Distinct("H:" + history + ":" + cc.spec.Signature())
	run.Eval(1)
}

// firstGen: history "gen,gen" starts here; its first output is the reference of every other history.
// Returns false if goa cannot generate this design at all (inconclusive).
func (cc *cliCase) runAll() bool {
	c := cc.c
	run := c.run
	name := func(tag string) string { return fmt.Sprintf("cli%d%s", c.seq.Add(1), tag) }
	dirA, err := c.newModule(name("a"), cc.spec)
	if err != nil {
		run.Infra("cli module: %v", err)
		return false
	}
	logf("CLI spec #%d (%s) module %s", cc.idx, cc.spec.Signature(), dirA)
	hA := &chain{c: c, history: "gen,gen", dir: dirA}
	m1, st := hA.invoke("gen")
	if st.Err != "" {
		cc.failed(hA, st, true)
		logf("  first goa gen failed: %s", clip(st.Stderr, 600))
		return false
	}
	if len(m1) == 0 {
		run.Inconclusive("goa gen wrote nothing")
		return false
	}
	// reference copy of the first output (the directory itself is reused by the history)
	refDir := dirA + ".ref"
	if err := copyTree(dirA, refDir, skipNonOutput); err != nil {
		run.Infra("copy: %v", err)
		return false
	}
	for p := range m1 {
		if !isGenPath(p) {
			run.Count("gen_wrote_outside_gen_dir", 1)
		}
	}
	run.Seen("feature_signatures", cc.spec.Signature())
	run.Sample(map[string]any{"part": "B", "features": cc.spec.Features, "files": len(m1)})

	var wg sync.WaitGroup
	goh := func(f func()) {
		wg.Add(1)
		go func() { defer wg.Done(); f() }()
	}

	// ---- history 1 (gen, gen) and history 4 (gen, stray+edit inside gen/<svc>/, gen), same directory
	goh(func() {
		m2, st := hA.invoke("gen", "GOMAXPROCS=2")
		if st.Err != "" {
			cc.failed(hA, st, false)
			return
		}
		n := cc.compareGen(hA, refDir, m1, dirA, m2, "the first goa gen", "a second goa gen over its own output", nil)
		logf("  [gen,gen] %d files, %d differences", len(m1), n)
		cc.done("gen_gen")

		// history 4: the user drops a file into gen/<svc>/ and edits a generated file; gen/<subdir> is documented as deleted before generation
		hA.history = "gen,stray,gen"
		var svcFile string
		for _, p := range m2.paths() {
			parts := strings.Split(p, "/")
			if len(parts) == 3 && parts[0] == "gen" && parts[1] != "http" && parts[1] != "grpc" && strings.HasSuffix(p, "/service.go") {
				svcFile = p
				break
			}
		}
		if svcFile == "" {
			run.Inconclusive("no gen/<svc>/service.go to edit")
			return
		}
		strayGo := filepath.Dir(svcFile) + "/zz_c09_stray.go"
		strayTxt := filepath.Dir(svcFile) + "/c09_stray.txt"
		topStray := "gen/c09_top_level_stray.txt"
		_ = os.WriteFile(filepath.Join(dirA, strayGo), []byte("package stray\n"), 0o644)
		_ = os.WriteFile(filepath.Join(dirA, strayTxt), []byte("stray\n"), 0o644)
		_ = os.WriteFile(filepath.Join(dirA, topStray), []byte("stray\n"), 0o644)
		if f, e := os.OpenFile(filepath.Join(dirA, svcFile), os.O_APPEND|os.O_WRONLY, 0); e == nil {
			fmt.Fprintf(f, "\n%s\n", userMarker)
			f.Close()
		}
		oj := "gen/http/openapi.json"
		if _, ok := m2[oj]; ok {
			if f, e := os.OpenFile(filepath.Join(dirA, oj), os.O_APPEND|os.O_WRONLY, 0); e == nil {
				fmt.Fprintf(f, "\n%s\n", userMarker)
				f.Close()
			}
		}
		m3, st := hA.invoke("gen", "GOMAXPROCS=3")
		if st.Err != "" {
			cc.failed(hA, st, false)
			return
		}
		stray := map[string]bool{strayGo: true, strayTxt: true, topStray: true}
		n = cc.compareGen(hA, refDir, m1, dirA, m3, "the first goa gen", "goa gen after the user added and edited files under gen/<svc>/", func(p string) bool { return stray[p] })
		for _, p := range []string{strayGo, strayTxt} {
			if _, ok := m3[p]; ok {
				key := "cli-gen-stray-file-survived:gen/<svc>/" + filepath.Ext(p)
				run.Violation(key, fmt.Sprintf("history gen,stray,gen: %s created by the user inside gen/<svc>/ survived goa gen although cmd/goa deletes the subdirectories of gen/ before generating", p),
					cc.witness(hA, &fileDiff{Path: p, Kind: "survived"}, "gen/<svc>/stray", "", ""))
			}
		}
		if _, ok := m3[topStray]; ok {
			run.Count("top_level_stray_file_in_gen_survived(not a verdict)", 1)
		}
		logf("  [gen,stray,gen] %d differences; stray survived: go=%v txt=%v top=%v", n, has(m3, strayGo), has(m3, strayTxt), has(m3, topStray))
		cc.done("gen_stray_gen")
	})

	// ---- history 2: gen, example, edit, example (default output directory = module root)
	goh(func() { cc.exampleHistory(name("b"), false, refDir, m1) })
	// ---- the same with an explicit output directory (-o out), closed by a second gen
	goh(func() { cc.exampleHistory(name("o"), true, "", nil) })

	// ---- history 5: gen of ANOTHER design, then gen of this design over the same directory
	goh(func() { cc.priorHistory(name("p"), false, refDir, m1) })

	// ---- history 3: example, gen
	goh(func() {
		dir, err := c.newModule(name("c"), cc.spec)
		if err != nil {
			run.Infra("cli module: %v", err)
			return
		}
		h := &chain{c: c, history: "example,gen", dir: dir}
		e1, st := h.invoke("example")
		if st.Err != "" {
			cc.failed(h, st, true)
			return
		}
		g, st := h.invoke("gen")
		if st.Err != "" {
			cc.failed(h, st, false)
			return
		}
		n := cc.compareGen(h, refDir, m1, dir, g, "goa gen on a fresh module", "goa gen after goa example", func(p string) bool { _, ok := e1[p]; return ok && !isGenPath(p) })
		changed := 0
		for p, e := range e1 {
			if g[p].Sum != e.Sum {
				changed++
			}
		}
		if changed > 0 {
			run.Count("gen_changed_example_files(not a verdict)", changed)
		}
		logf("  [example,gen] %d differences against the reference gen output; example files changed by gen: %d", n, changed)
		cc.done("example_gen")
	})
	wg.Wait()
	if os.Getenv("VERIF_KEEP") == "" {
		os.RemoveAll(refDir)
	}
	return true
}

// exampleHistory runs gen, example, (user edits), example [, gen] over one output directory.
// oflag: pass "-o out" (the example generators' own existence checks look at the
// working directory; with -o only File.SkipExist protects the user's files).
func (cc *cliCase) exampleHistory(modName string, oflag bool, refDir string, m1 manifest) {
	c := cc.c
	run := c.run
	dir, err := c.newModule(modName, cc.spec)
	if err != nil {
		run.Infra("cli module: %v", err)
		return
	}
	h := &chain{c: c, history: "gen,example,edit,example", dir: dir}
	hist := "gen_example_edit_example"
	if oflag {
		h.history = "-o:gen,example,edit,example,gen"
		hist = "o_gen_example_edit_example_gen"
		h.out = filepath.Join(dir, "out")
		h.args = []string{"-o", "out"}
	}
	root := h.root()
	g1, st := h.invoke("gen", "GOMAXPROCS=4")
	if st.Err != "" {
		cc.failed(h, st, oflag)
		return
	}
	if !oflag {
		cc.compareGen(h, refDir, m1, root, g1, "goa gen in module copy A", "goa gen in a fresh copy of the module (later)", nil)
		cc.done("gen_fresh_copy")
	} else {
		refDir = root + ".ref"
		if err := copyTree(root, refDir, skipNonOutput); err != nil {
			run.Infra("copy: %v", err)
			return
		}
		defer func() {
			if os.Getenv("VERIF_KEEP") == "" {
				os.RemoveAll(refDir)
			}
		}()
		outside := takeManifest(dir, func(rel string, d bool) bool { return skipNonOutput(rel, d) || d && (rel == "out" || rel == "out.ref") })
		if len(outside) > 0 {
			run.Count("files_written_outside_-o_directory(not a verdict)", len(outside))
		}
		cc.priorHistory(modName+"p", true, refDir, g1)
	}
	e1, st := h.invoke("example")
	if st.Err != "" {
		cc.failed(h, st, true)
		return
	}
	cc.exampleKeptGen(h, g1, e1, "the first goa example")
	var ex []string
	for _, p := range e1.paths() {
		if _, ok := g1[p]; !ok {
			ex = append(ex, p)
		}
	}
	if len(ex) == 0 {
		run.Inconclusive("goa example wrote no file")
		return
	}
	run.Max("max_example_files", len(ex))
	// the user edits example files: one at the top level (service implementation), one main
	edited := map[string]bool{}
	pick := func(pred func(string) bool) {
		for _, p := range ex {
			if pred(p) && !edited[p] {
				edited[p] = true
				return
			}
		}
	}
	pick(func(p string) bool { return !strings.Contains(p, "/") })
	pick(func(p string) bool { return strings.HasSuffix(p, "/main.go") })
	pick(func(p string) bool { return strings.HasSuffix(p, "/http.go") })
	if len(edited) == 0 {
		edited[ex[0]] = true
	}
	for p := range edited {
		if f, e := os.OpenFile(filepath.Join(root, p), os.O_APPEND|os.O_WRONLY, 0); e == nil {
			fmt.Fprintf(f, "\n%s\n", userMarker)
			f.Close()
		}
	}
	// one example file is deleted (the user does not want it... and the run is not a pure no-op)
	deleted := ""
	if len(ex) >= 3 {
		for i := len(ex) - 1; i >= 0; i-- {
			if !edited[ex[i]] {
				deleted = ex[i]
				break
			}
		}
		if deleted != "" {
			os.Remove(filepath.Join(root, deleted))
		}
	}
	// known old mtimes on every surviving example file
	old := time.Date(2001, 2, 3, 4, 5, 6, 0, time.UTC)
	for i, p := range ex {
		if p != deleted {
			_ = os.Chtimes(filepath.Join(root, p), old, old.Add(time.Duration(i)*time.Second))
		}
	}
	before := takeManifest(root, skipNonOutput)
	after, st := h.invoke("example", "GOMAXPROCS=2")
	if st.Err != "" {
		cc.failed(h, st, false)
		return
	}
	cc.exampleKeptGen(h, before, after, "the second goa example")
	mt := false
	for _, p := range ex {
		if p == deleted {
			if _, ok := after[p]; ok {
				run.Count("example_recreated_deleted_file", 1)
			}
			continue
		}
		run.Count("example_files_checked", 1)
		run.Seen("file_roles_compared", pipeline.FileRole(p))
		role := pipeline.FileRole(p)
		ea, ok := after[p]
		what := ""
		key := ""
		switch {
		case !ok:
			key, what = "cli-example-clobbered:"+role, fmt.Sprintf("%s existed before goa example and is gone after it", p)
		case ea.Sum != before[p].Sum:
			key = "cli-example-clobbered:" + role
			what = fmt.Sprintf("%s existed before goa example (user-edited: %v) and its bytes changed (size %d -> %d; user's marker line still present: %v)", p, edited[p], before[p].Size, ea.Size, fileHas(filepath.Join(root, p), userMarker))
		case ea.Mtime != before[p].Mtime && !mt:
			mt = true
			key = "cli-example-mtime-changed"
			what = fmt.Sprintf("%s existed before goa example; its bytes are unchanged but it was rewritten (mtime %s -> %s)", p, time.Unix(0, before[p].Mtime).UTC().Format(time.RFC3339), time.Unix(0, ea.Mtime).UTC().Format(time.RFC3339))
		}
		if key != "" {
			logf("  VIOLATION %s: %s", key, what)
			run.Violation(key, "history "+h.history+": "+what, cc.witness(h, &fileDiff{Path: p, Kind: "example"}, role, "before the second goa example", "after the second goa example"))
		}
	}
	logf("  [%s] %d example files, edited %v, deleted %q", h.history, len(ex), keys(edited), deleted)
	if oflag {
		g2, st := h.invoke("gen", "GOMAXPROCS=3")
		if st.Err != "" {
			cc.failed(h, st, false)
			return
		}
		isEx := map[string]bool{}
		for _, p := range ex {
			isEx[p] = true
		}
		n := cc.compareGen(h, refDir, g1, root, g2, "the first goa gen -o out", "goa gen -o out over gen+example output", func(p string) bool { return isEx[p] })
		logf("  [%s] closing gen: %d differences", h.history, n)
	}
	cc.done(hist)
}

// priorDesign is what the output directory held before: two HTTP services none
// of the lab's designs names.
const priorDesign = `package design

import . "goa.design/goa/v3/dsl"

var _ = API("c09prior", func() { Title("an earlier design") })

var C09PriorType = Type("C09PriorType", func() {
	Attribute("a", String)
	Attribute("b", ArrayOf(Int))
})

var _ = Service("c09prior_one", func() {
	Method("m", func() {
		Payload(C09PriorType)
		Result(C09PriorType)
		HTTP(func() { POST("/c09prior/one") })
	})
})

var _ = Service("c09prior_two", func() {
	Method("n", func() {
		Payload(String)
		Result(ArrayOf(String))
		HTTP(func() { POST("/c09prior/two") })
	})
})
`

// priorHistory: the output directory already holds the generated code of another
// design (the design shrank / was replaced); goa gen of this design must leave
// below gen/ exactly what it writes into a fresh directory ("independent of prior runs").
func (cc *cliCase) priorHistory(modName string, oflag bool, refDir string, ref manifest) {
	c := cc.c
	run := c.run
	dir, err := c.newModule(modName, cc.spec)
	if err != nil {
		run.Infra("cli module: %v", err)
		return
	}
	designFile := filepath.Join(dir, "design", "design.go")
	mine, err := os.ReadFile(designFile)
	if err != nil {
		run.Infra("cli module: %v", err)
		return
	}
	if err := os.WriteFile(designFile, []byte(priorDesign), 0o644); err != nil {
		run.Infra("cli module: %v", err)
		return
	}
	h := &chain{c: c, history: "gen(other design),gen", dir: dir}
	hist := "prior_gen"
	if oflag {
		h.history = "-o:gen(other design),gen"
		hist = "o_prior_gen"
		h.out = filepath.Join(dir, "out")
		h.args = []string{"-o", "out"}
	}
	p1, st := h.invoke("gen")
	if st.Err != "" {
		run.Infra("goa gen of the fixed earlier design failed: %s %s", st.Err, clip(st.Stderr, 400))
		return
	}
	left := 0
	for p := range p1 {
		if strings.Contains(p, "c09prior") {
			left++
		}
	}
	if left == 0 {
		run.Inconclusive("the earlier design left no file of its own below gen/")
		return
	}
	if err := os.WriteFile(designFile, mine, 0o644); err != nil {
		run.Infra("cli module: %v", err)
		return
	}
	g, st := h.invoke("gen", "GOMAXPROCS=2")
	if st.Err != "" {
		cc.failed(h, st, false)
		return
	}
	n := cc.compareGen(h, refDir, ref, h.root(), g, "goa gen into a fresh directory", "goa gen into a directory that held the generated code of another design ("+fmt.Sprint(left)+" files of its own)", nil)
	logf("  [%s] %d files of the earlier design, %d differences afterwards", h.history, left, n)
	cc.done(hist)
}

// exampleKeptGen: goa example must not touch what exists below gen/ (it exists already: "never modifies a file that already exists").
func (cc *cliCase) exampleKeptGen(h *chain, before, after manifest, desc string) {
	run := cc.c.run
	seen := map[string]bool{}
	for _, df := range diffManifests(before.sub(isGenPath), after.sub(isGenPath), true) {
		if df.Kind == "only-in-b" {
			continue // a new file is not a modification of an existing one
		}
		role := pipeline.FileRole(df.Path)
		key := "cli-example-modified-gen:" + role
		if seen[key] {
			continue
		}
		seen[key] = true
		d := df
		run.Violation(key, fmt.Sprintf("history %s: %s existed before %s and changed (%s)", h.history, df.Path, desc, df.Kind), cc.witness(h, &d, role, "before "+desc, "after "+desc))
	}
}

func has(m manifest, p string) bool { _, ok := m[p]; return ok }

func keys(m map[string]bool) []string {
	var ks []string
	for k := range m {
		ks = append(ks, k)
	}
	sort.Strings(ks)
	return ks
}

func fileHas(path, s string) bool {
	b, err := os.ReadFile(path)
	return err == nil && strings.Contains(string(b), s)
}

// buildGoa builds the real goa binary from the checkout under test, from a
// scratch module (so that nothing is ever written into the checkout).
func buildGoa(scratch, repo string, env []string) (string, error) {
	dir := filepath.Join(scratch, "goabuild")
	if err := os.MkdirAll(dir, 0o755); err != nil {
		return "", err
	}
	gomod := fmt.Sprintf("module goabuild\n\ngo 1.22.0\n\nrequire goa.design/goa/v3 v3.0.0\n\nreplace goa.design/goa/v3 => %s\n", repo)
	if err := os.WriteFile(filepath.Join(dir, "go.mod"), []byte(gomod), 0o644); err != nil {
		return "", err
	}
	sum, err := os.ReadFile(filepath.Join(repo, "go.sum"))
	if err != nil {
		return "", err
	}
	if err := os.WriteFile(filepath.Join(dir, "go.sum"), sum, 0o644); err != nil {
		return "", err
	}
	bin := filepath.Join(scratch, "bin", "goa")
	if err := os.MkdirAll(filepath.Dir(bin), 0o755); err != nil {
		return "", err
	}
	_, se, err := runTool(dir, env, 10*time.Minute, "go", "build", "-o", bin, "goa.design/goa/v3/cmd/goa")
	if err != nil {
		return "", fmt.Errorf("building cmd/goa from %s failed: %v\n%s", repo, err, clip(se, 2000))
	}
	return bin, nil
}
