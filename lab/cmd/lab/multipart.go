package main

import (
	"mime"
	"strings"

	"verif.local/lab/rt"
	"verif.local/lab/spec"
)

// multipartSeen remembers the multipart methods that had a decided exchange (evidence counter
// multipart_methods_driven: distinct (design, service, method)).
var multipartSeen = map[string]bool{}

// countMultipart feeds the observation counters of the multipart envelope (DESIGN §13.9): decided exchanges
// with a MultipartRequest() endpoint, split by who encoded the request and by whether the service method ran.
func countMultipart(run interface{ Count(string, int) }, sp *spec.Spec, ex *rt.Exchange) {
	if ex.Case == nil {
		return
	}
	_, m := sp.FindMethod(ex.Case.Svc, ex.Case.Method)
	if m == nil || m.HTTP == nil || !m.HTTP.Multipart {
		return
	}
	run.Count("multipart_exchanges", 1)
	if ex.Case.Raw != nil {
		run.Count("multipart_exchanges_hand_encoded", 1)
	}
	if ex.StubIn != nil {
		run.Count("multipart_exchanges_reached_stub", 1)
	}
	if k := ex.Design + "|" + sp.ID + "|" + ex.Case.Svc + "|" + ex.Case.Method; !multipartSeen[k] {
		multipartSeen[k] = true
		run.Count("multipart_methods_driven", 1)
		if len(m.HTTP.Path)+len(m.HTTP.Query)+len(m.HTTP.Headers)+len(m.HTTP.Cookies) > 0 {
			run.Count("multipart_methods_driven_with_params", 1)
		}
	}
}

// stripBoundary replaces the boundary a multipart request announces in its Content-Type (mime/multipart draws
// it from crypto/rand for every request) by a fixed word wherever it occurs in s, the rendering of that
// request: two renderings are then equal exactly when the requests are equal up to the choice of the
// boundary. A body delimited by ANOTHER boundary than the announced one keeps it and still differs.
func stripBoundary(w *rt.WireReq, s string) string {
	for k, vs := range w.Header {
		if !strings.EqualFold(k, "Content-Type") {
			continue
		}
		for _, v := range vs {
			if mt, params, err := mime.ParseMediaType(v); err == nil && strings.HasPrefix(mt, "multipart/") && len(params["boundary"]) >= 8 {
				s = strings.ReplaceAll(s, params["boundary"], "BOUNDARY")
			}
		}
	}
	return s
}
