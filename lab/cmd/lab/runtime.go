package main

import (
	"bufio"
	"bytes"
	"encoding/json"
	"fmt"
	"os"
	"os/exec"
	"path/filepath"
	"sort"
	"strings"
	"sync"
	"time"

	"verif.local/lab/cases"
	"verif.local/lab/gen"
	"verif.local/lab/oracle"
	"verif.local/lab/pipeline"
	"verif.local/lab/rt"
	"verif.local/lab/spec"
	"verif.local/lab/vc"
)

// rtCheck describes one runtime property check over engine E1.
type rtCheck struct {
	Prop       string
	Rule       string
	Assume     []string
	Profiles   []string
	Specs      [2]int // quick, thorough
	PerMethod  [2]int // cases per method
	MkCases    func(sp *spec.Spec, sv *spec.Service, m *spec.Method, r *vc.Rand, n, start int) []*rt.Case
	Judge      func(sp *spec.Spec, ex *rt.Exchange) *oracle.Verdict
	Race       bool
	DriverArgs []string
	Floor      [2]int
	// NonTrivial decides whether an exchange counts as non-trivial for this property.
	NonTrivial func(ex *rt.Exchange) bool
	// AllowFiles lets the generator emit file servers (not drivable, but mountable).
	AllowFiles bool
	// PostDesign is called once per design with its setup record (mounted routes) — used by C07.
	PostDesign func(run *vc.Run, d *pipeline.Design, setup map[string]any)
	// PostUncompiled is called for an accepted design whose generated code does not compile (its generated
	// non-Go files can still be judged) — used by C07.
	PostUncompiled func(run *vc.Run, d *pipeline.Design)
	// Streams lets the generator emit HTTP streaming (websocket) methods with a modest probability in the
	// check's own profiles (C07: they are documented and mounted, not driven).
	Streams bool
	// StreamSpecs is the size (quick, thorough) of the dedicated batch of streaming designs (profile "stream")
	// driven in addition to the check's own designs; StreamPerMethod the cases per streaming method.
	StreamSpecs     [2]int
	StreamPerMethod [2]int
	// StreamCases builds the cases of a streaming method of that batch (default cases.Stream).
	StreamCases func(sp *spec.Spec, sv *spec.Service, m *spec.Method, r *vc.Rand, n, start int) []*rt.Case
	// Unions lets a share of the check's designs carry OneOf attributes in request/response bodies (gen/union.go).
	Unions bool
	// Multipart lets a share of the body-carrying methods be MultipartRequest() endpoints (gen/multipart.go), driven
	// with the lab's multipart codec (rt/multipart.go).
	Multipart bool
	// MultipartFew: a third of that share (C14 cannot decide multipart exchanges).
	MultipartFew bool
}

type rtWitness struct {
	Spec     *spec.Spec   `json:"spec"`
	DSL      string       `json:"dsl"`
	Exchange *rt.Exchange `json:"exchange"`
}

func readExchanges(path string) (setup map[string]any, exs []*rt.Exchange, err error) {
	f, err := os.Open(path)
	if err != nil {
		return nil, nil, err
	}
	defer f.Close()
	sc := bufio.NewScanner(f)
	sc.Buffer(make([]byte, 1<<20), 256<<20)
	first := true
	for sc.Scan() {
		line := sc.Bytes()
		if first {
			first = false
			if bytes.Contains(line, []byte(`"setup":true`)) {
				_ = json.Unmarshal(line, &setup)
				continue
			}
		}
		var ex rt.Exchange
		if e := json.Unmarshal(line, &ex); e != nil {
			return setup, exs, e
		}
		if ex.Case == nil {
			continue
		}
		exs = append(exs, &ex)
	}
	return setup, exs, sc.Err()
}

func runDriver(bin string, args []string, timeout time.Duration, raceLog string) (string, error) {
	cmd := exec.Command(bin, args...)
	var se bytes.Buffer
	cmd.Stderr = &se
	cmd.Env = append(os.Environ(), "GORACE=halt_on_error=0 exitcode=0 log_path="+raceLog)
	if err := cmd.Start(); err != nil {
		return "", err
	}
	done := make(chan error, 1)
	go func() { done <- cmd.Wait() }()
	select {
	case err := <-done:
		return tailS(se.String(), 4000), err
	case <-time.After(timeout):
		_ = cmd.Process.Kill()
		<-done
		return tailS(se.String(), 4000), fmt.Errorf("driver watchdog (%v)", timeout)
	}
}

func tailS(s string, n int) string {
	if len(s) > n {
		return s[len(s)-n:]
	}
	return s
}

// runRuntime executes a runtime check end to end.
func runRuntime(c *rtCheck) {
	run := vc.New(c.Prop)
	run.Rule(c.Rule)
	run.Assume(c.Assume...)
	run.Assume("generated servers are driven in-process: the client request is serialised and re-parsed with net/http (as a socket would) and served by the real goa muxer on a recorder",
		"header values without leading/trailing blanks or control characters, cookie values in the cookie-octet alphabet, no NaN/Inf (transport limits that are not goa's)",
		"designs whose generated code does not compile (C01) are excluded and counted as inconclusive")
	sc := scratch()
	ti := 0
	if run.Thorough() {
		ti = 1
	}
	if run.Replay != "" {
		var w rtWitness
		if err := run.LoadReplay(&w); err != nil {
			run.Infra("cannot load replay: %v", err)
			run.Finish()
		}
		var cs []*rt.Case
		if w.Exchange != nil {
			cs = []*rt.Case{w.Exchange.Case}
		}
		runDesigns(run, c, filepath.Join(sc, "replay"), []*spec.Spec{w.Spec}, func(d *pipeline.Design) []*rt.Case { return cs }, true)
		run.Finish()
	}
	total := c.Specs[ti]
	if os.Getenv("VERIF_STREAM_ONLY") != "" && c.StreamSpecs[ti] > 0 {
		total = 0 // debugging aid: only the streaming batch (the floor will call the run inconclusive)
	}
	per := 32
	idx := 0
	for bi := 0; idx < total; bi++ {
		n := per
		if total-idx < n {
			n = total - idx
		}
		var specs []*spec.Spec
		for i := 0; i < n; i++ {
			prof := c.Profiles[(idx+i)%len(c.Profiles)]
			s := gen.Generate(run.Rand(2, uint64(idx+i)), fmt.Sprintf("%d", idx+i), gen.Opts{Profile: prof, Runtime: true, Thorough: run.Thorough(), Files: c.AllowFiles, Streams: c.Streams, Unions: c.Unions, Multipart: c.Multipart, MultipartFew: c.MultipartFew, DocOnlyGadgets: c.PostUncompiled != nil})
			s.AddFeature("profile-" + prof)
			specs = append(specs, s)
		}
		base := idx
		idx += n
		dir := filepath.Join(sc, fmt.Sprintf("b%d", bi))
		mk := func(d *pipeline.Design) []*rt.Case {
			var cs []*rt.Case
			di := 0
			fmt.Sscanf(d.ID, "d%d", &di)
			for si, sv := range d.Spec.Services {
				if sv.NoHTTP {
					continue
				}
				for mi, m := range sv.Methods {
					r := run.Rand(3, uint64(base+di), uint64(si), uint64(mi))
					cs = append(cs, c.MkCases(d.Spec, sv, m, r, c.PerMethod[ti], len(cs))...)
				}
			}
			return cs
		}
		if !runDesigns(run, c, dir, specs, mk, false) {
			break
		}
		if os.Getenv("VERIF_KEEP") == "" {
			os.RemoveAll(dir)
		}
	}
	// dedicated batch of streaming designs: websocket endpoints next to plain ones, driven over a real socket
	if ns := c.StreamSpecs[ti]; ns > 0 {
		run.Assume("streaming endpoints are driven over a real loopback socket (httptest.Server + gorilla websocket) with the deterministic protocols of rt/stream.go; an exchange whose watchdog fires is inconclusive",
			"streamed results of result types with views are judged against the reference projection of oracle/c08.go (the view the service sets, or the fixed one); result types in the trigger classes of the listed C08 findings (required attribute outside the view, recursive result type) are inconclusive",
			"streaming payloads of the runtime batch stay clear of the listed C01 findings (alias / union in a streaming payload, string lengths in non-user message types, two routes)")
		var specs []*spec.Spec
		for i := 0; i < ns; i++ {
			o := gen.Opts{Profile: "stream", Runtime: true, Streams: true, StreamViews: true, Thorough: run.Thorough()}
			if i%4 == 1 {
				o.StreamForce = "views" // every fourth design streams a multi-view result type from the server
			}
			s := gen.Generate(run.Rand(7, uint64(i)), fmt.Sprintf("s%d", i), o)
			s.AddFeature("profile-stream")
			specs = append(specs, s)
		}
		mk := func(d *pipeline.Design) []*rt.Case {
			var cs []*rt.Case
			di := 0
			fmt.Sscanf(d.ID, "d%d", &di)
			for si, sv := range d.Spec.Services {
				if sv.NoHTTP {
					continue
				}
				for mi, m := range sv.Methods {
					r := run.Rand(8, uint64(di), uint64(si), uint64(mi))
					if m.Stream != "" {
						mkStream := cases.Stream
						if c.StreamCases != nil {
							mkStream = c.StreamCases
						}
						cs = append(cs, mkStream(d.Spec, sv, m, r, c.StreamPerMethod[ti], len(cs))...)
					} else {
						cs = append(cs, c.MkCases(d.Spec, sv, m, r, min(c.PerMethod[ti], 8), len(cs))...)
					}
				}
			}
			return cs
		}
		dir := filepath.Join(sc, "stream")
		runDesigns(run, c, dir, specs, mk, false)
		if os.Getenv("VERIF_KEEP") == "" {
			os.RemoveAll(dir)
		}
		// a streaming batch that mostly hung decided nothing: a broken run, not a pass
		if total, hung := run.Counter("stream_exchanges"), run.Counter("stream_watchdog_fired"); hung >= 8 && hung*4 > total {
			run.Infra("streaming: %d of %d exchanges hit the watchdog (both ends wait for each other: the stream protocol is broken or the machine is stalled)", hung, total)
		} else if total == 0 {
			run.Infra("streaming: no streaming exchange was driven")
		}
		// a streaming method most of whose exchanges hung was not decided at all (a systematic deadlock, e.g. an
		// end-of-stream marker that is never sent, shows up exactly like this): exit 2, never a pass
		var hungMethods []string
		for k, hs := range streamHangs {
			if hs[0] >= 4 && hs[1]*2 > hs[0] {
				hungMethods = append(hungMethods, fmt.Sprintf("%s (%d of %d)", k, hs[1], hs[0]))
			}
		}
		if len(hungMethods) > 0 {
			sort.Strings(hungMethods)
			run.Infra("streaming: every exchange of %d streaming method(s) deadlocked until the watchdog: %s", len(hungMethods), strings.Join(hungMethods, "; "))
		}
	}
	run.Floor(c.Floor[ti])
	run.Finish()
}

// runDesigns pushes specs through the pipeline and the drivers and judges every exchange.
func runDesigns(run *vc.Run, c *rtCheck, dir string, specs []*spec.Spec, mk func(d *pipeline.Design) []*rt.Case, verbose bool) bool {
	b, err := runBatch(run, dir, specs, []string{"gen"})
	if err != nil {
		run.Infra("%v", err)
		return false
	}
	if err := b.Compile(); err != nil {
		run.Infra("%v", err)
	}
	var ok []*pipeline.Design
	for _, d := range b.Designs {
		run.Count("designs_"+d.Status, 1)
		switch {
		case d.Status != "accepted":
			run.Inconclusive("design " + d.Status + " (not a " + c.Prop + " matter)")
			if verbose || os.Getenv("VERIF_DEBUG") != "" {
				fmt.Fprintf(os.Stderr, "%s %s: %s\n", d.ID, d.Status, firstLine(d.Errors))
			}
		case !d.Compiled:
			run.Inconclusive("generated code does not compile (C01)")
			if c.PostUncompiled != nil {
				c.PostUncompiled(run, d)
			}
			if verbose || os.Getenv("VERIF_DEBUG") != "" {
				fmt.Fprintf(os.Stderr, "%s does not compile: %v\n", d.ID, d.Diags)
			}
		default:
			if err := b.WriteHarness(d); err != nil {
				run.Inconclusive("harness: " + err.Error())
				continue
			}
			ok = append(ok, d)
		}
	}
	berrs := b.BuildDrivers(ok, c.Race)
	type res struct {
		d      *pipeline.Design
		setup  map[string]any
		exs    []*rt.Exchange
		stderr string
		err    error
	}
	results := make([]*res, len(ok))
	var wg sync.WaitGroup
	sem := make(chan struct{}, 16)
	for i, d := range ok {
		if e, bad := berrs[d.ID]; bad {
			results[i] = &res{d: d, err: fmt.Errorf("driver build: %s", e)}
			continue
		}
		wg.Add(1)
		sem <- struct{}{}
		go func(i int, d *pipeline.Design) {
			defer wg.Done()
			defer func() { <-sem }()
			r := &res{d: d}
			results[i] = r
			zz := filepath.Join(d.Dir, "zz")
			specPath, casesPath, outPath := filepath.Join(zz, "spec.json"), filepath.Join(zz, "cases.jsonl"), filepath.Join(zz, "events.jsonl")
			_ = os.WriteFile(specPath, d.Spec.JSON(), 0o644)
			cs := mk(d)
			var buf bytes.Buffer
			for _, cc := range cs {
				bb, _ := json.Marshal(cc)
				buf.Write(bb)
				buf.WriteByte('\n')
			}
			_ = os.WriteFile(casesPath, buf.Bytes(), 0o644)
			args := append([]string{"--spec", specPath, "--cases", casesPath, "--out", outPath, "--id", d.ID}, c.DriverArgs...)
			r.stderr, r.err = runDriver(b.DriverPath(d), args, 10*time.Minute, filepath.Join(zz, "race"))
			r.setup, r.exs, _ = readExchanges(outPath)
			if len(r.exs) < len(cs) && r.err == nil {
				r.err = fmt.Errorf("driver logged %d of %d exchanges", len(r.exs), len(cs))
			}
		}(i, d)
	}
	wg.Wait()
	for _, r := range results {
		if r == nil {
			continue
		}
		d := r.d
		if r.err != nil {
			// a driver that died is a crash of generated/goa code on some case, or infrastructure
			if len(r.exs) == 0 {
				run.Inconclusive("driver failed: " + firstLine(r.err.Error()))
				if verbose || os.Getenv("VERIF_DEBUG") != "" {
					fmt.Fprintf(os.Stderr, "%s driver failed: %v\n%s\n", d.ID, r.err, r.stderr)
				}
				continue
			}
			run.Inconclusive("driver stopped early: " + firstLine(r.err.Error()))
		}
		if r.setup != nil {
			if se, _ := r.setup["setup_err"].(map[string]any); len(se) > 0 {
				for svc, e := range se {
					run.Inconclusive(fmt.Sprintf("service setup failed: %v", firstLine(fmt.Sprint(e))))
					if verbose || os.Getenv("VERIF_DEBUG") != "" {
						fmt.Fprintf(os.Stderr, "%s setup of %s failed: %v\n", d.ID, svc, e)
					}
				}
			}
			if c.PostDesign != nil {
				c.PostDesign(run, d, r.setup)
			}
		}
		conclusive := 0
		oracle.RegisterDesign(d.ID, d.Dir)
		for _, ex := range r.exs {
			run.Eval(1)
			countTaps(run, ex)
			v := c.Judge(d.Spec, ex)
			if verbose {
				bb, _ := json.MarshalIndent(ex, "", " ")
				fmt.Println(string(bb))
			}
			if v.Inconclusive != "" {
				run.Inconclusive(v.Inconclusive)
				if os.Getenv("VERIF_DEBUG") != "" && ex.Stream != nil && ex.Stream.Watchdog != "" {
					bb, _ := json.Marshal(ex)
					fmt.Fprintf(os.Stderr, "WATCHDOG %s %s\n", d.ID, tailS(string(bb), 6000))
				}
				continue
			}
			conclusive++
			countUnions(run, ex) // union.go
			countMultipart(run, d.Spec, ex)
			for _, f := range v.Findings {
				if verbose {
					fmt.Printf("FINDING %s: %s\n", f.Key, f.What)
				}
				run.Violation(f.Key, f.What, rtWitness{Spec: d.Spec, DSL: d.DSL, Exchange: ex})
			}
			for _, n := range v.Notes {
				run.Count("note_"+n, 1)
			}
			if ex.Case.Stream != nil && len(v.Findings) == 0 {
				// distinct (kind x message type kinds x counts) signatures of streaming exchanges
				run.Distinct("stream|" + fmt.Sprint(ex.Case.Note["stream_sig"]) + "|" + ex.Case.Class)
				run.Seen("stream_signatures", fmt.Sprint(ex.Case.Note["stream_sig"]))
			}
			if len(v.Findings) == 0 && (c.NonTrivial == nil || c.NonTrivial(ex)) {
				run.Distinct(fmt.Sprintf("%s|%s|%s|%s", d.Spec.Signature(), ex.Case.Method, ex.Case.Class, shape(ex)))
				run.Sample(map[string]any{"features": d.Spec.Features, "case": ex.Case, "wire_req": wireBrief(ex), "status": statusOf(ex), "taps": ex.Seq})
			}
		}
		if conclusive > 0 {
			run.Count("designs_driven", 1)
			if hasFeature(d.Spec, "union") {
				run.Count("union_designs_driven", 1)
			}
			for _, ex := range r.exs {
				if ex.Stream != nil && ex.Stream.Watchdog == "" {
					run.Count("stream_designs_driven", 1)
					break
				}
			}
			for _, f := range d.Spec.Features {
				run.Seen("features", f)
			}
		}
	}
	return true
}

func statusOf(ex *rt.Exchange) int {
	if ex.WireResp != nil {
		return ex.WireResp.Status
	}
	return 0
}

func wireBrief(ex *rt.Exchange) string {
	if ex.WireReq == nil {
		return ""
	}
	return ex.WireReq.Method + " " + ex.WireReq.URL
}

// shape summarises which attributes were present (distinctness of cases).
func shape(ex *rt.Exchange) string {
	b, _ := json.Marshal(ex.Case.Sent)
	if len(b) > 200 {
		b = b[:200]
	}
	return string(b)
}

// streamHangs counts, per streaming method, the exchanges driven and those the watchdog ended.
var streamHangs = map[string][2]int{}

func countTaps(run *vc.Run, ex *rt.Exchange) {
	if ex.ClientIn != nil || ex.Case.NoPay {
		run.Count("tap_client_in", 1)
	}
	if ex.WireReq != nil {
		run.Count("tap_wire_req", 1)
	}
	if ex.StubIn != nil {
		run.Count("tap_stub_in", 1)
	}
	run.Count("tap_auth", len(ex.Auth))
	if ex.WireResp != nil {
		run.Count("tap_wire_resp", 1)
		run.Seen("statuses", fmt.Sprint(ex.WireResp.Status))
	}
	if ex.ClientOut != nil {
		run.Count("tap_client_out", 1)
	}
	if r := ex.Stream; r != nil {
		k := ex.Design + " " + ex.Case.Svc + "." + ex.Case.Method
		hs := streamHangs[k]
		hs[0]++
		if r.Watchdog != "" {
			hs[1]++
		}
		streamHangs[k] = hs
		run.Count("stream_exchanges", 1)
		run.Count("tap_stream_client_send", len(r.ClientSent)+r.RawSent)
		run.Count("tap_stream_stub_recv", len(r.StubRecv))
		run.Count("tap_stream_stub_send", len(r.StubSent))
		run.Count("tap_stream_client_recv", len(r.ClientRecv)+len(r.RawRecv))
		run.Count("tap_stream_wire_frames", len(r.WireC2S)+len(r.WireS2C))
		if r.Watchdog != "" {
			run.Count("stream_watchdog_fired", 1)
		}
		if r.ConnLeftOpen {
			run.Count("stream_conn_left_open_by_handler", 1)
		}
		if ex.Case.Stream != nil && ex.Case.Stream.RawClient {
			run.Count("stream_exchanges_raw_client", 1)
		}
	}
}

// genRuntimeSpec draws one runtime-drivable spec.
func genRuntimeSpec(run *vc.Run, stream uint64, i int, prof string) *spec.Spec {
	s := gen.Generate(run.Rand(stream, uint64(i)), fmt.Sprintf("%d", i), gen.Opts{Profile: prof, Runtime: true, Thorough: run.Thorough(), Multipart: true})
	s.AddFeature("profile-" + prof)
	return s
}
