package main

import (
	"encoding/json"
	"path/filepath"

	"verif.local/lab/pipeline"
	"verif.local/lab/spec"
	"verif.local/lab/vc"

	"verif.local/lab/cases"
	"verif.local/lab/oracle"
	"verif.local/lab/rt"
)

var deliveryProfiles = []string{"http-loc", "http-loc", "mixed", "validation", "http-loc", "naming-lite"}

func checkC02() *rtCheck {
	return &rtCheck{
		Prop: "C02",
		Rule: "specs from the http-loc/mixed/validation profiles; per method: minimal, full and random valid payloads over the boundary value classes of DESIGN §4, sent through the generated client -> wire -> real muxer -> generated server -> recording stub; non-trivial = payload reached the stub and compared equal; distinct = (feature signature, method, class, payload shape)",
		Assume: []string{"zero value of a defaulted attribute may arrive as the zero value or as the default (goa represents defaulted attributes as non-pointer fields)",
			"an optional empty string outside the body may arrive as empty or absent"},
		Profiles: deliveryProfiles, Specs: [2]int{32, 500}, PerMethod: [2]int{24, 120},
		MkCases: cases.Delivery, Judge: oracle.C02, Floor: [2]int{200, 5000}, Unions: true, Multipart: true,
		NonTrivial:  func(ex *rt.Exchange) bool { return ex.StubIn != nil && !ex.Case.NoPay },
		StreamSpecs: [2]int{4, 48}, StreamPerMethod: [2]int{16, 64},
	}
}

func checkC03() *rtCheck {
	return &rtCheck{
		Prop: "C03",
		Rule: "same designs as C02; per method the stub returns scripted valid results (minimal/full/random, tagged alternatives selected by value); non-trivial = client returned a value compared equal with the scripted one and the status matched; distinct = (feature signature, method, class, shape)",
		Assume: []string{"zero value of a defaulted attribute may arrive as the zero value or as the default",
			"results that are result types with views are judged by C08, C03 only checks their status"},
		Profiles: deliveryProfiles, Specs: [2]int{32, 500}, PerMethod: [2]int{24, 120},
		MkCases: cases.Delivery, Judge: oracle.C03, Floor: [2]int{200, 5000}, Unions: true, Multipart: true,
		NonTrivial:  func(ex *rt.Exchange) bool { return ex.ClientOut != nil && ex.ClientOut.Err == nil },
		StreamSpecs: [2]int{4, 48}, StreamPerMethod: [2]int{16, 64},
	}
}

var validationProfiles = []string{"validation", "validation", "http-loc", "validation", "mixed"}

func checkC04() *rtCheck {
	return &rtCheck{
		Prop: "C04",
		Rule: "specs from the validation profile; per method: boundary probes (below/on/above every min/max/exclusive bound, length n-1/n/n+1 in runes with multi-byte strings, enum member/non-member, pattern match/no-match, format well-formed/malformed, required attribute removed) applied to a valid payload at one site, sent through the generated client and hand-encoded; malformed wire encodings hand-encoded; results violating the result's constraints returned by the stub; streamed messages of websocket endpoints (client and bidirectional streams): one message of a short stream carries a boundary probe, a violating message must not be returned by the service's Recv. The reference validator decides validity of the final tree. non-trivial = decided exchange; distinct = (feature signature, method, probe class, payload shape)",
		Assume: []string{"formats are judged by construction class (valid/malformed pools); exactness of the format validators is C17's",
			"no malformed host names are generated (hostname validator is a listed C17 finding)",
			"alternative spellings of valid scalars in text locations are not generated"},
		Profiles: validationProfiles, Specs: [2]int{32, 500}, PerMethod: [2]int{36, 160},
		MkCases: cases.Validation, Judge: oracle.C04, Floor: [2]int{300, 8000}, Unions: true, Multipart: true,
		// streamed messages of websocket endpoints: a dedicated batch of streaming designs, one probed message per stream
		StreamSpecs: [2]int{20, 80}, StreamPerMethod: [2]int{10, 24}, StreamCases: cases.StreamInvalid,
	}
}

var errorProfiles = []string{"errors", "errors", "errors", "mixed", "http-loc"}

func checkC05() *rtCheck {
	return &rtCheck{
		Prop: "C05",
		Rule: "specs from the errors profile (method/service/API-level errors, default and custom types, errors sharing a status); per method the stub returns every declared error (default type: 8 flag combinations, wrapped with %w and errors.Join; custom types: minimal/full/random values), undeclared service errors (8 flag combinations x special names), plain Go errors; decode failures are hand-encoded (truncated JSON, wrong JSON kind, empty body, non-numeric parameter, unsupported media type). non-trivial = decided exchange; distinct = (feature signature, method, class, outcome)",
		Assume: []string{"the generated server is built with a nil error formatter (what `goa example` output passes)",
			"the goa-error header is required only when another error of the endpoint shares the status"},
		Profiles: errorProfiles, Specs: [2]int{24, 300}, PerMethod: [2]int{0, 0},
		MkCases: cases.Errors, Judge: oracle.C05, Floor: [2]int{300, 5000},
	}
}

func checkC06() *rtCheck {
	return &rtCheck{
		Prop: "C06",
		Rule: "specs from the security profile (Basic/APIKey/JWT/OAuth2 in 1-3 alternative requirements of 1-2 schemes at API/service/method level, NoSecurity, explicit and implicit credential mapping); per secured method EVERY accept/reject vector over its schemes (<=2^6) x 2 (all credentials supplied / one requirement's credentials only), reject flavours plain/service/declared, credentials from class alphabets; per unsecured method 3 calls. non-trivial = decided exchange with at least one callback or an unsecured call; distinct = (feature signature, method, vector, credential classes)",
		Assume: []string{"callback order is not asserted; a callback for a later requirement after an earlier one succeeded is allowed",
			"a credential already carrying the Bearer prefix may arrive with or without it",
			"':' is not generated in basic-auth user names (RFC 7617)"},
		Profiles: []string{"security"}, Specs: [2]int{24, 300}, PerMethod: [2]int{0, 0},
		MkCases: cases.Security, Judge: oracle.C06, Floor: [2]int{150, 3000},
		NonTrivial: func(ex *rt.Exchange) bool { return len(ex.Auth) > 0 || ex.Case.Class == "unsecured" },
	}
}

func checkC08() *rtCheck {
	return &rtCheck{
		Prop: "C08",
		Rule: "specs from the views profile (result types with 1-3 views, nested result types with per-attribute view overrides, collections, recursive references, fixed views); per method and per defined view the stub returns (result, view) with full/random/minimal values; one response per view is relabelled at the tap with every other defined view and with undefined names. Oracle = reference projection from the spec's views. non-trivial = decided exchange of a viewed method; distinct = (feature signature, method, view, class, shape)",
		Assume: []string{"an attribute outside the view whose Go field cannot be nil (required or defaulted primitive) counts as unset when it holds its zero value",
			"an attribute outside the view that declares a default may show that default on the client (unset + default, the rule C03 states for attributes the wire does not carry); it must be absent on the wire all the same",
			"relabelling with another DEFINED view is only required not to crash"},
		Profiles: []string{"views"}, Specs: [2]int{24, 300}, PerMethod: [2]int{0, 0},
		MkCases: cases.Views, Judge: oracle.C08, Floor: [2]int{60, 2000},
		NonTrivial: func(ex *rt.Exchange) bool { return ex.StubIn != nil },
	}
}

type c07Witness struct {
	Spec    *spec.Spec             `json:"spec"`
	DSL     string                 `json:"dsl"`
	Mounted map[string][][2]string `json:"mounted"`
}

func checkC07() *rtCheck {
	return &rtCheck{
		Prop: "C07",
		Rule: "specs from the openapi profile (multiple routes, API/service base paths, file servers, openapi:* meta, security) plus http-loc/errors/security; per accepted+compiled design: the four generated documents are validated (OpenAPI 3: kin-openapi loader+Validate; OpenAPI 2: unmarshal + conversion + the lab's structural Swagger rules), JSON and YAML renderings compared as data, and the documented operations/parameters/bodies/status codes compared with the (verb, pattern) pairs the generated Mount registers on a recording Muxer and with the spec. non-trivial = design whose documents were checked; distinct = feature signature",
		Assume: []string{"a credential mapped to a header/query attribute may be documented as a parameter, through the security scheme, or both",
			"HEAD twins of file servers are not design operations", "OpenAPI 2 cannot express cookie parameters"},
		Profiles: []string{"openapi", "openapi", "http-loc", "errors", "security", "mixed"}, Specs: [2]int{32, 600}, PerMethod: [2]int{0, 0},
		MkCases:    func(sp *spec.Spec, sv *spec.Service, m *spec.Method, r *vc.Rand, n, start int) []*rt.Case { return nil },
		Judge:      func(sp *spec.Spec, ex *rt.Exchange) *oracle.Verdict { return &oracle.Verdict{Inconclusive: "n/a"} },
		Floor:      [2]int{10, 150},
		AllowFiles: true,
		Streams:    true,
		PostUncompiled: func(run *vc.Run, d *pipeline.Design) {
			// the documents of a design whose Go code does not build are still compared with the design (what the
			// server mounts is unknown: that half is skipped)
			v := oracle.C07(d.Spec, filepath.Join(d.Dir, "gen"), nil)
			run.Eval(1)
			run.Count("documents_checked_of_uncompiled_designs", 4)
			if v.Inconclusive != "" {
				return
			}
			for _, f := range v.Findings {
				run.Violation(f.Key, f.What, c07Witness{Spec: d.Spec, DSL: d.DSL})
			}
		},
		Unions: true,
		PostDesign: func(run *vc.Run, d *pipeline.Design, setup map[string]any) {
			mounted := map[string][][2]string{}
			if b, err := json.Marshal(setup["mounted"]); err == nil {
				_ = json.Unmarshal(b, &mounted)
			}
			v := oracle.C07(d.Spec, filepath.Join(d.Dir, "gen"), mounted)
			run.Eval(1)
			nops := 0
			for _, ps := range mounted {
				nops += len(ps)
			}
			run.Count("operations_mounted", nops)
			run.Count("documents_checked", 4)
			if v.Inconclusive != "" {
				run.Inconclusive(v.Inconclusive)
				return
			}
			for _, f := range v.Findings {
				run.Violation(f.Key, f.What, c07Witness{Spec: d.Spec, DSL: d.DSL, Mounted: mounted})
			}
			// a design counts as non-trivial when its documents were loaded and compared (findings or not)
			run.Distinct(d.Spec.Signature())
			run.Sample(map[string]any{"features": d.Spec.Features, "mounted": mounted, "findings": len(v.Findings)})
		},
	}
}

func checkC14() *rtCheck {
	return &rtCheck{
		Prop: "C14",
		Rule: "the boundary probes of C04 (valid and invalid requests through the generated client and hand-encoded, malformed encodings) plus declared errors of C05 are exchanged with the generated server; every exact wire request is judged against the operation of the generated openapi3.json by the lab's own evaluator of the OpenAPI-3.0 subset goa emits (oracle/oaeval.go, oajudge.go: path matching, parameter styles, JSON schema keywords incl. draft-4 exclusive bounds, anyOf, nullable, formats by construction class); schema verdict and server verdict must agree; success and declared-error responses must conform to the documented response of their status. kin-openapi's openapi3filter judges the same requests as a counted cross-check (its agreement rate is reported, it does not decide). non-trivial = exchange judged by both sides; distinct = (feature signature, method, probe class, shape)",
		Assume: []string{"the deciding schema evaluator is the lab's own (independent of goa); kin-openapi mis-parses integer enums in parameters and 64-bit integers, so it only cross-checks",
			"array headers are judged under both readings (comma split and one value per line)",
			"JSON bodies only; authorization is not a schema matter"},
		Profiles: []string{"validation", "errors", "http-loc", "validation", "mixed", "errors"}, Specs: [2]int{32, 500}, PerMethod: [2]int{30, 140},
		MkCases: func(sp *spec.Spec, sv *spec.Service, m *spec.Method, r *vc.Rand, n, start int) []*rt.Case {
			cs := cases.Validation(sp, sv, m, r, n, start)
			for _, e := range cases.Errors(sp, sv, m, r.Fork(77), 0, start+len(cs)) {
				if len(e.Class) >= 9 && e.Class[:9] == "declared:" {
					e.ID = start + len(cs)
					cs = append(cs, e)
				}
			}
			return cs
		},
		Judge: oracle.C14, Floor: [2]int{300, 8000}, Unions: true, Multipart: true, MultipartFew: true,
		NonTrivial: func(ex *rt.Exchange) bool { return ex.WireResp != nil },
	}
}
