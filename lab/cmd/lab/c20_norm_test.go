package main

import "testing"

func TestMergedMessageNormalisation(t *testing.T) {
	a := `{"name":"invalid_length","id":"gBRbgToR","message":"length of body.mike must be greater or equal than 2 but got value map[string]int{\"\":1000000} (len=1); length of body.mike must be greater or equal than 2 but got value map[string]int(nil) (len=0)","temporary":false}`
	b := `{"name":"invalid_length","id":"ZmibjDam","message":"length of body.mike must be greater or equal than 2 but got value map[string]int(nil) (len=0); length of body.mike must be greater or equal than 2 but got value map[string]int{\"\":1000000} (len=1)","temporary":false}`
	if stripIDs(a) != stripIDs(b) {
		t.Fatalf("order of merged parts:\n%s\n%s", stripIDs(a), stripIDs(b))
	}
	c := `{"name":"invalid_length","id":"a","message":"\"sierra\" is missing from body.first_name; length of body.mike must be greater","temporary":false}`
	d := `{"name":"missing_field","id":"b","message":"length of body.mike must be greater; \"sierra\" is missing from body.first_name","temporary":false}`
	if stripIDs(c) != stripIDs(d) {
		t.Fatalf("name of merged error:\n%s\n%s", stripIDs(c), stripIDs(d))
	}
	e := `{"name":"invalid_length","id":"a","message":"length of body.mike must be greater","temporary":false}`
	f := `{"name":"missing_field","id":"b","message":"length of body.mike must be greater","temporary":false}`
	if stripIDs(e) == stripIDs(f) {
		t.Fatalf("names of single errors must be compared")
	}
	pre := `[accounts submit]: invalid response code 400, body: `
	if stripIDs(pre+a) != stripIDs(pre+b) {
		t.Fatalf("quoted body")
	}
}
