package main

import (
	"verif.local/lab/rt"
	"verif.local/lab/spec"
	"verif.local/lab/vtree"
)

// hasFeature reports whether the design carries the feature tag.
func hasFeature(sp *spec.Spec, f string) bool {
	for _, g := range sp.Features {
		if g == f {
			return true
		}
	}
	return false
}

// holdsUnion reports whether a value tree holds a union value.
func holdsUnion(v any, depth int) bool {
	if depth > 30 {
		return false
	}
	switch x := v.(type) {
	case []any:
		for _, e := range x {
			if holdsUnion(e, depth+1) {
				return true
			}
		}
	case map[string]any:
		if _, _, ok := vtree.IsUnion(v); ok {
			return true
		}
		for _, e := range x {
			if holdsUnion(e, depth+1) {
				return true
			}
		}
	}
	return false
}

// countUnions feeds the observation counters of the union envelope: exchanges whose payload / scripted result
// holds a union value and that were decided.
func countUnions(run interface{ Count(string, int) }, ex *rt.Exchange) {
	if ex.Case == nil {
		return
	}
	if holdsUnion(ex.Case.Sent, 0) {
		run.Count("union_exchanges_payload", 1)
	}
	if ex.Case.Outcome != nil && holdsUnion(ex.Case.Outcome.Result, 0) {
		run.Count("union_exchanges_result", 1)
	}
}
