package main

import (
	"bufio"
	"bytes"
	"encoding/json"
	"fmt"
	"os"
	"os/exec"
	"path/filepath"
	"regexp"
	"sort"
	"strings"

	"verif.local/lab/cases"
	"verif.local/lab/oracle"
	"verif.local/lab/pipeline"
	"verif.local/lab/rt"
	"verif.local/lab/spec"
	"verif.local/lab/vc"
)

var idRe = regexp.MustCompile(`\\?"id\\?":\\?"[^"\\]*\\?"`)

// ptrRe: validation messages print offending values with %#v; pointers inside collections appear as
// addresses, which differ from run to run without any sharing between requests.
var ptrRe = regexp.MustCompile(`\(0x[0-9a-f]{6,}\)`)

func stripIDs(s string) string {
	return sortMessageParts(ptrRe.ReplaceAllString(idRe.ReplaceAllString(s, `"id":"X"`), "(0xPTR)"))
}

var msgRe = regexp.MustCompile(`"name":"((?:[^"\\]|\\.)*)","id":"X","message":"((?:[^"\\]|\\.)*)"`)

// sortMessageParts orders the "; "-separated parts of a merged goa error message: the generated validation code
// visits the entries of a map in Go's randomised iteration order, so the ORDER of the parts differs from run to
// run (concurrent or not) while their multiset is the observation. goa.MergeErrors keeps the NAME of the first
// error merged, so for a merged message the name is whichever part came first: not compared.
func sortMessageParts(s string) string {
	return msgRe.ReplaceAllStringFunc(s, func(m string) string {
		sub := msgRe.FindStringSubmatch(m)
		parts := strings.Split(sub[2], "; ")
		name := sub[1]
		if len(parts) > 1 {
			sort.Strings(parts)
			name = "*first-of-merged*"
		}
		return `"name":"` + name + `","id":"X","message":"` + strings.Join(parts, "; ") + `"`
	})
}

// stripTree applies stripIDs to every string of a canonical tree (error bodies quoted inside client errors).
func stripTree(v any) any {
	switch x := v.(type) {
	case string:
		return stripIDs(x)
	case []any:
		o := make([]any, len(x))
		for i := range x {
			o[i] = stripTree(x[i])
		}
		return o
	case map[string]any:
		o := map[string]any{}
		for k, e := range x {
			o[k] = stripTree(e)
		}
		return o
	}
	return v
}

// observable renders everything a client/service could observe of an exchange, without per-run noise.
func observable(ex *rt.Exchange) map[string]string {
	o := map[string]string{}
	j := func(v any) string { b, _ := json.Marshal(v); return stripIDs(string(b)) }
	o["stub_calls"] = fmt.Sprint(ex.StubCalls)
	if ex.StubIn != nil {
		o["stub_in"] = j(ex.StubIn.Payload)
	}
	var auth []string
	for _, a := range ex.Auth {
		auth = append(auth, fmt.Sprintf("%s/%s/%v/%s", a.Kind, a.Scheme, a.Creds, a.Verdict))
	}
	sort.Strings(auth)
	o["auth"] = strings.Join(auth, ";")
	if ex.WireReq != nil {
		o["wire_req"] = stripBoundary(ex.WireReq, ex.WireReq.Method+" "+ex.WireReq.URL+" "+j(ex.WireReq.Header)+" "+string(ex.WireReq.Body)) // multipart.go
	}
	if ex.WireResp != nil {
		o["status"] = fmt.Sprint(ex.WireResp.Status)
		o["resp_body"] = stripIDs(string(ex.WireResp.Body))
		h := map[string][]string{}
		for k, v := range ex.WireResp.Header {
			h[k] = v
		}
		o["resp_header"] = j(h)
		o["write_headers"] = fmt.Sprint(ex.WireResp.WriteHeaders)
	}
	if ex.ClientOut != nil {
		o["client_result"] = j(ex.ClientOut.Result)
		if e := ex.ClientOut.Err; e != nil {
			// a merged error decoded by the client (name = first part's) or a body quoted in a ClientError
			msg, name := stripIDs(e.Message), e.Name
			if !strings.Contains(msg, `"message":"`) {
				if cm := strings.Split(msg, "; "); len(cm) > 1 {
					sort.Strings(cm)
					msg, name = strings.Join(cm, "; "), "*first-of-merged*"
				}
			}
			var tree any
			if b, err := json.Marshal(e.Tree); err == nil {
				_ = json.Unmarshal(b, &tree)
			}
			if tm, ok := tree.(map[string]any); ok && name == "*first-of-merged*" {
				delete(tm, "name")
				delete(tm, "Name")
				delete(tm, "message")
				delete(tm, "Message")
			}
			tb, _ := json.Marshal(stripTree(tree))
			o["client_err"] = e.GoType + "|" + name + "|" + msg + "|" + string(tb)
		}
	}
	if ex.Panic != "" {
		o["panic"] = firstLine(ex.Panic)
	}
	o["build_err"] = ex.BuildErr
	o["stub_err"] = ex.StubErr
	// a value that moved after it was handed over (retained result / payload read again later)
	var late []string
	for _, l := range ex.LateChange {
		late = append(late, strings.SplitN(l, ":", 2)[0])
	}
	o["late_change"] = strings.Join(late, ",")
	return o
}

type c20Witness struct {
	Spec       *spec.Spec   `json:"spec"`
	DSL        string       `json:"dsl"`
	Baseline   *rt.Exchange `json:"baseline,omitempty"`
	Concurrent *rt.Exchange `json:"concurrent,omitempty"`
	Race       string       `json:"race_report,omitempty"`
	Formatter  bool         `json:"formatter"`
}

var raceFuncRe = regexp.MustCompile(`^  (\S+)\(`)

// raceReports parses GORACE logs: returns de-duplicated reports keyed by the pair of top functions.
func raceReports(dir string) map[string]string {
	out := map[string]string{}
	files, _ := filepath.Glob(filepath.Join(dir, "race.*"))
	for _, f := range files {
		b, err := os.ReadFile(f)
		if err != nil {
			continue
		}
		for _, blk := range strings.Split(string(b), "==================") {
			if !strings.Contains(blk, "WARNING: DATA RACE") {
				continue
			}
			var tops []string
			lines := strings.Split(blk, "\n")
			for i, l := range lines {
				if (strings.Contains(l, " at 0x") && strings.Contains(l, "by goroutine")) || strings.HasPrefix(l, "Previous ") {
					// first frame that is goa or generated code
					for _, fl := range lines[i+1:] {
						if strings.TrimSpace(fl) == "" {
							break
						}
						if m := raceFuncRe.FindStringSubmatch(fl); m != nil {
							fn := m[1]
							if strings.HasPrefix(fn, "runtime.") || strings.HasPrefix(fn, "sync") || strings.HasPrefix(fn, "internal/") {
								continue
							}
							tops = append(tops, normFunc(fn))
							break
						}
					}
				}
			}
			if len(tops) == 0 {
				tops = []string{"unknown"}
			}
			if len(tops) > 2 {
				tops = tops[:2]
			}
			sort.Strings(tops)
			out["race:"+strings.Join(tops, "|")] = strings.TrimSpace(blk)
		}
	}
	return out
}

var dnumRe = regexp.MustCompile(`labbatch/d\d+/`)
var svcPathRe = regexp.MustCompile(`gen/(http/)?[a-z_0-9]+/`)
var funcNumRe = regexp.MustCompile(`\.func\d+(\.\d+)*`)

func normFunc(fn string) string {
	fn = dnumRe.ReplaceAllString(fn, "")
	fn = svcPathRe.ReplaceAllString(fn, "gen/$1<svc>/")
	fn = funcNumRe.ReplaceAllString(fn, ".funcN")
	// method names of generated handlers: New<Method>Handler -> New<M>Handler
	fn = regexp.MustCompile(`New[A-Z][A-Za-z0-9]*Handler`).ReplaceAllString(fn, "New<M>Handler")
	fn = regexp.MustCompile(`(Encode|Decode)[A-Z][A-Za-z0-9]*(Request|Response|Error)`).ReplaceAllString(fn, "$1<M>$2")
	return fn
}

func checkC20() {
	run := vc.New("C20")
	run.Rule("designs from the C02-C05 envelope; per design a mixed case list (valid deliveries, validation probes, declared/undeclared/plain errors, malformed requests) is first run sequentially (baseline), then 3 rounds from 2/16/64 client goroutines against ONE mounted generated server built with the race detector, with PRNG-chosen yields/sleeps inside the service stub; every concurrent exchange must be observationally equal to the baseline exchange of the same case (stub input, auth events, wire request, status, headers, body, client result/error; error ids stripped) and the race log must be empty. non-trivial = concurrent exchange that overlapped with another; distinct = (design, case id)")
	run.Assume("the exchange record travels in the request contexts only (no process-global state in concurrent mode)",
		"race reports whose stacks lie entirely in the lab's own driver are infrastructure errors, not violations",
		"a clean race-detector run means no race on the schedules exercised")
	sc := scratch()
	ti := 0
	if run.Thorough() {
		ti = 1
	}
	nspecs := []int{8, 64}[ti]
	perMethod := []int{10, 30}[ti]
	levels := []int{2, 16, 64}
	profiles := []string{"mixed", "errors", "http-loc", "validation", "security", "views"}
	if run.Replay != "" {
		var w c20Witness
		if err := run.LoadReplay(&w); err != nil {
			run.Infra("cannot load replay: %v", err)
			run.Finish()
		}
		c20Batch(run, filepath.Join(sc, "replay"), []*spec.Spec{w.Spec}, 0, perMethod, levels, true)
		run.Finish()
	}
	var specs []*spec.Spec
	for i := 0; i < nspecs; i++ {
		prof := profiles[i%len(profiles)]
		s := genRuntimeSpec(run, 20, i, prof)
		specs = append(specs, s)
	}
	for bi := 0; bi*16 < len(specs); bi++ {
		hi := (bi + 1) * 16
		if hi > len(specs) {
			hi = len(specs)
		}
		dir := filepath.Join(sc, fmt.Sprintf("b%d", bi))
		c20Batch(run, dir, specs[bi*16:hi], bi*16, perMethod, levels, false)
		if os.Getenv("VERIF_KEEP") == "" {
			os.RemoveAll(dir)
		}
	}
	hammer(run, filepath.Join(sc, "hammer"), ti)
	run.Floor([]int{300, 5000}[ti])
	run.Finish()
}

// hammer builds (with -race) and runs the helper hammer (rt/hammer) and merges its findings.
func hammer(run *vc.Run, dir string, ti int) {
	b, err := pipeline.NewBatch(dir, nil)
	if err != nil {
		run.Infra("hammer: %v", err)
		return
	}
	_ = os.MkdirAll(filepath.Join(dir, "hm"), 0o755)
	_ = os.WriteFile(filepath.Join(dir, "hm", "main.go"), []byte("package main\n\nimport \"verif.local/lab/rt/hammer\"\n\nfunc main() { hammer.Main() }\n"), 0o644)
	bin := filepath.Join(dir, "hammer.bin")
	cmd := exec.Command("go", "build", "-race", "-o", bin, "./hm")
	cmd.Dir = dir
	cmd.Env = b.Env
	if out, err := cmd.CombinedOutput(); err != nil {
		run.Infra("hammer does not build: %v %s", err, trunc(string(out), 500))
		return
	}
	for rep, workers := range []int{2, 16, 64} {
		outPath := filepath.Join(dir, fmt.Sprintf("hammer%d.json", workers))
		raceDir := filepath.Join(dir, fmt.Sprintf("hrace%d", workers))
		_ = os.MkdirAll(raceDir, 0o755)
		ops := []int{1500, 10000}[ti]
		_, err := runDriver(bin, []string{"--out", outPath, "--workers", fmt.Sprint(workers), "--ops", fmt.Sprint(ops), "--seed", fmt.Sprint(run.Seed + uint64(rep))}, 15*60*1e9, filepath.Join(raceDir, "race"))
		if err != nil {
			run.Inconclusive("hammer failed: " + firstLine(err.Error()))
			continue
		}
		var res struct {
			Ops        int64            `json:"ops"`
			PerKind    map[string]int64 `json:"per_kind"`
			Violations []struct{ Key, What string }
		}
		bb, _ := os.ReadFile(outPath)
		if json.Unmarshal(bb, &res) != nil {
			run.Inconclusive("hammer result unreadable")
			continue
		}
		run.Eval(int(res.Ops))
		run.Count("hammer_ops", int(res.Ops))
		for k, n := range res.PerKind {
			run.Count("hammer_"+k, int(n))
			run.Distinct(fmt.Sprintf("hammer|%s|%d", k, workers))
		}
		for _, v := range res.Violations {
			run.Violation("helper:"+v.Key, v.What, map[string]any{"hammer": true, "workers": workers, "seed": run.Seed + uint64(rep)})
		}
		for k, blk := range raceReports(raceDir) {
			if !strings.Contains(blk, "goa.design/goa") {
				run.Infra("race inside the lab hammer: %s", firstLine(blk))
				continue
			}
			run.Violation("helper:"+k, "race detector report in the helper hammer", map[string]any{"hammer": true, "workers": workers, "race_report": trunc(blk, 6000)})
		}
		run.Count("race_reports_hammer", len(raceReports(raceDir)))
	}
}

func c20Batch(run *vc.Run, dir string, specs []*spec.Spec, base, perMethod int, levels []int, verbose bool) {
	b, err := runBatch(run, dir, specs, []string{"gen"})
	if err != nil {
		run.Infra("%v", err)
		return
	}
	if err := b.Compile(); err != nil {
		run.Infra("%v", err)
	}
	var ok []*pipeline.Design
	for _, d := range b.Designs {
		run.Count("designs_"+d.Status, 1)
		if d.Status != "accepted" || !d.Compiled {
			run.Inconclusive("design not drivable (C01/C12)")
			continue
		}
		if err := b.WriteHarness(d); err != nil {
			run.Inconclusive("harness: " + err.Error())
			continue
		}
		ok = append(ok, d)
	}
	berrs := b.BuildDrivers(ok, true)
	for di, d := range ok {
		if e, bad := berrs[d.ID]; bad {
			run.Inconclusive("driver build: " + firstLine(e))
			continue
		}
		zz := filepath.Join(d.Dir, "zz")
		specPath, casesPath := filepath.Join(zz, "spec.json"), filepath.Join(zz, "cases.jsonl")
		_ = os.WriteFile(specPath, d.Spec.JSON(), 0o644)
		var cs []*rt.Case
		for si, sv := range d.Spec.Services {
			if sv.NoHTTP {
				continue
			}
			for mi, m := range sv.Methods {
				r := run.Rand(21, uint64(base+di), uint64(si), uint64(mi))
				add := func(list []*rt.Case) {
					for _, c := range list {
						c.ID = len(cs)
						if c.Note == nil {
							c.Note = map[string]any{}
						}
						cs = append(cs, c)
					}
				}
				add(cases.Delivery(d.Spec, sv, m, r.Fork(1), perMethod/2+1, 0))
				add(cases.Validation(d.Spec, sv, m, r.Fork(2), perMethod, 0))
				errs := cases.Errors(d.Spec, sv, m, r.Fork(3), 0, 0)
				if len(errs) > perMethod {
					errs = errs[:perMethod]
				}
				add(errs)
			}
		}
		var buf bytes.Buffer
		for _, c := range cs {
			bb, _ := json.Marshal(c)
			buf.Write(bb)
			buf.WriteByte('\n')
		}
		_ = os.WriteFile(casesPath, buf.Bytes(), 0o644)
		for li, workers := range levels {
			formatter := (di+li)%2 == 1
			outPath := filepath.Join(zz, fmt.Sprintf("events%d.jsonl", workers))
			raceDir := filepath.Join(zz, fmt.Sprintf("race%d", workers))
			_ = os.MkdirAll(raceDir, 0o755)
			args := []string{"--spec", specPath, "--cases", casesPath, "--out", outPath, "--id", d.ID, "--mode", "conc", "--workers", fmt.Sprint(workers), "--seed", fmt.Sprint(run.Seed)}
			if formatter {
				args = append(args, "--formatter")
			}
			stderr, err := runDriver(b.DriverPath(d), args, 15*60*1e9, filepath.Join(raceDir, "race"))
			if err != nil {
				run.Inconclusive("driver failed: " + firstLine(err.Error()))
				if verbose || os.Getenv("VERIF_DEBUG") != "" {
					fmt.Fprintf(os.Stderr, "%s driver failed: %v\n%s\n", d.ID, err, stderr)
				}
			}
			c20Judge(run, d, outPath, raceDir, workers, formatter, verbose)
		}
	}
}

func c20Judge(run *vc.Run, d *pipeline.Design, outPath, raceDir string, workers int, formatter, verbose bool) {
	f, err := os.Open(outPath)
	if err != nil {
		run.Inconclusive("no event log")
		return
	}
	defer f.Close()
	sc := bufio.NewScanner(f)
	sc.Buffer(make([]byte, 1<<20), 256<<20)
	baseline := map[int]*rt.Exchange{}
	var conc []*rt.Exchange
	var summary map[string]any
	for sc.Scan() {
		line := sc.Bytes()
		if bytes.Contains(line, []byte(`"conc_summary":true`)) {
			_ = json.Unmarshal(line, &summary)
			continue
		}
		if bytes.Contains(line, []byte(`"setup":true`)) {
			continue
		}
		ex := &rt.Exchange{}
		if json.Unmarshal(line, ex) != nil || ex.Case == nil {
			continue
		}
		if ph, _ := ex.Case.Note["phase"].(string); ph == "baseline" {
			baseline[ex.Case.ID] = ex
		} else {
			conc = append(conc, ex)
		}
	}
	maxFlight := 0
	if summary != nil {
		if mf, ok := summary["max_in_flight"].(float64); ok {
			maxFlight = int(mf)
		}
		if ov, ok := summary["overlap_pairs"].(map[string]any); ok {
			for k := range ov {
				run.Seen("overlap_class_pairs", k)
			}
		}
	}
	run.Max("max_in_flight", maxFlight)
	run.Count("concurrent_exchanges", len(conc))
	run.Count("baseline_exchanges", len(baseline))
	if maxFlight < 2 && workers >= 2 && len(conc) > 20 {
		run.Inconclusive(fmt.Sprintf("no overlap observed with %d workers", workers))
	}
	for _, ex := range conc {
		run.Eval(1)
		base := baseline[ex.Case.ID]
		if base == nil {
			run.Inconclusive("no baseline for case")
			continue
		}
		if base.BuildErr != "" {
			run.Inconclusive("value builder")
			continue
		}
		bo, co := observable(base), observable(ex)
		var diffs []string
		for k, bv := range bo {
			if co[k] != bv {
				diffs = append(diffs, k)
			}
		}
		for k := range co {
			if _, ok := bo[k]; !ok {
				diffs = append(diffs, k)
			}
		}
		sort.Strings(diffs)
		if len(diffs) > 0 {
			cls := ex.Case.Class
			if i := strings.Index(cls, ":"); i > 0 {
				cls = cls[:i]
			}
			key := fmt.Sprintf("isolation:%s:differs-in-%s", cls, strings.Join(diffs, "+"))
			what := fmt.Sprintf("case %d (%s) behaves differently under %d concurrent clients than alone: %s: baseline %q vs concurrent %q", ex.Case.ID, ex.Case.Class, workers, diffs[0], trunc(bo[diffs[0]], 160), trunc(co[diffs[0]], 160))
			run.Violation(key, what, c20Witness{Spec: d.Spec, DSL: d.DSL, Baseline: base, Concurrent: ex, Formatter: formatter})
			continue
		}
		run.Distinct(fmt.Sprintf("%s|%d|%d", d.Spec.ID, ex.Case.ID, workers))
		if workers == 16 {
			run.Sample(map[string]any{"design_features": d.Spec.Features, "case_class": ex.Case.Class, "workers": workers, "status": statusOf(ex), "taps": ex.Seq})
		}
	}
	races := raceReports(raceDir)
	run.Count("race_reports", len(races))
	for k, blk := range races {
		if !strings.Contains(blk, "goa.design/goa") && !strings.Contains(blk, "labbatch/") {
			run.Infra("race inside the lab driver: %s", firstLine(blk))
			continue
		}
		fk := k
		if formatter {
			fk += ":formatter"
		} else {
			fk += ":nil-formatter"
		}
		run.Violation(fk, "race detector report under "+fmt.Sprint(workers)+" concurrent clients", c20Witness{Spec: d.Spec, DSL: d.DSL, Race: trunc(blk, 6000), Formatter: formatter})
	}
	_ = oracle.Verdict{}
}

func trunc(s string, n int) string {
	if len(s) > n {
		return s[:n] + "…"
	}
	return s
}
