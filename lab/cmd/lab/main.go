// lab: engine E1 (design lab). One sub-check per property:  lab <Cxx> [--tier ..] [--replay ..]
package main

import (
	"fmt"
	"os"
	"path/filepath"
	"regexp"
	"sort"
	"strings"
	"time"

	"verif.local/lab/dslprint"
	"verif.local/lab/gen"
	"verif.local/lab/pipeline"
	"verif.local/lab/spec"
	"verif.local/lab/vc"
)

func scratch() string {
	if d := os.Getenv("VERIF_SCRATCH_DIR"); d != "" {
		return d
	}
	d, _ := os.MkdirTemp("/var/tmp", "verif.lab.")
	return d
}

func main() {
	if len(os.Args) < 2 {
		fmt.Println("usage: lab <Cxx> [--tier quick|thorough] [--replay file]")
		os.Exit(2)
	}
	prop := os.Args[1]
	os.Args = append(os.Args[:1], os.Args[2:]...)
	switch prop {
	case "C01":
		checkC01()
	case "C02":
		runRuntime(checkC02())
	case "C03":
		runRuntime(checkC03())
	case "C04":
		runRuntime(checkC04())
	case "C05":
		runRuntime(checkC05())
	case "C06":
		runRuntime(checkC06())
	case "C07":
		runRuntime(checkC07())
	case "C08":
		runRuntime(checkC08())
	case "C14":
		runRuntime(checkC14())
	case "C20":
		checkC20()
	case "dsl":
		// debugging aid: lab dsl <index> [profile] prints the DSL of the C01 spec with that index at VERIF_SEED
		run := vc.New("sample")
		idx := 0
		fmt.Sscanf(os.Args[1], "%d", &idx)
		prof := c01Profiles[idx%len(c01Profiles)]
		if len(os.Args) > 2 {
			prof = os.Args[2]
		}
		s := gen.Generate(run.Rand(1, uint64(idx)), fmt.Sprintf("%d", idx), gen.Opts{Profile: prof, Thorough: os.Getenv("VERIF_TIER") == "thorough"})
		if len(os.Args) > 3 && os.Args[3] == "runtime" {
			// the spec a runtime check (C02..C08, C14) draws at this index for this profile
			s = gen.Generate(run.Rand(2, uint64(idx)), fmt.Sprintf("%d", idx), gen.Opts{Profile: prof, Runtime: true, Thorough: os.Getenv("VERIF_TIER") == "thorough"})
		}
		fmt.Println(dslprint.Func(s, "D"))
		return
	case "gen-sample":
		// debugging aid: VERIF_SAMPLE=<Cxx>:<index> prints the DSL of the design a check draws at that index
		// (honours --tier / VERIF_SEED); without it, the JSON of a few mixed specs
		run := vc.New("sample")
		if v := os.Getenv("VERIF_SAMPLE"); v != "" {
			var prop string
			var idx int
			if i := strings.Index(v, ":"); i > 0 {
				prop = v[:i]
				fmt.Sscanf(v[i+1:], "%d", &idx)
			}
			if sp := sampleSpec(run, prop, idx); sp != nil {
				fmt.Println(dslprint.Func(sp, "D"))
				fmt.Println("// features:", sp.Features)
			}
			return
		}
		for i := 0; i < 3; i++ {
			s := gen.Generate(run.Rand(uint64(i)), fmt.Sprintf("s%d", i), gen.Opts{Profile: "mixed"})
			fmt.Println(string(s.JSON()))
		}
	default:
		fmt.Println("unknown property", prop)
		os.Exit(2)
	}
}

var c01Profiles = []string{"naming", "naming", "mixed", "http-loc", "validation", "errors", "security", "views", "openapi", "mixed", "views", "naming"}

type c01Witness struct {
	Spec   *spec.Spec `json:"spec"`
	DSL    string     `json:"dsl"`
	Status string     `json:"status"`
	Phase  string     `json:"phase,omitempty"`
	Errors string     `json:"errors,omitempty"`
	Stack  string     `json:"stack,omitempty"`
	Diags  []string   `json:"diags,omitempty"`
}

func witnessOf(d *pipeline.Design) c01Witness {
	return c01Witness{Spec: d.Spec, DSL: d.DSL, Status: d.Status, Phase: d.Phase, Errors: d.Errors, Stack: d.Stack, Diags: d.Diags}
}

// judgeC01 applies the C01 oracle to one design that went through the pipeline.
func judgeC01(run *vc.Run, d *pipeline.Design, rejects map[string]int) {
	run.Eval(1)
	run.Count("designs_"+d.Status, 1)
	streaming := hasStreaming(d.Spec)
	if streaming {
		run.Count("stream_designs_"+d.Status, 1)
	}
	switch d.Status {
	case "rejected":
		first := strings.SplitN(d.Errors, "\n", 2)[0]
		rejects[pipeline.NormMsg(first)]++
		if os.Getenv("VERIF_DEBUG") != "" {
			fmt.Fprintf(os.Stderr, "REJECTED %s: %s\n", d.ID, d.Errors)
		}
		return
	case "panic":
		site := vc.PanicSite(d.Stack, "/repo/", strings.TrimPrefix(pipeline.Repo(), "/")+"/")
		if d.Phase == "dsl" || d.Phase == "eval" {
			// not accepted yet: C12's business; inconclusive for C01
			run.Inconclusive("panic during DSL evaluation at " + site + " (C12)")
			return
		}
		run.Violation("panic:"+d.Phase+":"+site, fmt.Sprintf("accepted design, generator %q panicked: %s", d.Phase, d.Errors), witnessOf(d))
		return
	case "generror":
		if strings.Contains(d.Errors, "unsupported type: map[bool]") {
			run.Violation("generror:"+d.Phase+":openapi-json-unsupported-map-key-bool", fmt.Sprintf("accepted design, generator %q failed: %s", d.Phase, firstLine(d.Errors)), witnessOf(d))
			return
		}
		run.Violation("generror:"+d.Phase+":"+pipeline.NormMsg(firstLine(d.Errors)), fmt.Sprintf("accepted design, generator %q failed: %s", d.Phase, firstLine(d.Errors)), witnessOf(d))
		return
	case "timeout":
		run.Inconclusive("generator watchdog")
		return
	case "crash", "nodesign":
		if d.Phase == "" && !strings.Contains(d.Stack, "goroutine") {
			run.Inconclusive("labgen did not run: " + firstLine(d.Errors))
			return
		}
		run.Violation("crash:"+firstLine(lastFatal(d.Stack)), "generator process crashed: "+firstLine(lastFatal(d.Stack)), witnessOf(d))
		return
	}
	// accepted
	if len(d.Diags) > 0 {
		// one key per (file role, first diagnostic in that file): later diagnostics of a file are
		// usually consequences of the first
		seenFile := map[string]bool{}
		for _, dg := range d.Diags {
			role := pipeline.FileRole(diagPath(dg))
			if seenFile[role] {
				continue
			}
			seenFile[role] = true
			k := "compile:" + pipeline.NormDiag(dg)
			if t := c01Trigger(d.Spec, role, dg); t != "" {
				// the design belongs to the trigger class of a triaged root cause AND the
				// diagnostic is the symptom that root cause produces in this file role
				k = "trigger:" + t + ":compile:" + role
			}
			run.Violation(k, "accepted design generates code that does not compile: "+dg, witnessOf(d))
		}
		return
	}
	run.Count("designs_compiled", 1)
	if streaming {
		run.Count("stream_designs_compiled", 1)
		for _, sv := range d.Spec.Services {
			for _, m := range sv.Methods {
				if m.Stream != "" && m.HTTP != nil {
					run.Count("stream_methods_compiled_"+m.Stream, 1)
				}
			}
		}
	}
	run.Count("files_generated", len(d.Sums))
	run.Distinct(d.Spec.Signature())
	for _, f := range d.Spec.Features {
		run.Seen("features", f)
	}
	fs := d.Spec.Features
	for i := range fs {
		for j := i + 1; j < len(fs); j++ {
			run.Seen("feature_pairs", fs[i]+"+"+fs[j])
		}
	}
}

// hasStreaming reports whether a spec has an HTTP streaming (websocket) method.
func hasStreaming(sp *spec.Spec) bool {
	for _, sv := range sp.Services {
		for _, m := range sv.Methods {
			if m.Stream != "" && m.HTTP != nil {
				return true
			}
		}
	}
	return false
}

func firstLine(s string) string { return strings.SplitN(strings.TrimSpace(s), "\n", 2)[0] }

func lastFatal(s string) string {
	for _, l := range strings.Split(s, "\n") {
		if strings.HasPrefix(l, "fatal error:") || strings.HasPrefix(l, "panic:") || strings.HasPrefix(l, "runtime:") {
			return l
		}
	}
	return firstLine(s)
}

func runBatch(run *vc.Run, dir string, specs []*spec.Spec, cmds []string) (*pipeline.Batch, error) {
	b, err := pipeline.NewBatch(dir, specs)
	if err != nil {
		return nil, err
	}
	if cmds != nil {
		b.Cmds = cmds
	}
	t0 := time.Now()
	if err := b.BuildLabgen(); err != nil {
		return nil, err
	}
	t1 := time.Now()
	b.Generate()
	if os.Getenv("VERIF_DEBUG") != "" {
		fmt.Fprintf(os.Stderr, "batch %s: labgen build %.1fs, generate %.1fs\n", dir, t1.Sub(t0).Seconds(), time.Since(t1).Seconds())
		for _, d := range b.Designs {
			if d.GenSecs > 5 {
				fmt.Fprintf(os.Stderr, "  slow design %s: %.1fs status=%s\n", d.ID, d.GenSecs, d.Status)
			}
		}
	}
	return b, nil
}

func checkC01() {
	run := vc.New("C01")
	run.Rule("specs drawn from (seed, index, steering profile) inside the design envelope (DESIGN §4), printed as DSL, run through the real eval.RunDSL + generator.Generate(gen, example) in a fresh process each, every written package compiled with go build -gcflags=-e; non-trivial = accepted by goa and compiled; distinct = distinct feature signature")
	run.Assume("generated example mains compile against stand-in goa.design/clue packages (signatures transcribed from clue's API)",
		"gRPC designs use a stand-in protoc (no real protoc in the sandbox)")
	sc := scratch()
	rejects := map[string]int{}
	if run.Replay != "" {
		var w c01Witness
		if err := run.LoadReplay(&w); err != nil {
			run.Infra("cannot load replay: %v", err)
			run.Finish()
		}
		b, err := runBatch(run, filepath.Join(sc, "replay"), []*spec.Spec{w.Spec}, nil)
		if err != nil {
			run.Infra("%v", err)
			run.Finish()
		}
		if err := b.Compile(); err != nil {
			run.Infra("%v", err)
		}
		d := b.Designs[0]
		fmt.Println(d.DSL)
		fmt.Printf("status=%s phase=%s errors=%s\n", d.Status, d.Phase, d.Errors)
		for _, dg := range d.Diags {
			fmt.Println("diag:", dg)
		}
		judgeC01(run, d, rejects)
		run.Finish()
	}
	total := run.N(128, 1500)
	per := 64
	idx := 0
	for bi := 0; idx < total; bi++ {
		n := per
		if total-idx < n {
			n = total - idx
		}
		var specs []*spec.Spec
		for i := 0; i < n; i++ {
			prof := c01Profiles[(idx+i)%len(c01Profiles)]
			s := gen.Generate(run.Rand(1, uint64(idx+i)), fmt.Sprintf("%d", idx+i), gen.Opts{Profile: prof, Thorough: run.Thorough(), Unions: true})
			s.AddFeature("profile-" + prof)
			specs = append(specs, s)
		}
		idx += n
		dir := filepath.Join(sc, fmt.Sprintf("b%d", bi))
		b, err := runBatch(run, dir, specs, nil)
		if err != nil {
			run.Infra("%v", err)
			break
		}
		if err := b.Compile(); err != nil {
			run.Infra("%v", err)
		}
		for _, d := range b.Designs {
			judgeC01(run, d, rejects)
			if d.Status == "accepted" && d.Compiled {
				run.Sample(map[string]any{"features": d.Spec.Features, "files": len(d.Sums), "dsl_head": head(d.DSL, 600)})
			}
		}
		if os.Getenv("VERIF_KEEP") == "" {
			os.RemoveAll(dir)
		}
	}
	if len(rejects) > 0 {
		keys := make([]string, 0, len(rejects))
		for k := range rejects {
			keys = append(keys, k)
		}
		sort.Slice(keys, func(i, j int) bool { return rejects[keys[i]] > rejects[keys[j]] })
		rj := map[string]int{}
		for i, k := range keys {
			if i < 12 {
				rj[k] = rejects[k]
			}
		}
		run.Extra("rejection_reasons_top", rj)
	}
	run.Floor(run.N(15, 200))
	run.Finish()
}

func head(s string, n int) string {
	if len(s) > n {
		return s[:n] + "…"
	}
	return s
}

func diagPath(dg string) string {
	if i := strings.Index(dg, ": "); i >= 0 {
		dg = dg[:i]
	}
	if j := strings.LastIndex(dg, ":"); j >= 0 {
		dg = dg[:j]
	}
	return dg
}

// c01Trigger names the triaged root cause (findings/C01-*.md, known_findings.json) that accounts for a
// compile diagnostic: the design must satisfy the root cause's trigger predicate and the diagnostic must be
// the symptom it produces in that file role. Anything else keeps its granular key.
func c01Trigger(sp *spec.Spec, role, dg string) string {
	has := func(sub string) bool { return strings.Contains(dg, sub) }
	norm := func(n string) string { return strings.ToLower(strings.ReplaceAll(spec.Norm(n), "_", "")) }
	switch {
	case strings.HasSuffix(role, "/encode_decode.go") && has("declared and not used"):
		// a primitive payload mapped as a whole to a header or cookie (goldens header-primitive-*, decode-cookie-primitive-*)
		for _, sv := range sp.Services {
			for _, m := range sv.Methods {
				if m.HTTP == nil {
					continue
				}
				for _, l := range append(append([]spec.Loc{}, m.HTTP.Headers...), m.HTTP.Cookies...) {
					if l.Attr == "" {
						return "primitive-payload-in-header-or-cookie"
					}
				}
			}
		}
	case strings.HasSuffix(role, "/client/encode_decode.go") && has("cannot use") && has("p."):
		// a path parameter whose Go name is p shadows the payload variable (golden client_request_build_functions path-string*)
		for _, sv := range sp.Services {
			for _, m := range sv.Methods {
				if m.HTTP == nil {
					continue
				}
				for _, l := range m.HTTP.Path {
					if norm(l.Attr) == "p" || norm(l.WireName()) == "p" {
						return "path-param-named-p"
					}
				}
			}
		}
	case strings.HasSuffix(role, "/service.go") && (has("unknown field") || has("has no field or method")):
		// a type that uses Reference(base) and inherits (Attribute("name") without type) an attribute whose type reaches
		// a user type DECLARED LATER: the inherited attribute's type is copied while that later type is still empty,
		// the service package gets `type X struct{}` (findings/C01-empty-struct-of-later-declared-type.design.go)
		pos := map[string]int{}
		for i, t := range sp.Types {
			pos[t.Name] = i
		}
		var reaches func(t *spec.Type, after int, seen map[string]bool) bool
		reaches = func(t *spec.Type, after int, seen map[string]bool) bool {
			if t == nil {
				return false
			}
			if t.Kind == spec.Ref {
				if seen[t.Ref] {
					return false
				}
				seen[t.Ref] = true
				if pos[t.Ref] > after {
					return true
				}
				if ut := sp.Type(t.Ref); ut != nil {
					return reaches(ut.Def, after, seen)
				}
				return false
			}
			for _, a := range t.Attrs {
				if reaches(a.Type, after, seen) {
					return true
				}
			}
			if t.Elem != nil && reaches(t.Elem.Type, after, seen) {
				return true
			}
			return t.Key != nil && reaches(t.Key.Type, after, seen)
		}
		for i, t := range sp.Types {
			if t.Def == nil {
				continue
			}
			for _, a := range t.Def.Attrs {
				if a.Inherit == "reference" && reaches(a.Type, i, map[string]bool{}) {
					return "reference-inherits-type-declared-later"
				}
			}
		}
	case strings.HasSuffix(role, "/service.go") && has("field and method with the same name"):
		// an error type with an attribute whose Go name is Error / ErrorName / GoaErrorName
		for _, t := range sp.Types {
			if t.Def == nil {
				continue
			}
			for _, a := range t.Def.Attrs {
				switch norm(a.Name) {
				case "error", "errorname", "goaerrorname":
					return "error-type-field-named-error"
				}
			}
		}
	case strings.HasPrefix(role, "gen/http/") && (strings.HasSuffix(role, "/types.go") || strings.HasSuffix(role, "/encode_decode.go")) &&
		(has("StreamingBody") || streamPayloadNames(sp, dg)):
		// the streaming body never goes through makeHTTPType (findings/C01-stream-body-http-type): a StreamingPayload
		// that reaches a union or a primitive alias type; the diagnostic names a ...StreamingBody type, the alias or the union
		if streamPayloadHas(sp, func(t *spec.Type) bool { return aliasOrUnionName(sp, t, nil) }) {
			return "streaming-payload-union-or-alias"
		}
	case strings.HasPrefix(role, "gen/http/") && strings.HasSuffix(role, "/websocket.go") && has("undefined: utf8"):
		// the websocket files inline the validation of streamed messages that are not user types but do not
		// import unicode/utf8 (findings/C01-stream-validation-utf8-import)
		if streamMsgStringLength(sp) {
			return "streaming-message-string-length"
		}
	case strings.HasSuffix(role, "/views/view.go") && (has("!= nil (mismatched types") || has("cannot indirect")):
		// the views package validates a primitive alternative of a union with pointer semantics
		// (findings/C01-union-view-member-validation): the diagnostic names the view type of a validated
		// primitive alternative, <Union><Alternative>View
		if unionViewAltNamed(sp, dg) {
			return "view-union-primitive-alternative-validation"
		}
	case strings.HasPrefix(role, "cmd/") && has("undefined: httpPortF"):
		// goa example for an API without any HTTP endpoint (golden server-sercice-for-only-grpc)
		for _, sv := range sp.Services {
			for _, m := range sv.Methods {
				if m.HTTP != nil {
					return ""
				}
			}
			if len(sv.Files) > 0 {
				return ""
			}
		}
		return "example-main-of-grpc-only-api"
	}
	return ""
}

// unionViewAltNamed reports whether the diagnostic names the view type goa generates for a primitive
// alternative (carrying validations) of some OneOf attribute of the design.
func unionViewAltNamed(sp *spec.Spec, dg string) bool {
	low := strings.ToLower(dg)
	found := false
	var walk func(t *spec.Type, depth int)
	walk = func(t *spec.Type, depth int) {
		if t == nil || depth > 12 || found {
			return
		}
		switch t.Kind {
		case spec.Array, spec.Map:
			walk(t.Elem.Type, depth+1)
		case spec.Object:
			for _, a := range t.Attrs {
				if a.Type.Kind == spec.Union {
					for _, alt := range a.Type.Attrs {
						if spec.IsPrim(alt.Type.Kind) && !alt.Val.Empty() && strings.Contains(low, spec.Norm(a.Name)+spec.Norm(alt.Name)+"view") {
							found = true
						}
					}
					continue
				}
				walk(a.Type, depth+1)
			}
		}
	}
	for _, ut := range sp.Types {
		walk(ut.Def, 0)
	}
	for _, sv := range sp.Services {
		for _, m := range sv.Methods {
			for _, a := range []*spec.Attr{m.Payload, m.Result} {
				if a != nil {
					walk(a.Type, 0)
				}
			}
		}
	}
	return found
}

// streamPayloadHas reports whether the StreamingPayload of some HTTP streaming method reaches (through
// attributes, elements, keys and user types) a type satisfying pred.
func streamPayloadHas(sp *spec.Spec, pred func(t *spec.Type) bool) bool {
	seen := map[string]bool{}
	var walk func(t *spec.Type) bool
	walk = func(t *spec.Type) bool {
		if t == nil {
			return false
		}
		if pred(t) {
			return true
		}
		switch t.Kind {
		case spec.Ref:
			if seen[t.Ref] {
				return false
			}
			seen[t.Ref] = true
			if ut := sp.Type(t.Ref); ut != nil {
				return walk(ut.Def)
			}
		case spec.Array, spec.Map:
			if t.Key != nil && walk(t.Key.Type) {
				return true
			}
			return t.Elem != nil && walk(t.Elem.Type)
		case spec.Object, spec.Union:
			for _, a := range t.Attrs {
				if walk(a.Type) {
					return true
				}
			}
		}
		return false
	}
	for _, sv := range sp.Services {
		for _, m := range sv.Methods {
			if m.Stream != "" && m.HTTP != nil && m.StreamP != nil && walk(m.StreamP.Type) {
				return true
			}
		}
	}
	return false
}

// aliasOrUnionName reports whether t is a reference to a primitive alias type or an object with a union
// attribute; with names != nil the normalised names of the alias / union attributes are collected.
func aliasOrUnionName(sp *spec.Spec, t *spec.Type, names map[string]bool) bool {
	found := false
	switch t.Kind {
	case spec.Union:
		found = true
	case spec.Ref:
		if ut := sp.Type(t.Ref); ut != nil && ut.Kind == "alias" {
			found = true
			if names != nil {
				names[spec.Norm(ut.Name)] = true
			}
		}
	case spec.Object:
		for _, a := range t.Attrs {
			if a.Type.Kind == spec.Union {
				found = true
				if names != nil {
					names[spec.Norm(a.Name)] = true
				}
			}
		}
	}
	return found
}

var goIdentRe = regexp.MustCompile(`[A-Za-z_][A-Za-z0-9_]*`)

// streamPayloadNames reports whether a diagnostic mentions the Go name of a primitive alias type or of a
// union attribute reachable from the StreamingPayload of an HTTP streaming method.
func streamPayloadNames(sp *spec.Spec, dg string) bool {
	names := map[string]bool{}
	streamPayloadHas(sp, func(t *spec.Type) bool { aliasOrUnionName(sp, t, names); return false })
	if len(names) == 0 {
		return false
	}
	if i := strings.Index(dg, ": "); i >= 0 {
		dg = dg[i+2:] // the message, not the file name
	}
	for _, id := range goIdentRe.FindAllString(dg, -1) {
		if names[spec.Norm(id)] {
			return true
		}
	}
	return false
}

// streamMsgStringLength reports whether some HTTP streaming method streams (or, client stream, returns) a
// primitive, array or map whose strings carry a length validation outside of any user type.
func streamMsgStringLength(sp *spec.Spec) bool {
	var has func(a *spec.Attr) bool
	has = func(a *spec.Attr) bool {
		if a == nil || a.Type == nil {
			return false
		}
		switch a.Type.Kind {
		case spec.String:
			return a.Val != nil && (a.Val.MinLen != nil || a.Val.MaxLen != nil)
		case spec.Array, spec.Map:
			return has(a.Type.Key) || has(a.Type.Elem)
		}
		return false
	}
	for _, sv := range sp.Services {
		for _, m := range sv.Methods {
			if m.Stream != "" && m.HTTP != nil && (has(m.StreamP) || has(m.Result)) {
				return true
			}
		}
	}
	return false
}

// sampleSpec redraws the spec a check generates at a given index (debugging aid).
func sampleSpec(run *vc.Run, prop string, idx int) *spec.Spec {
	id := fmt.Sprintf("%d", idx)
	if prop == "C01" {
		prof := c01Profiles[idx%len(c01Profiles)]
		return gen.Generate(run.Rand(1, uint64(idx)), id, gen.Opts{Profile: prof, Thorough: run.Thorough(), Unions: true})
	}
	var c *rtCheck
	switch prop {
	case "C02":
		c = checkC02()
	case "C03":
		c = checkC03()
	case "C04":
		c = checkC04()
	case "C05":
		c = checkC05()
	case "C06":
		c = checkC06()
	case "C07":
		c = checkC07()
	case "C08":
		c = checkC08()
	case "C14":
		c = checkC14()
	default:
		return nil
	}
	prof := c.Profiles[idx%len(c.Profiles)]
	return gen.Generate(run.Rand(2, uint64(idx)), id, gen.Opts{Profile: prof, Runtime: true, Thorough: run.Thorough(), Files: c.AllowFiles, Streams: c.Streams, Unions: c.Unions, Multipart: c.Multipart, MultipartFew: c.MultipartFew})
}
