package main

import (
	"regexp"
	"sort"
	"strings"
	"unicode"

	"verif.local/lab/pipeline"
	"verif.local/lab/protostub"
	"verif.local/lab/spec"
)

// Violation keys for compile diagnostics: identifiers that come from the DESIGN
// (service, method, type, attribute names) are replaced by placeholders and the
// naming class of the names involved is appended; identifiers of goa's own
// templates (grpccli, message, httpPortF, ...) are kept, so that two different
// defects never share a key and the same defect has the same key for every seed.

type named struct {
	norm string
	kind string // svc api method type attr
	raw  string
}

func designNames(s *spec.Spec) []named {
	var out []named
	add := func(kind, raw string) {
		if n := spec.Norm(raw); n != "" {
			out = append(out, named{n, kind, raw})
		}
	}
	add("api", s.API.Name)
	var walk func(t *spec.Type)
	walk = func(t *spec.Type) {
		if t == nil {
			return
		}
		for _, a := range t.Attrs {
			add("attr", a.Name)
			walk(a.Type)
		}
		if t.Elem != nil {
			walk(t.Elem.Type)
		}
		if t.Key != nil {
			walk(t.Key.Type)
		}
	}
	for _, t := range s.Types {
		add("type", t.Name)
		walk(t.Def)
	}
	for _, sv := range s.Services {
		add("svc", sv.Name)
		for _, m := range sv.Methods {
			add("method", m.Name)
			for _, b := range []*spec.Attr{m.Payload, m.Result, m.StreamP} {
				if b != nil {
					walk(b.Type)
				}
			}
			for _, e := range m.Errors {
				add("error", e.Name)
			}
		}
	}
	// longest first; on equal names methods and services win over attributes
	rank := map[string]int{"svc": 0, "method": 1, "type": 2, "api": 3, "error": 4, "attr": 5}
	sort.SliceStable(out, func(i, j int) bool {
		if len(out[i].norm) != len(out[j].norm) {
			return len(out[i].norm) > len(out[j].norm)
		}
		return rank[out[i].kind] < rank[out[j].kind]
	})
	return out
}

// goaVocabulary lists local identifiers of goa's templates that are never design names in that position.
var goaVocabulary = map[string]bool{"message": true, "payload": true, "result": true, "res": true, "p": true, "v": true, "err": true, "ok": true,
	"md": true, "hdr": true, "trlr": true, "ctx": true, "stream": true, "view": true, "vals": true, "val": true, "key": true, "elem": true,
	"resp": true, "req": true, "fmt": true, "inv": true, "opts": true, "cc": true, "e": true, "s": true, "c": true, "grpccli": true, "body": true}

var protoKeywords = map[string]bool{"bool": true, "bytes": true, "double": true, "fixed32": true, "fixed64": true, "float": true, "int32": true,
	"int64": true, "sfixed32": true, "sfixed64": true, "sint32": true, "sint64": true, "string": true, "uint32": true, "uint64": true, "enum": true,
	"import": true, "map": true, "message": true, "oneof": true, "option": true, "package": true, "public": true, "repeated": true,
	"reserved": true, "returns": true, "rpc": true, "service": true, "syntax": true, "stream": true, "optional": true, "group": true}

var goKeywordSet = map[string]bool{"break": true, "case": true, "chan": true, "const": true, "continue": true, "default": true, "defer": true,
	"else": true, "fallthrough": true, "for": true, "func": true, "go": true, "goto": true, "if": true, "import": true, "interface": true, "map": true,
	"package": true, "range": true, "return": true, "select": true, "struct": true, "switch": true, "type": true, "var": true}

var pbMethodNames = map[string]bool{"Reset": true, "String": true, "ProtoMessage": true, "Marshal": true, "Unmarshal": true,
	"ExtensionRangeArray": true, "ExtensionMap": true, "Descriptor": true, "ProtoReflect": true}

// nameClass names the naming hazards a design name carries.
func nameClass(raw string, all []named) []string {
	var cs []string
	l := strings.ToLower(raw)
	if protoKeywords[l] {
		cs = append(cs, "proto-keyword")
	}
	if goKeywordSet[l] {
		cs = append(cs, "go-keyword")
	}
	if pbMethodNames[protostub.GoCamelCase(raw)] {
		cs = append(cs, "pb-method-name")
	}
	for _, o := range all {
		if o.kind == "attr" && o.norm == "get"+spec.Norm(raw) {
			cs = append(cs, "getter-shadowed")
			break
		}
	}
	if strings.HasPrefix(spec.Norm(raw), "get") && len(spec.Norm(raw)) > 3 {
		cs = append(cs, "get-prefix")
	}
	return cs
}

func camelWords(id string) []string {
	var ws []string
	cur := ""
	flush := func() {
		if cur != "" {
			ws = append(ws, cur)
			cur = ""
		}
	}
	rs := []rune(id)
	for i, r := range rs {
		switch {
		case r == '_':
			flush()
			ws = append(ws, "_")
		case unicode.IsUpper(r) && i > 0 && (!unicode.IsUpper(rs[i-1]) || (i+1 < len(rs) && unicode.IsLower(rs[i+1]))):
			flush()
			cur = string(r)
		default:
			cur += string(r)
		}
	}
	flush()
	return ws
}

var pkgSuffixes = []string{"pb", "svr", "views", "client", "server", "c", ""}

// abstractIdent replaces the design-derived parts of one identifier; it reports the classes of the names it found.
func abstractIdent(id string, names []named, classes map[string]bool) string {
	if goaVocabulary[id] {
		return id
	}
	core := strings.TrimRight(id, "_")
	trail := id[len(core):]
	note := func(n named) {
		for _, c := range nameClass(n.raw, names) {
			classes[n.kind+":"+c] = true
		}
	}
	if core == strings.ToLower(core) { // package-like identifier (goa keeps the underscores of a service name: user_storepb)
		for _, suf := range pkgSuffixes {
			if !strings.HasSuffix(core, suf) {
				continue
			}
			base := core[:len(core)-len(suf)]
			for _, n := range names {
				if (n.kind == "svc" || n.kind == "api" || suf == "") && (n.norm == base || n.norm == spec.Norm(base)) {
					note(n)
					return "<" + n.kind + ">" + suf + trail
				}
			}
		}
	}
	ws := camelWords(core)
	out := make([]string, 0, len(ws))
	for i := 0; i < len(ws); {
		matched := false
		for j := len(ws); j > i && !matched; j-- {
			span := spec.Norm(strings.Join(ws[i:j], ""))
			if span == "" {
				continue
			}
			// short names only count when they are the whole identifier or carry goa's "Raw" suffix
			if len(span) < 3 && !(i == 0 && (j == len(ws) || (j == len(ws)-1 && ws[j] == "Raw"))) {
				continue
			}
			for _, n := range names {
				if n.norm == span {
					note(n)
					out = append(out, "<"+n.kind+">")
					i = j
					matched = true
					break
				}
			}
		}
		if !matched {
			out = append(out, ws[i])
			i++
		}
	}
	return strings.Join(out, "") + trail
}

var (
	wrapperRe = regexp.MustCompile(`\b(ArrayOf|MapOf)[A-Za-z0-9]+\b`)
	identRe   = regexp.MustCompile(`[A-Za-z_][A-Za-z0-9_]*`)
	numRe     = regexp.MustCompile(`\b\d+\b`)
)

// compilerWords are the words of the Go compiler's own messages.
var compilerWords = map[string]bool{}

func init() {
	for _, w := range strings.Fields(`type func value variable struct of in as cannot use undefined redeclared this block declared and not used missing method does
		implement argument to return statement assignment error string int bool field or has no imported mismatched types invalid operation untyped nil constant expected
		found syntax unexpected too many few arguments call have want with pointer interface map key duplicate case label defined other declaration float32 float64
		int32 int64 uint uint32 uint64 byte any convert non name on left side new variables is a an the for receiver composite literal unknown already during selector
		ambiguous initialization cycle refers multiple context assign index slice range over mismatch values but returns indirect operator literal not impossible
		assertion compare comparison by possibly it must be never shadowed true false len cap make append WRAPPER built`) {
		compilerWords[w] = true
	}
}

// keyDiag builds the violation key of one compile diagnostic ("path:line: message").
func keyDiag(s *spec.Spec, diag string) string {
	i := strings.Index(diag, ": ")
	path, msg := diag, ""
	if i >= 0 {
		path, msg = diag[:i], diag[i+2:]
	}
	if j := strings.LastIndex(path, ":"); j >= 0 {
		path = path[:j]
	}
	names := designNames(s)
	classes := map[string]bool{}
	// the wrapper messages goa declares for nested collections are named after their element types
	// (ArrayOfMapOfSint64Double): one class, whatever the element types
	msg = wrapperRe.ReplaceAllString(msg, "WRAPPER")
	msg = numRe.ReplaceAllString(msg, "N")
	msg = identRe.ReplaceAllStringFunc(msg, func(id string) string {
		if id == "N" || compilerWords[id] {
			return id
		}
		return abstractIdent(id, names, classes)
	})
	key := "compile:" + pipeline.FileRole(path) + ": " + msg
	if len(classes) > 0 {
		cs := make([]string, 0, len(classes))
		for c := range classes {
			cs = append(cs, c)
		}
		sort.Strings(cs)
		key += " [" + strings.Join(cs, ",") + "]"
	}
	return key
}

var protoWords = map[string]bool{"message": true, "repeated": true, "optional": true, "map": true, "oneof": true, "rpc": true, "returns": true,
	"stream": true, "service": true, "syntax": true, "package": true, "option": true, "import": true, "enum": true, "reserved": true}

// lineShape abstracts the offending line of a malformed .proto: names become ID, numbers N, the proto vocabulary stays.
func lineShape(src string, line int) string {
	ls := strings.Split(src, "\n")
	if line < 1 || line > len(ls) {
		return "<end of file>"
	}
	l := strings.TrimSpace(ls[line-1])
	if l == "" {
		return "<empty line>"
	}
	l = numRe.ReplaceAllString(l, "N")
	return identRe.ReplaceAllStringFunc(l, func(id string) string {
		if id == "N" || protoWords[id] || protostub.Scalars[id] {
			return id
		}
		return "ID"
	})
}
