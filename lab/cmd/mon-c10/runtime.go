package main

import (
	"bufio"
	"bytes"
	"encoding/json"
	"fmt"
	"hash/fnv"
	"os"
	"os/exec"
	"path/filepath"
	"strings"
	"sync"

	"verif.local/lab/cases"
	"verif.local/lab/oracle"
	"verif.local/lab/pipeline"
	"verif.local/lab/rt"
	"verif.local/lab/spec"
	"verif.local/lab/vc"
)

// Runtime half of C10 (second sentence of the property): for every gRPC design that was accepted, generated,
// found structurally sound and compiles against the stand-in *.pb.go files, a driver program linked with the
// REAL generated code (pipeline.WriteGRPCHarness + package rtgrpc) runs the case list of cases.GRPCCases as a
// child process (one per design, `timeout -s QUIT`, every case named on disk before it runs) and records one
// JSON line per exchange; oracle.C10RT decides each exchange offline from the spec.

type rtWitness struct {
	Spec     *spec.Spec    `json:"spec"`
	DSL      string        `json:"dsl"`
	Exchange *rt.GExchange `json:"exchange,omitempty"`
	Crash    string        `json:"crash,omitempty"`
	Stderr   string        `json:"stderr,omitempty"`
}

func specSalt(s *spec.Spec) uint64 {
	h := fnv.New64a()
	h.Write([]byte(s.ID))
	return h.Sum64()
}

// rtCases builds the case list of a design: a function of (seed, tier, spec) only.
func rtCases(run *vc.Run, sp *spec.Spec) []*rt.GCase {
	n := run.N(4, 8)
	var cs []*rt.GCase
	for si, sv := range sp.Services {
		if !sv.GRPC {
			continue
		}
		for mi, m := range sv.Methods {
			r := run.Rand(7, specSalt(sp), uint64(si), uint64(mi))
			cs = append(cs, cases.GRPCCases(sp, sv, m, r, n, len(cs))...)
		}
	}
	for i, c := range cs {
		c.ID = i
	}
	return cs
}

func readGExchanges(path string) (setup map[string]any, exs []*rt.GExchange, late int, err error) {
	f, err := os.Open(path)
	if err != nil {
		return nil, nil, 0, err
	}
	defer f.Close()
	sc := bufio.NewScanner(f)
	sc.Buffer(make([]byte, 1<<20), 256<<20)
	for sc.Scan() {
		line := sc.Bytes()
		if bytes.Contains(line, []byte(`"setup":true`)) && setup == nil {
			_ = json.Unmarshal(line, &setup)
			continue
		}
		if bytes.Contains(line, []byte(`"late_stub_calls"`)) {
			var l struct {
				N int `json:"late_stub_calls"`
			}
			_ = json.Unmarshal(line, &l)
			late = l.N
			continue
		}
		var ex rt.GExchange
		if e := json.Unmarshal(line, &ex); e != nil {
			return setup, exs, late, e
		}
		if ex.Case != nil {
			exs = append(exs, &ex)
		}
	}
	return setup, exs, late, sc.Err()
}

// crashSite names the first goa / generated frame of a fatal error or panic printed by a dying driver.
func crashSite(stderr string) (kind, site string) {
	kind = "exit"
	switch {
	case strings.Contains(stderr, "stack overflow") || strings.Contains(stderr, "goroutine stack exceeds"):
		kind = "stack-overflow"
	case strings.Contains(stderr, "fatal error:"):
		kind = "fatal"
	case strings.Contains(stderr, "panic:"):
		kind = "panic"
	case strings.Contains(stderr, "SIGQUIT"):
		kind = "hang"
	}
	return kind, oraclePanicSite(stderr)
}

type rtResult struct {
	d       *pipeline.Design
	cases   []*rt.GCase
	setup   map[string]any
	exs     []*rt.GExchange
	late    int
	stderr  string
	lastLog string
	err     error
}

// runtimePhase drives the given designs and judges every exchange. only, when set, replaces the case list (replay).
func runtimePhase(run *vc.Run, b *pipeline.Batch, ds []*pipeline.Design, only []*rt.GCase, verbose bool) {
	// chunks of 16 designs: a driver binary weighs ~10 MB; they are built, run and deleted chunk by chunk
	for lo := 0; lo < len(ds); lo += 16 {
		hi := min(lo+16, len(ds))
		runtimeChunk(run, b, ds[lo:hi], only, verbose)
	}
}

func runtimeChunk(run *vc.Run, b *pipeline.Batch, ds []*pipeline.Design, only []*rt.GCase, verbose bool) {
	if len(ds) == 0 {
		return
	}
	dbg := verbose || os.Getenv("VERIF_DEBUG") != ""
	var ok []*pipeline.Design
	for _, d := range ds {
		if err := b.WriteGRPCHarness(d); err != nil {
			run.Inconclusive("grpc harness: " + pipeline.NormMsg(firstLine(err.Error())))
			if dbg {
				fmt.Fprintf(os.Stderr, "RT %s %s: harness: %v\n", d.ID, d.Spec.ID, err)
			}
			continue
		}
		ok = append(ok, d)
	}
	berrs := b.BuildGRPCDrivers(ok)
	results := make([]*rtResult, len(ok))
	var wg sync.WaitGroup
	sem := make(chan struct{}, 16)
	wd := "120"
	if run.Thorough() {
		wd = "600"
	}
	for i, d := range ok {
		r := &rtResult{d: d}
		results[i] = r
		if e, bad := berrs[d.ID]; bad {
			r.err = fmt.Errorf("driver build: %s", e)
			continue
		}
		wg.Add(1)
		sem <- struct{}{}
		go func(r *rtResult) {
			defer wg.Done()
			defer func() { <-sem }()
			d := r.d
			zz := filepath.Join(d.Dir, pipeline.GRPCDriverDir(d))
			specPath, casesPath, outPath, progPath, errPath := filepath.Join(zz, "spec.json"), filepath.Join(zz, "cases.jsonl"), filepath.Join(zz, "events.jsonl"), filepath.Join(zz, "progress.log"), filepath.Join(zz, "stderr.log")
			_ = os.WriteFile(specPath, d.Spec.JSON(), 0o644)
			r.cases = only
			if r.cases == nil {
				r.cases = rtCases(run, d.Spec)
			}
			var buf bytes.Buffer
			for _, c := range r.cases {
				bb, _ := json.Marshal(c)
				buf.Write(bb)
				buf.WriteByte('\n')
			}
			_ = os.WriteFile(casesPath, buf.Bytes(), 0o644)
			ef, _ := os.Create(errPath)
			cmd := exec.Command("timeout", "-s", "QUIT", wd, b.GRPCDriverPath(d), "--spec", specPath, "--cases", casesPath, "--out", outPath, "--progress", progPath, "--id", d.ID)
			cmd.Stderr = ef
			cmd.Env = append(os.Environ(), "GOTRACEBACK=all")
			r.err = cmd.Run()
			if ef != nil {
				ef.Close()
			}
			se, _ := os.ReadFile(errPath)
			r.stderr = headS(string(se), 12000)
			r.setup, r.exs, r.late, _ = readGExchanges(outPath)
			if os.Getenv("VERIF_KEEP") == "" {
				_ = os.Remove(b.GRPCDriverPath(d))
				_ = os.Remove(outPath)
			}
			if pl, err := os.ReadFile(progPath); err == nil {
				lines := strings.Split(strings.TrimSpace(string(pl)), "\n")
				r.lastLog = lines[len(lines)-1]
			}
		}(r)
	}
	wg.Wait()
	for _, r := range results {
		d := r.d
		if r.err != nil && strings.HasPrefix(r.err.Error(), "driver build:") {
			// the harness only uses the documented generated API (NewEndpoints, server.New, client.NewClient, pb.Register*, pb.New*Client)
			run.Inconclusive("grpc driver does not build: " + pipeline.NormMsg(firstLine(strings.TrimPrefix(r.err.Error(), "driver build: "))))
			if dbg {
				fmt.Fprintf(os.Stderr, "RT %s %s: %v\n", d.ID, d.Spec.ID, r.err)
			}
			continue
		}
		if se, _ := r.setup["setup_err"].(map[string]any); len(se) > 0 {
			for svc, e := range se {
				run.Eval(1)
				run.Violation("rt:panic:setup:"+oraclePanicSite(fmt.Sprint(e)), fmt.Sprintf("wiring the generated gRPC server and client of service %q failed: %s", svc, firstLine(fmt.Sprint(e))), rtWitness{Spec: d.Spec, DSL: d.DSL, Crash: fmt.Sprint(e)})
			}
		}
		if r.late > 0 {
			run.Count("rt_late_stub_calls", r.late)
		}
		if r.lastLog != "done" {
			// the driver died: the last line of the progress log names the case
			run.Eval(1)
			kind, site := crashSite(r.stderr)
			if ee, ok := r.err.(*exec.ExitError); ok && ee.ExitCode() == 124 {
				kind = "hang" // timeout(1) reports 124 when it had to signal the driver
			}
			class := "setup"
			if f := strings.Fields(r.lastLog); len(f) >= 5 && f[0] == "case" {
				class = f[1] + ":" + strings.Join(f[4:], " ")
			}
			if kind == "hang" {
				run.Inconclusive("grpc driver watchdog fired in " + class)
			} else {
				run.Violation("rt:crash:"+kind+":"+site, fmt.Sprintf("driver process of design %s died (%v) in %q: %s", d.Spec.ID, r.err, r.lastLog, firstLine(r.stderr)), rtWitness{Spec: d.Spec, DSL: d.DSL, Crash: r.lastLog, Stderr: r.stderr})
			}
			if dbg {
				fmt.Fprintf(os.Stderr, "RT %s %s: driver died at %q (%v)\n%s\n", d.ID, d.Spec.ID, r.lastLog, r.err, headS(r.stderr, 3000))
			}
		}
		run.Count("rt_designs_driven", 1)
		rtDesigns++
		judged := 0
		for _, ex := range r.exs {
			run.Eval(1)
			v := oracle.C10RT(d.Spec, ex)
			_, m := d.Spec.FindMethod(ex.Case.Svc, ex.Case.Method)
			if verbose {
				b, _ := json.MarshalIndent(ex, "", " ")
				fmt.Printf("---- exchange %d (%s %s.%s %s)\n%s\n", ex.Case.ID, ex.Case.Mode, ex.Case.Svc, ex.Case.Method, ex.Case.Class, b)
				fmt.Printf("oracle: inconclusive=%q clauses=%v ambiguous=%v\n", v.Inconclusive, v.Clauses, v.Ambiguous)
				for _, f := range v.Findings {
					fmt.Printf("oracle: FINDING %s: %s\n", f.Key, f.What)
				}
			}
			if v.Inconclusive != "" {
				run.Inconclusive("rt: " + pipeline.NormMsg(headS(v.Inconclusive, 80)))
				if dbg {
					fmt.Fprintf(os.Stderr, "RT %s %s case %d %s.%s %s: inconclusive: %s\n", d.ID, d.Spec.ID, ex.Case.ID, ex.Case.Svc, ex.Case.Method, ex.Case.Class, v.Inconclusive)
				}
				continue
			}
			judged++
			rtJudged++
			run.Count("rt_exchanges", 1)
			run.Count("rt_mode_"+ex.Case.Mode, 1)
			for _, cl := range v.Clauses {
				run.Count("rt_clause_"+cl, 1)
			}
			for _, a := range v.Ambiguous {
				run.Count("rt_ambiguous_"+a, 1)
			}
			for set, ms := range v.Seen {
				for _, mm := range ms {
					run.Seen("rt_"+set, mm)
					if set == "reject_codes" {
						// status code seen by the caller of a rejected invalid request (counted, not judged)
						run.Count("rt_rejected_with_"+strings.SplitN(strings.TrimPrefix(mm, "stream:"), ":", 2)[0], 1)
					}
				}
			}
			if m != nil {
				k := m.Stream
				if k == "" {
					k = "unary"
				}
				run.Count("rt_kind_"+k, 1)
				if len(v.Findings) == 0 {
					run.Distinct("rt|" + oracle.GShape(d.Spec, m) + "|" + ex.Case.Clause + "|" + ex.Case.Class)
				}
			}
			seen := map[string]bool{}
			for _, f := range v.Findings {
				if seen[f.Key] {
					continue
				}
				seen[f.Key] = true
				if dbg {
					fmt.Fprintf(os.Stderr, "RT %s %s case %d %s %s.%s %s: %s: %s\n", d.ID, d.Spec.ID, ex.Case.ID, ex.Case.Mode, ex.Case.Svc, ex.Case.Method, ex.Case.Class, f.Key, headS(f.What, 400))
				}
				run.Violation(f.Key, f.What, rtWitness{Spec: d.Spec, DSL: d.DSL, Exchange: ex})
			}
		}
		if dbg {
			fmt.Fprintf(os.Stderr, "RT %s %-34s cases=%d exchanges=%d judged=%d\n", d.ID, d.Spec.ID, len(r.cases), len(r.exs), judged)
		}
	}
}

func oraclePanicSite(text string) string {
	for _, l := range strings.Split(text, "\n") {
		if !strings.HasPrefix(l, "\t") {
			continue
		}
		l = strings.TrimSpace(l)
		if i := strings.Index(l, " +0x"); i > 0 {
			l = l[:i]
		}
		if strings.Contains(l, "/runtime/") || strings.Contains(l, "/rtgrpc/") || strings.Contains(l, "/reflect/") || strings.Contains(l, "/protostub/") {
			continue
		}
		for _, mark := range []string{"/gen/", strings.TrimSuffix(pipeline.Repo(), "/") + "/"} {
			if i := strings.Index(l, mark); i >= 0 {
				return oracle.FileRoleLine(strings.TrimPrefix(l[i+1:], strings.TrimPrefix(strings.TrimSuffix(pipeline.Repo(), "/")+"/", "/")))
			}
		}
	}
	return "unknown"
}

var rtJudged, rtDesigns int

// rtDeclare states what the runtime half checks and assumes.
func rtDeclare(run *vc.Run) {
	run.Assume("runtime half: generated gRPC client and server are linked with stand-in protobuf structs and exchanged over an in-process loopback that reproduces grpc-go's observable semantics and passes every message through a proto3 wire normaliser (protostub/pbrt, checked against real proto3 marshalling by its own tests); real HTTP/2 framing and real protobuf encoding are not exercised",
		"proto3 cannot distinguish an empty array / map / bytes value from an absent one: both sides of every comparison are normalised (vtree.Norm) and a REQUIRED collection sent empty may be delivered empty or rejected as missing (counted as ambiguous, never a violation); an empty collection nested in another collection is a value of its element type and must be delivered",
		"Int and UInt are 32-bit on the wire (grpc/docs/FAQ.md maps Int to int32): ordinary cases keep them within 32 bits, wider values form the separate case class wide-int",
		"the pinned goa emits proto3 `optional` for attributes with a default and initialises them in the generated decoders, so an attribute left unset by a hand-built message must arrive with its declared default (grpc/docs/FAQ.md predates `optional`); the generated client always sets such attributes, there the sent value is demanded",
		"metadata, header and trailer values are printable ASCII without leading/trailing blanks (what grpc-go accepts outside -bin keys): a transport limit, not goa's",
		"clause 4: an invalid request must not invoke the service method (for a streamed message: must not be returned by the server stream's Recv) and the caller must see an error; the status code is recorded (codes other than InvalidArgument are counted, not judged). The generated gRPC client validates response messages (Validate<M>Response in client/types.go, stream Recv likewise), so a result that breaks the design must not be returned to the caller either; the generated client does not validate payloads before sending them (it may: both are accepted)",
		"responses to hand-built protobuf requests are not compared (no generated client on the way back); errors declared with GRPC Response codes are driven and counted only (C05 owns errors); result types with views are not drawn by this generator")
}

// rtFinish makes a run that drove nothing inconclusive.
func rtFinish(run *vc.Run) {
	if os.Getenv("VERIF_C10_NORT") != "" {
		return
	}
	run.Extra("rt_designs_driven", rtDesigns)
	run.Extra("rt_exchanges_judged", rtJudged)
	if rtJudged == 0 {
		run.Infra("the runtime half drove no exchange (no drivable design, or every driver failed): round-trip clauses undecided")
	}
}
