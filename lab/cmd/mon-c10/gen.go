package main

import (
	"encoding/json"
	"fmt"
	"strings"

	"verif.local/lab/spec"
	"verif.local/lab/vc"
	"verif.local/lab/vtree"
)

// gRPC spec generator of the C10 monitor. It builds spec.Spec values directly
// (gen/ has only a stub for gRPC): 1-2 gRPC-only services, 1-3 methods each,
// payloads/results that are absent, primitives, arrays, maps, inline objects or
// user types, every attribute of every reachable message carrying a field
// number (spec.Attr.Tag), OneOf unions, aliases, nested and recursive user
// types, request metadata / response header / trailer mappings, the four
// streaming kinds, validations and defaults.

type gg struct {
	r      *vc.Rand
	s      *spec.Spec
	opts   genOpts
	unions int
}

type genOpts struct {
	// Broken also draws the constructs that the feature matrix (matrix.go) shows to be broken in goa at the
	// pinned commit whatever surrounds them (recursive types, inline object attributes, named array types,
	// aliases of bytes, response headers/trailers, non-string metadata, methods named like protobuf keywords,
	// attributes named like methods of generated messages, a primitive payload next to a streaming payload,
	// float map keys). They are off by default: the matrix reports each of them once, with a stable key, and
	// the random designs explore combinations of what works.
	Broken bool
}

func (x *gg) chance(num, den int) bool { return x.r.Chance(num, den) }

var prims = []string{spec.Boolean, spec.Int, spec.Int32, spec.Int64, spec.UInt, spec.UInt32, spec.UInt64, spec.Float32, spec.Float64, spec.String, spec.Bytes}

func (x *gg) prim() string {
	if x.chance(1, 4) {
		return spec.String
	}
	return prims[x.r.Intn(len(prims))]
}

// attribute names: plain, digits, camel case, acronyms, protobuf keywords, Go keywords, names of
// methods protoc-gen-go puts on messages. All are ASCII identifiers (the alphabet in which
// protoc-gen-go's naming rule is defined without ambiguity).
var attrNames = []string{"a", "b", "name", "amount", "count", "id", "url", "api_key", "user_id", "int32_field", "u_int", "x1", "f2g",
	"fooBar", "FooBaz", "created_at", "tags", "items", "data", "flag", "ratio", "score", "kind", "title", "note", "lat", "lng",
	"string", "bool", "map", "option", "type", "range", "size_", "v_2", "URL", "is_ok", "int", "float64"}

// brokenAttrNames collide with the methods protoc-gen-go gives every message (it renames such fields; goa does not).
var brokenAttrNames = []string{"reset", "descriptor", "proto_message", "get_name"}

func (x *gg) pickName(used map[string]bool) string {
	for i := 0; i < 100; i++ {
		n := attrNames[x.r.Intn(len(attrNames))]
		if x.opts.Broken && x.chance(1, 10) {
			n = brokenAttrNames[x.r.Intn(len(brokenAttrNames))]
		}
		if !used[spec.Norm(n)] {
			used[spec.Norm(n)] = true
			return n
		}
	}
	n := fmt.Sprintf("attr%d", len(used))
	used[spec.Norm(n)] = true
	return n
}

var tagPool = []int{1, 2, 3, 4, 5, 6, 7, 8, 9, 10, 11, 12, 15, 16, 17, 100, 127, 128, 2047, 2048, 18999, 20000, 536870911}

func (x *gg) pickTag(used map[int]bool) int {
	for i := 0; i < 100; i++ {
		var t int
		if x.chance(4, 5) {
			t = x.r.Range(1, 12)
		} else {
			t = tagPool[x.r.Intn(len(tagPool))]
		}
		if !used[t] {
			used[t] = true
			if t > 15 {
				x.s.AddFeature("large-tag")
			}
			return t
		}
	}
	t := 100 + len(used)
	used[t] = true
	return t
}

// protoOf groups the primitive kinds that share a Go type in generated protobuf code.
func protoOf(k string) string {
	switch k {
	case spec.Int, spec.Int32:
		return "int32"
	case spec.UInt, spec.UInt32:
		return "uint32"
	}
	return k
}

func ip(i int) *int         { return &i }
func fp(f float64) *float64 { return &f }

func (x *gg) genVal(kind string) *spec.Val {
	v := &spec.Val{}
	switch {
	case kind == spec.String:
		switch x.r.Intn(4) {
		case 0:
			v.Enum = []any{vtree.S("red"), vtree.S("green"), vtree.S("blue")}
			x.s.AddFeature("val-enum")
		case 1:
			v.MinLen, v.MaxLen = ip(x.r.Range(0, 2)), ip(x.r.Range(3, 8))
			x.s.AddFeature("val-length")
		case 2:
			v.Pattern = `^[a-z]+$`
			x.s.AddFeature("val-pattern")
		case 3:
			v.Format = x.r.Pick("uuid", "email", "date-time", "ipv4", "uri")
			x.s.AddFeature("val-format")
		}
	case spec.IsNumeric(kind):
		lo := float64(x.r.Range(0, 5))
		switch x.r.Intn(3) {
		case 0:
			v.Min, v.Max = fp(lo), fp(lo+float64(x.r.Range(1, 100)))
			x.s.AddFeature("val-range")
		case 1:
			v.ExclMin, v.ExclMax = fp(lo), fp(lo+float64(x.r.Range(2, 50)))
			x.s.AddFeature("val-exclusive")
		case 2:
			if strings.HasPrefix(kind, "float") {
				v.Enum = []any{leafNum(kind, 1.5), leafNum(kind, 2.5)}
			} else {
				v.Enum = []any{leafNum(kind, 1), leafNum(kind, 2), leafNum(kind, 100)}
			}
			x.s.AddFeature("val-enum")
		}
	case kind == spec.Array || kind == spec.Map || kind == spec.Bytes:
		v.MinLen, v.MaxLen = ip(x.r.Range(0, 1)), ip(x.r.Range(2, 4))
		x.s.AddFeature("val-length-" + kind)
	}
	return v
}

func leafNum(kind string, f float64) string {
	switch kind {
	case spec.Float32:
		return vtree.F32(float32(f))
	case spec.Float64:
		return vtree.F(f)
	case spec.UInt, spec.UInt32, spec.UInt64:
		return vtree.U(uint64(f))
	}
	return vtree.I(int64(f))
}

func (x *gg) genDefault(kind string, v *spec.Val) any {
	if v != nil && len(v.Enum) > 0 {
		return v.Enum[x.r.Intn(len(v.Enum))]
	}
	if !v.Empty() {
		return nil
	}
	switch {
	case kind == spec.Boolean:
		return vtree.B(x.r.Bool())
	case kind == spec.String:
		return vtree.S(x.r.Pick("dflt", "", "x y"))
	case spec.IsNumeric(kind):
		f := float64(x.r.Range(0, 9))
		if strings.HasPrefix(kind, "float") && x.chance(1, 2) {
			f += 0.25
		}
		return leafNum(kind, f)
	}
	return nil
}

// objectTypes lists the finished object user types (usable as references).
func (x *gg) refCandidates(self string) []*spec.UserType {
	var out []*spec.UserType
	for _, t := range x.s.Types {
		if t.Def == nil && (t.Name != self || !x.opts.Broken || !x.chance(1, 3)) {
			continue // under construction; a reference to self makes the type recursive
		}
		if t.Kind == "result" {
			continue // only returned by methods (genMethod)
		}
		out = append(out, t)
	}
	return out
}

func (x *gg) mapKey() *spec.Attr {
	k := x.r.Pick(spec.String, spec.String, spec.Int, spec.Int32, spec.Int64, spec.UInt, spec.UInt32, spec.UInt64, spec.Boolean)
	if x.opts.Broken && x.chance(1, 12) {
		k = x.r.Pick(spec.Float64, spec.Float32)
		x.s.AddFeature("probe-map-key-" + k)
	}
	return &spec.Attr{Type: &spec.Type{Kind: k}}
}

// genElem draws an array element / map value type (no inline objects or unions: the DSL has no syntax for them).
func (x *gg) genElem(depth int, self string) *spec.Attr {
	e := &spec.Attr{}
	c := x.r.Intn(12)
	switch {
	case c < 6 || depth > 2:
		e.Type = &spec.Type{Kind: x.prim()}
		if x.chance(1, 6) {
			// (an Enum on a sized integer element makes goa's example generator panic for every transport:
			// expr.Map.MakeMap stores the untyped enum value - C01/C12 territory, not drawn here)
			if v := x.genVal(e.Type.Kind); !v.Empty() && !(len(v.Enum) > 0 && spec.IsNumeric(e.Type.Kind)) {
				e.Val = v
				x.s.AddFeature("elem-validation")
			}
		}
	case c < 8:
		e.Type = &spec.Type{Kind: spec.Array, Elem: x.genElem(depth+1, self)}
		x.s.AddFeature("nested-array")
	case c < 9:
		e.Type = &spec.Type{Kind: spec.Map, Key: x.mapKey(), Elem: x.genElem(depth+1, self)}
		x.fixMapElem(e.Type)
		x.s.AddFeature("nested-map")
	default:
		cands := x.refCandidates(self)
		if len(cands) == 0 {
			e.Type = &spec.Type{Kind: x.prim()}
			break
		}
		t := cands[x.r.Intn(len(cands))]
		e.Type = &spec.Type{Kind: spec.Ref, Ref: t.Name}
		x.noteRef(t, self, "elem")
	}
	return e
}

// hasObjMap reports whether a value of type t contains (outside helper-converted positions) a map whose values
// are objects.
func (x *gg) hasObjMap(t *spec.Type, seen map[string]bool) bool {
	if t == nil {
		return false
	}
	switch t.Kind {
	case spec.Ref:
		if seen[t.Ref] {
			return false
		}
		seen[t.Ref] = true
		if ut := x.s.Type(t.Ref); ut != nil {
			return x.hasObjMap(ut.Def, seen)
		}
	case spec.Map:
		rt, _ := x.s.Resolve(t.Elem.Type)
		if rt != nil && rt.Kind == spec.Object {
			return true
		}
		return x.hasObjMap(t.Elem.Type, seen)
	case spec.Array:
		return x.hasObjMap(t.Elem.Type, seen)
	case spec.Object, spec.Union:
		for _, a := range t.Attrs {
			if x.hasObjMap(a.Type, seen) {
				return true
			}
		}
	}
	return false
}

// fixMapElem keeps maps of objects from nesting (goa's transform code reuses one variable name for the values
// of every such map it inlines: matrix entry "nested-map-of-user-types").
func (x *gg) fixMapElem(m *spec.Type) {
	if x.opts.Broken {
		return
	}
	rt, _ := x.s.Resolve(m.Elem.Type)
	if rt != nil && rt.Kind == spec.Object && x.hasObjMap(rt, map[string]bool{}) {
		m.Elem = &spec.Attr{Type: &spec.Type{Kind: x.prim()}}
	}
}

func (x *gg) noteRef(t *spec.UserType, self, where string) {
	switch {
	case t.Name == self:
		x.s.AddFeature("recursive-type")
	case t.Kind == "alias":
		x.s.AddFeature("alias-" + where)
	case t.Def != nil && t.Def.Kind == spec.Array:
		x.s.AddFeature("array-usertype-" + where)
	case t.Def != nil && t.Def.Kind == spec.Map:
		x.s.AddFeature("map-usertype-" + where)
	default:
		x.s.AddFeature("usertype-" + where)
	}
}

// genAttrType draws the type of an object attribute.
func (x *gg) genAttrType(depth int, self string, names map[string]bool) *spec.Type {
	c := x.r.Intn(20)
	switch {
	case c < 9 || depth > 2:
		return &spec.Type{Kind: x.prim()}
	case c < 12:
		x.s.AddFeature("array")
		return &spec.Type{Kind: spec.Array, Elem: x.genElem(depth+1, self)}
	case c < 14:
		x.s.AddFeature("map")
		m := &spec.Type{Kind: spec.Map, Key: x.mapKey(), Elem: x.genElem(depth+1, self)}
		x.fixMapElem(m)
		return m
	case c < 18:
		cands := x.refCandidates(self)
		if len(cands) == 0 {
			return &spec.Type{Kind: x.prim()}
		}
		t := cands[x.r.Intn(len(cands))]
		x.noteRef(t, self, "attr")
		return &spec.Type{Kind: spec.Ref, Ref: t.Name}
	case c < 19:
		x.s.AddFeature("union")
		u := &spec.Type{Kind: spec.Union}
		usedT := map[string]bool{}
		for i, n := 0, x.r.Range(2, 3); i < n; i++ {
			// members live in the name space of the enclosing message; their types are pairwise distinct
			// (goa switches on the Go type: matrix entry "oneof-same-member-type")
			alt := &spec.Attr{Name: x.pickName(names)}
			cands := x.refCandidates("")
			if len(cands) > 0 && x.chance(1, 3) {
				t := cands[x.r.Intn(len(cands))]
				if t.Kind != "alias" && t.Def.Kind == spec.Object && !usedT[t.Name] {
					alt.Type = &spec.Type{Kind: spec.Ref, Ref: t.Name}
					usedT[t.Name] = true
					x.s.AddFeature("union-usertype")
				}
			}
			for alt.Type == nil {
				k := x.prim()
				if !usedT[protoOf(k)] {
					usedT[protoOf(k)] = true
					alt.Type = &spec.Type{Kind: k}
				}
			}
			u.Attrs = append(u.Attrs, alt)
		}
		return u
	default:
		if depth < 2 && x.opts.Broken {
			x.s.AddFeature("inline-object")
			return x.genObject(depth+1, self, 3)
		}
		return &spec.Type{Kind: x.prim()}
	}
}

// genObject draws an object whose attributes all carry field numbers.
func (x *gg) genObject(depth int, self string, maxAttrs int) *spec.Type {
	return x.genObjectWith(depth, self, maxAttrs, map[string]bool{}, map[int]bool{})
}

// genObjectWith is genObject with attribute names and field numbers that are already taken.
func (x *gg) genObjectWith(depth int, self string, maxAttrs int, names map[string]bool, tags map[int]bool) *spec.Type {
	o := &spec.Type{Kind: spec.Object}
	n := x.r.Range(1, maxAttrs)
	for i := 0; i < n; i++ {
		a := &spec.Attr{Name: x.pickName(names)}
		a.Type = x.genAttrType(depth, self, names)
		if a.Type.Kind == spec.Union {
			// a OneOf name is used once per design: goa names the Go types of the members after the OneOf and the
			// member only, so that two OneOf("x") with a member "y" collide (matrix entry "oneof-same-name-twice")
			if !x.opts.Broken {
				x.unions++
				base := x.r.Pick("choice", "variant", "either", "alt_value", "pick")
				a.Name = fmt.Sprintf("%s%d", base, x.unions)
				names[spec.Norm(a.Name)] = true
			}
			// members share the field number space of the enclosing message
			for _, alt := range a.Type.Attrs {
				alt.Tag = x.pickTag(tags)
			}
		} else {
			a.Tag = x.pickTag(tags)
		}
		rt, _ := x.s.Resolve(a.Type)
		if rt == nil {
			rt = a.Type
		}
		required := x.chance(2, 5) && !(a.Type.Kind == spec.Ref && a.Type.Ref == self)
		if required {
			o.Required = append(o.Required, a.Name)
		}
		if a.Type.Kind != spec.Ref && a.Type.Kind != spec.Object && a.Type.Kind != spec.Union && x.chance(1, 4) {
			if v := x.genVal(rt.Kind); !v.Empty() {
				a.Val = v
			}
		}
		if !required && spec.IsPrim(rt.Kind) && rt.Kind != spec.Bytes && a.Type.Kind != spec.Ref && x.chance(1, 5) {
			if d := x.genDefault(rt.Kind, a.Val); d != nil {
				a.Default, a.HasDef = d, true
				x.s.AddFeature("default")
			}
		}
		// a default declared on an attribute whose type is a primitive alias (it must satisfy the alias's validations)
		if _, aut := x.s.Resolve(a.Type); !required && a.Type.Kind == spec.Ref && aut != nil && aut.Kind == "alias" && spec.IsPrim(rt.Kind) && rt.Kind != spec.Bytes && x.chance(4, 5) {
			if d := x.genDefault(rt.Kind, aut.Val); d != nil {
				a.Default, a.HasDef = d, true
				x.s.AddFeature("default", "default-on-alias-attribute")
			}
		}
		o.Attrs = append(o.Attrs, a)
	}
	return o
}

var typeNames = []string{"Item", "Point", "UserInfo", "Node", "Meta", "Entry", "Shape", "Order", "Line", "APIKey", "Result2", "point_3d"}
var svcNames = []string{"calc", "store", "user_store", "Inventory", "geo", "ledger_v2", "Mixer"}
var methNames = []string{"get", "list", "put", "add", "remove_all", "Sum", "watch", "upload", "chat", "find_by_id", "reset", "ping", "get_JSON", "Descriptor", "v2_sync"}

// brokenMethNames: goa derives the Go client method name with a rule made for message fields (trailing underscore after
// protobuf keywords) that protoc-gen-go-grpc does not apply to methods.
var brokenMethNames = []string{"String", "bytes", "map", "message"}

func (x *gg) genTypes() {
	used := map[string]bool{}
	n := x.r.Range(1, 4)
	if x.chance(1, 2) {
		// a primitive alias that later object types can use for (defaulted) attributes
		al := &spec.UserType{Name: "LevelAlias", Kind: "alias", Def: &spec.Type{Kind: x.r.Pick(spec.Int, spec.String, spec.Boolean, spec.Float64, spec.UInt32)}}
		used[spec.Norm(al.Name)] = true
		if x.chance(1, 3) {
			if v := x.genVal(al.Def.Kind); !v.Empty() {
				al.Val = v
			}
		}
		x.s.Types = append(x.s.Types, al)
		x.s.AddFeature("alias")
	}
	for i := 0; i < n; i++ {
		var name string
		for {
			name = typeNames[x.r.Intn(len(typeNames))]
			if !used[spec.Norm(name)] {
				used[spec.Norm(name)] = true
				break
			}
		}
		ut := &spec.UserType{Name: name, Kind: "type"}
		c := x.r.Intn(10)
		switch {
		case c < 1:
			ut.Kind = "alias"
			ut.Def = &spec.Type{Kind: x.r.Pick(spec.String, spec.Int, spec.Int64, spec.UInt32, spec.Float64, spec.Boolean)}
			if x.opts.Broken && x.chance(1, 4) {
				ut.Def.Kind = spec.Bytes
				x.s.AddFeature("alias-bytes")
			}
			if x.chance(1, 2) {
				if v := x.genVal(ut.Def.Kind); !v.Empty() {
					ut.Val = v
				}
			}
			x.s.Types = append(x.s.Types, ut)
			x.s.AddFeature("alias")
		case c < 2 && x.opts.Broken:
			x.s.Types = append(x.s.Types, ut)
			ut.Def = &spec.Type{Kind: spec.Array, Elem: x.genElem(1, name)}
			x.s.AddFeature("array-usertype")
		default:
			x.s.Types = append(x.s.Types, ut)
			ut.Def = x.genObject(0, name, 5)
		}
	}
	if x.chance(2, 5) {
		x.genDerived()
	}
	if !x.opts.Broken && x.chance(1, 2) {
		// a result type with two views that both list every attribute (the projection is the identity, so the round
		// trip oracle needs no view): methods returning it go through the viewed-result plumbing of the gRPC code
		vr := &spec.UserType{Name: "ViewedReply", Kind: "result", Def: &spec.Type{Kind: spec.Object}}
		vr.Def.Attrs = []*spec.Attr{
			{Name: "ident", Type: &spec.Type{Kind: spec.String}, Tag: 1},
			{Name: "count", Type: &spec.Type{Kind: spec.Int32}, Tag: 2},
			{Name: "note", Type: &spec.Type{Kind: spec.String}, Tag: 3},
		}
		all := []spec.ViewAttr{{Name: "ident"}, {Name: "count"}, {Name: "note"}}
		vr.Views = []*spec.View{{Name: "default", Attrs: all}, {Name: "tiny", Attrs: all}}
		x.s.Types = append(x.s.Types, vr)
		x.s.AddFeature("result-type-with-views")
	}
}

// genDerived adds a type that inherits from an earlier object type. Extend(base): every base attribute is merged
// in with the field number the base gave it. Reference(base): attributes spelled Field(n, "name") take their type
// from the base attribute of that name and are RENUMBERED by the derived type (the numbers of the base are reused
// for other fields where possible), so the number the design chooses is the derived one.
func (x *gg) genDerived() {
	var bases []*spec.UserType
	for _, t := range x.s.Types {
		if t.Kind == "type" && t.Def != nil && t.Def.Kind == spec.Object && t.Extend == "" && t.Reference == "" && len(t.Def.Attrs) > 0 {
			ok := true
			for _, a := range t.Def.Attrs {
				if a.Type.Kind == spec.Union || a.Type.Kind == spec.Object {
					ok = false // members of a OneOf / inline objects carry numbers of their own: keep the base simple
				}
			}
			if ok {
				bases = append(bases, t)
			}
		}
	}
	if len(bases) == 0 {
		return
	}
	b := bases[x.r.Intn(len(bases))]
	d := &spec.UserType{Name: b.Name + "Derived", Kind: "type"}
	names, tags := map[string]bool{}, map[int]bool{}
	for _, a := range b.Def.Attrs {
		names[spec.Norm(a.Name)] = true
	}
	clone := func(a *spec.Attr) *spec.Attr {
		bb, _ := json.Marshal(a)
		var c spec.Attr
		_ = json.Unmarshal(bb, &c)
		return &c
	}
	var inherited []*spec.Attr
	if x.chance(1, 3) {
		d.Extend = b.Name
		for _, a := range b.Def.Attrs {
			c := clone(a)
			c.Inherit, c.InhReq = "extend", b.Def.IsRequired(a.Name)
			tags[c.Tag] = true
			inherited = append(inherited, c)
		}
		x.s.AddFeature("extend")
	} else {
		d.Reference = b.Name
		// renumber: rotate the base numbers among the referenced attributes, or draw fresh ones
		var picked []*spec.Attr
		for i, a := range b.Def.Attrs {
			if x.chance(3, 4) || (len(picked) == 0 && i == len(b.Def.Attrs)-1) {
				picked = append(picked, a)
			}
		}
		for i, a := range picked {
			c := clone(a)
			c.Inherit, c.InhReq = "reference", b.Def.IsRequired(a.Name)
			if len(picked) > 1 && x.chance(2, 3) {
				c.Tag = picked[(i+1)%len(picked)].Tag // another base attribute's number
			} else {
				c.Tag = 0
			}
			inherited = append(inherited, c)
		}
		for _, c := range inherited {
			if c.Tag != 0 {
				if tags[c.Tag] {
					c.Tag = 0
				} else {
					tags[c.Tag] = true
				}
			}
		}
		for _, c := range inherited {
			if c.Tag == 0 {
				c.Tag = x.pickTag(tags)
			}
		}
		x.s.AddFeature("reference", "reference-renumbered")
	}
	x.s.Types = append(x.s.Types, d)
	def := x.genObjectWith(1, d.Name, 2, names, tags)
	for _, c := range inherited {
		def.Attrs = append(def.Attrs, c)
		if c.InhReq {
			def.Required = append(def.Required, c.Name)
		}
	}
	d.Def = def
}

// metaCandidates lists the attributes of an object that can travel as gRPC metadata (strings mostly).
func (x *gg) metaCandidates(o *spec.Type) []*spec.Attr {
	var out []*spec.Attr
	for _, a := range o.Attrs {
		switch a.Type.Kind {
		case spec.String:
			out = append(out, a)
		case spec.Int32, spec.Boolean, spec.Int64, spec.UInt32, spec.Float64:
			if x.chance(1, 2) {
				out = append(out, a)
			}
		}
	}
	return out
}

func wireName(r *vc.Rand, attr string) string {
	switch r.Intn(4) {
	case 0:
		return "x-" + strings.ToLower(strings.ReplaceAll(attr, "_", "-"))
	case 1:
		return strings.ToLower(attr) + "-md"
	}
	return ""
}

func (x *gg) pickLocs(cands []*spec.Attr, max int, taken map[string]bool, feature string) []spec.Loc {
	var out []spec.Loc
	for _, a := range cands {
		if len(out) >= max || taken[a.Name] || !x.chance(1, 2) {
			continue
		}
		taken[a.Name] = true
		l := spec.Loc{Attr: a.Name}
		if w := wireName(x.r, a.Name); w != "" {
			l.Wire = w
			x.s.AddFeature("metadata-renamed")
		}
		if a.Type.Kind != spec.String {
			x.s.AddFeature(feature + "-nonstring")
		}
		out = append(out, l)
		x.s.AddFeature(feature)
	}
	return out
}

// genBody draws a payload/result: nil, primitive, array/map, inline object or reference.
func (x *gg) genBody(allowNone bool) *spec.Attr {
	c := x.r.Intn(20)
	switch {
	case c < 2 && allowNone:
		return nil
	case c < 4:
		x.s.AddFeature("body-primitive")
		a := &spec.Attr{Type: &spec.Type{Kind: x.prim()}}
		if x.chance(1, 4) {
			if v := x.genVal(a.Type.Kind); !v.Empty() {
				a.Val = v
			}
		}
		return a
	case c < 6:
		x.s.AddFeature("body-collection")
		if x.chance(2, 3) {
			return &spec.Attr{Type: &spec.Type{Kind: spec.Array, Elem: x.genElem(1, "")}}
		}
		m := &spec.Type{Kind: spec.Map, Key: x.mapKey(), Elem: x.genElem(1, "")}
		x.fixMapElem(m)
		return &spec.Attr{Type: m}
	case c < 12:
		x.s.AddFeature("body-inline-object")
		return &spec.Attr{Type: x.genObject(0, "", 5)}
	default:
		cands := x.refCandidates("")
		t := cands[x.r.Intn(len(cands))]
		x.noteRef(t, "", "body")
		return &spec.Attr{Type: &spec.Type{Kind: spec.Ref, Ref: t.Name}}
	}
}

func (x *gg) objectOf(a *spec.Attr) *spec.Type {
	if a == nil {
		return nil
	}
	rt, _ := x.s.Resolve(a.Type)
	if rt == nil || rt.Kind != spec.Object {
		return nil
	}
	return rt
}

func (x *gg) genMethod(sv *spec.Service, name string) {
	m := &spec.Method{Name: name, GRPC: &spec.GRPC{}}
	switch c := x.r.Intn(20); {
	case c < 11:
	case c < 14:
		m.Stream = "server"
	case c < 17:
		m.Stream = "client"
	default:
		m.Stream = "bidi"
	}
	if m.Stream != "" {
		x.s.AddFeature("stream-" + m.Stream)
	} else {
		x.s.AddFeature("unary")
	}
	switch m.Stream {
	case "client", "bidi":
		m.StreamP = x.genBody(false)
		// with a streaming payload the whole payload travels as metadata: keep it to what metadata can carry
		switch c := x.r.Intn(4); {
		case c == 0 && x.opts.Broken:
			m.Payload = &spec.Attr{Type: &spec.Type{Kind: spec.String}}
			x.s.AddFeature("stream-payload-primitive")
		case c == 1:
			o := &spec.Type{Kind: spec.Object}
			names, tags := map[string]bool{}, map[int]bool{}
			for i, n := 0, x.r.Range(1, 3); i < n; i++ {
				a := &spec.Attr{Name: x.pickName(names), Type: &spec.Type{Kind: x.r.Pick(spec.String, spec.String, spec.Int32, spec.Boolean)}, Tag: x.pickTag(tags)}
				if x.chance(1, 2) {
					o.Required = append(o.Required, a.Name)
				}
				o.Attrs = append(o.Attrs, a)
			}
			m.Payload = &spec.Attr{Type: o}
			x.s.AddFeature("stream-payload-object")
		}
		m.Result = x.genBody(m.Stream == "client")
		// streamed payloads next to a result type with several views (the server stream's Recv and the viewed result
		// share generated plumbing)
		if vr := x.s.Type("ViewedReply"); vr != nil && x.chance(2, 3) {
			m.Result = &spec.Attr{Type: &spec.Type{Kind: spec.Ref, Ref: vr.Name}}
			x.s.AddFeature("stream-payload-with-viewed-result")
		}
	default:
		m.Payload = x.genBody(true)
		m.Result = x.genBody(m.Stream == "")
		if vr := x.s.Type("ViewedReply"); vr != nil && x.chance(1, 4) {
			m.Result = &spec.Attr{Type: &spec.Type{Kind: spec.Ref, Ref: vr.Name}}
			x.s.AddFeature("viewed-result")
		}
	}
	if o := x.objectOf(m.Payload); o != nil && m.StreamP == nil {
		taken := map[string]bool{}
		m.GRPC.Metadata = x.pickLocs(x.metaCandidates(o), 2, taken, "metadata")
	}
	if o := x.objectOf(m.Result); o != nil && (m.Stream == "" || m.Stream == "client") && x.opts.Broken {
		taken := map[string]bool{}
		cands := x.metaCandidates(o)
		m.GRPC.Headers = x.pickLocs(cands, 2, taken, "headers")
		m.GRPC.Trailers = x.pickLocs(cands, 1, taken, "trailers")
	}
	// explicit Message listings of attributes that stay in the message (the rest still travels there too)
	explicit := func(o *spec.Type, mapped ...[]spec.Loc) []spec.Loc {
		skip := map[string]bool{}
		for _, ls := range mapped {
			for _, l := range ls {
				skip[l.Attr] = true
			}
		}
		var out []spec.Loc
		for _, i := range x.r.Perm(len(o.Attrs)) {
			if a := o.Attrs[i]; !skip[a.Name] && len(out) < 2 && (len(out) == 0 || x.chance(1, 2)) {
				out = append(out, spec.Loc{Attr: a.Name})
			}
		}
		return out
	}
	if o := x.objectOf(m.Payload); o != nil && m.StreamP == nil && x.chance(1, 3) {
		m.GRPC.Message = explicit(o, m.GRPC.Metadata)
		x.s.AddFeature("explicit-request-message")
	}
	if o := x.objectOf(m.Result); o != nil && (m.Stream == "" || m.Stream == "client") && x.chance(1, 3) {
		m.GRPC.RespMessage = explicit(o, m.GRPC.Headers, m.GRPC.Trailers)
		x.s.AddFeature("explicit-response-message")
	}
	if x.chance(1, 4) {
		e := x.r.Pick("not_found", "bad_thing", "Conflict")
		m.Errors = append(m.Errors, &spec.ErrorDecl{Name: e, Timeout: x.chance(1, 4)})
		m.GRPC.ErrCodes = append(m.GRPC.ErrCodes, struct {
			Name string `json:"name"`
			Code string `json:"code"`
		}{e, x.r.Pick("CodeNotFound", "CodeInvalidArgument", "CodeAlreadyExists")})
		x.s.AddFeature("error")
	}
	if x.chance(1, 6) {
		m.GRPC.Code = x.r.Pick("CodeOK", "CodeOK", "CodeNotFound")
	}
	sv.Methods = append(sv.Methods, m)
}

func genSpec(r *vc.Rand, id string, opts genOpts) *spec.Spec {
	s := &spec.Spec{ID: id, API: spec.API{Name: r.Pick("grpcapi", "lab_api", "Demo")}}
	x := &gg{r: r, s: s, opts: opts}
	s.AddFeature("grpc")
	x.genTypes()
	usedSvc := map[string]bool{}
	for i, n := 0, r.Range(1, 2); i < n; i++ {
		var name string
		for {
			name = svcNames[r.Intn(len(svcNames))]
			if !usedSvc[spec.Norm(name)] {
				usedSvc[spec.Norm(name)] = true
				break
			}
		}
		sv := &spec.Service{Name: name, GRPC: true, NoHTTP: true}
		usedM := map[string]bool{}
		for j, k := 0, r.Range(1, 3); j < k; j++ {
			var mn string
			for {
				mn = methNames[r.Intn(len(methNames))]
				if opts.Broken && r.Chance(1, 10) {
					mn = brokenMethNames[r.Intn(len(brokenMethNames))]
				}
				if !usedM[spec.Norm(mn)] {
					usedM[spec.Norm(mn)] = true
					break
				}
			}
			x.genMethod(sv, mn)
		}
		s.Services = append(s.Services, sv)
	}
	if len(s.Services) > 1 {
		s.AddFeature("two-services")
	}
	return s
}
