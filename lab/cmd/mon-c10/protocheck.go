package main

import (
	"fmt"
	"regexp"
	"sort"
	"strings"

	"verif.local/lab/protostub"
	"verif.local/lab/spec"
)

// finding is one structural disagreement between a generated .proto and the spec.
type finding struct {
	Key  string `json:"key"`
	What string `json:"what"`
}

type protoChecker struct {
	s     *spec.Spec
	out   []finding
	seen  map[string]bool // (message, type) pairs already compared
	stats map[string]int
}

func (c *protoChecker) add(key, format string, a ...any) {
	c.out = append(c.out, finding{Key: key, What: fmt.Sprintf(format, a...)})
}

var (
	gotRe    = regexp.MustCompile(` \(got ([\w.]+)\)`)
	quotedRe = regexp.MustCompile(`"[^"]*"`)
	numberRe = regexp.MustCompile(`\b\d+\b`)
)

// normParseMsg abstracts names and numbers out of a parser diagnostic.
func normParseMsg(msg string) string {
	msg = quotedRe.ReplaceAllString(msg, `"_"`)
	msg = numberRe.ReplaceAllString(msg, "N")
	if i := strings.Index(msg, " (type of field"); i >= 0 {
		msg = msg[:i]
	}
	if i := strings.Index(msg, " (rpc "); i >= 0 {
		msg = msg[:i]
	}
	if m := gotRe.FindStringSubmatch(msg); m != nil {
		// keep the class of the offending map key type
		got := m[1]
		if !protostub.Scalars[got] {
			got = "message-or-enum"
		}
		msg = gotRe.ReplaceAllString(msg, " (got "+got+")")
	}
	return msg
}

// stripPos removes the leading line:col: of a protostub error.
func stripPos(s string) string {
	return regexp.MustCompile(`^(\S+:)?\d+:\d+: `).ReplaceAllString(s, "")
}

func findService(f *protostub.File, name string) *protostub.Service {
	for _, s := range f.Services {
		if spec.Norm(s.Name) == spec.Norm(name) {
			return s
		}
	}
	return nil
}

// checkService compares one parsed proto file with the gRPC service it was generated for.
func (c *protoChecker) checkService(f *protostub.File, sv *spec.Service) {
	if len(f.Services) != 1 {
		c.add("proto-service-count", "file declares %d services, the design has one gRPC service per file", len(f.Services))
	}
	ps := findService(f, sv.Name)
	if ps == nil {
		c.add("proto-service-missing", "no service named like %q in the generated file", sv.Name)
		return
	}
	c.stats["rpcs"] += len(ps.Methods)
	c.stats["messages"] += len(f.AllMessages())
	used := map[*protostub.Method]bool{}
	for _, m := range sv.Methods {
		var rpc *protostub.Method
		n := 0
		for _, pm := range ps.Methods {
			if spec.Norm(pm.Name) == spec.Norm(m.Name) {
				rpc = pm
				n++
			}
		}
		switch {
		case n == 0:
			c.add("proto-rpc-missing", "method %q of service %q has no rpc", m.Name, sv.Name)
			continue
		case n > 1:
			c.add("proto-rpc-duplicated", "method %q of service %q has %d rpcs", m.Name, sv.Name, n)
			continue
		}
		used[rpc] = true
		wantC := m.Stream == "client" || m.Stream == "bidi"
		wantS := m.Stream == "server" || m.Stream == "bidi"
		if rpc.ClientStream != wantC || rpc.ServerStream != wantS {
			c.add("proto-rpc-streaming-direction", "method %q (stream kind %q) is declared `rpc %s (%s%s) returns (%s%s)`", m.Name, m.Stream,
				rpc.Name, streamWord(rpc.ClientStream), rpc.InType, streamWord(rpc.ServerStream), rpc.OutType)
		}
		// request message
		g := m.GRPC
		if g == nil {
			g = &spec.GRPC{}
		}
		if wantC {
			// the rpc carries the streaming payload; the whole payload travels as metadata
			c.checkBody(rpc.In, m.StreamP, nil, "streaming payload of "+m.Name)
		} else {
			c.checkBody(rpc.In, m.Payload, locNames(g.Metadata), "payload of "+m.Name)
		}
		c.checkBody(rpc.Out, m.Result, append(locNames(g.Headers), locNames(g.Trailers)...), "result of "+m.Name)
	}
	for _, pm := range ps.Methods {
		if !used[pm] {
			c.add("proto-rpc-unexpected", "rpc %q corresponds to no method of service %q", pm.Name, sv.Name)
		}
	}
}

func streamWord(b bool) string {
	if b {
		return "stream "
	}
	return ""
}

func locNames(ls []spec.Loc) []string {
	var out []string
	for _, l := range ls {
		out = append(out, l.Attr)
	}
	return out
}

// checkBody compares a request/response message with the payload/result it carries.
func (c *protoChecker) checkBody(msg *protostub.Message, body *spec.Attr, excluded []string, what string) {
	if msg == nil {
		return
	}
	if body == nil {
		if len(msg.Fields) != 0 {
			c.add("proto-message-not-empty", "%s is absent but message %s has %d fields", what, msg.Name, len(msg.Fields))
		}
		return
	}
	rt, _ := c.s.Resolve(body.Type)
	if rt == nil {
		rt = body.Type
	}
	if rt.Kind == spec.Object {
		c.checkObject(msg, rt, excluded, what)
		return
	}
	// primitive, array or map: goa wraps it in a message with a single field (DSL doc of Message: named "field", number 1)
	if len(msg.Fields) != 1 {
		c.add("proto-wrapper-shape", "%s is not an object: message %s should have exactly one field, it has %d", what, msg.Name, len(msg.Fields))
		return
	}
	c.checkShape(msg.Fields[0], body.Type, what)
}

func contains(xs []string, s string) bool {
	for _, x := range xs {
		if x == s {
			return true
		}
	}
	return false
}

func findField(msg *protostub.Message, name string) *protostub.Field {
	for _, f := range msg.Fields {
		if spec.Norm(f.Name) == spec.Norm(name) {
			return f
		}
	}
	return nil
}

// checkObject: every attribute of obj (minus excluded) is a field of msg with the designed number.
func (c *protoChecker) checkObject(msg *protostub.Message, obj *spec.Type, excluded []string, what string) {
	key := fmt.Sprintf("%s|%p|%v", msg.FullName, obj, excluded)
	if c.seen[key] {
		return
	}
	c.seen[key] = true
	c.stats["messages_checked"]++
	// the parser already guarantees uniqueness; restated here because it is a clause of C10 and the AST is at hand
	nums, names := map[int]string{}, map[string]bool{}
	for _, f := range msg.Fields {
		if o, dup := nums[f.Number]; dup {
			c.add("proto-duplicate-number", "message %s uses number %d for %q and %q", msg.Name, f.Number, o, f.Name)
		}
		nums[f.Number] = f.Name
		if names[f.Name] {
			c.add("proto-duplicate-name", "message %s declares %q twice", msg.Name, f.Name)
		}
		names[f.Name] = true
		if f.Number < 1 || f.Number > 536870911 || (f.Number >= 19000 && f.Number <= 19999) {
			c.add("proto-number-out-of-range", "message %s field %q has number %d", msg.Name, f.Name, f.Number)
		}
	}
	expected := 0
	for _, a := range obj.Attrs {
		if contains(excluded, a.Name) {
			continue
		}
		if a.Type.Kind == spec.Union {
			var po *protostub.Oneof
			for _, o := range msg.Oneofs {
				if spec.Norm(o.Name) == spec.Norm(a.Name) {
					po = o
				}
			}
			if po == nil {
				c.add("proto-oneof-missing", "%s: OneOf %q has no oneof in message %s", what, a.Name, msg.Name)
				continue
			}
			for _, alt := range a.Type.Attrs {
				expected++
				var pf *protostub.Field
				for _, f := range po.Fields {
					if spec.Norm(f.Name) == spec.Norm(alt.Name) {
						pf = f
					}
				}
				if pf == nil {
					c.add("proto-oneof-member-missing", "%s: OneOf %q member %q is missing from oneof %s of message %s", what, a.Name, alt.Name, po.Name, msg.Name)
					continue
				}
				c.stats["fields_checked"]++
				if pf.Number != alt.Tag {
					c.add("proto-field-number-differs", "%s: OneOf member %q was given number %d in the design, %d in message %s", what, alt.Name, alt.Tag, pf.Number, msg.Name)
				}
			}
			continue
		}
		expected++
		f := findField(msg, a.Name)
		if f == nil {
			c.add("proto-field-missing", "%s: attribute %q has no field in message %s", what, a.Name, msg.Name)
			continue
		}
		c.stats["fields_checked"]++
		if f.Oneof != nil {
			c.add("proto-field-in-oneof", "%s: attribute %q is a member of oneof %s in message %s", what, a.Name, f.Oneof.Name, msg.Name)
		}
		if f.Number != a.Tag {
			c.add("proto-field-number-differs", "%s: attribute %q was given number %d in the design, %d in message %s", what, a.Name, a.Tag, f.Number, msg.Name)
		}
		c.checkShape(f, a.Type, what+"."+a.Name)
	}
	if len(msg.Fields) != expected {
		var extra []string
		for _, f := range msg.Fields {
			found := false
			for _, a := range obj.Attrs {
				if contains(excluded, a.Name) {
					continue
				}
				if spec.Norm(a.Name) == spec.Norm(f.Name) {
					found = true
				}
				if a.Type.Kind == spec.Union {
					for _, alt := range a.Type.Attrs {
						if spec.Norm(alt.Name) == spec.Norm(f.Name) {
							found = true
						}
					}
				}
			}
			if !found {
				extra = append(extra, f.Name)
			}
		}
		sort.Strings(extra)
		if len(extra) > 0 {
			c.add("proto-field-unexpected", "%s: message %s has fields %v that are not attributes carried by the message", what, msg.Name, extra)
		}
	}
}

// checkShape: arrays are repeated, maps are maps, objects are messages, primitives are scalars; recursion into messages.
func (c *protoChecker) checkShape(f *protostub.Field, t *spec.Type, what string) {
	rt, ut := c.s.Resolve(t)
	if rt == nil {
		rt = t
	}
	switch {
	case t.Kind == spec.Ref && ut != nil && ut.Kind != "alias" && rt.Kind != spec.Object:
		// named array/map types are wrapped into messages of their own: not compared
		return
	case rt.Kind == spec.Object:
		if f.IsMap() || f.IsRepeated() || f.Msg == nil {
			c.add("proto-field-shape-differs", "%s is an object, declared `%s`", what, fieldDecl(f))
			return
		}
		c.checkObject(f.Msg, rt, nil, what)
	case rt.Kind == spec.Array:
		if !f.IsRepeated() {
			c.add("proto-field-shape-differs", "%s is an array, declared `%s`", what, fieldDecl(f))
			return
		}
		c.checkElem(f.Msg, f.Type, rt.Elem.Type, what+"[]")
	case rt.Kind == spec.Map:
		if !f.IsMap() {
			c.add("proto-field-shape-differs", "%s is a map, declared `%s`", what, fieldDecl(f))
			return
		}
		c.checkElem(f.Msg, f.ValType, rt.Elem.Type, what+"[val]")
	case spec.IsPrim(rt.Kind):
		if f.IsMap() || f.IsRepeated() || !protostub.Scalars[f.Type] {
			c.add("proto-field-shape-differs", "%s is a %s, declared `%s`", what, rt.Kind, fieldDecl(f))
		}
	}
}

// checkElem compares the element of a repeated/map field: nested collections are wrapped by goa into
// messages with a single field.
func (c *protoChecker) checkElem(msg *protostub.Message, typeName string, et *spec.Type, what string) {
	rt, ut := c.s.Resolve(et)
	if rt == nil {
		rt = et
	}
	switch {
	case et.Kind == spec.Ref && ut != nil && ut.Kind != "alias" && rt.Kind != spec.Object:
		return
	case rt.Kind == spec.Object:
		if msg == nil {
			c.add("proto-field-shape-differs", "%s is an object, element type is %s", what, typeName)
			return
		}
		c.checkObject(msg, rt, nil, what)
	case rt.Kind == spec.Array || rt.Kind == spec.Map:
		if msg == nil || len(msg.Fields) != 1 {
			c.add("proto-field-shape-differs", "%s is a nested collection, element type is %s", what, typeName)
			return
		}
		c.checkShape(msg.Fields[0], et, what)
	case spec.IsPrim(rt.Kind):
		if !protostub.Scalars[typeName] {
			c.add("proto-field-shape-differs", "%s is a %s, element type is %s", what, rt.Kind, typeName)
		}
	}
}

func fieldDecl(f *protostub.Field) string {
	t := f.Type
	if f.IsMap() {
		t = "map<" + f.KeyType + ", " + f.ValType + ">"
	}
	l := ""
	if f.Label != "" {
		l = f.Label + " "
	}
	return fmt.Sprintf("%s%s %s = %d", l, t, f.Name, f.Number)
}
