package main

import (
	"verif.local/lab/spec"
	"verif.local/lab/vtree"
)

// The feature matrix: hand-built minimal gRPC designs, one per construct named
// in the quantifier of C10. It is the deterministic part of every tier (the
// random specs combine the same constructs).

func prim(k string) *spec.Type { return &spec.Type{Kind: k} }
func ref(n string) *spec.Type  { return &spec.Type{Kind: spec.Ref, Ref: n} }
func arr(e *spec.Type) *spec.Type {
	return &spec.Type{Kind: spec.Array, Elem: &spec.Attr{Type: e}}
}
func mp(k string, e *spec.Type) *spec.Type {
	return &spec.Type{Kind: spec.Map, Key: &spec.Attr{Type: prim(k)}, Elem: &spec.Attr{Type: e}}
}
func fld(tag int, name string, t *spec.Type) *spec.Attr {
	return &spec.Attr{Name: name, Tag: tag, Type: t}
}
func obj(required []string, attrs ...*spec.Attr) *spec.Type {
	return &spec.Type{Kind: spec.Object, Attrs: attrs, Required: required}
}
func union(alts ...*spec.Attr) *spec.Type { return &spec.Type{Kind: spec.Union, Attrs: alts} }
func body(t *spec.Type) *spec.Attr        { return &spec.Attr{Type: t} }
func utype(name string, def *spec.Type) *spec.UserType {
	return &spec.UserType{Name: name, Kind: "type", Def: def}
}
func alias(name, kind string, v *spec.Val) *spec.UserType {
	return &spec.UserType{Name: name, Kind: "alias", Def: prim(kind), Val: v}
}

type mopt func(*spec.Method)

func stream(kind string, sp *spec.Attr) mopt {
	return func(m *spec.Method) { m.Stream, m.StreamP = kind, sp }
}
func metadata(ls ...spec.Loc) mopt { return func(m *spec.Method) { m.GRPC.Metadata = ls } }
func headers(ls ...spec.Loc) mopt  { return func(m *spec.Method) { m.GRPC.Headers = ls } }
func trailers(ls ...spec.Loc) mopt { return func(m *spec.Method) { m.GRPC.Trailers = ls } }
func withError(name, code string) mopt {
	return func(m *spec.Method) {
		m.Errors = append(m.Errors, &spec.ErrorDecl{Name: name})
		m.GRPC.ErrCodes = append(m.GRPC.ErrCodes, struct {
			Name string `json:"name"`
			Code string `json:"code"`
		}{name, code})
	}
}

func meth(name string, payload, result *spec.Attr, opts ...mopt) *spec.Method {
	m := &spec.Method{Name: name, Payload: payload, Result: result, GRPC: &spec.GRPC{}}
	for _, o := range opts {
		o(m)
	}
	return m
}

func design(feature string, types []*spec.UserType, svcs ...*spec.Service) *spec.Spec {
	s := &spec.Spec{ID: "m-" + feature, API: spec.API{Name: "matrix"}, Types: types, Services: svcs}
	s.AddFeature("grpc", "matrix-"+feature)
	return s
}

func svc(name string, ms ...*spec.Method) *spec.Service {
	return &spec.Service{Name: name, GRPC: true, NoHTTP: true, Methods: ms}
}

func allPrims(base int, suffix string) []*spec.Attr {
	var out []*spec.Attr
	for i, k := range prims {
		out = append(out, fld(base+i, k+suffix, prim(k)))
	}
	return out
}

func matrix() []*spec.Spec {
	min1, max9 := 1.0, 9.0
	two, five := 2, 5
	point := utype("Point", obj([]string{"x"}, fld(1, "x", prim(spec.Float64)), fld(2, "y", prim(spec.Float64)), fld(3, "label", prim(spec.String))))
	line := utype("Line", obj([]string{"from"}, fld(1, "from", ref("Point")), fld(2, "to", ref("Point")), fld(5, "tags", arr(prim(spec.String)))))
	var out []*spec.Spec
	add := func(s *spec.Spec) { out = append(out, s) }
	val := func(a *spec.Attr, v *spec.Val) *spec.Attr { a.Val = v; return a }

	reqNames := []string{}
	for _, k := range prims {
		reqNames = append(reqNames, k+"_req")
	}
	add(design("primitives", nil, svc("prims",
		meth("required", body(obj(reqNames, allPrims(1, "_req")...)), body(obj(reqNames, allPrims(1, "_req")...))),
		meth("optional", body(obj(nil, allPrims(3, "_opt")...)), body(obj(nil, allPrims(3, "_opt")...))))))
	add(design("primitive-bodies", nil, svc("bodies",
		meth("str", body(prim(spec.String)), body(prim(spec.Int))),
		meth("blob", body(prim(spec.Bytes)), body(prim(spec.Boolean))),
		meth("f", body(prim(spec.Float32)), body(prim(spec.UInt64))))))
	add(design("collection-bodies", nil, svc("colls",
		meth("arr", body(arr(prim(spec.String))), body(arr(prim(spec.Int64)))),
		meth("dict", body(mp(spec.String, prim(spec.Float64))), body(mp(spec.Int32, prim(spec.Boolean)))))))
	add(design("no-body", nil, svc("empty",
		meth("nothing", nil, nil),
		meth("no_payload", nil, body(obj(nil, fld(1, "a", prim(spec.String))))),
		meth("no_result", body(obj(nil, fld(1, "a", prim(spec.String)))), nil))))
	add(design("user-types", []*spec.UserType{point, line}, svc("geo",
		meth("length", body(ref("Line")), body(ref("Point"))),
		meth("nested", body(obj([]string{"line"}, fld(1, "line", ref("Line")), fld(2, "extra", ref("Point")))), body(ref("Line"))))))
	add(design("arrays-maps", []*spec.UserType{point}, svc("colls2",
		meth("m", body(obj([]string{"pts"}, fld(1, "pts", arr(ref("Point"))), fld(2, "grid", arr(arr(prim(spec.Int)))), fld(3, "by_name", mp(spec.String, ref("Point"))),
			fld(4, "lists", mp(spec.String, arr(prim(spec.String)))), fld(5, "maps", arr(mp(spec.String, prim(spec.Int)))), fld(6, "keys", mp(spec.UInt64, prim(spec.Bytes))),
			fld(7, "bkeys", mp(spec.Boolean, prim(spec.String))))),
			body(obj(nil, fld(1, "cube", arr(arr(arr(prim(spec.Bytes))))), fld(2, "mm", mp(spec.String, mp(spec.Int32, prim(spec.UInt32))))))))))
	add(design("alias", []*spec.UserType{alias("Age", spec.Int, &spec.Val{Min: &min1, Max: &max9}), alias("Name", spec.String, nil), alias("Ratio", spec.Float64, nil)}, svc("aliases",
		meth("m", body(obj([]string{"age"}, fld(1, "age", ref("Age")), fld(2, "name", ref("Name")), fld(3, "ratio", ref("Ratio")), fld(4, "ages", arr(ref("Age"))))),
			body(obj(nil, fld(1, "age", ref("Age")), fld(2, "names", mp(spec.String, ref("Name")))))),
		meth("direct", body(ref("Age")), body(ref("Name"))))))
	add(design("alias-bytes", []*spec.UserType{alias("Blob", spec.Bytes, nil)}, svc("aliases2",
		meth("m", body(obj([]string{"req"}, fld(1, "req", ref("Blob")), fld(2, "opt", ref("Blob")))), body(obj(nil, fld(1, "opt", ref("Blob"))))))))
	add(design("oneof", []*spec.UserType{point}, svc("unions",
		meth("m", body(obj(nil, fld(1, "id", prim(spec.String)), &spec.Attr{Name: "choice", Type: union(fld(2, "s", prim(spec.String)), fld(3, "n", prim(spec.Int)), fld(4, "pt", ref("Point")), fld(5, "raw", prim(spec.Bytes)))})),
			body(obj(nil, &spec.Attr{Name: "value", Type: union(fld(7, "flag", prim(spec.Boolean)), fld(9, "ratio", prim(spec.Float64)))}))))))
	add(design("oneof-same-name-twice", nil, svc("unions2",
		meth("a", body(obj(nil, &spec.Attr{Name: "choice", Type: union(fld(1, "count", prim(spec.String)), fld(2, "flag", prim(spec.Boolean)))})), nil),
		meth("b", body(obj(nil, &spec.Attr{Name: "choice", Type: union(fld(1, "count", prim(spec.Float32)), fld(2, "flag", prim(spec.Boolean)))})), nil))))
	add(design("oneof-same-member-type", []*spec.UserType{point}, svc("unions3",
		meth("m", body(obj(nil, &spec.Attr{Name: "choice", Type: union(fld(1, "from", ref("Point")), fld(2, "to", ref("Point")))})), nil))))
	inner := utype("Inner", obj(nil, fld(1, "v", mp(spec.String, prim(spec.String)))))
	// Inner (which holds a map) is reached twice from Mid, once through a map: goa's depth computation marks it as
	// seen the first time and gives both enclosing loops the same variable name
	mid := utype("Mid", obj(nil, fld(1, "direct", ref("Inner")), fld(2, "inners", mp(spec.String, ref("Inner")))))
	add(design("nested-map-of-user-types", []*spec.UserType{inner, mid}, svc("maps2",
		meth("m", body(obj(nil, fld(1, "mids", mp(spec.String, ref("Mid"))))), nil))))
	add(design("metadata", nil, svc("meta_svc",
		meth("m", body(obj([]string{"token"}, fld(1, "token", prim(spec.String)), fld(2, "trace", prim(spec.String)), fld(3, "data", prim(spec.String)))),
			body(obj(nil, fld(1, "data", prim(spec.String)))),
			metadata(spec.Loc{Attr: "token", Wire: "authorization-token"}, spec.Loc{Attr: "trace"})),
		meth("all", body(obj(nil, fld(1, "token", prim(spec.String)))), nil, metadata(spec.Loc{Attr: "token"})))))
	add(design("headers-trailers", nil, svc("meta_ht",
		meth("m", nil, body(obj([]string{"etag"}, fld(1, "etag", prim(spec.String)), fld(2, "cost", prim(spec.String)), fld(3, "data", prim(spec.String)))),
			headers(spec.Loc{Attr: "etag"}), trailers(spec.Loc{Attr: "cost", Wire: "x-cost"})))))
	add(design("metadata-nonstring", nil, svc("meta_ns",
		meth("m", body(obj([]string{"n"}, fld(1, "n", prim(spec.Int32)), fld(2, "flag", prim(spec.Boolean)), fld(3, "f", prim(spec.Float64)), fld(4, "u", prim(spec.UInt64)), fld(5, "data", prim(spec.String)))),
			nil, metadata(spec.Loc{Attr: "n"}, spec.Loc{Attr: "flag"}, spec.Loc{Attr: "f"}, spec.Loc{Attr: "u"})))))
	o := func() *spec.Attr {
		return body(obj([]string{"a"}, fld(1, "a", prim(spec.String)), fld(2, "n", prim(spec.Int))))
	}
	add(design("streaming", nil, svc("streams",
		meth("server", o(), o(), stream("server", nil)),
		meth("client", nil, o(), stream("client", o())),
		meth("bidi", nil, o(), stream("bidi", o())),
		meth("client_no_result", nil, nil, stream("client", o())))))
	add(design("streaming-user-types", []*spec.UserType{point, line}, svc("streams2",
		meth("server", body(ref("Point")), body(ref("Line")), stream("server", nil)),
		meth("bidi", nil, body(ref("Point")), stream("bidi", body(ref("Line")))),
		meth("prims", nil, body(prim(spec.String)), stream("bidi", body(prim(spec.Int)))),
		meth("colls", nil, body(arr(prim(spec.String))), stream("client", body(mp(spec.String, prim(spec.Int))))))))
	add(design("streaming-with-payload", nil, svc("streams3",
		meth("obj", body(obj([]string{"token"}, fld(1, "token", prim(spec.String)), fld(2, "n", prim(spec.Int32)))), o(), stream("bidi", o())),
		meth("obj_client", body(obj(nil, fld(1, "token", prim(spec.String)))), o(), stream("client", o())))))
	add(design("streaming-with-primitive-payload", nil, svc("streams4",
		meth("prim", body(prim(spec.String)), o(), stream("client", o())))))
	add(design("errors", nil, svc("errs",
		meth("m", o(), o(), withError("not_found", "CodeNotFound"), withError("busy", "CodeUnavailable")),
		meth("s", o(), o(), stream("server", nil), withError("not_found", "CodeNotFound")))))
	dflt := func(a *spec.Attr, v any) *spec.Attr { a.Default, a.HasDef = v, true; return a }
	add(design("defaults", nil, svc("dflts",
		meth("m", body(obj(nil, dflt(fld(1, "s", prim(spec.String)), vtree.S("dflt")), dflt(fld(2, "n", prim(spec.Int)), vtree.I(3)), dflt(fld(3, "f", prim(spec.Float64)), vtree.F(1.5)),
			dflt(fld(4, "b", prim(spec.Boolean)), vtree.B(true)), dflt(fld(5, "u", prim(spec.UInt32)), vtree.U(0)), dflt(fld(6, "e", prim(spec.String)), vtree.S("")))),
			body(obj(nil, dflt(fld(1, "s", prim(spec.String)), vtree.S("r")), dflt(fld(2, "n", prim(spec.Int64)), vtree.I(7))))))))
	add(design("validations", []*spec.UserType{point}, svc("vals",
		meth("m", body(obj([]string{"s"}, val(fld(1, "s", prim(spec.String)), &spec.Val{MinLen: &two, MaxLen: &five}), val(fld(2, "n", prim(spec.Int)), &spec.Val{Min: &min1, Max: &max9}),
			val(fld(3, "e", prim(spec.String)), &spec.Val{Enum: []any{vtree.S("a"), vtree.S("b")}}), val(fld(4, "p", prim(spec.String)), &spec.Val{Pattern: "^[a-z]+$"}),
			val(fld(5, "u", prim(spec.String)), &spec.Val{Format: "uuid"}), val(fld(6, "l", arr(prim(spec.Int))), &spec.Val{MinLen: &two}), val(fld(7, "m", mp(spec.String, prim(spec.Int))), &spec.Val{MaxLen: &five}),
			fld(8, "pt", ref("Point")))),
			body(obj(nil, val(fld(1, "s", prim(spec.String)), &spec.Val{MinLen: &two})))))))
	// --- designs aimed at the runtime half (round trips, rejection before user code)
	one, three := 1, 3
	exMin, exMax := 2.0, 9.0
	elemV := func(t *spec.Type, v *spec.Val) *spec.Type { t.Elem.Val = v; return t }
	add(design("rt-validated-bodies", nil, svc("vbodies",
		meth("str", val(body(prim(spec.String)), &spec.Val{MinLen: &two, MaxLen: &five}), val(body(prim(spec.Int)), &spec.Val{Min: &min1, Max: &max9})),
		meth("arr", body(elemV(arr(prim(spec.String)), &spec.Val{Pattern: "^[a-z]+$"})), body(elemV(mp(spec.String, prim(spec.Int)), &spec.Val{Min: &min1}))),
		meth("chat", nil, val(body(prim(spec.Int)), &spec.Val{Min: &min1, Max: &max9}), stream("bidi", val(body(prim(spec.String)), &spec.Val{Pattern: "^[a-z]+$"}))))))
	add(design("rt-nested-collections", nil, svc("nested",
		meth("m", body(obj(nil, fld(1, "grid", arr(elemV(arr(prim(spec.Int)), &spec.Val{Min: &min1, Max: &max9}))), val(fld(2, "rows", arr(val(body(arr(prim(spec.String))), &spec.Val{MinLen: &one, MaxLen: &three}).Type)), nil),
			fld(3, "by_key", mp(spec.String, elemV(arr(prim(spec.String)), &spec.Val{MinLen: &two}))))),
			body(obj(nil, fld(1, "grid", arr(elemV(arr(prim(spec.Int)), &spec.Val{Min: &min1, Max: &max9})))))))))
	add(design("rt-metadata-defaults", nil, svc("mdflt",
		meth("m", body(obj(nil, dflt(val(fld(1, "color", prim(spec.String)), &spec.Val{Enum: []any{vtree.S("red"), vtree.S("green")}}), vtree.S("red")), dflt(fld(2, "level", prim(spec.Int64)), vtree.I(5)),
			dflt(fld(3, "in_msg", prim(spec.String)), vtree.S("dflt")), fld(4, "data", prim(spec.String)))),
			body(obj(nil, fld(1, "data", prim(spec.String)))), metadata(spec.Loc{Attr: "color", Wire: "x-color"}, spec.Loc{Attr: "level"})))))
	precise := 123456789.123456789 // (and every value near it) needs all 64 bits: the required weights are never float32 values
	// arrays of every numeric kind as request metadata: each element is written as text and parsed back, with the
	// conversion of ITS kind (response headers / trailers that are arrays do not compile: listed finding D11)
	add(design("rt-metadata-arrays", nil, svc("mdarr",
		meth("m", body(obj([]string{"weights"}, val(fld(1, "weights", elemV(arr(prim(spec.Float64)), &spec.Val{Min: &precise})), &spec.Val{MinLen: &one}), fld(2, "ratios", arr(prim(spec.Float32))), fld(3, "counts", arr(prim(spec.Int32))),
			fld(4, "bigs", arr(prim(spec.Int64))), fld(5, "ubigs", arr(prim(spec.UInt64))), fld(6, "names", arr(prim(spec.String))), fld(7, "flags", arr(prim(spec.Boolean))), fld(8, "ucounts", arr(prim(spec.UInt32))), fld(9, "data", prim(spec.String)))),
			body(obj(nil, fld(1, "data", prim(spec.String)))),
			metadata(spec.Loc{Attr: "weights"}, spec.Loc{Attr: "ratios", Wire: "x-ratios"}, spec.Loc{Attr: "counts"}, spec.Loc{Attr: "bigs"}, spec.Loc{Attr: "ubigs"}, spec.Loc{Attr: "names"}, spec.Loc{Attr: "flags"}, spec.Loc{Attr: "ucounts"})))))
	add(design("rt-exclusive-bounds", nil, svc("excl",
		meth("both", body(obj(nil, val(fld(1, "n", prim(spec.Int)), &spec.Val{ExclMin: &exMin, ExclMax: &exMax}), val(fld(2, "f", prim(spec.Float64)), &spec.Val{ExclMin: &exMin, ExclMax: &exMax}))), nil),
		meth("single", body(obj(nil, val(fld(1, "lo", prim(spec.Int)), &spec.Val{ExclMin: &exMin}), val(fld(2, "hi", prim(spec.UInt32)), &spec.Val{ExclMax: &exMax}))),
			body(obj(nil, val(fld(1, "hi", prim(spec.Float32)), &spec.Val{ExclMax: &exMax})))))))
	add(design("rt-optional-minlength", nil, svc("optlen",
		meth("m", body(obj(nil, val(fld(1, "tags", arr(prim(spec.String))), &spec.Val{MinLen: &one}), val(fld(2, "blob", prim(spec.Bytes)), &spec.Val{MinLen: &two}), val(fld(3, "dict", mp(spec.String, prim(spec.Int))), &spec.Val{MinLen: &one}),
			fld(4, "id", prim(spec.String)))), body(obj(nil, val(fld(1, "tags", arr(prim(spec.String))), &spec.Val{MinLen: &one})))))))
	inner2 := utype("Leaf", obj([]string{"code"}, val(fld(1, "code", prim(spec.String)), &spec.Val{Pattern: "^[a-z]+$"}), val(fld(2, "weight", prim(spec.Float32)), &spec.Val{Min: &min1}), dflt(fld(3, "unit", prim(spec.String)), vtree.S("kg"))))
	branch := utype("Branch", obj([]string{"leaf"}, fld(1, "leaf", ref("Leaf")), fld(2, "leaves", arr(ref("Leaf"))), fld(3, "by_name", mp(spec.String, ref("Leaf")))))
	add(design("rt-nested-user-types", []*spec.UserType{inner2, branch}, svc("trees2",
		meth("m", body(ref("Branch")), body(ref("Branch"))),
		meth("up", nil, body(ref("Leaf")), stream("client", body(ref("Branch")))),
		meth("down", body(ref("Leaf")), body(ref("Branch")), stream("server", nil)))))
	// attributes listed explicitly with Message(): their Required and validations must still be enforced
	creds := utype("Creds", obj([]string{"user"}, fld(1, "user", prim(spec.String)), val(fld(2, "pass", prim(spec.String)), &spec.Val{MinLen: &two})))
	add(design("rt-explicit-message", []*spec.UserType{creds}, svc("auth",
		meth("login", body(obj([]string{"name", "creds"}, fld(1, "name", prim(spec.String)), fld(2, "creds", ref("Creds")), fld(3, "token", prim(spec.String)))),
			body(obj([]string{"id", "creds"}, fld(1, "id", prim(spec.String)), fld(2, "creds", ref("Creds")))),
			func(m *spec.Method) {
				m.GRPC.Message = []spec.Loc{{Attr: "creds"}}
				m.GRPC.RespMessage = []spec.Loc{{Attr: "creds"}}
				m.GRPC.Metadata = []spec.Loc{{Attr: "token"}}
			}))))
	names := utype("Names", arr(prim(spec.String)))
	add(design("array-user-type", []*spec.UserType{names}, svc("named",
		meth("m", body(obj(nil, fld(1, "names", ref("Names")))), body(ref("Names"))))))
	add(design("inline-object", nil, svc("inline",
		meth("m", body(obj(nil, fld(1, "outer", obj([]string{"inner"}, fld(1, "inner", prim(spec.String)), fld(2, "n", prim(spec.Int)))))), body(obj(nil, fld(1, "a", prim(spec.String))))))))
	add(design("names-case", nil, svc("naming",
		meth("m", body(obj(nil, fld(1, "string", prim(spec.String)), fld(2, "message", prim(spec.String)), fld(3, "map", prim(spec.Int)), fld(4, "bool", prim(spec.Boolean)),
			fld(5, "option", prim(spec.String)), fld(6, "field", prim(spec.String)), fld(7, "type", prim(spec.String)), fld(8, "range", prim(spec.Int)),
			fld(9, "fooBar", prim(spec.String)), fld(10, "api_key", prim(spec.String)), fld(11, "user_id", prim(spec.String)), fld(12, "x1", prim(spec.String)),
			fld(13, "f2g", prim(spec.String)), fld(14, "int32_field", prim(spec.Int32)), fld(15, "URL", prim(spec.String)), fld(16, "v_2", prim(spec.String)),
			fld(17, "name", prim(spec.String)), fld(18, "size_", prim(spec.Int)), fld(19, "HTTPServer", prim(spec.String)), fld(20, "a1b2", prim(spec.String)))),
			body(obj(nil, fld(1, "rpc", prim(spec.String)), fld(2, "returns", prim(spec.Boolean)), fld(3, "oneof", prim(spec.String)), fld(4, "int64", prim(spec.Int64)), fld(5, "float", prim(spec.Float32))))),
		meth("find_by_id", nil, nil), meth("reset", nil, nil), meth("get_JSON", nil, nil), meth("Descriptor", nil, nil), meth("v2_sync", nil, nil))))
	add(design("names-pb-methods", nil, svc("naming2",
		meth("m", body(obj(nil, fld(1, "reset", prim(spec.Boolean)), fld(2, "descriptor", prim(spec.String)), fld(3, "proto_message", prim(spec.String)), fld(4, "marshal", prim(spec.String)))), nil))))
	add(design("names-getter-shadow", nil, svc("naming3",
		meth("m", body(obj(nil, fld(1, "get_name", prim(spec.String)), fld(2, "name", prim(spec.String)))), nil))))
	add(design("method-name-proto-keyword", nil, svc("naming4",
		meth("String", o(), o()), meth("bytes", o(), o()), meth("map", nil, o(), stream("bidi", o())))))
	add(design("large-tags", nil, svc("tags",
		meth("m", body(obj(nil, fld(536870911, "max", prim(spec.String)), fld(18999, "below", prim(spec.String)), fld(20000, "above", prim(spec.String)), fld(2048, "three_bytes", prim(spec.Int)), fld(16, "two_bytes", prim(spec.Int)))),
			body(obj(nil, fld(100, "a", prim(spec.String)), fld(3, "b", prim(spec.String)), fld(50, "c", prim(spec.String))))))))
	add(design("two-services", []*spec.UserType{point}, svc("first", meth("m", body(ref("Point")), body(ref("Point")))), svc("second", meth("m", body(ref("Point")), body(ref("Point"))), meth("other", nil, body(ref("Point"))))))
	rec := utype("Tree", obj([]string{"label"}, fld(1, "label", prim(spec.String)), fld(2, "children", arr(ref("Tree"))), fld(3, "parent", ref("Tree"))))
	add(design("recursive-through-array", []*spec.UserType{rec}, svc("trees", meth("m", body(ref("Tree")), body(ref("Tree"))))))
	list := utype("List", obj(nil, fld(1, "head", prim(spec.String)), fld(2, "tail", ref("List"))))
	add(design("recursive-direct", []*spec.UserType{list}, svc("lists", meth("m", body(ref("List")), body(ref("List"))))))
	// a validated message that reaches a recursive type which has no validation of its own
	add(design("recursive-below-validation", []*spec.UserType{list}, svc("lists2", meth("m", body(obj([]string{"id"}, val(fld(1, "id", prim(spec.String)), &spec.Val{MinLen: &two}), fld(2, "list", ref("List")))), nil))))
	add(design("probe-map-key-float", nil, svc("probes", meth("m", body(obj(nil, fld(1, "m", mp(spec.Float64, prim(spec.String))))), nil))))
	return out
}
