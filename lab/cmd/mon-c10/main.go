// mon-c10: gRPC definitions are well formed (property C10, generation half).
//
// Draws gRPC designs (gen.go), prints them as DSL, runs the real goa generators
// (gen + example, one fresh process per design) with the lab's stand-in `protoc`
// first on PATH, compiles everything, and decides:
//
//   - well-formedness: the stand-in's strict proto3 parser (protostub) is the
//     oracle; every generated .proto is also re-parsed here, independently of what
//     goa reports;
//   - structure against the SPEC (protocheck.go): field numbers = Field(n, ...),
//     no number or name twice in a message, numbers outside the reserved range,
//     one rpc per method with the designed streaming direction;
//   - the generated gRPC code compiles against stand-in *.pb.go files whose Go
//     names follow protoc-gen-go's rules (a disagreement between goa's idea of
//     those names and protoc-gen-go's is a compile error, as for a user).
//
// The runtime half (second sentence of the property: client -> loopback -> server round trips, rejection of
// invalid messages before user code) is runtime.go: every design that passes the clauses above is driven by a
// child process linked with the real generated code (pipeline.WriteGRPCHarness, package rtgrpc, case lists from
// cases.GRPCCases, verdicts from oracle.C10RT).
package main

import (
	"context"
	"errors"
	"fmt"
	"os"
	"os/exec"
	"path/filepath"
	"regexp"
	"sort"
	"strings"
	"time"

	"verif.local/lab/pipeline"
	"verif.local/lab/protostub"
	"verif.local/lab/rt"
	"verif.local/lab/spec"
	"verif.local/lab/vc"
)

type witness struct {
	// Exchange is set in the witnesses of the runtime half (runtime.go): the replay re-runs that one case
	Exchange *rt.GExchange     `json:"exchange,omitempty"`
	Spec     *spec.Spec        `json:"spec"`
	DSL      string            `json:"dsl"`
	Status   string            `json:"status"`
	Phase    string            `json:"phase,omitempty"`
	Errors   string            `json:"errors,omitempty"`
	Stack    string            `json:"stack,omitempty"`
	Diags    []string          `json:"diags,omitempty"`
	Protos   map[string]string `json:"protos,omitempty"`
	Findings []finding         `json:"findings,omitempty"`
	Crash    string            `json:"crash,omitempty"` // runtime half: the driver process died in this case
}

func scratch() string {
	if d := os.Getenv("VERIF_SCRATCH_DIR"); d != "" {
		return d
	}
	d, _ := os.MkdirTemp("/var/tmp", "verif.c10.")
	return d
}

// buildProtoc compiles the stand-in into <scratch>/bin/protoc and puts that directory first on PATH.
// VERIF_C10_REALPB=1 selects the cross-validation mode (messages from the real protoc-gen-go).
func buildProtoc(sc string) error {
	return protostub.Install(filepath.Join(vc.Root(), "lab"), filepath.Join(sc, "bin"), os.Getenv("VERIF_C10_REALPB") != "")
}

func syntaxError(msg string) bool {
	for _, p := range []string{"expected ", "reached end of input", "invalid character", "need space", "unterminated", "end-of-file"} {
		if strings.HasPrefix(msg, p) {
			return true
		}
	}
	return false
}

func headS(s string, n int) string {
	if len(s) > n {
		return s[:n] + "…"
	}
	return s
}

var frameRe = regexp.MustCompile(`(?m)^goa\.design/goa/v3/([\w/]+)\.([\w.()*]+)\(`)

// overflowSite returns the goa function that recurses without bound in a "stack overflow" crash ("" if the
// crash is something else).
func overflowSite(stack string) string {
	if !strings.Contains(stack, "stack overflow") && !strings.Contains(stack, "goroutine stack exceeds") {
		return ""
	}
	count := map[string]int{}
	for _, m := range frameRe.FindAllStringSubmatch(stack, -1) {
		count[m[1]+"."+m[2]]++
	}
	var cyc []string
	for fn, n := range count {
		if n >= 4 && !strings.HasPrefix(fn, "codegen/generator.") {
			cyc = append(cyc, fn)
		}
	}
	sort.Strings(cyc)
	return strings.Join(cyc, "+")
}

// rerunStderr executes the design's generator child once more (gen only) and returns its complete stderr.
func rerunStderr(d *pipeline.Design) string {
	tmp, err := os.MkdirTemp(filepath.Dir(d.Dir), "rerun")
	if err != nil {
		return d.Stack
	}
	defer os.RemoveAll(tmp)
	ctx, cancel := context.WithTimeout(context.Background(), 2*time.Minute)
	defer cancel()
	cmd := exec.CommandContext(ctx, filepath.Join(filepath.Dir(d.Dir), "labgen.bin"), d.ID, tmp, "gen")
	cmd.Dir = filepath.Dir(d.Dir)
	var se strings.Builder
	cmd.Stderr = &se
	_ = cmd.Run()
	if se.Len() == 0 {
		return d.Stack
	}
	return se.String()
}

func firstLine(s string) string { return strings.SplitN(strings.TrimSpace(s), "\n", 2)[0] }

// protoFiles returns the generated .proto files of a design (relative path -> text).
func protoFiles(dir string) map[string]string {
	out := map[string]string{}
	_ = filepath.Walk(dir, func(p string, info os.FileInfo, err error) error {
		if err == nil && !info.IsDir() && strings.HasSuffix(p, ".proto") {
			b, _ := os.ReadFile(p)
			rel, _ := filepath.Rel(dir, p)
			out[rel] = string(b)
		}
		return nil
	})
	return out
}

func grpcServices(s *spec.Spec) []*spec.Service {
	var out []*spec.Service
	for _, sv := range s.Services {
		if sv.GRPC {
			out = append(out, sv)
		}
	}
	return out
}

// judge applies the C10 generation-time oracle to one design. It reports whether the design is fit for the
// runtime half: accepted, well formed, structurally equal to the spec, generated transport code compiles.
func judge(run *vc.Run, d *pipeline.Design, verbose bool) (drivable bool) {
	run.Eval(1)
	run.Count("designs_"+d.Status, 1)
	w := witness{Spec: d.Spec, DSL: d.DSL, Status: d.Status, Phase: d.Phase, Errors: d.Errors, Stack: d.Stack, Diags: d.Diags}
	say := func(format string, a ...any) {
		if verbose {
			fmt.Printf(format+"\n", a...)
		}
	}
	switch d.Status {
	case "rejected":
		// the property quantifies over accepted designs
		run.Seen("rejections", pipeline.NormMsg(firstLine(d.Errors)))
		say("design rejected by goa (outside the property): %s", d.Errors)
		if os.Getenv("VERIF_DEBUG") != "" {
			fmt.Fprintf(os.Stderr, "REJECTED %s: %s\n%s\n", d.ID, d.Errors, d.DSL)
		}
		return false
	case "timeout":
		if os.Getenv("VERIF_DEBUG") != "" {
			fmt.Fprintf(os.Stderr, "TIMEOUT %s: %s\n%s\n%s\n", d.ID, d.Errors, d.Stderr, d.DSL)
		}
		run.Inconclusive("generator watchdog")
		return false
	case "panic":
		site := vc.PanicSite(d.Stack, "/repo/", strings.TrimPrefix(pipeline.Repo(), "/")+"/")
		if d.Phase == "dsl" || d.Phase == "eval" {
			run.Inconclusive("panic during DSL evaluation at " + site + " (C12)")
			return false
		}
		run.Violation("panic:"+d.Phase+":"+site, fmt.Sprintf("accepted gRPC design, generator %q panicked: %s", d.Phase, firstLine(d.Errors)), w)
		return false
	case "crash", "nodesign":
		if os.Getenv("VERIF_DEBUG") != "" {
			fmt.Fprintf(os.Stderr, "CRASH %s: %s\n%s\n%s\n", d.ID, d.Errors, headS(d.Stack, 3000), d.DSL)
		}
		full := d.Stack + "\n" + d.Stderr
		if strings.Contains(full, "stack overflow") {
			// the pipeline keeps only the head and tail of stderr: run the child again to see every printed frame
			full = rerunStderr(d)
		}
		if fn := overflowSite(full); fn != "" {
			// the DSL was evaluated and accepted long before: the recursion is inside a generator
			w.Stack = headS(d.Stack, 6000)
			run.Violation("crash:stack-overflow:"+fn, "accepted gRPC design, the generator process dies with a stack overflow in "+fn, w)
			return false
		}
		run.Inconclusive("labgen did not complete: " + firstLine(d.Errors))
		return false
	}
	// accepted or generror: the .proto files are on disk either way (protoc runs after they are written)
	w.Protos = protoFiles(d.Dir)
	parsed := map[string]*protostub.File{}
	malformed := false
	for _, rel := range pipeline.SortedKeys(w.Protos) {
		f, err := protostub.ParseFile(filepath.Join(d.Dir, rel), []string{filepath.Dir(filepath.Join(d.Dir, rel))})
		if err != nil {
			malformed = true
			msg := stripPos(err.Error())
			say("%s is NOT well-formed proto3: %v", rel, err)
			shape := ""
			var pe *protostub.Error
			if errors.As(err, &pe) && syntaxError(msg) {
				// a syntax error says little by itself: the shape of the offending line tells the constructs apart
				shape = " @ " + lineShape(w.Protos[rel], pe.Line)
			}
			run.Violation("proto-malformed:"+normParseMsg(msg)+shape, fmt.Sprintf("accepted design, generated %s is not well-formed proto3: %s", filepath.Base(rel), err), w)
			continue
		}
		if err := protostub.CrossCheck(f); err != nil {
			// second judge: protobuf-go's own descriptor validation
			malformed = true
			say("%s: %v", rel, err)
			run.Violation("proto-malformed:descriptor:"+normParseMsg(err.Error()), fmt.Sprintf("accepted design, generated %s is refused by protobuf-go's descriptor validation: %v", filepath.Base(rel), err), w)
			continue
		}
		say("%s parses as proto3 (and protobuf-go accepts its descriptor): %d messages, %d services", rel, len(f.AllMessages()), len(f.Services))
		parsed[rel] = f
	}
	if d.Status == "generror" {
		if !malformed {
			// the generator failed for another reason (e.g. the stand-in refused valid input: infrastructure, or a goa error)
			key := "generror:" + d.Phase + ":" + pipeline.NormMsg(firstLine(d.Errors))
			if strings.Contains(d.Errors, "failed to run protoc") {
				run.Infra("stand-in protoc failed on a file the monitor's parser accepts: %s", firstLine(d.Errors))
				return false
			}
			run.Violation(key, fmt.Sprintf("accepted gRPC design, generator %q failed: %s", d.Phase, firstLine(d.Errors)), w)
		}
		return false
	}
	// structural clauses against the spec
	svcs := grpcServices(d.Spec)
	pc := &protoChecker{s: d.Spec, seen: map[string]bool{}, stats: map[string]int{}}
	matched := map[string]bool{}
	for _, sv := range svcs {
		var file *protostub.File
		for _, rel := range pipeline.SortedKeys(w.Protos) {
			if f := parsed[rel]; f != nil && findService(f, sv.Name) != nil {
				file = f
				matched[rel] = true
			}
		}
		if file == nil {
			if !malformed {
				pc.add("proto-file-missing", "no generated .proto declares gRPC service %q", sv.Name)
			}
			continue
		}
		pc.checkService(file, sv)
	}
	for rel := range parsed {
		if !matched[rel] {
			pc.add("proto-file-unexpected", "%s corresponds to no gRPC service of the design", rel)
		}
	}
	w.Findings = pc.out
	seen := map[string]bool{}
	for _, f := range pc.out {
		say("STRUCTURE: %s: %s", f.Key, f.What)
		if !seen[f.Key] {
			seen[f.Key] = true
			run.Violation(f.Key, f.What, w)
		}
	}
	for k, v := range pc.stats {
		run.Count("proto_"+k, v)
	}
	// compile diagnostics of the generated code (stand-in pb packages included)
	genBroken := false
	if len(d.Diags) > 0 {
		seen := map[string]bool{}
		for _, dg := range d.Diags {
			k := keyDiag(d.Spec, dg)
			say("COMPILE: %s\n         key %s", dg, k)
			if strings.Contains(dg, ".pb.go:") {
				run.Infra("diagnostic inside a stand-in *.pb.go file (stand-in writer bug): %s", dg)
				genBroken = true
				continue
			}
			if strings.HasPrefix(dg, "gen/") {
				genBroken = true
			}
			if !strings.HasPrefix(dg, "gen/") {
				// `goa example` output is C01's subject, not part of C10's statement
				run.Count("example_diagnostics_left_to_C01", 1)
				continue
			}
			if !seen[k] {
				seen[k] = true
				run.Violation(k, "accepted gRPC design generates transport code that does not compile against protoc-gen-go's Go API: "+dg, w)
			}
		}
	}
	if genBroken {
		return false
	}
	if malformed || len(pc.out) > 0 {
		return false
	}
	say("all structural clauses hold and the generated code compiles")
	run.Count("designs_compiled", 1)
	run.Distinct(d.Spec.Signature())
	for _, f := range d.Spec.Features {
		run.Seen("features", f)
	}
	for _, sv := range svcs {
		for _, m := range sv.Methods {
			k := m.Stream
			if k == "" {
				k = "unary"
			}
			run.Seen("stream_kinds", k)
		}
	}
	return true
}

func runBatch(dir string, specs []*spec.Spec) (*pipeline.Batch, error) {
	b, err := pipeline.NewBatch(dir, specs)
	if err != nil {
		return nil, err
	}
	if err := b.BuildLabgen(); err != nil {
		return nil, err
	}
	b.Generate()
	if err := b.Compile(); err != nil {
		return b, err
	}
	return b, nil
}

func main() {
	run := vc.New("C10")
	run.Rule("gRPC specs drawn from (seed, index) [services, methods, payload/result shapes, field numbers, OneOf, aliases, nested/recursive types, metadata/header/trailer mappings, 4 streaming kinds], printed as DSL, run through the real eval.RunDSL + generator.Generate(gen, example) in a fresh process each with the stand-in protoc first on PATH; every generated .proto re-parsed by the independent proto3 parser and compared with the spec; every generated package compiled; non-trivial = accepted, well-formed, structurally equal to the spec and compiled; distinct = distinct feature signature. Runtime half: every such design is driven in a child process through the real generated client, server and endpoints over the pbrt loopback (valid payloads / streams / results over boundary classes, boundary probes of every validation rule through the generated client and as hand-built protobuf messages, scripted invalid results); each exchange is judged offline from the spec; distinct also counts (method shape x case class) signatures of held exchanges")
	run.Assume("protoc and protoc-gen-go are absent from the sandbox: well-formedness is decided by the lab's own strict proto3 parser (grammar and semantic checks transcribed from the protobuf language specification), Go API compatibility by stand-in *.pb.go files whose identifiers follow protoc-gen-go's published naming algorithm (GoCamelCase, conflict suffixes, oneof wrappers)",
		"attribute, type, service and method names are ASCII identifiers; proto messages/fields/rpcs are matched to spec types/attributes/methods by case- and underscore-insensitive name (goa's exact renaming is not part of the property)",
		"generation-time clauses and round trips are decided by the same run: the runtime half (runtime.go) drives every design that passed the generation-time clauses")
	rtDeclare(run)
	run.Floor(4)
	sc := scratch()
	if err := buildProtoc(sc); err != nil {
		run.Infra("%v", err)
		run.Finish()
	}
	if run.Replay != "" {
		var w witness
		if err := run.LoadReplay(&w); err != nil {
			run.Infra("cannot load replay: %v", err)
			run.Finish()
		}
		b, err := runBatch(filepath.Join(sc, "replay"), []*spec.Spec{w.Spec})
		if err != nil && b == nil {
			run.Infra("%v", err)
			run.Finish()
		}
		d := b.Designs[0]
		fmt.Println(d.DSL)
		fmt.Printf("status=%s phase=%s errors=%s\n", d.Status, d.Phase, d.Errors)
		for rel, txt := range protoFiles(d.Dir) {
			fmt.Printf("---- %s\n%s\n", rel, txt)
		}
		run.Floor(0)
		drivable := judge(run, d, w.Exchange == nil && w.Crash == "")
		if w.Exchange != nil || w.Crash != "" {
			// witness of the runtime half: drive that one case again (the whole case list for a crash) and print the oracle's reasoning
			if !drivable {
				fmt.Println("the design is not drivable any more (see the generation-time verdict)")
				run.Finish()
			}
			var only []*rt.GCase
			if w.Exchange != nil {
				only = []*rt.GCase{w.Exchange.Case}
			}
			runtimePhase(run, b, []*pipeline.Design{d}, only, true)
		}
		run.Finish()
	}
	n := run.N(24, 300)
	var specs []*spec.Spec
	only := os.Getenv("VERIF_C10_ONLY")
	if only != "random" {
		specs = append(specs, matrix()...)
	}
	if only == "matrix" {
		n = 0
	}
	for i := 0; i < n; i++ {
		specs = append(specs, genSpec(run.Rand(uint64(i)), fmt.Sprintf("g%04d", i), genOpts{Broken: os.Getenv("VERIF_C10_BROKEN") != ""}))
	}
	// batches of 100 designs keep the scratch module and the compile step small
	for lo := 0; lo < len(specs); lo += 100 {
		hi := lo + 100
		if hi > len(specs) {
			hi = len(specs)
		}
		b, err := runBatch(filepath.Join(sc, fmt.Sprintf("batch%d", lo/100)), specs[lo:hi])
		if b == nil {
			run.Infra("%v", err)
			run.Finish()
		}
		if err != nil {
			run.Infra("%v", err)
		}
		var drivable []*pipeline.Design
		for _, d := range b.Designs {
			before := run.Violations()
			if judge(run, d, false) {
				drivable = append(drivable, d)
			}
			if os.Getenv("VERIF_DEBUG") != "" {
				fmt.Fprintf(os.Stderr, "DESIGN %s %-40s status=%s new_violation_keys=%d diags=%d %s\n", d.ID, d.Spec.ID+" "+strings.Join(d.Spec.Features, ","), d.Status, run.Violations()-before, len(d.Diags), firstLine(d.Errors))
			}
		}
		if os.Getenv("VERIF_DEBUG") != "" {
			c := b.StatusCounts()
			ks := make([]string, 0, len(c))
			for k := range c {
				ks = append(ks, k)
			}
			sort.Strings(ks)
			for _, k := range ks {
				fmt.Fprintf(os.Stderr, "batch %d: %s=%d\n", lo/100, k, c[k])
			}
		}
		if os.Getenv("VERIF_C10_NORT") == "" {
			runtimePhase(run, b, drivable, nil, false)
		}
		if os.Getenv("VERIF_KEEP") == "" && hi < len(specs) {
			os.RemoveAll(b.Dir) // thorough tier: keep the scratch small
		}
	}
	run.Sample(map[string]any{"spec": specs[0]})
	rtFinish(run)
	run.Finish()
}
