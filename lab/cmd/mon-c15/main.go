// mon-c15: response and request bodies are encoded as the Content-Type
// announces (property C15, DESIGN.md §7.C15).
//
// The monitor drives the real goahttp.ResponseEncoder / ResponseDecoder /
// RequestEncoder / RequestDecoder / ErrorEncoder over a grid of header
// literals and values. The oracle shares no code with goa: body formats are
// recognised by decoding with encoding/json, encoding/xml, encoding/gob or as
// raw text; Content-Type values are read by a tokenizer of its own
// (model.go); expected formats are literal annotations of every grid literal.
package main

import (
	"fmt"
	"runtime"
	"strings"
	"sync"

	"verif.local/lab/vc"
)

type outcome struct {
	cell Cell
	res  *result
	sig  string
}

func evalCell(c *Cell) *result {
	switch c.Side {
	case "response":
		return evalResponse(c)
	case "request-std":
		return evalRequestStd(c)
	case "request-goa":
		return evalRequestGoa(c)
	case "response-std":
		return evalResponseStd(c)
	case "debugdoer":
		return evalDebugDoer(c)
	}
	r := &result{}
	r.fail("bad-cell", "unknown side %q", c.Side)
	return r
}

func respCell(ai, di, pi, vi int) (Cell, string) {
	a, d, p, v := accepts[ai], designed[di], presets[pi], values[vi]
	return Cell{Side: "response", Accept: a.S, AcceptClass: a.Class, CT: d.S, CTClass: d.Class, Preset: p.S, PresetClass: p.Class,
		Want: respWant(a, d), Value: v}, fmt.Sprintf("R/%d/%d/%d/%s", ai, di, pi, v.Kind)
}

// accept literals used for the 415 answer (ErrorEncoder negotiates on them)
var errAccepts = []int{0, 2, 3, 4, 5, 8, 23, 30, 39, 46}

// requestCells enumerates the whole request-side grid (both tiers).
func requestCells() []outcome {
	var out []outcome
	n := 0
	add := func(c Cell, sig string) {
		a := accepts[errAccepts[n%len(errAccepts)]]
		n++
		c.Accept, c.AcceptClass = a.S, a.Class
		out = append(out, outcome{cell: c, sig: sig})
	}
	for ci, t := range requestTypes {
		for _, v := range values {
			base := Cell{CT: t.S, CTClass: t.Class, Expect: t.Expect, Format: t.Format, Value: v}
			switch t.Expect {
			case "must", "either":
				if canCarry(t.Format, v.Kind) {
					c := base
					c.Side, c.BodyFormat = "request-std", t.Format
					add(c, fmt.Sprintf("QS/%d/%s/%s", ci, t.Format, v.Kind))
				}
			default:
				for _, f := range allFormats {
					if canCarry(f, v.Kind) {
						c := base
						c.Side, c.BodyFormat = "request-std", f
						add(c, fmt.Sprintf("QS/%d/%s/%s", ci, f, v.Kind))
					}
				}
			}
			// the same literal as a response Content-Type read by ResponseDecoder
			switch t.Expect {
			case "must", "either":
				if canCarry(t.Format, v.Kind) {
					c := base
					c.Side, c.BodyFormat = "response-std", t.Format
					add(c, fmt.Sprintf("PS/%d/%s/%s", ci, t.Format, v.Kind))
				}
			default:
				if canCarry(fJSON, v.Kind) {
					c := base
					c.Side, c.BodyFormat, c.Expect = "response-std", fJSON, "default-json"
					add(c, fmt.Sprintf("PS/%d/json/%s", ci, v.Kind))
				}
			}
			if v.Kind != "gobstruct" {
				c := base
				c.Side = "request-goa"
				add(c, fmt.Sprintf("QG/%d/%s", ci, v.Kind))
			}
		}
	}
	return out
}

func debugCells() []outcome {
	var out []outcome
	types := map[string]string{fJSON: "application/json", fXML: "application/vnd.goa.thing+xml; charset=utf-8", fGob: "application/gob", fText: "text/plain; charset=utf-8"}
	for _, f := range allFormats {
		for vi, v := range values {
			if !canCarry(f, v.Kind) || !canCarry(fJSON, v.Kind) {
				continue
			}
			out = append(out, outcome{cell: Cell{Side: "debugdoer", CT: sp(types[f]), Format: f, Value: v}, sig: fmt.Sprintf("D/%s/%d", f, vi)})
		}
	}
	return out
}

// record folds one evaluated cell into the run (called in deterministic order).
func record(run *vc.Run, o *outcome) {
	c, r := &o.cell, o.res
	run.Eval(1)
	run.Count("cells_"+c.Side, 1)
	for _, k := range []string{"encoder", "decoder"} {
		if t := c.Obs[k]; t != "" {
			run.Seen(c.Side+"_"+k+"_types", t)
		}
	}
	if h, ok := c.Obs["content_type_set"]; ok {
		run.Seen("response_content_type_shapes", headerShape(h))
		run.Seen("response_content_types", h)
	}
	if _, judged := c.Obs["body_is"]; c.Side == "response" && judged && !r.trivial {
		d := "none"
		if len(r.detected) > 0 {
			d = strings.Join(r.detected, "|")
		}
		run.Count("response_body_is_"+d, 1)
	}
	if _, ok := c.Obs["encode_error"]; ok && len(r.bad) == 0 {
		run.Count("encode_errors_permitted", 1)
	}
	if r.exempt != "" {
		run.Count("exempt_"+r.exempt, 1)
	}
	if r.trivial {
		run.Count("trivial_cells", 1)
	} else if r.exempt == "" {
		run.Distinct(o.sig)
	}
	for _, f := range r.bad {
		run.Violation(f.key, f.what, c)
	}
}

// runAll evaluates n cells produced by gen(i) on all cores and records them in index order.
func runAll(run *vc.Run, n int, gen func(i int) outcome, sample int) {
	const chunk = 2048
	workers := runtime.GOMAXPROCS(0)
	type job struct{ lo, hi int }
	nchunks := (n + chunk - 1) / chunk
	done := make([]chan []outcome, nchunks)
	for i := range done {
		done[i] = make(chan []outcome, 1)
	}
	jobs := make(chan int, nchunks)
	for i := 0; i < nchunks; i++ {
		jobs <- i
	}
	close(jobs)
	var wg sync.WaitGroup
	sem := make(chan struct{}, workers*2) // bounds memory: chunks evaluated but not yet recorded
	for wkr := 0; wkr < workers; wkr++ {
		wg.Add(1)
		go func() {
			defer wg.Done()
			for ci := range jobs {
				sem <- struct{}{}
				lo, hi := ci*chunk, (ci+1)*chunk
				if hi > n {
					hi = n
				}
				outs := make([]outcome, 0, hi-lo)
				for i := lo; i < hi; i++ {
					o := gen(i)
					o.res = evalCell(&o.cell)
					if len(o.res.bad) == 0 && i >= sample {
						o.res.notes = nil
						o.cell.Obs = slim(o.cell.Obs)
					}
					outs = append(outs, o)
				}
				done[ci] <- outs
			}
		}()
	}
	idx := 0
	for ci := 0; ci < nchunks; ci++ {
		outs := <-done[ci]
		<-sem
		for k := range outs {
			record(run, &outs[k])
			if idx < sample {
				c := outs[k].cell
				run.Sample(map[string]any{"side": c.Side, "accept": c.Accept, "content_type": c.CT, "preset": c.Preset, "value_kind": c.Value.Kind, "want": c.Want, "observed": c.Obs})
			}
			idx++
		}
	}
	wg.Wait()
}

func slim(m map[string]string) map[string]string {
	delete(m, "body")
	return m
}

func main() {
	run := vc.New("C15")
	run.Rule(fmt.Sprintf("response grid = %d Accept literals (absent, exact, parameters/q-values, case, lists, wildcards, +suffix, unknown, garbage) x %d designed content types (absent, exact, +json/+xml/+gob vendor types, parameters, unknown, unparseable) x %d pre-set Content-Type headers x %d values (struct with json/xml tags, string, *string, []byte, gob-registered struct with interface fields, goahttp.ErrorResponse): quick samples 6000 cells with the PRNG, thorough enumerates every cell. Request grid (always enumerated) = %d Content-Type literals x values x {body written by the case with the stdlib in the announced format, read by RequestDecoder | same, read by ResponseDecoder | body written by goahttp.RequestEncoder, read by RequestDecoder}; unsupported and garbage request types get a body in each of the four formats. A cell is non-trivial when the encoder produced a body and the round trip was judged; distinct = distinct (accept, designed, preset, value kind) index tuples.",
		len(accepts), len(designed), len(presets), len(values), len(requestTypes)))
	run.Assume(
		"Accept lists and wildcards are not described by the godoc of ResponseEncoder: any supported format is accepted for them, only the round trip is demanded",
		"Accept/designed types that differ from a supported type only by letter case, by a +xml/+gob/+txt/+html suffix on an Accept value, or that are text/xml: honouring them or falling back to JSON are both accepted",
		"a pre-set response Content-Type that already carries a structured +suffix and is left byte-for-byte untouched is the caller's announcement (SetContentType documents that it leaves it alone): a mismatch with the negotiated body is counted (exempt_caller-suffixed-header-left-untouched), not reported",
		"RequestEncoder is documented as JSON-only: when the caller pre-set a non-JSON request Content-Type and the encoder leaves it, the mismatch is counted (exempt_caller-request-type-with-json-only-encoder), not reported; RequestDecoder for xml/gob/text is exercised with bodies written by the standard library",
		"request Content-Types with a +json/+xml/+gob suffix or upper-case spelling may be decoded correctly or refused with unsupported_media_type; values that are not media types at all may be refused or handed to the documented JSON default",
		"encode errors are permitted where a permitted format cannot carry the value (text codec: string/*string/[]byte only; encoding/xml: no []byte root)",
		"values avoid losses inherent to the formats themselves (empty non-nil slices, pointers to zero values under gob, control characters under XML)")

	if run.Replay != "" {
		var c Cell
		if err := run.LoadReplay(&c); err != nil {
			fmt.Println("replay:", err)
			run.Infra("cannot load replay: %v", err)
			run.Finish()
		}
		r := evalCell(&c)
		fmt.Printf("replaying %s cell\n", c.Side)
		for _, n := range r.notes {
			fmt.Println("  " + n)
		}
		if len(r.bad) == 0 {
			fmt.Println("  => held")
		}
		o := outcome{cell: c, res: r, sig: "replay"}
		record(run, &o)
		run.Finish()
	}

	// ---- response side
	na, nd, np, nv := len(accepts), len(designed), len(presets), len(values)
	total := na * nd * np * nv
	run.Extra("response_grid_cells", total)
	if run.Thorough() {
		run.Exhaustive(true)
		runAll(run, total, func(i int) outcome {
			vi := i % nv
			pi := (i / nv) % np
			di := (i / nv / np) % nd
			ai := i / nv / np / nd
			c, sig := respCell(ai, di, pi, vi)
			return outcome{cell: c, sig: sig}
		}, 4)
	} else {
		run.Exhaustive(false)
		runAll(run, 6000, func(i int) outcome {
			r := run.Rand(15, uint64(i))
			ai, di, pi, vi := r.Intn(na), r.Intn(nd), r.Intn(np), r.Intn(nv)
			// the designed type hides the Accept header: keep half of the cells on the Accept path
			if r.Bool() {
				di = r.Intn(2)
			}
			c, sig := respCell(ai, di, pi, vi)
			return outcome{cell: c, sig: sig}
		}, 4)
	}

	// ---- request side (enumerated in both tiers)
	reqs := requestCells()
	run.Extra("request_grid_cells", len(reqs))
	runAll(run, len(reqs), func(i int) outcome { return reqs[i] }, 2)

	// ---- DebugDoer pass-through (serial: it swaps os.Stderr)
	for _, o := range debugCells() {
		o.res = evalCell(&o.cell)
		record(run, &o)
	}

	if run.Thorough() {
		run.Floor(100000)
	} else {
		run.Floor(3000)
	}
	run.Finish()
}
