package main

import (
	"bytes"
	"context"
	"errors"
	"fmt"
	"io"
	"net/http"
	"net/http/httptest"
	"os"
	"reflect"
	"strings"

	goahttp "goa.design/goa/v3/http"
	goa "goa.design/goa/v3/pkg"
)

const unsupportedName = "unsupported_media_type" // literal from the property statement / godoc

func newRequest(ct *string, body []byte) *http.Request {
	req := httptest.NewRequest("POST", "http://example.invalid/things", bytes.NewReader(body))
	req.Header.Del("Content-Type")
	if ct != nil {
		req.Header.Set("Content-Type", *ct)
	}
	return req
}

// check415 decides whether err is the documented "unsupported media type"
// answer: goa error name, 415 from ErrorResponse.StatusCode, 415 written by
// ErrorEncoder. It returns (named, problems).
func check415(c *Cell, r *result, err error) bool {
	var se *goa.ServiceError
	if !errors.As(err, &se) || se.Name != unsupportedName {
		return false
	}
	ctx := context.Background()
	if c.Accept != nil {
		ctx = context.WithValue(ctx, goahttp.AcceptTypeKey, *c.Accept)
	}
	var st goahttp.Statuser
	if p, site := try(func() { st = goahttp.NewErrorResponse(ctx, err) }); p != "" {
		r.fail("unsupported-error-response-panic site="+site, "NewErrorResponse panicked: %s", p)
		return true
	}
	if isNil(st) || st.StatusCode() != 415 {
		code := -1
		if !isNil(st) {
			code = st.StatusCode()
		}
		r.fail("unsupported-status-not-415", "error %q is named %s but NewErrorResponse(...).StatusCode() = %d", err, unsupportedName, code)
	}
	// what a generated handler does with it
	rec := httptest.NewRecorder()
	var werr error
	if p, site := try(func() { werr = goahttp.ErrorEncoder(goahttp.ResponseEncoder, nil)(ctx, rec, err) }); p != "" {
		r.fail("unsupported-error-encoder-panic site="+site, "ErrorEncoder panicked: %s", p)
		return true
	}
	if rec.Code != 415 {
		r.fail("unsupported-answer-not-415", "ErrorEncoder answered %d for an %s error (accept=%s)", rec.Code, unsupportedName, str(c.Accept))
	}
	r.note("goa: error %q; NewErrorResponse status %d; ErrorEncoder wrote status %d, Content-Type %q, encode error %v", err, st.StatusCode(), rec.Code, rec.Header().Get("Content-Type"), werr)
	if werr == nil {
		// the error body itself must come back through ResponseDecoder
		res := rec.Result()
		var out goahttp.ErrorResponse
		var derr error
		if p, site := try(func() { derr = goahttp.ResponseDecoder(res).Decode(&out) }); p != "" {
			r.fail("unsupported-error-decode-panic site="+site, "decoding the 415 body panicked: %s", p)
		} else if derr != nil || out.Name != unsupportedName || out.Message != se.Message || out.ID != se.ID {
			r.fail("unsupported-error-body-roundtrip accept="+c.AcceptClass, "415 body does not come back through ResponseDecoder (Content-Type %q): err=%v got=%+v", res.Header.Get("Content-Type"), derr, out)
		}
	}
	return true
}

// evalRequestStd: the case writes the body with the standard library in the
// format the Content-Type announces (or in every format for unsupported /
// garbage types) and goa's RequestDecoder must recover it or answer 415.
func evalRequestStd(c *Cell) *result {
	r := &result{}
	c.Obs = map[string]string{}
	v := c.Value
	body, err := stdEncode(c.BodyFormat, v.build())
	if err != nil {
		r.trivial = true
		r.note("stdlib cannot write a %s as %s: %v", v.Kind, c.BodyFormat, err)
		return r
	}
	req := newRequest(c.CT, body)
	r.note("request Content-Type=%s (%s), body written by the case as %s: %s", str(c.CT), c.Expect, c.BodyFormat, short(body))
	var dec goahttp.Decoder
	if p, site := try(func() { dec = goahttp.RequestDecoder(req) }); p != "" {
		r.fail("req-decoder-panic site="+site, "RequestDecoder panicked: %s", p)
		return r
	}
	c.Obs["decoder"] = fmt.Sprintf("%T", dec)
	if isNil(dec) {
		r.fail("req-decoder-nil ct="+c.CTClass, "RequestDecoder returned nil for Content-Type %s", str(c.CT))
		return r
	}
	out := v.target()
	var derr error
	if p, site := try(func() { derr = dec.Decode(out) }); p != "" {
		r.fail("req-decode-panic site="+site, "Decode panicked: %s", p)
		return r
	}
	r.note("goa: RequestDecoder chose %T, Decode error=%v, value=%s", dec, derr, v.show(out))
	judgeRequest(c, r, body, derr, out)
	return r
}

func judgeRequest(c *Cell, r *result, body []byte, derr error, out any) {
	v := c.Value
	okValue := derr == nil && v.same(out)
	named := derr != nil && check415(c, r, derr)
	if named && !v.untouched(out) {
		r.fail("req-unsupported-but-decoded ct="+c.CTClass, "Decode returned %s yet wrote %s into the target", unsupportedName, v.show(out))
	}
	switch c.Expect {
	case "must":
		if !okValue {
			r.fail(fmt.Sprintf("req-roundtrip ct=%s body=%s", c.CTClass, c.BodyFormat), "documented-as-supported Content-Type %s: a %s body did not come back: err=%v value=%s", str(c.CT), c.BodyFormat, derr, v.show(out))
		}
	case "either":
		if !okValue && !named {
			r.fail(fmt.Sprintf("req-neither-decoded-nor-415 ct=%s body=%s", c.CTClass, c.BodyFormat), "Content-Type %s: body (%s) neither decoded to the original nor refused as %s: err=%v value=%s", str(c.CT), c.BodyFormat, unsupportedName, derr, v.show(out))
		}
	case "unsupported":
		if !named {
			r.fail(fmt.Sprintf("req-unsupported-not-415 ct=%s body=%s", c.CTClass, c.BodyFormat), "unsupported Content-Type %s was not refused as %s: err=%v value=%s (silently handed to another decoder)", str(c.CT), unsupportedName, derr, v.show(out))
		}
	case "garbage":
		switch {
		case named, okValue:
		case derr != nil && c.BodyFormat != fJSON:
			r.note("garbage Content-Type, non-JSON body refused by the default decoder: accepted (godoc: JSON default)")
		case derr == nil && c.BodyFormat != fJSON && jsonReads(v, body, out):
			r.note("garbage Content-Type, the non-JSON body happens to be valid JSON and was read as such: accepted (godoc: JSON default)")
		default:
			r.fail(fmt.Sprintf("req-garbage-misdecoded ct=%s body=%s", c.CTClass, c.BodyFormat), "Content-Type %s is not a media type: expected %s or the documented JSON default, got err=%v value=%s", str(c.CT), unsupportedName, derr, v.show(out))
		}
	}
}

// evalRequestGoa: goa's RequestEncoder writes the body, goa's RequestDecoder reads it.
func evalRequestGoa(c *Cell) *result {
	r := &result{}
	c.Obs = map[string]string{}
	v := c.Value
	req := newRequest(c.CT, nil)
	var enc goahttp.Encoder
	if p, site := try(func() { enc = goahttp.RequestEncoder(req) }); p != "" {
		r.fail("req-encoder-panic site="+site, "RequestEncoder panicked: %s", p)
		return r
	}
	c.Obs["encoder"] = fmt.Sprintf("%T", enc)
	if isNil(enc) {
		r.fail("req-encoder-nil ct="+c.CTClass, "RequestEncoder returned nil for Content-Type %s", str(c.CT))
		return r
	}
	var eerr error
	if p, site := try(func() { eerr = enc.Encode(v.build()) }); p != "" {
		r.fail("req-encode-panic site="+site, "Encode panicked: %s", p)
		return r
	}
	hdr := req.Header.Get("Content-Type")
	var body []byte
	if req.Body != nil {
		body, _ = io.ReadAll(req.Body)
	}
	req.Body = io.NopCloser(bytes.NewReader(body))
	c.Obs["content_type_sent"] = hdr
	c.Obs["body"] = short(body)
	det := v.detect(body)
	r.detected = det
	r.note("request Content-Type before=%s after=%q; goa encoder %T wrote %s (stdlib reads it as %v), error=%v", str(c.CT), hdr, enc, short(body), det, eerr)
	if eerr != nil {
		r.fail("req-encode-error kind="+v.Kind, "RequestEncoder(...).Encode failed for a %s: %v", v.Kind, eerr)
		return r
	}
	absent := c.CT == nil || *c.CT == ""
	if absent {
		// absent => JSON, and the header the encoder sets must say so
		if !in(det, fJSON) {
			r.fail("req-default-not-json", "no Content-Type: body is %v, want JSON", det)
		}
		if a := announced(hdr); in(allFormats, a) && !in(det, a) {
			r.fail("req-announce announced="+a, "no Content-Type given: encoder set %q which announces %s, body is %v", hdr, a, det)
		}
	} else if hdr != *c.CT {
		r.note("encoder rewrote the caller's Content-Type to %q", hdr)
		if a := announced(hdr); in(allFormats, a) && !in(det, a) {
			r.fail("req-announce announced="+a, "encoder set Content-Type %q (%s) but wrote %v", hdr, a, det)
		}
	}
	if !absent && hdr == *c.CT && c.Format != "" && c.Format != fJSON {
		// RequestEncoder is documented to "use package encoding/json"; a non-JSON
		// Content-Type left in place is the caller's announcement, not the encoder's.
		r.exempt = "caller-request-type-with-json-only-encoder"
		r.note("caller's non-JSON Content-Type kept, JSON body: exempt (documented JSON-only encoder)")
		return r
	}
	var dec goahttp.Decoder
	if p, site := try(func() { dec = goahttp.RequestDecoder(req) }); p != "" {
		r.fail("req-decoder-panic site="+site, "RequestDecoder panicked: %s", p)
		return r
	}
	if isNil(dec) {
		r.fail("req-decoder-nil ct="+c.CTClass, "RequestDecoder returned nil for Content-Type %q", hdr)
		return r
	}
	c.Obs["decoder"] = fmt.Sprintf("%T", dec)
	out := v.target()
	var derr error
	if p, site := try(func() { derr = dec.Decode(out) }); p != "" {
		r.fail("req-decode-panic site="+site, "Decode panicked: %s", p)
		return r
	}
	r.note("goa: RequestDecoder chose %T, Decode error=%v, value=%s", dec, derr, v.show(out))
	cc := *c
	cc.BodyFormat = "goa-encoder"
	if len(det) > 0 {
		cc.BodyFormat = strings.Join(det, "|")
	}
	judgeRequest(&cc, r, body, derr, out)
	return r
}

// ---- DebugDoer (http/client.go) must hand bodies through unchanged ---------

type doerFunc func(*http.Request) (*http.Response, error)

func (f doerFunc) Do(r *http.Request) (*http.Response, error) { return f(r) }

func evalDebugDoer(c *Cell) *result {
	r := &result{}
	c.Obs = map[string]string{}
	v := c.Value
	respBody, err := stdEncode(c.Format, v.build())
	if err != nil {
		r.trivial = true
		return r
	}
	req := newRequest(nil, nil)
	if err := goahttp.RequestEncoder(req).Encode(v.build()); err != nil {
		r.trivial = true
		return r
	}
	var seen []byte
	inner := doerFunc(func(rq *http.Request) (*http.Response, error) {
		seen, _ = io.ReadAll(rq.Body)
		return &http.Response{StatusCode: 200, Status: "200 OK", Header: http.Header{"Content-Type": {*c.CT}}, Body: io.NopCloser(bytes.NewReader(respBody))}, nil
	})
	devnull, _ := os.OpenFile(os.DevNull, os.O_WRONLY, 0)
	saved := os.Stderr
	if devnull != nil {
		os.Stderr = devnull
	}
	var resp *http.Response
	var derr error
	p, site := try(func() { resp, derr = goahttp.NewDebugDoer(inner).Do(req) })
	os.Stderr = saved
	if devnull != nil {
		devnull.Close()
	}
	if p != "" {
		r.fail("debugdoer-panic site="+site, "DebugDoer.Do panicked: %s", p)
		return r
	}
	if derr != nil || resp == nil {
		r.fail("debugdoer-error", "DebugDoer.Do: %v", derr)
		return r
	}
	if !in(v.detect(seen), fJSON) {
		r.fail("debugdoer-request-body-altered", "the wrapped doer saw %s, not the JSON encoding of the value", short(seen))
	}
	out := v.target()
	var e2 error
	if p, site := try(func() { e2 = goahttp.ResponseDecoder(resp).Decode(out) }); p != "" {
		r.fail("debugdoer-decode-panic site="+site, "decode after DebugDoer panicked: %s", p)
		return r
	}
	r.note("DebugDoer: inner doer saw %s; response Content-Type %q decoded err=%v value=%s", short(seen), *c.CT, e2, v.show(out))
	if e2 != nil || !v.same(out) {
		r.fail("debugdoer-response-body-altered format="+c.Format, "response body (%s, %s) no longer decodes to the original after DebugDoer: err=%v value=%s", *c.CT, c.Format, e2, v.show(out))
	}
	return r
}

// jsonReads reports whether encoding/json reads body into the same value as out.
func jsonReads(v ValueSpec, body []byte, out any) bool {
	t := v.target()
	return stdDecode(fJSON, body, t) == nil && reflect.DeepEqual(t, out)
}

// evalResponseStd: the case writes a response body with the standard library
// under a Content-Type literal; goa's ResponseDecoder must read it back.
func evalResponseStd(c *Cell) *result {
	r := &result{}
	c.Obs = map[string]string{}
	v := c.Value
	body, err := stdEncode(c.BodyFormat, v.build())
	if err != nil {
		r.trivial = true
		return r
	}
	resp := &http.Response{StatusCode: 200, Header: http.Header{}, Body: io.NopCloser(bytes.NewReader(body))}
	if c.CT != nil {
		resp.Header.Set("Content-Type", *c.CT)
	}
	r.note("response Content-Type=%s (%s), body written by the case as %s: %s", str(c.CT), c.Expect, c.BodyFormat, short(body))
	var dec goahttp.Decoder
	if p, site := try(func() { dec = goahttp.ResponseDecoder(resp) }); p != "" {
		r.fail("resp-decoder-panic site="+site, "ResponseDecoder panicked: %s", p)
		return r
	}
	c.Obs["decoder"] = fmt.Sprintf("%T", dec)
	if isNil(dec) {
		r.fail("resp-decoder-nil ct="+c.CTClass, "ResponseDecoder returned nil for Content-Type %s", str(c.CT))
		return r
	}
	out := v.target()
	var derr error
	if p, site := try(func() { derr = dec.Decode(out) }); p != "" {
		r.fail("resp-decode-panic site="+site, "Decode panicked: %s", p)
		return r
	}
	r.note("goa: ResponseDecoder chose %T, Decode error=%v, value=%s", dec, derr, v.show(out))
	okValue := derr == nil && v.same(out)
	switch c.Expect {
	case "must", "default-json":
		// documented types, and the documented JSON default for everything else
		if !okValue {
			r.fail(fmt.Sprintf("respdec-roundtrip ct=%s body=%s", c.CTClass, c.BodyFormat), "Content-Type %s: a %s body did not come back through ResponseDecoder: err=%v value=%s", str(c.CT), c.BodyFormat, derr, v.show(out))
		}
	case "either":
		// suffix / spelling not in the godoc list: read it correctly, fail, or read it as the JSON default
		if !okValue && derr == nil && !jsonReads(v, body, out) {
			r.fail(fmt.Sprintf("respdec-misdecoded ct=%s body=%s", c.CTClass, c.BodyFormat), "Content-Type %s: a %s body was silently decoded to %s", str(c.CT), c.BodyFormat, v.show(out))
		}
		if !okValue {
			r.trivial = true
		}
	}
	return r
}
