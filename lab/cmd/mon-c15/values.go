package main

// Values of the grid and the stdlib codecs the oracle uses to read bodies
// (encoding/json, encoding/xml, encoding/gob, raw bytes) — no goa code.

import (
	"bytes"
	"encoding/gob"
	"encoding/json"
	"encoding/xml"
	"fmt"
	"io"
	"reflect"

	goahttp "goa.design/goa/v3/http"
)

type Sub struct {
	ID    int    `json:"id" xml:"id"`
	Label string `json:"label" xml:"label"`
}

// T is the struct with json and xml tags.
type T struct {
	Name string   `json:"name" xml:"name"`
	N    int      `json:"n" xml:"n"`
	OK   bool     `json:"ok" xml:"ok"`
	Tags []string `json:"tags,omitempty" xml:"tags>tag,omitempty"`
	Opt  *string  `json:"opt,omitempty" xml:"opt,omitempty"`
	Sub  *Sub     `json:"sub,omitempty" xml:"sub,omitempty"`
}

// Shape is carried in an interface field: gob needs the concrete types registered.
type Shape interface{ Area() int }
type Square struct{ Side int }
type Circle struct {
	R    int
	Name string
}

func (s Square) Area() int { return s.Side * s.Side }
func (c Circle) Area() int { return 3 * c.R * c.R }

// G is the gob-registered struct.
type G struct {
	Title string
	Shape Shape
	Extra any
}

func init() {
	gob.Register(Square{})
	gob.Register(Circle{})
}

type GSpec struct {
	Title string `json:"title"`
	Shape string `json:"shape"` // "", square, circle
	A     int    `json:"a"`
	S     string `json:"s"`
	Extra string `json:"extra"` // "", int, string, square
}

type ESpec struct {
	Name, ID, Message         string
	Temporary, Timeout, Fault bool
}

// ValueSpec is the JSON-serialisable description of one value.
type ValueSpec struct {
	Kind  string `json:"kind"` // struct | string | pstring | bytes | gobstruct | errresp
	Str   string `json:"str,omitempty"`
	Bytes []byte `json:"bytes,omitempty"`
	T     *T     `json:"t,omitempty"`
	G     *GSpec `json:"g,omitempty"`
	E     *ESpec `json:"e,omitempty"`
}

func ps(s string) *string { return &s }

var values = []ValueSpec{
	{Kind: "struct", T: &T{}},
	{Kind: "struct", T: &T{Name: "a", N: 1, OK: true}},
	{Kind: "struct", T: &T{Name: "héllo wörld ☃ 日本語", N: -42, Tags: []string{"x", "y z", "<t>"}}},
	{Kind: "struct", T: &T{Name: `<b>&amp;"quoted"'</b>`, N: 1<<53 + 1, Opt: ps("opt & <value>"), Sub: &Sub{ID: 7, Label: "sub"}}},
	{Kind: "struct", T: &T{Name: " lead and trail ", N: -1 << 62, OK: true, Tags: []string{"only"}, Sub: &Sub{ID: -1}}},
	{Kind: "struct", T: &T{Name: "line\nbreak\ttab", Opt: ps(`{"json":"inside"}`), Sub: &Sub{Label: "]]>"}}},
	{Kind: "string", Str: ""},
	{Kind: "string", Str: "a"},
	{Kind: "string", Str: "héllo wörld ☃ 日本語"},
	{Kind: "string", Str: `<b>&amp;"quoted"'</b>`},
	{Kind: "string", Str: " lead and trail "},
	{Kind: "string", Str: "line\nbreak\ttab"},
	{Kind: "string", Str: `{"k":1}`},
	{Kind: "string", Str: "null"},
	{Kind: "string", Str: "123"},
	{Kind: "string", Str: "<string>x</string>"},
	{Kind: "pstring", Str: ""},
	{Kind: "pstring", Str: "pointer value"},
	{Kind: "pstring", Str: "<x>&é"},
	{Kind: "bytes", Bytes: nil},
	{Kind: "bytes", Bytes: []byte("raw bytes")},
	{Kind: "bytes", Bytes: []byte{0x00, 0xff, 0xfe, '\n', 0x80}},
	{Kind: "bytes", Bytes: []byte(`"quoted"`)},
	{Kind: "gobstruct", G: &GSpec{Title: "sq", Shape: "square", A: 3, Extra: "int"}},
	{Kind: "gobstruct", G: &GSpec{Title: "ci", Shape: "circle", A: 2, S: "round", Extra: "square"}},
	{Kind: "gobstruct", G: &GSpec{Title: "none", Extra: "string", S: "str"}},
	{Kind: "errresp", E: &ESpec{Name: "unsupported_media_type", ID: "abc123", Message: "unsupported media type x/y"}},
	{Kind: "errresp", E: &ESpec{Name: "custom", ID: "Zm9v", Message: `<msg> & "quotes"`, Temporary: true, Timeout: true, Fault: true}},
}

// build returns the value handed to Encode (fresh on every call).
func (v ValueSpec) build() any {
	switch v.Kind {
	case "struct":
		c := *v.T
		if v.T.Tags != nil {
			c.Tags = append([]string(nil), v.T.Tags...)
		}
		if v.T.Opt != nil {
			c.Opt = ps(*v.T.Opt)
		}
		if v.T.Sub != nil {
			s := *v.T.Sub
			c.Sub = &s
		}
		return &c
	case "string":
		return v.Str
	case "pstring":
		s := v.Str
		return &s
	case "bytes":
		return append([]byte(nil), v.Bytes...)
	case "gobstruct":
		g := &G{Title: v.G.Title}
		switch v.G.Shape {
		case "square":
			g.Shape = Square{v.G.A}
		case "circle":
			g.Shape = Circle{v.G.A, v.G.S}
		}
		switch v.G.Extra {
		case "int":
			g.Extra = v.G.A
		case "string":
			g.Extra = v.G.S
		case "square":
			g.Extra = Square{v.G.A + 1}
		}
		return g
	case "errresp":
		return &goahttp.ErrorResponse{Name: v.E.Name, ID: v.E.ID, Message: v.E.Message, Temporary: v.E.Temporary, Timeout: v.E.Timeout, Fault: v.E.Fault}
	}
	panic("bad kind " + v.Kind)
}

// target returns a fresh pointer to decode into.
func (v ValueSpec) target() any {
	switch v.Kind {
	case "struct":
		return new(T)
	case "string", "pstring":
		return new(string)
	case "bytes":
		return new([]byte)
	case "gobstruct":
		return new(G)
	case "errresp":
		return new(goahttp.ErrorResponse)
	}
	panic("bad kind " + v.Kind)
}

// same compares what was decoded into target() with the original description.
func (v ValueSpec) same(out any) bool {
	switch v.Kind {
	case "string", "pstring":
		return *(out.(*string)) == v.Str
	case "bytes":
		return bytes.Equal(*(out.(*[]byte)), v.Bytes)
	}
	return reflect.DeepEqual(out, v.build())
}

// untouched reports whether a decode target still has its zero value.
func (v ValueSpec) untouched(out any) bool {
	return reflect.DeepEqual(out, v.target())
}

func (v ValueSpec) show(out any) string {
	switch o := out.(type) {
	case *string:
		return fmt.Sprintf("%q", *o)
	case *[]byte:
		return fmt.Sprintf("%q", *o)
	case *T:
		b, _ := json.Marshal(o)
		return string(b)
	}
	return fmt.Sprintf("%+v", reflect.ValueOf(out).Elem().Interface())
}

// canCarry: formats able to carry a value kind at all (stdlib limits, and the
// documented limit of the text codec to string / *string / []byte).
func canCarry(format, kind string) bool {
	switch format {
	case fJSON:
		return kind != "gobstruct"
	case fXML:
		return kind != "gobstruct" && kind != "bytes"
	case fGob:
		return true
	case fText:
		return kind == "string" || kind == "pstring" || kind == "bytes"
	}
	return false
}

// stdDecode reads body as the given format with the standard library only.
func stdDecode(format string, body []byte, into any) error {
	switch format {
	case fJSON:
		return json.NewDecoder(bytes.NewReader(body)).Decode(into)
	case fXML:
		return xml.NewDecoder(bytes.NewReader(body)).Decode(into)
	case fGob:
		return gob.NewDecoder(bytes.NewReader(body)).Decode(into)
	case fText:
		b, err := io.ReadAll(bytes.NewReader(body))
		if err != nil {
			return err
		}
		switch p := into.(type) {
		case *string:
			*p = string(b)
		case *[]byte:
			*p = b
		default:
			return fmt.Errorf("text cannot carry %T", into)
		}
		return nil
	}
	return fmt.Errorf("no such format %q", format)
}

// stdEncode writes v as the given format with the standard library only.
func stdEncode(format string, v any) ([]byte, error) {
	var buf bytes.Buffer
	switch format {
	case fJSON:
		err := json.NewEncoder(&buf).Encode(v)
		return buf.Bytes(), err
	case fXML:
		err := xml.NewEncoder(&buf).Encode(v)
		return buf.Bytes(), err
	case fGob:
		err := gob.NewEncoder(&buf).Encode(v)
		return buf.Bytes(), err
	case fText:
		switch c := v.(type) {
		case string:
			return []byte(c), nil
		case *string:
			return []byte(*c), nil
		case []byte:
			return c, nil
		}
		return nil, fmt.Errorf("text cannot carry %T", v)
	}
	return nil, fmt.Errorf("no such format %q", format)
}

// detect returns the formats under which the standard library recovers the
// original value from body.
func (v ValueSpec) detect(body []byte) []string {
	var out []string
	for _, f := range allFormats {
		if !canCarry(f, v.Kind) {
			continue
		}
		t := v.target()
		var err error
		if p, _ := try(func() { err = stdDecode(f, body, t) }); p != "" {
			continue
		}
		if err == nil && v.same(t) {
			out = append(out, f)
		}
	}
	return out
}
