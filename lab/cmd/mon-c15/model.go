package main

// Reference model of C15. Nothing here calls goa or package mime: the
// media-type reader below is a ten-line tokenizer of my own, the expected
// formats are literal annotations attached to every header literal of the
// grid (transcribed from the godoc of RequestDecoder / ResponseEncoder /
// ResponseDecoder and from the property statement).

import (
	"regexp"
	"strings"
)

const (
	fJSON = "json"
	fXML  = "xml"
	fGob  = "gob"
	fText = "text"
)

var allFormats = []string{fJSON, fXML, fGob, fText}

// lit is one header literal of the grid with its class (used in keys, never
// random) and the set of body formats the documentation allows for it.
// Want == nil means "any format": only the round trip is demanded.
type lit struct {
	S     *string
	Class string
	Want  []string
}

func sp(s string) *string { return &s }

func w(f ...string) []string { return f }

// ---- Accept header (stored in the context under AcceptTypeKey) -------------
//
// Godoc of ResponseEncoder: json/xml/gob/text types are supported; anything
// else or nothing => JSON. A single recognised type, with or without
// parameters, is honoured. Lists and wildcards are not described by the
// godoc: any supported format is accepted for them (Want nil).
var accepts = []lit{
	{nil, "absent", w(fJSON)},
	{sp(""), "absent", w(fJSON)},
	{sp("application/json"), "single:json", w(fJSON)},
	{sp("application/xml"), "single:xml", w(fXML)},
	{sp("application/gob"), "single:gob", w(fGob)},
	{sp("text/plain"), "single:text", w(fText)},
	{sp("text/html"), "single:text", w(fText)},
	{sp("application/json; charset=utf-8"), "params:json", w(fJSON)},
	{sp("application/xml; charset=utf-8"), "params:xml", w(fXML)},
	{sp("application/gob; charset=utf-8"), "params:gob", w(fGob)},
	{sp("text/plain; charset=utf-8"), "params:text", w(fText)},
	{sp("text/html; charset=utf-8"), "params:text", w(fText)},
	{sp("application/json;q=0.8"), "params:json", w(fJSON)},
	{sp("application/xml;q=0.9"), "params:xml", w(fXML)},
	{sp("application/gob; q=0.5"), "params:gob", w(fGob)},
	{sp("text/plain;q=0.7"), "params:text", w(fText)},
	{sp(`application/xml; charset="utf-8"; q=0.9`), "params:xml", w(fXML)},
	{sp("application/xml;version=1;q=1.0"), "params:xml", w(fXML)},
	{sp("application/gob;level=1"), "params:gob", w(fGob)},
	// media types are case-insensitive (RFC 9110); a reader that does not
	// recognise the spelling falls back to JSON: both readings accepted.
	{sp("Application/XML"), "case:xml", w(fXML, fJSON)},
	{sp("APPLICATION/JSON"), "case:json", w(fJSON)},
	{sp("Text/Plain"), "case:text", w(fText, fJSON)},
	{sp("application/GOB; Charset=UTF-8"), "case:gob", w(fGob, fJSON)},
	// lists
	{sp("application/xml, application/json"), "list", nil},
	{sp("application/json, application/xml;q=0.9"), "list", nil},
	{sp("text/html,application/xhtml+xml,application/xml;q=0.9,*/*;q=0.8"), "list", nil},
	{sp("application/gob, */*;q=0.1"), "list", nil},
	{sp("text/plain, application/json"), "list", nil},
	{sp("application/xml;q=0.9, text/plain"), "list", nil},
	{sp("image/png, image/jpeg"), "list-unknown", w(fJSON)},
	// wildcards
	{sp("*/*"), "wildcard", nil},
	{sp("application/*"), "wildcard", nil},
	{sp("text/*"), "wildcard", nil},
	{sp("*/*;q=0.8"), "wildcard", nil},
	// structured syntax suffixes: not in the godoc list => JSON; honouring
	// the suffix is the other defensible reading.
	{sp("application/vnd.api+json"), "suffix:json", w(fJSON)},
	{sp("application/ld+json; profile=x"), "suffix:json", w(fJSON)},
	{sp("application/vnd.api+xml"), "suffix:xml", w(fJSON, fXML)},
	{sp("application/atom+xml;type=entry"), "suffix:xml", w(fJSON, fXML)},
	{sp("application/vnd.api+gob"), "suffix:gob", w(fJSON, fGob)},
	// syntactically fine, not supported
	{sp("image/png"), "unknown", w(fJSON)},
	{sp("application/octet-stream"), "unknown", w(fJSON)},
	{sp("application/x-yaml"), "unknown", w(fJSON)},
	{sp("text/csv"), "unknown", w(fJSON)},
	{sp("application/jsonx"), "unknown", w(fJSON)},
	{sp("application/vnd.goa.thing"), "unknown", w(fJSON)},
	{sp("text/xml"), "unknown-xmlish", w(fJSON, fXML)},
	// garbage
	{sp("garbage"), "garbage", w(fJSON)},
	{sp("/"), "garbage", w(fJSON)},
	{sp("application/"), "garbage", w(fJSON)},
	{sp(";;;"), "garbage", w(fJSON)},
	{sp("a b/c d"), "garbage", w(fJSON)},
	{sp("application/json/extra"), "garbage", w(fJSON)},
	{sp("\x00\x7f"), "garbage", w(fJSON)},
	{sp(";q=0.5"), "garbage", w(fJSON)},
	{sp(" "), "garbage", w(fJSON)},
	{sp("application/json; charset"), "garbage-json", w(fJSON)},
	{sp("application/xml; charset"), "garbage-xml", w(fJSON, fXML)},
	{sp("application/xml;"), "garbage-xml", w(fJSON, fXML)},
	{sp(strings.Repeat("a", 5000) + "/json"), "garbage", w(fJSON)},
}

// ---- designed content type (ContentTypeKey) -------------------------------
//
// Want nil here means "not designed": the Accept header decides.
var designed = []lit{
	{nil, "absent", nil},
	{sp(""), "absent", nil},
	{sp("application/json"), "exact:json", w(fJSON)},
	{sp("application/xml"), "exact:xml", w(fXML)},
	{sp("application/gob"), "exact:gob", w(fGob)},
	{sp("text/plain"), "exact:text", w(fText)},
	{sp("text/html"), "exact:text", w(fText)},
	{sp("application/vnd.goa.thing+json"), "suffix:json", w(fJSON)},
	{sp("application/vnd.goa.thing+xml"), "suffix:xml", w(fXML)},
	{sp("application/vnd.goa.thing+gob"), "suffix:gob", w(fGob)},
	{sp("application/problem+json"), "suffix:json", w(fJSON)},
	{sp("application/atom+xml"), "suffix:xml", w(fXML)},
	{sp("+json"), "suffix:json", w(fJSON)},
	{sp("+xml"), "suffix:xml", w(fXML)},
	{sp("+gob"), "suffix:gob", w(fGob)},
	// +html / +txt are honoured by goa but not part of the statement: text or the JSON default
	{sp("application/vnd.goa.thing+html"), "suffix:text", w(fText, fJSON)},
	{sp("application/vnd.goa.thing+txt"), "suffix:text", w(fText, fJSON)},
	{sp("application/json; charset=utf-8"), "params:json", w(fJSON)},
	{sp("application/xml; charset=utf-8"), "params:xml", w(fXML)},
	{sp("application/gob; charset=binary"), "params:gob", w(fGob)},
	{sp("text/plain; charset=utf-8"), "params:text", w(fText)},
	{sp("text/html; charset=utf-8"), "params:text", w(fText)},
	{sp("application/vnd.goa.thing+json; view=default"), "suffix-params:json", w(fJSON)},
	{sp("application/vnd.goa.thing+xml; view=default; charset=utf-8"), "suffix-params:xml", w(fXML)},
	{sp("application/vnd.goa.thing+gob; view=tiny"), "suffix-params:gob", w(fGob)},
	{sp(`application/vnd.goa.thing+json; type="collection"`), "suffix-params:json", w(fJSON)},
	{sp("Application/JSON"), "case:json", w(fJSON)},
	{sp("APPLICATION/XML"), "case:xml", w(fXML, fJSON)},
	{sp("application/vnd.Goa.Thing+XML"), "case:xml", w(fXML, fJSON)},
	// unknown => JSON (godoc)
	{sp("application/vnd.goa.thing"), "unknown", w(fJSON)},
	{sp("application/vnd.goa.thing; view=default"), "unknown", w(fJSON)},
	{sp("image/png"), "unknown", w(fJSON)},
	{sp("application/octet-stream"), "unknown", w(fJSON)},
	{sp("application/x-yaml"), "unknown", w(fJSON)},
	{sp("application/jsonx"), "unknown", w(fJSON)},
	{sp("text/xml"), "unknown-xmlish", w(fJSON, fXML)},
	// does not parse as a media type => "does not match any of the supported mime types" => JSON
	{sp("a b"), "unparseable", w(fJSON)},
	{sp("/"), "unparseable", w(fJSON)},
	{sp("application/"), "unparseable", w(fJSON)},
	{sp(";charset=utf-8"), "unparseable", w(fJSON)},
	{sp("application/json/v2"), "unparseable", w(fJSON)},
	{sp(" "), "unparseable", w(fJSON)},
	{sp("\x7f"), "unparseable", w(fJSON)},
	{sp("application/json; charset"), "unparseable", w(fJSON)},
	{sp("application/vnd.goa.thing+xml; charset"), "unparseable", w(fJSON, fXML)},
	{sp("application/vnd.goa.thing+xml;;="), "unparseable", w(fJSON, fXML)},
}

// ---- pre-set response Content-Type header -----------------------------------
var presets = []lit{
	{nil, "absent", nil},
	{sp("application/vnd.goa.thing"), "vendor", nil},
	{sp("application/vnd.other"), "vendor", nil},
	{sp("application/vnd.goa.thing+json"), "suffix", nil},
	{sp("application/vnd.goa.thing+xml"), "suffix", nil},
	{sp("application/vnd.goa.thing+gob"), "suffix", nil},
	{sp("application/vnd.goa.thing; charset=utf-8"), "params", nil},
	{sp("application/vnd.goa.thing; view=default; charset=utf-8"), "params", nil},
	{sp("application/vnd.goa.thing+json; charset=utf-8"), "suffix-params", nil},
	{sp("application/vnd.goa.thing+xml; charset=utf-8"), "suffix-params", nil},
	{sp(`application/vnd.goa.thing; profile="urn:a+b"`), "params-plus", nil},
	{sp("application/json"), "plain", nil},
	{sp("text/plain"), "plain", nil},
}

// ---- request Content-Type -----------------------------------------------------
//
// Expect: must (documented as supported: decoding must succeed), either (the
// godoc list does not name it but a suffix / spelling reading would: decode
// correctly OR answer unsupported_media_type), unsupported (must be answered
// with unsupported_media_type / 415), garbage (not a media type at all:
// statement says 415, godoc says JSON default: both accepted).
type reqLit struct {
	S      *string
	Class  string
	Expect string
	Format string // format the header announces (for must / either)
}

var requestTypes = []reqLit{
	{nil, "absent", "must", fJSON},
	{sp("application/json"), "exact:json", "must", fJSON},
	{sp("application/json; charset=utf-8"), "params:json", "must", fJSON},
	{sp("application/json;charset=UTF-8"), "params:json", "must", fJSON},
	{sp("application/xml"), "exact:xml", "must", fXML},
	{sp("application/xml; charset=utf-8"), "params:xml", "must", fXML},
	{sp("application/gob"), "exact:gob", "must", fGob},
	{sp("application/gob; x=y"), "params:gob", "must", fGob},
	{sp("text/plain"), "exact:text", "must", fText},
	{sp("text/plain; charset=utf-8"), "params:text", "must", fText},
	{sp("text/html"), "exact:text", "must", fText},
	{sp("text/html; charset=utf-8"), "params:text", "must", fText},
	{sp("Application/JSON"), "case:json", "either", fJSON},
	{sp("APPLICATION/XML; charset=utf-8"), "case:xml", "either", fXML},
	{sp("application/vnd.api+json"), "suffix:json", "either", fJSON},
	{sp("application/vnd.api+json; charset=utf-8"), "suffix:json", "either", fJSON},
	{sp("application/vnd.goa.thing+xml"), "suffix:xml", "either", fXML},
	{sp("application/vnd.goa.thing+gob"), "suffix:gob", "either", fGob},
	{sp("image/png"), "unsupported", "unsupported", ""},
	{sp("application/octet-stream"), "unsupported", "unsupported", ""},
	{sp("application/x-www-form-urlencoded"), "unsupported", "unsupported", ""},
	{sp("multipart/form-data; boundary=x"), "unsupported", "unsupported", ""},
	{sp("application/vnd.goa.thing"), "unsupported", "unsupported", ""},
	{sp("application/jsonx"), "unsupported", "unsupported", ""},
	{sp("application/x-yaml"), "unsupported", "unsupported", ""},
	{sp("text/csv"), "unsupported", "unsupported", ""},
	{sp("application/foo"), "unsupported", "unsupported", ""},
	{sp("application/foo; charset=utf-8"), "unsupported", "unsupported", ""},
	// the type itself is a well-formed, unsupported media type; only its parameters are malformed
	{sp("application/x-www-form-urlencoded; charset"), "unsupported-bad-params", "unsupported", ""},
	{sp("multipart/form-data; boundary="), "unsupported-bad-params", "unsupported", ""},
	{sp("text/csv; title=\"unterminated"), "unsupported-bad-params", "unsupported", ""},
	{sp("application/octet-stream; =x"), "unsupported-bad-params", "unsupported", ""},
	{sp("a b"), "garbage", "garbage", ""},
	{sp("application/json, application/xml"), "garbage", "garbage", ""},
	{sp("/"), "garbage", "garbage", ""},
	{sp("application/"), "garbage", "garbage", ""},
	{sp(";charset=utf-8"), "garbage", "garbage", ""},
	{sp("application/json/v2"), "garbage", "garbage", ""},
	{sp("application/json; charset"), "garbage", "garbage", ""},
}

// ---- independent reading of a Content-Type value -----------------------------

func isTchar(c byte) bool {
	switch {
	case c >= 'a' && c <= 'z', c >= 'A' && c <= 'Z', c >= '0' && c <= '9':
		return true
	}
	return strings.IndexByte("!#$%&'*+-.^_`|~", c) >= 0
}

// baseType returns the lower-cased type/subtype of a header value (what
// precedes the first ';'), and whether it is made of tokens only.
func baseType(h string) (string, bool) {
	if i := strings.IndexByte(h, ';'); i >= 0 {
		h = h[:i]
	}
	h = strings.ToLower(strings.TrimSpace(h))
	if h == "" {
		return "", false
	}
	slashes := 0
	for i := 0; i < len(h); i++ {
		if h[i] == '/' {
			slashes++
			continue
		}
		if !isTchar(h[i]) {
			return h, false
		}
	}
	if slashes > 1 || strings.HasPrefix(h, "/") || strings.HasSuffix(h, "/") {
		return h, false
	}
	return h, true
}

// announced tells which body format a Content-Type value announces:
// json|xml|gob|text, "unknown" for a well-formed type that is none of them,
// "malformed", or "none" for an empty value.
func announced(h string) string {
	if strings.TrimSpace(h) == "" {
		return "none"
	}
	t, ok := baseType(h)
	if !ok {
		return "malformed"
	}
	switch {
	case t == "application/json" || strings.HasSuffix(t, "+json"):
		return fJSON
	case t == "application/xml" || strings.HasSuffix(t, "+xml"):
		return fXML
	case t == "application/gob" || strings.HasSuffix(t, "+gob"):
		return fGob
	case t == "text/plain" || t == "text/html":
		return fText
	}
	return "unknown"
}

var suffixAtEnd = regexp.MustCompile(`\+(json|xml|gob)\s*$`)

// headerShape is the class of a header value used in violation keys.
func headerShape(h string) string {
	a := announced(h)
	if i := strings.IndexByte(h, ';'); i >= 0 && suffixAtEnd.MatchString(h[i:]) {
		return "suffix-after-params"
	}
	return a
}

func hasPlusInBase(h string) bool {
	t, _ := baseType(h)
	return strings.Contains(t, "+")
}

func in(xs []string, x string) bool {
	for _, y := range xs {
		if x == y {
			return true
		}
	}
	return false
}
