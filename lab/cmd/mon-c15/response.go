package main

import (
	"bytes"
	"context"
	"fmt"
	"io"
	"net/http"
	"net/http/httptest"
	"os"
	"reflect"
	"strings"

	goahttp "goa.design/goa/v3/http"

	"verif.local/lab/vc"
)

// Cell is one fully expanded case (also the replay witness).
type Cell struct {
	Side string `json:"side"` // response | request-goa | request-std | debugdoer

	Accept      *string  `json:"accept"`
	AcceptClass string   `json:"accept_class,omitempty"`
	CT          *string  `json:"content_type"` // designed content type (response) or request Content-Type
	CTClass     string   `json:"content_type_class,omitempty"`
	Preset      *string  `json:"preset"`
	PresetClass string   `json:"preset_class,omitempty"`
	Want        []string `json:"want"` // allowed body formats by the documented rules; null = any

	Expect     string `json:"expect,omitempty"`      // request side: must | either | unsupported | garbage
	Format     string `json:"format,omitempty"`      // request side: format the header announces
	BodyFormat string `json:"body_format,omitempty"` // request-std: format the case used to write the body

	Value ValueSpec `json:"value"`

	// observations, filled by the evaluation (informative in replay files)
	Obs map[string]string `json:"observed,omitempty"`
}

type finding struct{ key, what string }

type result struct {
	bad      []finding
	trivial  bool     // nothing beyond "no panic, no nil" could be judged
	exempt   string   // non-empty: a mismatch was attributed to a documented/assumed exemption
	notes    []string // oracle reasoning, printed by --replay
	detected []string
}

func (r *result) fail(key, format string, a ...any) {
	r.bad = append(r.bad, finding{key, fmt.Sprintf(format, a...)})
	r.notes = append(r.notes, "VIOLATED "+key+": "+fmt.Sprintf(format, a...))
}
func (r *result) note(format string, a ...any) { r.notes = append(r.notes, fmt.Sprintf(format, a...)) }

func repoRoots() []string {
	roots := []string{"/repo/"}
	if r := os.Getenv("VERIF_REPO"); r != "" && r != "/repo" {
		roots = append([]string{strings.TrimRight(r, "/") + "/"}, roots...)
	}
	return roots
}

func try(f func()) (string, string) {
	p, st := vc.Try(f)
	if p == "" {
		return "", ""
	}
	return p, vc.PanicSite(st, repoRoots()...)
}

func isNil(x any) bool {
	if x == nil {
		return true
	}
	v := reflect.ValueOf(x)
	switch v.Kind() {
	case reflect.Ptr, reflect.Func, reflect.Map, reflect.Interface, reflect.Slice, reflect.Chan:
		return v.IsNil()
	}
	return false
}

func str(p *string) string {
	if p == nil {
		return "<absent>"
	}
	return fmt.Sprintf("%q", *p)
}

func short(b []byte) string {
	if len(b) > 120 {
		return fmt.Sprintf("%q…(%d bytes)", b[:120], len(b))
	}
	return fmt.Sprintf("%q", b)
}

// want computes the allowed formats of a response cell from the annotated literals.
func respWant(a, d lit) []string {
	if d.S != nil && *d.S != "" {
		return d.Want
	}
	return a.Want
}

// evalResponse runs one response cell against goa and judges it.
func evalResponse(c *Cell) *result {
	r := &result{}
	c.Obs = map[string]string{}
	v := c.Value
	rec := httptest.NewRecorder()
	if c.Preset != nil {
		rec.Header().Set("Content-Type", *c.Preset)
	}
	ctx := context.Background()
	if c.Accept != nil {
		ctx = context.WithValue(ctx, goahttp.AcceptTypeKey, *c.Accept)
	}
	if c.CT != nil {
		ctx = context.WithValue(ctx, goahttp.ContentTypeKey, *c.CT)
	}
	via := "accept=" + c.AcceptClass
	if c.CT != nil && *c.CT != "" {
		via = "ct=" + c.CTClass
	}
	r.note("accept=%s designed=%s preset=%s value=%s; documented rules allow body formats %v (nil = any)", str(c.Accept), str(c.CT), str(c.Preset), v.Kind, c.Want)

	// 1. an encoder, never nil, never a panic
	var enc goahttp.Encoder
	if p, site := try(func() { enc = goahttp.ResponseEncoder(ctx, rec) }); p != "" {
		r.fail("resp-encoder-panic site="+site, "ResponseEncoder panicked: %s", p)
		return r
	}
	c.Obs["encoder"] = fmt.Sprintf("%T", enc)
	if isNil(enc) {
		r.fail("resp-encoder-nil "+via, "ResponseEncoder returned a nil Encoder (%T) for accept=%s designed=%s: the caller's enc.Encode panics; documented fallback is JSON", enc, str(c.Accept), str(c.CT))
		return r
	}
	var eerr error
	if p, site := try(func() { eerr = enc.Encode(v.build()) }); p != "" {
		r.fail("resp-encode-panic site="+site+" kind="+v.Kind, "Encode panicked: %s", p)
		return r
	}
	res := rec.Result()
	body, _ := io.ReadAll(res.Body)
	hdr := res.Header.Get("Content-Type")
	c.Obs["content_type_set"] = hdr
	c.Obs["body"] = short(body)
	r.note("goa: encoder %T, Encode error=%v, Content-Type set=%q, body=%s", enc, eerr, hdr, short(body))

	// 2. encode errors: only allowed where no permitted format can carry the value
	if eerr != nil {
		c.Obs["encode_error"] = eerr.Error()
		if c.Want != nil {
			all := true
			for _, f := range c.Want {
				if !canCarry(f, v.Kind) {
					all = false
				}
			}
			if all {
				r.fail(fmt.Sprintf("resp-encode-error %s want=%s kind=%s", via, strings.Join(c.Want, "|"), v.Kind),
					"Encode failed (%v) although every permitted format %v can carry a %s", eerr, c.Want, v.Kind)
				return r
			}
		}
		r.trivial = true
		r.note("encode error is permitted: at least one allowed format cannot carry a %s (text codec takes string/*string/[]byte only; encoding/xml has no []byte root)", v.Kind)
		return r
	}

	// 3. what is in the body, judged with the standard library only
	r.detected = v.detect(body)
	det := "none"
	if len(r.detected) > 0 {
		det = strings.Join(r.detected, "|")
	}
	c.Obs["body_is"] = det
	ann := announced(hdr)
	shape := headerShape(hdr)
	r.note("oracle: stdlib recovers the value from the body as %s; the header announces %s (shape %s)", det, ann, shape)

	if v.Kind == "gobstruct" && !(len(c.Want) == 1 && c.Want[0] == fGob) {
		// interface-typed fields only survive gob: nothing to compare elsewhere
		r.trivial = true
		r.note("gob-registered struct outside a gob-only cell: only nil/panic freedom is judged")
		return r
	}

	// the pre-set header was left exactly as the caller wrote it, already carries a
	// structured suffix and that suffix contradicts the negotiated body: SetContentType
	// documents that it leaves such headers alone, the announcement is then the caller's,
	// not the encoder's ("the Content-Type header it sets")
	exemptable := c.Preset != nil && hdr == *c.Preset && hasPlusInBase(*c.Preset) && !in(r.detected, ann)

	// 3a. fallback rules
	if c.Want != nil {
		ok := false
		for _, f := range r.detected {
			if in(c.Want, f) {
				ok = true
			}
		}
		if !ok {
			r.fail(fmt.Sprintf("resp-format %s want=%s got=%s", via, strings.Join(c.Want, "|"), det),
				"documented rules give %v for accept=%s designed=%s but the body is %s: %s", c.Want, str(c.Accept), str(c.CT), det, short(body))
		}
	}

	// 3b. header announces a recognised format: body must be in it
	if in(allFormats, ann) && !in(r.detected, ann) {
		if exemptable {
			r.exempt = "caller-suffixed-header-left-untouched"
			r.note("header %q announces %s but body is %s — exempt: header is the caller's pre-set value, untouched", hdr, ann, det)
		} else {
			r.fail(fmt.Sprintf("resp-announce announced=%s body=%s preset=%s", ann, det, c.PresetClass),
				"Content-Type %q announces %s but the body is %s: %s", hdr, ann, det, short(body))
		}
	}

	// 3c. the statement's own criterion: goa's ResponseDecoder reading that header recovers the value
	var dec goahttp.Decoder
	res2 := &http.Response{StatusCode: res.StatusCode, Header: res.Header.Clone(), Body: io.NopCloser(bytes.NewReader(body))}
	if p, site := try(func() { dec = goahttp.ResponseDecoder(res2) }); p != "" {
		r.fail("resp-decoder-panic site="+site, "ResponseDecoder panicked: %s", p)
		return r
	}
	c.Obs["decoder"] = fmt.Sprintf("%T", dec)
	if isNil(dec) {
		r.fail("resp-decoder-nil header="+shape, "ResponseDecoder returned nil for Content-Type %q", hdr)
		return r
	}
	out := v.target()
	var derr error
	if p, site := try(func() { derr = dec.Decode(out) }); p != "" {
		r.fail("resp-decode-panic site="+site, "Decode panicked: %s", p)
		return r
	}
	r.note("goa: ResponseDecoder chose %T, Decode error=%v, value=%s", dec, derr, v.show(out))
	if derr != nil || !v.same(out) {
		if exemptable {
			r.exempt = "caller-suffixed-header-left-untouched"
			r.note("round trip fails — exempt: header is the caller's pre-set value, untouched")
			return r
		}
		r.fail(fmt.Sprintf("resp-roundtrip body=%s header=%s preset=%s", det, shape, c.PresetClass),
			"round trip lost the value: encoder %s wrote %s under Content-Type %q, ResponseDecoder chose %T and returned err=%v value=%s (sent %s)",
			c.Obs["encoder"], det, hdr, dec, derr, v.show(out), v.show(wrap(v)))
	}
	return r
}

// wrap renders the original in the shape show() expects.
func wrap(v ValueSpec) any {
	switch b := v.build().(type) {
	case string:
		return &b
	case []byte:
		return &b
	default:
		return b
	}
}
