// mon-c18: error merging and status mapping monitor (property C18).
//
// Refutation events and oracle are described in DESIGN.md §7.C18. The oracle
// shares no code with goa: expected names/flags/messages are computed from the
// case description (the "spec" of each original error), never from goa values.
package main

import (
	"context"
	"errors"
	"fmt"
	"strings"

	goagrpc "goa.design/goa/v3/grpc"
	goapb "goa.design/goa/v3/grpc/pb"
	goahttp "goa.design/goa/v3/http"
	goa "goa.design/goa/v3/pkg"
	"google.golang.org/grpc/codes"
	"google.golang.org/grpc/status"

	"verif.local/lab/vc"
)

// partSpec describes one original error of a sequence.
type partSpec struct {
	Kind      string `json:"kind"` // nil | service | plain | wrapped | joined | caused
	Name      string `json:"name,omitempty"`
	Msg       string `json:"msg,omitempty"`
	Field     string `json:"field,omitempty"`
	Timeout   bool   `json:"timeout,omitempty"`
	Temporary bool   `json:"temporary,omitempty"`
	Fault     bool   `json:"fault,omitempty"`
}

type sentinel struct{ id string }

func (s *sentinel) Error() string { return s.id }

// built is a freshly constructed original plus what the oracle expects of it.
type built struct {
	err    error
	name   string // expected name of the part ("error" for plain errors)
	msg    string // expected own message
	field  *string
	to, te bool
	fa     bool
	causes []error // causes that must remain reachable with errors.Is
}

func (p partSpec) build(i int) *built {
	switch p.Kind {
	case "nil":
		return nil
	case "plain":
		s := &sentinel{fmt.Sprintf("%s#%d", p.Msg, i)}
		return &built{err: s, name: "error", msg: s.id, fa: true, causes: []error{s}}
	case "service", "wrapped", "joined", "caused":
		var se *goa.ServiceError
		var causes []error
		msg := fmt.Sprintf("%s#%d", p.Msg, i)
		if p.Kind == "caused" {
			c := &sentinel{msg}
			se = goa.NewServiceError(c, p.Name, p.Timeout, p.Temporary, p.Fault)
			causes = append(causes, c)
		} else {
			se = &goa.ServiceError{Name: p.Name, ID: goa.NewErrorID(), Message: msg, Timeout: p.Timeout, Temporary: p.Temporary, Fault: p.Fault}
		}
		var fp *string
		if p.Field != "" {
			f := p.Field
			se.Field = &f
			f2 := p.Field
			fp = &f2
		}
		var e error = se
		switch p.Kind {
		case "wrapped":
			e = fmt.Errorf("ctx%d: %w", i, se)
		case "joined":
			// only the service error: a joined plain sibling would be a second part
			e = errors.Join(se)
		}
		return &built{err: e, name: p.Name, msg: msg, field: fp, to: p.Timeout, te: p.Temporary, fa: p.Fault, causes: causes}
	}
	panic("bad kind " + p.Kind)
}

// tree is a parenthesisation: leaf index or (l r).
type tree struct {
	leaf int
	l, r *tree
}

func (t *tree) String() string {
	if t.l == nil {
		return fmt.Sprint(t.leaf)
	}
	return "(" + t.l.String() + " " + t.r.String() + ")"
}

// allTrees enumerates every binary tree over leaves lo..hi-1 in order.
func allTrees(lo, hi int) []*tree {
	if hi-lo == 1 {
		return []*tree{{leaf: lo}}
	}
	var out []*tree
	for m := lo + 1; m < hi; m++ {
		for _, l := range allTrees(lo, m) {
			for _, r := range allTrees(m, hi) {
				out = append(out, &tree{l: l, r: r})
			}
		}
	}
	return out
}

func eval(t *tree, parts []*built) error {
	if t.l == nil {
		if parts[t.leaf] == nil {
			return nil
		}
		return parts[t.leaf].err
	}
	return goa.MergeErrors(eval(t.l, parts), eval(t.r, parts))
}

type witness struct {
	Parts []partSpec `json:"parts"`
	Tree  string     `json:"tree"`
	Got   string     `json:"got"`
}

// checkOne evaluates one (sequence, parenthesisation) and returns violations as key->text.
func checkOne(specs []partSpec, t *tree) (map[string]string, string) {
	parts := make([]*built, len(specs))
	var nn []*built
	for i, s := range specs {
		parts[i] = s.build(i)
		if parts[i] != nil {
			nn = append(nn, parts[i])
		}
	}
	bad := map[string]string{}
	var res error
	if p, st := vc.Try(func() { res = eval(t, parts) }); p != "" {
		bad["panic:"+vc.PanicSite(st, "/repo/")] = "MergeErrors panicked: " + p
		return bad, ""
	}
	desc := fmt.Sprintf("%v", res)
	switch len(nn) {
	case 0:
		if res != nil {
			bad["nil-merge-not-nil"] = "merging only nils returned non-nil"
		}
		return bad, desc
	case 1:
		if res != nn[0].err {
			bad["merge-with-nil-changes-identity"] = "merging x with nil did not return x itself"
			return bad, desc
		}
		var se *goa.ServiceError
		if errors.As(res, &se) {
			if se.Message != nn[0].msg || se.Name != nn[0].name || se.Timeout != nn[0].to || se.Temporary != nn[0].te || se.Fault != nn[0].fa {
				bad["merge-with-nil-changes-value"] = fmt.Sprintf("merging with nil changed the error: %+v", se)
			}
			if h := se.History(); len(h) != 1 {
				bad["merge-with-nil-changes-history"] = fmt.Sprintf("history has %d entries after merging with nil only", len(h))
			}
		} else if res.Error() != nn[0].msg {
			bad["merge-with-nil-changes-value"] = "plain error text changed"
		}
		return bad, desc
	}
	var se *goa.ServiceError
	if !errors.As(res, &se) {
		bad["merge-result-not-service-error"] = fmt.Sprintf("result is %T", res)
		return bad, desc
	}
	desc = fmt.Sprintf("name=%q msg=%q to=%v te=%v fa=%v hist=%d", se.Name, se.Message, se.Timeout, se.Temporary, se.Fault, len(se.History()))
	// messages in order as disjoint substrings
	pos := 0
	for i, p := range nn {
		j := strings.Index(se.Message[pos:], p.msg)
		if j < 0 {
			bad["message-part-missing-or-out-of-order"] = fmt.Sprintf("part %d message %q not found in order in %q", i, p.msg, se.Message)
			break
		}
		pos += j + len(p.msg)
	}
	if se.Error() != se.Message {
		bad["error-string-differs-from-message"] = "Error() != Message"
	}
	// flags: conjunction
	to, te, fa := true, true, true
	name := "error"
	for _, p := range nn {
		to, te, fa = to && p.to, te && p.te, fa && p.fa
	}
	for _, p := range nn {
		if p.name != "error" {
			name = p.name
			break
		}
	}
	if se.Timeout != to {
		bad["flag-timeout-not-conjunction"] = fmt.Sprintf("timeout=%v want %v", se.Timeout, to)
	}
	if se.Temporary != te {
		bad["flag-temporary-not-conjunction"] = fmt.Sprintf("temporary=%v want %v", se.Temporary, te)
	}
	if se.Fault != fa {
		bad["flag-fault-not-conjunction"] = fmt.Sprintf("fault=%v want %v", se.Fault, fa)
	}
	if se.Name != name {
		bad["name-not-first-specific"] = fmt.Sprintf("name=%q want %q", se.Name, name)
	}
	// history
	h := se.History()
	if len(h) != len(nn) {
		bad["history-length"] = fmt.Sprintf("history has %d entries for %d originals", len(h), len(nn))
	} else {
		for i, p := range nn {
			e := h[i]
			if e == nil {
				bad["history-entry-nil"] = fmt.Sprintf("history[%d] is nil", i)
				continue
			}
			if e.Message != p.msg {
				bad["history-entry-message-rewritten"] = fmt.Sprintf("history[%d].Message=%q, original was %q", i, e.Message, p.msg)
			}
			if e.Name != p.name {
				bad["history-entry-name-rewritten"] = fmt.Sprintf("history[%d].Name=%q, original was %q", i, e.Name, p.name)
			}
			if (e.Field == nil) != (p.field == nil) || (e.Field != nil && *e.Field != *p.field) {
				bad["history-entry-field-changed"] = fmt.Sprintf("history[%d].Field changed", i)
			}
		}
	}
	// causes
	for i, p := range nn {
		for _, c := range p.causes {
			if !errors.Is(res, c) {
				bad["cause-unreachable"] = fmt.Sprintf("cause of part %d (%v) not reachable with errors.Is", i, c)
			}
			var s *sentinel
			if !errors.As(res, &s) {
				bad["cause-unreachable-as"] = "no sentinel reachable with errors.As"
			}
		}
	}
	return bad, desc
}

var names = []string{"error", "not_found", "bad", "error", "timeout_x", "unsupported_media_type"}

func genSeq(r *vc.Rand, maxLen int) []partSpec {
	n := r.Range(0, maxLen)
	out := make([]partSpec, n)
	for i := range out {
		k := r.Intn(12)
		p := partSpec{Msg: r.Pick("boom", "a; b", "x", "", "é∑", "m;")}
		switch {
		case k == 0:
			p.Kind = "nil"
		case k <= 2:
			p.Kind = "plain"
		case k == 3:
			p.Kind = "wrapped"
		case k == 4:
			p.Kind = "joined"
		case k == 5:
			p.Kind = "caused"
		default:
			p.Kind = "service"
		}
		if p.Kind != "nil" && p.Kind != "plain" {
			p.Name = names[r.Intn(len(names))]
			p.Timeout, p.Temporary, p.Fault = r.Bool(), r.Bool(), r.Bool()
			if r.Chance(1, 3) {
				p.Field = r.Pick("f", "body.x", "q")
			}
		}
		out[i] = p
	}
	return out
}

func sig(specs []partSpec) string {
	var b strings.Builder
	for _, s := range specs {
		fmt.Fprintf(&b, "%s/%s/%v%v%v/%v|", s.Kind, s.Name, s.Timeout, s.Temporary, s.Fault, s.Field != "")
	}
	return b.String()
}

func checkSeq(run *vc.Run, specs []partSpec) {
	n := len(specs)
	var trees []*tree
	if n == 0 {
		// the empty sequence: MergeErrors(nil, nil)
		if goa.MergeErrors(nil, nil) != nil {
			run.Violation("nil-merge-not-nil", "MergeErrors(nil,nil) != nil", witness{})
		}
		run.Eval(1)
		return
	}
	trees = allTrees(0, n)
	var first string
	for ti, t := range trees {
		bad, desc := checkOne(specs, t)
		run.Eval(1)
		run.Count("merges_checked", n-1)
		for k, v := range bad {
			run.Violation(k, v, witness{Parts: specs, Tree: t.String(), Got: desc})
		}
		if ti == 0 {
			first = desc
		} else if desc != first && len(bad) == 0 {
			// two groupings disagree on an observable although each passed alone:
			// only possible through fields the per-tree oracle does not pin (message separator)
			if normSep(desc) != normSep(first) {
				run.Violation("groupings-disagree", fmt.Sprintf("%s gives %s, %s gives %s", trees[0], first, t, desc), witness{Parts: specs, Tree: t.String(), Got: desc})
			}
		}
	}
	run.Count("parenthesisations", len(trees))
	nn := 0
	for _, s := range specs {
		if s.Kind != "nil" {
			nn++
		}
	}
	if nn >= 2 {
		run.Distinct(sig(specs))
	}
}

func normSep(s string) string { return s }

// ---- status tables -------------------------------------------------------

func httpWant(name string, to, te, fa bool) int {
	// literal table from the godoc of ErrorResponse.StatusCode / DESIGN §7.C05
	switch {
	case name == "unsupported_media_type":
		return 415
	case fa:
		return 500
	case to && te:
		return 504
	case to:
		return 408
	case te:
		return 503
	}
	return 400
}

func checkTables(run *vc.Run) {
	for _, name := range []string{"bad_request", "unsupported_media_type", "error", "fault", ""} {
		for m := 0; m < 8; m++ {
			to, te, fa := m&1 != 0, m&2 != 0, m&4 != 0
			se := &goa.ServiceError{Name: name, ID: "id" + fmt.Sprint(m), Message: "msg" + fmt.Sprint(m), Timeout: to, Temporary: te, Fault: fa}
			w := map[string]any{"name": name, "timeout": to, "temporary": te, "fault": fa}
			// HTTP
			for _, wrap := range []bool{false, true} {
				var err error = se
				if wrap {
					err = fmt.Errorf("wrapped: %w", se)
				}
				st := goahttp.NewErrorResponse(context.Background(), err)
				run.Eval(1)
				run.Seen("http_rows", fmt.Sprint(name, m, wrap))
				if got, want := st.StatusCode(), httpWant(name, to, te, fa); got != want {
					run.Violation(fmt.Sprintf("http-status-table name=%s flags=%d", name, m), fmt.Sprintf("StatusCode()=%d want %d", got, want), w)
				}
				er, ok := st.(*goahttp.ErrorResponse)
				if !ok || er.Name != name || er.ID != se.ID || er.Message != se.Message || er.Timeout != to || er.Temporary != te || er.Fault != fa {
					run.Violation("http-error-response-fields", fmt.Sprintf("NewErrorResponse lost fields: %+v", st), w)
				}
			}
			// gRPC: the service error itself, and the same error reached through the standard unwrapping
			// (the encoded detail carries the flags either way: the code must agree with them)
			for _, carrier := range []string{"wrapped", "double-wrapped", "joined"} {
				var cerr error
				switch carrier {
				case "wrapped":
					cerr = fmt.Errorf("wrapped: %w", se)
				case "double-wrapped":
					cerr = fmt.Errorf("outer: %w", fmt.Errorf("inner: %w", se))
				case "joined":
					cerr = errors.Join(errors.New("plain sibling"), se)
				}
				cenc := goagrpc.EncodeError(cerr)
				run.Eval(1)
				run.Seen("grpc_rows", fmt.Sprint(name, m, carrier))
				cst, ok := status.FromError(cenc)
				if !ok {
					run.Violation("grpc-encode-not-status carrier="+carrier, "EncodeError did not return a status error", w)
					continue
				}
				want := map[codes.Code]bool{}
				if !to && !te && !fa {
					want[codes.Unknown] = true
				}
				if fa {
					want[codes.Internal] = true
				}
				if to {
					want[codes.DeadlineExceeded] = true
				}
				if te {
					want[codes.Unavailable] = true
				}
				if resp, isResp := goagrpc.DecodeError(cenc).(*goapb.ErrorResponse); isResp && (resp.Timeout != to || resp.Temporary != te || resp.Fault != fa || resp.Name != name) {
					// the detail does not describe the wrapped service error: the carrier was treated as a plain error
					run.Violation(fmt.Sprintf("grpc-wrapped-error-not-recognised carrier=%s", carrier), fmt.Sprintf("detail %+v for a %s service error with flags %d", resp, carrier, m), w)
				} else if !want[cst.Code()] {
					run.Violation(fmt.Sprintf("grpc-code-table flags=%d carrier=%s", m, carrier), fmt.Sprintf("code=%v not in the set implied by the flags the encoded detail carries", cst.Code()), w)
				}
			}
			enc := goagrpc.EncodeError(se)
			run.Eval(1)
			run.Seen("grpc_rows", fmt.Sprint(name, m))
			stt, ok := status.FromError(enc)
			if !ok {
				run.Violation("grpc-encode-not-status", "EncodeError did not return a status error", w)
				continue
			}
			allowed := map[codes.Code]bool{}
			switch {
			case !to && !te && !fa:
				allowed[codes.Unknown] = true
			default:
				if fa {
					allowed[codes.Internal] = true
				}
				if to {
					allowed[codes.DeadlineExceeded] = true
				}
				if te {
					allowed[codes.Unavailable] = true
				}
			}
			if !allowed[stt.Code()] {
				run.Violation(fmt.Sprintf("grpc-code-table flags=%d", m), fmt.Sprintf("code=%v not in set implied by flags", stt.Code()), w)
			}
			msg := goagrpc.DecodeError(enc)
			resp, ok := msg.(*goapb.ErrorResponse)
			if !ok {
				run.Violation("grpc-decode-not-error-response", fmt.Sprintf("DecodeError returned %T", msg), w)
				continue
			}
			back := goagrpc.NewServiceError(resp)
			if back.Name != name || back.ID != se.ID || back.Message != se.Message || back.Timeout != to || back.Temporary != te || back.Fault != fa {
				run.Violation("grpc-roundtrip-fields", fmt.Sprintf("round trip gave %+v", back), w)
			}
		}
	}
	// plain errors
	plain := errors.New("kaboom")
	st := goahttp.NewErrorResponse(context.Background(), plain)
	run.Eval(1)
	if st.StatusCode() != 500 {
		run.Violation("http-plain-error-not-500", fmt.Sprintf("plain error → %d", st.StatusCode()), "plain")
	}
	if er, ok := st.(*goahttp.ErrorResponse); !ok || !er.Fault || er.Timeout || er.Temporary || er.Message != "kaboom" {
		run.Violation("http-plain-error-not-fault", fmt.Sprintf("%+v", st), "plain")
	}
	enc := goagrpc.EncodeError(plain)
	run.Eval(1)
	if stt, ok := status.FromError(enc); !ok || stt.Code() != codes.Unknown {
		run.Violation("grpc-plain-error-code", "plain error not Unknown", "plain")
	} else if resp, ok := goagrpc.DecodeError(enc).(*goapb.ErrorResponse); !ok || !resp.Fault {
		run.Violation("grpc-plain-error-not-fault", "plain error detail lacks fault", "plain")
	}
	// existing status errors pass through
	for _, c := range []codes.Code{codes.NotFound, codes.PermissionDenied, codes.Aborted, codes.ResourceExhausted} {
		in := status.Error(c, "st")
		out := goagrpc.EncodeError(in)
		run.Eval(1)
		if stt, ok := status.FromError(out); !ok || stt.Code() != c || stt.Message() != "st" {
			run.Violation("grpc-status-passthrough", fmt.Sprintf("status %v became %v", c, out), c.String())
		}
	}
}

// gRPC round trip over generated service errors.
func checkRoundTrip(run *vc.Run, n int) {
	r := run.Rand(77)
	for i := 0; i < n; i++ {
		se := &goa.ServiceError{
			Name: r.Pick("a", "not_found", "é", "", "x y", "unsupported_media_type"), ID: r.Pick("", "id1", "Zm9v"),
			Message: r.Pick("", "m", "multi\nline", "ünï", strings.Repeat("z", 300)),
			Timeout: r.Bool(), Temporary: r.Bool(), Fault: r.Bool()}
		var err error = se
		if r.Chance(1, 4) {
			err = fmt.Errorf("w: %w", se)
		}
		enc := goagrpc.EncodeError(err)
		run.Eval(1)
		resp, ok := goagrpc.DecodeError(enc).(*goapb.ErrorResponse)
		if !ok {
			run.Violation("grpc-decode-not-error-response", "no ErrorResponse detail", se)
			continue
		}
		back := goagrpc.NewServiceError(resp)
		if back.Name != se.Name || back.ID != se.ID || back.Message != se.Message || back.Timeout != se.Timeout || back.Temporary != se.Temporary || back.Fault != se.Fault {
			run.Violation("grpc-roundtrip-fields", fmt.Sprintf("sent %+v got %+v", se, back), se)
		}
	}
}

func main() {
	run := vc.New("C18")
	run.Rule("sequences of 0..L errors drawn from {nil, service error (8 flag combos, optional field), plain, %w-wrapped, errors.Join'ed, service error with cause}; every sequence is merged under EVERY parenthesisation with fresh originals; a sequence is non-trivial when it has >=2 non-nil parts; distinct = distinct (kind,name,flags,field?) signature vectors. Status tables (HTTP, gRPC) enumerated exhaustively over 8 flag combos x 5 names.")
	run.Assume("message separator is not asserted, only order and presence of every part's message",
		"for multi-flag gRPC rows any code implied by a set flag is accepted (documentation does not order them)")
	if run.Replay != "" {
		var w witness
		if err := run.LoadReplay(&w); err != nil {
			fmt.Println("replay:", err)
			run.Infra("cannot load replay")
			run.Finish()
		}
		fmt.Printf("replaying parts=%+v tree=%s\n", w.Parts, w.Tree)
		if len(w.Parts) > 0 {
			for _, t := range allTrees(0, len(w.Parts)) {
				if w.Tree != "" && t.String() != w.Tree {
					continue
				}
				bad, desc := checkOne(w.Parts, t)
				fmt.Printf(" tree %s -> %s\n", t, desc)
				for k, v := range bad {
					fmt.Printf("  %s: %s\n", k, v)
					run.Violation(k, v, w)
				}
				run.Eval(1)
			}
		} else {
			checkTables(run)
		}
		run.Finish()
	}
	checkTables(run)
	checkRoundTrip(run, run.N(500, 20000))
	// all sequences of length <=2 over a small alphabet, exhaustively
	alpha := []partSpec{{Kind: "nil"}, {Kind: "plain", Msg: "p"}, {Kind: "service", Name: "error", Msg: "e", Fault: true},
		{Kind: "service", Name: "n1", Msg: "s", Timeout: true, Temporary: true, Fault: true}, {Kind: "service", Name: "n2", Msg: "t", Field: "f"},
		{Kind: "wrapped", Name: "n3", Msg: "w", Temporary: true}, {Kind: "caused", Name: "n4", Msg: "c", Timeout: true}, {Kind: "joined", Name: "n5", Msg: "j"}}
	for _, a := range alpha {
		checkSeq(run, []partSpec{a})
		for _, b := range alpha {
			checkSeq(run, []partSpec{a, b})
			for _, c := range alpha {
				checkSeq(run, []partSpec{a, b, c})
			}
		}
	}
	maxLen, nseq := 6, 300
	if run.Thorough() {
		maxLen, nseq = 8, 6000
	}
	for i := 0; i < nseq; i++ {
		specs := genSeq(run.Rand(18, uint64(i)), maxLen)
		checkSeq(run, specs)
		if i < 3 {
			run.Sample(map[string]any{"parts": specs, "parenthesisations": len(allTreesOrNone(len(specs)))})
		}
	}
	run.Floor(50)
	run.Finish()
}

func allTreesOrNone(n int) []*tree {
	if n == 0 {
		return nil
	}
	return allTrees(0, n)
}
