// protoc: the lab's STAND-IN for the protocol buffer compiler (DESIGN §3.3).
//
// It accepts the command line goa's gRPC generator uses
//
//	protoc <file>.proto --proto_path <dir> --go_out <dir> --go-grpc_out <dir>
//	       --go_opt=paths=source_relative --go-grpc_opt=paths=source_relative [-I inc]...
//
// checks the file with the independent strict proto3 parser of package protostub
// (exit status 1 and a `file:line:col: message` diagnostic on stderr when it is not
// well formed, as the real compiler does) and writes <name>.pb.go and
// <name>_grpc.pb.go stand-ins (see ../../protostub/README.md).
package main

import (
	"errors"
	"fmt"
	"os"
	"path/filepath"
	"strings"

	"verif.local/lab/protostub"
)

func fail(format string, a ...any) {
	fmt.Fprintf(os.Stderr, format+"\n", a...)
	os.Exit(1)
}

func main() {
	var (
		files      []string
		protoPaths []string
		goOut      string
		grpcOut    string
		goOpts     []string
		grpcOpts   []string
	)
	args := os.Args[1:]
	val := func(i *int, a, name string) (string, bool) {
		if a == name {
			if *i+1 >= len(args) {
				fail("Missing value for flag: %s", name)
			}
			*i++
			return args[*i], true
		}
		if strings.HasPrefix(a, name+"=") {
			return a[len(name)+1:], true
		}
		return "", false
	}
	for i := 0; i < len(args); i++ {
		a := args[i]
		if a == "--version" {
			fmt.Println("libprotoc 3.21.12 (verif lab stand-in)")
			return
		}
		if v, ok := val(&i, a, "--proto_path"); ok {
			protoPaths = append(protoPaths, v)
			continue
		}
		if a == "-I" {
			if i+1 >= len(args) {
				fail("Missing value for flag: -I")
			}
			i++
			protoPaths = append(protoPaths, args[i])
			continue
		}
		if strings.HasPrefix(a, "-I") {
			protoPaths = append(protoPaths, a[2:])
			continue
		}
		if v, ok := val(&i, a, "--go_out"); ok {
			goOut = v
			continue
		}
		if v, ok := val(&i, a, "--go-grpc_out"); ok {
			grpcOut = v
			continue
		}
		if v, ok := val(&i, a, "--go_opt"); ok {
			goOpts = append(goOpts, strings.Split(v, ",")...)
			continue
		}
		if v, ok := val(&i, a, "--go-grpc_opt"); ok {
			grpcOpts = append(grpcOpts, strings.Split(v, ",")...)
			continue
		}
		if strings.HasPrefix(a, "-") {
			fail("Unknown flag: %s", a)
		}
		files = append(files, a)
	}
	if len(files) == 0 {
		fail("Missing input file.")
	}
	if goOut == "" && grpcOut == "" {
		fail("Missing output directives.")
	}
	if len(protoPaths) == 0 {
		protoPaths = []string{"."}
	}
	for _, o := range append(append([]string{}, goOpts...), grpcOpts...) {
		switch {
		case o == "paths=source_relative", o == "paths=import", o == "":
		case strings.HasPrefix(o, "M"), strings.HasPrefix(o, "module="), o == "require_unimplemented_servers=true":
			fail("stand-in protoc: option %q is not supported", o)
		default:
			fail("protoc-gen-go: unknown argument %q", o)
		}
	}
	rel := func(opts []string) bool {
		for _, o := range opts {
			if o == "paths=source_relative" {
				return true
			}
		}
		return false
	}
	for _, file := range files {
		abs, err := filepath.Abs(file)
		if err != nil {
			fail("%s: %v", file, err)
		}
		if _, err := os.Stat(abs); err != nil {
			fail("%s: No such file or directory", file)
		}
		// the virtual name of the file is its path relative to the first proto path containing it
		virt := ""
		for _, pp := range protoPaths {
			pa, _ := filepath.Abs(pp)
			if r, err := filepath.Rel(pa, abs); err == nil && !strings.HasPrefix(r, "..") {
				virt = filepath.ToSlash(r)
				break
			}
		}
		if virt == "" {
			fail("%s: File does not reside within any path specified using --proto_path (or -I).  You must specify a --proto_path which encompasses this file.", file)
		}
		f, err := protostub.ParseFile(abs, protoPaths)
		if err != nil {
			var pe *protostub.Error
			if errors.As(err, &pe) {
				fail("%s:%d:%d: %s", virt, pe.Line, pe.Col, pe.Msg)
			}
			fail("%s: %v", virt, err)
		}
		f.Name = virt
		// second, independent judge: protobuf-go's own descriptor validation
		if err := protostub.CrossCheck(f); err != nil {
			fail("%s: %v", virt, err)
		}
		gen, err := protostub.Generate(f, virt)
		if err != nil {
			fail("protoc-gen-go: %s: %v\n--go_out: protoc-gen-go: Plugin failed with status code 1.", virt, err)
		}
		base := strings.TrimSuffix(virt, ".proto")
		target := func(outDir string, sourceRelative bool, suffix string) string {
			if sourceRelative {
				return filepath.Join(outDir, filepath.FromSlash(base)+suffix)
			}
			_, ipath, _ := protostub.GoPackage(f.GoPackage)
			return filepath.Join(outDir, filepath.FromSlash(ipath), filepath.Base(base)+suffix)
		}
		write := func(p string, b []byte) {
			if err := os.MkdirAll(filepath.Dir(p), 0o755); err != nil {
				fail("%s: %v", p, err)
			}
			if err := os.WriteFile(p, b, 0o644); err != nil {
				fail("%s: %v", p, err)
			}
		}
		if goOut != "" {
			if st, err := os.Stat(goOut); err != nil || !st.IsDir() {
				fail("%s/: No such file or directory", goOut)
			}
			pb := gen.PB
			if plugin := os.Getenv("VERIF_PROTOC_GEN_GO"); plugin != "" {
				// cross-validation mode: messages come from the REAL protoc-gen-go (built from the module cache)
				real, err := protostub.RunPlugin(plugin, f, "paths=source_relative")
				if err != nil {
					fail("--go_out: protoc-gen-go: %v", err)
				}
				pb = real
			}
			write(target(goOut, rel(goOpts), ".pb.go"), pb)
		}
		if grpcOut != "" && gen.GRPC != nil {
			if st, err := os.Stat(grpcOut); err != nil || !st.IsDir() {
				fail("%s/: No such file or directory", grpcOut)
			}
			write(target(grpcOut, rel(grpcOpts), "_grpc.pb.go"), gen.GRPC)
		}
	}
}
