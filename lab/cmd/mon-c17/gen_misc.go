package main

import (
	"fmt"
	"regexp"
	"regexp/syntax"
	"strconv"
	"strings"
	"unicode/utf8"

	"verif.local/lab/vc"
)

// ---------------------------------------------------------------- uuid

const hexAll = "0123456789abcdefABCDEF"

var reUUID = regexp.MustCompile(`^(?:urn:uuid:([0-9a-fA-F]{8}-[0-9a-fA-F]{4}-[0-9a-fA-F]{4}-[0-9a-fA-F]{4}-[0-9a-fA-F]{12})|\{([0-9a-fA-F]{8}-[0-9a-fA-F]{4}-[0-9a-fA-F]{4}-[0-9a-fA-F]{4}-[0-9a-fA-F]{12})\}|([0-9a-fA-F]{8}-[0-9a-fA-F]{4}-[0-9a-fA-F]{4}-[0-9a-fA-F]{4}-[0-9a-fA-F]{12})|([0-9a-fA-F]{32}))$`)

// refUUID: the four spellings goa documents, RFC 4122 variant (10xx).
func refUUID(s string) int {
	m := reUUID.FindStringSubmatch(s)
	if m == nil {
		return 0
	}
	var h string
	for _, g := range m[1:] {
		if g != "" {
			h = strings.ReplaceAll(g, "-", "")
		}
	}
	if strings.IndexByte("89abAB", h[16]) < 0 {
		return 0
	}
	return 1
}

func genUUIDHex(r *vc.Rand, style int) string {
	h := []byte(hexs(r, 32, style))
	h[12] = "12345"[r.Intn(5)]
	h[16] = "89ab"[r.Intn(4)]
	if style == 1 || (style == 2 && r.Bool()) {
		h[16] = strings.ToUpper(string(h[16]))[0]
	}
	return string(h)
}

func canon(h string) string {
	return h[0:8] + "-" + h[8:12] + "-" + h[12:16] + "-" + h[16:20] + "-" + h[20:32]
}

// spell renders a 32-hex string in spelling k: 0 canonical, 1 raw, 2 braces, 3 urn.
func spell(h string, k int) string {
	switch k {
	case 1:
		return h
	case 2:
		return "{" + canon(h) + "}"
	case 3:
		return "urn:uuid:" + canon(h)
	}
	return canon(h)
}

var spellNames = []string{"canonical", "raw", "braces", "urn"}

func init() {
	gens["uuid"] = &gen{
		valid: func(r *vc.Rand) (string, string) {
			style := r.Intn(3)
			k := r.Intn(4)
			return spellNames[k] + "," + []string{"lower", "upper", "mixed"}[style], spell(genUUIDHex(r, style), k)
		},
		classes: []string{"non-hex-digit", "too-short", "too-long", "dash-misplaced", "dash-missing", "brace-unclosed",
			"brace-unopened", "paren-instead-of-brace", "bracket-instead-of-brace", "letters-instead-of-braces", "space-padded",
			"urn-prefix-wrong", "variant-ncs", "variant-microsoft", "variant-reserved", "raw-with-dash", "trailing-newline", "empty"},
		invalid: func(r *vc.Rand, class string) (string, string) {
			style := r.Intn(3)
			h := genUUIDHex(r, style)
			k := r.Intn(4)
			s := spell(h, k)
			hexPos := func(s string) []int {
				ps := positions(s, hexAll)
				if strings.HasPrefix(s, "urn:uuid:") { // 'd' of "uuid" is not a digit position
					var q []int
					for _, p := range ps {
						if p >= 9 {
							q = append(q, p)
						}
					}
					return q
				}
				return ps
			}
			switch class {
			case "non-hex-digit":
				ps := hexPos(s)
				return replaceAt(s, ps[r.Intn(len(ps))], string(pickc(r, "ghxzGOZ_"))), spellNames[k] + ": a hex digit replaced by a non-hex character"
			case "too-short":
				ps := hexPos(s)
				return deleteAt(s, ps[r.Intn(len(ps))]), spellNames[k] + ": one hex digit removed"
			case "too-long":
				ps := hexPos(s)
				return insertAt(s, ps[r.Intn(len(ps))], string(pickc(r, hexLo))), spellNames[k] + ": one hex digit added"
			case "dash-misplaced":
				c := canon(h)
				p := []int{8, 13, 18, 23}[r.Intn(4)]
				b := []byte(c)
				b[p], b[p+1] = b[p+1], b[p]
				return string(b), "a '-' swapped with the following digit"
			case "dash-missing":
				c := canon(h)
				return deleteAt(c, []int{8, 13, 18, 23}[r.Intn(4)]), "one '-' removed"
			case "brace-unclosed":
				return "{" + canon(h), "'{' without '}'"
			case "brace-unopened":
				return canon(h) + "}", "'}' without '{'"
			case "paren-instead-of-brace":
				return "(" + canon(h) + ")", "'(' ')' are not a documented spelling"
			case "bracket-instead-of-brace":
				return r.Pick("[", "<", "{") + canon(h) + r.Pick("]", ">", ")"), "only '{' '}' are a documented spelling"
			case "letters-instead-of-braces":
				return string(pickc(r, lower)) + canon(h) + string(pickc(r, lower+digits)), "arbitrary characters around the UUID"
			case "space-padded":
				return " " + canon(h) + " ", "blank before and after"
			case "urn-prefix-wrong":
				return r.Pick("urn:uuie:", "uuid:urn:", "urn-uuid:", "urn:guid:", "xrn:uuid:") + canon(h), "prefix is not urn:uuid:"
			case "variant-ncs":
				b := []byte(h)
				b[16] = "01234567"[r.Intn(8)]
				return spell(string(b), k), "variant bits 0xxx (NCS), not RFC 4122"
			case "variant-microsoft":
				b := []byte(h)
				b[16] = "cdCD"[r.Intn(4)]
				return spell(string(b), k), "variant bits 110x (Microsoft), not RFC 4122"
			case "variant-reserved":
				b := []byte(h)
				b[16] = "efEF"[r.Intn(4)]
				return spell(string(b), k), "variant bits 111x (reserved), not RFC 4122"
			case "raw-with-dash":
				return insertAt(h, []int{8, 12, 16, 20}[r.Intn(4)], "-"), "32 digits with a single '-'"
			case "trailing-newline":
				return s + "\n", "trailing newline"
			case "empty":
				return "", "empty string"
			}
			panic("uuid class " + class)
		},
		ref: refUUID,
	}
}

// ---------------------------------------------------------------- json (RFC 8259)

// refJSON is a recursive-descent recogniser of the RFC 8259 grammar over UTF-8 text.
func refJSON(s string) int {
	if !utf8.ValidString(s) {
		return 0
	}
	p := &jp{s: s}
	p.ws()
	if !p.value(0) {
		return 0
	}
	p.ws()
	if p.i != len(p.s) {
		return 0
	}
	return 1
}

type jp struct {
	s string
	i int
}

func (p *jp) ws() {
	for p.i < len(p.s) && strings.IndexByte(" \t\n\r", p.s[p.i]) >= 0 {
		p.i++
	}
}
func (p *jp) eat(c byte) bool {
	if p.i < len(p.s) && p.s[p.i] == c {
		p.i++
		return true
	}
	return false
}
func (p *jp) lit(w string) bool {
	if strings.HasPrefix(p.s[p.i:], w) {
		p.i += len(w)
		return true
	}
	return false
}
func (p *jp) digits() int {
	n := 0
	for p.i < len(p.s) && p.s[p.i] >= '0' && p.s[p.i] <= '9' {
		p.i++
		n++
	}
	return n
}
func (p *jp) str() bool {
	if !p.eat('"') {
		return false
	}
	for p.i < len(p.s) {
		c := p.s[p.i]
		switch {
		case c == '"':
			p.i++
			return true
		case c < 0x20:
			return false
		case c == '\\':
			p.i++
			if p.i >= len(p.s) {
				return false
			}
			e := p.s[p.i]
			p.i++
			if e == 'u' {
				if p.i+4 > len(p.s) {
					return false
				}
				for k := 0; k < 4; k++ {
					if strings.IndexByte(hexAll, p.s[p.i+k]) < 0 {
						return false
					}
				}
				p.i += 4
			} else if strings.IndexByte(`"\/bfnrt`, e) < 0 {
				return false
			}
		default:
			p.i++
		}
	}
	return false
}
func (p *jp) value(depth int) bool {
	if depth > 200 || p.i >= len(p.s) {
		return false
	}
	switch c := p.s[p.i]; {
	case c == '{':
		p.i++
		p.ws()
		if p.eat('}') {
			return true
		}
		for {
			p.ws()
			if !p.str() {
				return false
			}
			p.ws()
			if !p.eat(':') {
				return false
			}
			p.ws()
			if !p.value(depth + 1) {
				return false
			}
			p.ws()
			if p.eat('}') {
				return true
			}
			if !p.eat(',') {
				return false
			}
		}
	case c == '[':
		p.i++
		p.ws()
		if p.eat(']') {
			return true
		}
		for {
			p.ws()
			if !p.value(depth + 1) {
				return false
			}
			p.ws()
			if p.eat(']') {
				return true
			}
			if !p.eat(',') {
				return false
			}
		}
	case c == '"':
		return p.str()
	case c == 't':
		return p.lit("true")
	case c == 'f':
		return p.lit("false")
	case c == 'n':
		return p.lit("null")
	case c == '-' || (c >= '0' && c <= '9'):
		p.eat('-')
		if p.eat('0') {
		} else if p.digits() == 0 {
			return false
		}
		if p.eat('.') && p.digits() == 0 {
			return false
		}
		if p.i < len(p.s) && (p.s[p.i] == 'e' || p.s[p.i] == 'E') {
			p.i++
			if !p.eat('+') {
				p.eat('-')
			}
			if p.digits() == 0 {
				return false
			}
		}
		return true
	}
	return false
}

func jws(r *vc.Rand, on bool) string {
	if !on || r.Chance(2, 3) {
		return ""
	}
	return r.Pick(" ", "  ", "\n", "\t", "\r\n", " \n ")
}

func genJString(r *vc.Rand) string {
	n := r.Range(0, 8)
	var b strings.Builder
	b.WriteByte('"')
	for i := 0; i < n; i++ {
		switch r.Intn(10) {
		case 0:
			b.WriteString(r.Pick(`\"`, `\\`, `\/`, `\b`, `\f`, `\n`, `\r`, `\t`))
		case 1:
			b.WriteString(`\u` + r.Pick("0041", "00e9", "20AC", "0000", "ffff", "D83D\\uDE00", "d834\\udd1e"))
		case 2:
			b.WriteString(r.Pick("é", "日", "😀", "ß", " ", "\x7f"))
		default:
			b.WriteByte(pickc(r, lower+upper+digits+" _-.,:;[]{}'/"))
		}
	}
	b.WriteByte('"')
	return b.String()
}

func genJNumber(r *vc.Rand) string {
	s := ""
	if r.Chance(1, 3) {
		s = "-"
	}
	if r.Chance(1, 4) {
		s += "0"
	} else {
		s += string(pickc(r, "123456789")) + rstr(r, digits, r.Range(0, 6))
	}
	if r.Chance(1, 3) {
		s += "." + rstr(r, digits, r.Range(1, 5))
	}
	if r.Chance(1, 4) {
		s += r.Pick("e", "E") + r.Pick("", "+", "-") + rstr(r, digits, r.Range(1, 3))
	}
	return s
}

func genJValue(r *vc.Rand, depth int, ws bool) string {
	k := r.Intn(7)
	if depth <= 0 && k < 2 {
		k = 2 + r.Intn(5)
	}
	switch k {
	case 0:
		n := r.Range(0, 3)
		ms := make([]string, n)
		for i := range ms {
			ms[i] = jws(r, ws) + genJString(r) + jws(r, ws) + ":" + jws(r, ws) + genJValue(r, depth-1, ws) + jws(r, ws)
		}
		if n == 0 {
			return "{" + jws(r, ws) + "}"
		}
		return "{" + strings.Join(ms, ",") + "}"
	case 1:
		n := r.Range(0, 4)
		es := make([]string, n)
		for i := range es {
			es[i] = jws(r, ws) + genJValue(r, depth-1, ws) + jws(r, ws)
		}
		if n == 0 {
			return "[" + jws(r, ws) + "]"
		}
		return "[" + strings.Join(es, ",") + "]"
	case 2, 3:
		return genJString(r)
	case 4, 5:
		return genJNumber(r)
	}
	return r.Pick("true", "false", "null")
}

func init() {
	gens["json"] = &gen{
		valid: func(r *vc.Rand) (string, string) {
			ws := r.Chance(1, 3)
			v := genJValue(r, 3, ws)
			class := "number"
			switch v[0] {
			case '{':
				class = "object"
			case '[':
				class = "array"
			case '"':
				class = "string"
			case 't', 'f', 'n':
				class = "literal"
			}
			if ws {
				v = jws(r, true) + v + jws(r, true)
				class += ",white-space"
			}
			return class, v
		},
		classes: []string{"truncated-last-char", "truncated-prefix", "trailing-comma", "double-comma", "missing-comma", "missing-colon",
			"unquoted-key", "key-not-string", "single-quoted-string", "leading-zero-number", "bare-word", "nan-infinity", "lone-minus",
			"leading-dot-number", "trailing-dot-number", "empty-exponent", "hex-number", "plus-sign-number", "comment",
			"raw-control-char-in-string", "invalid-escape", "unclosed-string", "trailing-garbage", "two-values", "mismatched-brackets",
			"invalid-utf8", "only-white-space", "empty"},
		invalid: func(r *vc.Rand, class string) (string, string) {
			n := r.Range(2, 4)
			es := make([]string, n)
			for i := range es {
				es[i] = genJValue(r, 2, false)
			}
			k := r.Intn(n)
			arr := func(es []string) string { return "[" + strings.Join(es, ",") + "]" }
			obj := func(es []string) string {
				ms := make([]string, len(es))
				for i, e := range es {
					ms[i] = `"k` + strconv.Itoa(i) + `":` + e
				}
				return "{" + strings.Join(ms, ",") + "}"
			}
			wrap := arr
			if r.Bool() {
				wrap = obj
			}
			bad := func(tok, why string) (string, string) {
				es[k] = tok
				return wrap(es), "element " + strconv.Quote(tok) + ": " + why
			}
			switch class {
			case "truncated-last-char":
				d := wrap(es)
				return d[:len(d)-1], "closing bracket removed"
			case "truncated-prefix":
				d := wrap(es)
				return d[:r.Range(1, len(d)-1)], "proper prefix of a container (its closing bracket is missing)"
			case "trailing-comma":
				d := wrap(es)
				return d[:len(d)-1] + "," + d[len(d)-1:], "',' before the closing bracket"
			case "double-comma":
				return "[" + strings.Join(es[:1], ",") + ",," + strings.Join(es[1:], ",") + "]", "',,'"
			case "missing-comma":
				return "[" + es[0] + " " + strings.Join(es[1:], ",") + "]", "two values separated by a blank only"
			case "missing-colon":
				return `{"k" ` + es[0] + "}", "member without ':'"
			case "unquoted-key":
				return "{k:" + es[0] + "}", "member name not quoted"
			case "key-not-string":
				return "{" + r.Pick("1", "true", "null", "[]") + ":" + es[0] + "}", "member name is not a string"
			case "single-quoted-string":
				return bad("'"+rstr(r, lower, r.Range(0, 5))+"'", "single quotes")
			case "leading-zero-number":
				return bad(r.Pick("01", "-012", "00", "007.5"), "leading zero")
			case "bare-word":
				return bad(r.Pick("tru", "nul", "True", "NULL", "undefined", "nil", "fals", "yes"), "not a JSON literal")
			case "nan-infinity":
				return bad(r.Pick("NaN", "Infinity", "-Infinity", "inf"), "not a JSON number")
			case "lone-minus":
				return bad("-", "'-' without digits")
			case "leading-dot-number":
				return bad(r.Pick(".5", "-.5"), "no integer part")
			case "trailing-dot-number":
				return bad(r.Pick("1.", "0.", "-3.e2"), "'.' without fraction digits")
			case "empty-exponent":
				return bad(r.Pick("1e", "1E+", "2e-", "1.5e"), "exponent without digits")
			case "hex-number":
				return bad(r.Pick("0x1F", "0X0", "0b1", "0o7"), "not decimal")
			case "plus-sign-number":
				return bad("+"+strconv.Itoa(r.Range(0, 99)), "'+' sign")
			case "comment":
				return bad(r.Pick("/* c */ 1", "1 // c\n", "# c\n1"), "comments are not JSON")
			case "raw-control-char-in-string":
				return bad(`"a`+r.Pick("\x01", "\n", "\t", "\x1f", "\x00")+`b"`, "unescaped control character")
			case "invalid-escape":
				return bad(`"a`+r.Pick(`\x41`, `\q`, `\'`, `\u12`, `\u12G4`, `\a`, `\0`, `\U0041`)+`b"`, "escape not in the grammar")
			case "unclosed-string":
				es = append(es[:n-1], `"abc`)
				return arr(es), "last string never closed"
			case "trailing-garbage":
				return wrap(es) + r.Pick(" x", "]", "}", ",", ";", " 1"), "characters after the value"
			case "two-values":
				return wrap(es) + r.Pick(" ", "\n", "") + wrap(es), "two top-level values"
			case "mismatched-brackets":
				if r.Bool() {
					d := arr(es)
					return d[:len(d)-1] + "}", "'[' closed by '}'"
				}
				d := obj(es)
				return d[:len(d)-1] + "]", "'{' closed by ']'"
			case "invalid-utf8":
				return bad(`"a`+r.Pick("\xff", "\xc3\x28", "\xe2\x82", "\xc0\xaf", "\xed\xa0\x80")+`b"`, "string is not UTF-8")
			case "only-white-space":
				return r.Pick(" ", "\n", " \t "), "no value"
			case "empty":
				return "", "empty string"
			}
			panic("json class " + class)
		},
		ref: refJSON,
	}
}

// ---------------------------------------------------------------- RE2 patterns from a grammar

// pnode is a pattern fragment with a sampler of strings it matches by construction.
type pnode struct {
	src    string
	sample func(r *vc.Rand) string
}

type pstate struct {
	names int
	feat  map[string]bool
}

type cls struct{ src, set string }

var classes = []cls{
	{`[a-f]`, "abcdef"}, {`[^0-9]`, "abcXYZ _"}, {`\d`, digits}, {`\w`, "aZ0_"}, {`\s`, " \t"}, {`[[:alpha:]]`, "abcXYZ"},
	{`[a-zA-Z_]`, "azAZ_"}, {`\pL`, "aéß"}, {`[\d_-]`, "0_-9"}, {`\D`, "a _"}, {`[^\n]`, "a b"}, {`[[:^digit:]]`, "ab "},
	{`[0-9a-fA-F]`, "09afAF"}, {`[xyz]`, "xyz"}, {`\S`, "a0_"}, {`[\w.]`, "a.0"}, {`\p{Greek}`, "αβω"}, {`[[:upper:][:digit:]]`, "AZ09"},
}

var metas = `.+*?()[]{}|^$\`

func genAtom(r *vc.Rand, depth int, st *pstate) pnode {
	k := r.Intn(12)
	if depth <= 0 && k >= 9 {
		k = r.Intn(9)
	}
	switch {
	case k <= 3:
		c := string(pickc(r, lower+digits))
		return pnode{c, func(*vc.Rand) string { return c }}
	case k == 4:
		c := string(pickc(r, metas))
		st.feat["escape"] = true
		return pnode{`\` + c, func(*vc.Rand) string { return c }}
	case k == 5:
		c := r.Pick("é", "日", "ß", "-", "_", " ", "/", "@", ":")
		return pnode{c, func(*vc.Rand) string { return c }}
	case k == 6:
		st.feat["dot"] = true
		return pnode{".", func(r *vc.Rand) string { return r.Pick("a", "Z", "0", " ", "_", "é", "-") }}
	case k <= 8:
		c := classes[r.Intn(len(classes))]
		st.feat["class"] = true
		rs := []rune(c.set)
		return pnode{c.src, func(r *vc.Rand) string { return string(rs[r.Intn(len(rs))]) }}
	}
	st.feat["group"] = true
	inner := genAlt(r, depth-1, st)
	switch r.Intn(3) {
	case 0:
		return pnode{"(" + inner.src + ")", inner.sample}
	case 1:
		return pnode{"(?:" + inner.src + ")", inner.sample}
	}
	st.names++
	return pnode{fmt.Sprintf("(?P<n%d>%s)", st.names, inner.src), inner.sample}
}

func genRep(r *vc.Rand, depth int, st *pstate) pnode {
	a := genAtom(r, depth, st)
	if r.Chance(3, 5) {
		return a
	}
	st.feat["repeat"] = true
	lo, hi := 0, 0
	var op string
	switch r.Intn(6) {
	case 0:
		op, lo, hi = "*", 0, 3
	case 1:
		op, lo, hi = "+", 1, 3
	case 2:
		op, lo, hi = "?", 0, 1
	case 3:
		n := r.Range(0, 4)
		op, lo, hi = fmt.Sprintf("{%d}", n), n, n
	case 4:
		n := r.Range(0, 3)
		op, lo, hi = fmt.Sprintf("{%d,}", n), n, n+2
	default:
		n := r.Range(0, 3)
		m := n + r.Range(0, 3)
		op, lo, hi = fmt.Sprintf("{%d,%d}", n, m), n, m
	}
	if r.Chance(1, 4) {
		op += "?"
		st.feat["lazy"] = true
	}
	return pnode{a.src + op, func(r *vc.Rand) string {
		n := r.Range(lo, hi)
		var b strings.Builder
		for i := 0; i < n; i++ {
			b.WriteString(a.sample(r))
		}
		return b.String()
	}}
}

func genConcat(r *vc.Rand, depth int, st *pstate) pnode {
	n := r.Range(1, 4)
	parts := make([]pnode, n)
	var src strings.Builder
	for i := range parts {
		parts[i] = genRep(r, depth, st)
		src.WriteString(parts[i].src)
	}
	return pnode{src.String(), func(r *vc.Rand) string {
		var b strings.Builder
		for _, p := range parts {
			b.WriteString(p.sample(r))
		}
		return b.String()
	}}
}

func genAlt(r *vc.Rand, depth int, st *pstate) pnode {
	n := 1
	if r.Chance(1, 3) {
		n = r.Range(2, 3)
		st.feat["alt"] = true
	}
	bs := make([]pnode, n)
	srcs := make([]string, n)
	for i := range bs {
		bs[i] = genConcat(r, depth, st)
		srcs[i] = bs[i].src
	}
	return pnode{strings.Join(srcs, "|"), func(r *vc.Rand) string { return bs[r.Intn(n)].sample(r) }}
}

// pattern is a generated top-level pattern.
type pattern struct {
	Src      string
	Anchored bool // ^…$ around the whole pattern (grouped)
	Fold     bool
	sample   func(r *vc.Rand) string
	Feat     string
}

func genPattern(r *vc.Rand) pattern {
	st := &pstate{feat: map[string]bool{}}
	body := genAlt(r, 2, st)
	p := pattern{Src: body.src, sample: body.sample}
	switch r.Intn(6) {
	case 0, 1, 2:
		p.Src = "^(?:" + body.src + ")$"
		p.Anchored = true
		st.feat["anchor"] = true
	case 3:
		// the precedence trap: ^a|b$ — still matched by every sample taken as a whole string
		p.Src = "^" + body.src + "$"
		st.feat["anchor"] = true
	}
	if r.Chance(1, 6) {
		p.Src = "(?i)" + p.Src
		p.Fold = true
		st.feat["flag"] = true
	}
	var fs []string
	for _, f := range []string{"alt", "anchor", "class", "dot", "escape", "flag", "group", "lazy", "repeat"} {
		if st.feat[f] {
			fs = append(fs, f)
		}
	}
	p.Feat = strings.Join(fs, "+")
	if p.Feat == "" {
		p.Feat = "literal"
	}
	return p
}

// Sample returns a string that matches p by construction.
func (p pattern) Sample(r *vc.Rand) string {
	s := p.sample(r)
	if p.Fold && r.Bool() {
		b := []rune(s)
		for i, c := range b {
			if c >= 'a' && c <= 'z' && r.Bool() {
				b[i] = c - 32
			} else if c >= 'A' && c <= 'Z' && r.Bool() {
				b[i] = c + 32
			}
		}
		s = string(b)
	}
	return s
}

func refRegexp(s string) int {
	if _, err := syntax.Parse(s, syntax.Perl); err != nil {
		return 0
	}
	return 1
}

func init() {
	extras := []string{`\bfoo\b`, `\Aabc\z`, `(?s:.)+`, `(?m)^line$`, `[[:^alpha:]]+`, `\x41\x{10FFFF}`, `\Qa.b*c\E`, `(?U)a+?`,
		`[^\PL\d]`, `\p{Latin}\P{Greek}`, `(?i:abc)def`, `a|b|`, `()`, `(|a)`, `[]a]`, `[^]a]`, `[a\]b]`, `x{2,5}?`, `(?P<year>\d{4})-(?P<month>\d{2})`,
		`[\x00-\x1f]`, `\pN+`, `\n\t\r\f\v\a`, `\123`, `[[:word:]]`, `\/path\/`, `a{1000}`, ``}
	gens["regexp"] = &gen{
		valid: func(r *vc.Rand) (string, string) {
			if r.Chance(1, 8) {
				return "re2-feature-list", extras[r.Intn(len(extras))]
			}
			p := genPattern(r)
			return "grammar", p.Src
		},
		classes: []string{"unclosed-bracket", "unclosed-paren", "unmatched-close-paren", "repetition-without-operand",
			"repeat-count-reversed", "bad-class-range", "trailing-backslash", "backreference", "lookahead", "lookbehind",
			"unknown-posix-class", "unknown-escape", "bad-group-name", "unknown-flag", "repeat-over-1000", "invalid-utf8",
			"unknown-unicode-class", "bad-hex-escape"},
		invalid: func(r *vc.Rand, class string) (string, string) {
			A := rstr(r, lower+digits, r.Range(0, 4))
			B := rstr(r, lower+digits, r.Range(0, 4))
			switch class {
			case "unclosed-bracket":
				return A + "[" + r.Pick("", "^", "a-") + rstr(r, lower, r.Range(1, 3)) + B, "'[' never closed"
			case "unclosed-paren":
				return A + r.Pick("(", "(?:", "(?i:", "(?P<n>") + B, "'(' never closed"
			case "unmatched-close-paren":
				return A + ")" + B, "')' without '('"
			case "repetition-without-operand":
				op := r.Pick("*", "+", "?", "{2}")
				switch r.Intn(3) {
				case 0:
					if op == "{2}" {
						op = "*"
					}
					return op + A + B, "repetition operator at the start"
				case 1:
					if op == "{2}" || op == "?" { // "(?" would start a flag group
						op = "+"
					}
					return A + "(" + op + B + ")", "repetition operator right after '('"
				}
				if op == "{2}" {
					op = "?"
				}
				return A + "x|" + op + B, "repetition operator right after '|'"
			case "repeat-count-reversed":
				n := r.Range(1, 9)
				return A + "x" + fmt.Sprintf("{%d,%d}", n+r.Range(1, 5), n) + B, "{n,m} with n > m"
			case "bad-class-range":
				return A + r.Pick("[z-a]", "[9-0]", "[b-a]", "[a-fz-b]", "[f-A]") + B, "class range with lo > hi"
			case "trailing-backslash":
				return A + B + `\`, "pattern ends with '\\'"
			case "backreference":
				return "(" + A + "x)" + B + r.Pick(`\1`, `\2`, `\9`, `\k<n>`), "RE2 has no back-references"
			case "lookahead":
				return A + r.Pick("(?=", "(?!") + "x)" + B, "RE2 has no look-ahead"
			case "lookbehind":
				return A + r.Pick("(?<=", "(?<!") + "x)" + B, "RE2 has no look-behind"
			case "unknown-posix-class":
				return A + r.Pick("[[:foo:]]", "[[:alpah:]]", "[[:ALPHA:]]", "[[:letter:]]") + B, "unknown [[:name:]]"
			case "unknown-escape":
				return A + `\` + r.Pick("q", "y", "i", "j", "m", "o", "e", "h", "R", "X", "N") + B, "escape not in RE2"
			case "bad-group-name":
				return A + r.Pick("(?P<na me>x)", "(?P<>x)", "(?P<n", "(?P=n)", "(?P<1-a>x)", "(?P>x)") + B, "malformed named group"
			case "unknown-flag":
				return A + r.Pick("(?z)", "(?q)", "(?e:x)", "(?ii-)", "(?-)", "(?i-i-s)") + B, "flag not in RE2"
			case "repeat-over-1000":
				return A + "x" + r.Pick("{1001}", "{2,5000}", "{1001,}", "{99999}") + B, "repetition count above RE2's limit of 1000"
			case "invalid-utf8":
				return A + r.Pick("\xff", "\xc3", "\xe2\x82", "\xc0\xaf") + B, "pattern is not UTF-8"
			case "unknown-unicode-class":
				return A + r.Pick(`\p{Foo}`, `\pX`, `\p{Greek`, `\P{}`, `\p{IsGreek}`) + B, "unknown Unicode class"
			case "bad-hex-escape":
				return A + r.Pick(`\x{110000}`, `\xZ1`, `\x{12`, `\x{}`, `\x1`) + "!" + B, "malformed \\x escape"
			}
			panic("regexp class " + class)
		},
		ref: refRegexp,
	}
}
