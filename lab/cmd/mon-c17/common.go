package main

import (
	"errors"
	"fmt"
	"strings"

	goa "goa.design/goa/v3/pkg"

	"verif.local/lab/vc"
)

// fcase is one format case: a string together with what its construction says
// about it. Valid==true: built from the format's grammar; Valid==false: a valid
// instance with one named corruption that the format's grammar excludes.
type fcase struct {
	Format string `json:"format"`
	Class  string `json:"class"`
	Valid  bool   `json:"valid"`
	Value  string `json:"value"`
	Why    string `json:"why,omitempty"`
}

// gen is the pair of generators of one format.
type gen struct {
	// valid returns a class name (a function of the structure of the instance,
	// never of goa's answer) and the instance.
	valid func(r *vc.Rand) (class, value string)
	// classes lists the corruption classes; invalid builds one instance of a class.
	classes []string
	invalid func(r *vc.Rand, class string) (value, why string)
	// ref is an independent recogniser written from the format's grammar
	// (second opinion on the generator; nil = none). It returns
	// 1 = well formed, 0 = malformed, -1 = outside what the recogniser decides.
	ref func(s string) int
}

var formats = []string{"date", "date-time", "uuid", "email", "hostname", "ipv4", "ipv6", "ip", "uri", "mac", "cidr", "regexp", "json", "rfc1123"}

var gens = map[string]*gen{}

// verdict is what goa answered.
type verdict struct {
	Accepted bool   `json:"accepted"`
	ErrName  string `json:"err_name,omitempty"`
	ErrType  string `json:"err_type,omitempty"`
	ErrText  string `json:"err_text,omitempty"`
	Panic    string `json:"panic,omitempty"`
	Site     string `json:"site,omitempty"`
}

func classify(err error) verdict {
	if err == nil {
		return verdict{Accepted: true}
	}
	v := verdict{ErrText: err.Error()}
	var se *goa.ServiceError
	if errors.As(err, &se) {
		v.ErrName = se.Name
	} else {
		v.ErrType = fmt.Sprintf("%T", err)
	}
	return v
}

func callFormat(format, value string) verdict {
	var err error
	p, st := vc.Try(func() { err = goa.ValidateFormat("v", value, goa.Format(format)) })
	if p != "" {
		return verdict{Panic: p, Site: vc.PanicSite(st, "goa/v3/", "/repo/", "/pkg/")}
	}
	return classify(err)
}

func callPattern(value, pattern string) verdict {
	var err error
	p, st := vc.Try(func() { err = goa.ValidatePattern("v", value, pattern) })
	if p != "" {
		return verdict{Panic: p, Site: vc.PanicSite(st, "goa/v3/", "/repo/", "/pkg/")}
	}
	return classify(err)
}

// ---- small helpers shared by the generators

func pad(n, w int) string { return fmt.Sprintf("%0*d", w, n) }

func isLeap(y int) bool { return y%4 == 0 && (y%100 != 0 || y%400 == 0) }

func dim(y, m int) int {
	switch m {
	case 2:
		if isLeap(y) {
			return 29
		}
		return 28
	case 4, 6, 9, 11:
		return 30
	}
	return 31
}

// weekday: 0=Sunday (Sakamoto's method, proleptic Gregorian).
func weekday(y, m, d int) int {
	t := []int{0, 3, 2, 5, 0, 3, 5, 1, 4, 6, 2, 4}
	if m < 3 {
		y--
	}
	return ((y+y/4-y/100+y/400+t[m-1]+d)%7 + 7) % 7
}

const (
	lower  = "abcdefghijklmnopqrstuvwxyz"
	upper  = "ABCDEFGHIJKLMNOPQRSTUVWXYZ"
	digits = "0123456789"
	hexLo  = "0123456789abcdef"
)

func pickc(r *vc.Rand, set string) byte { return set[r.Intn(len(set))] }

func rstr(r *vc.Rand, set string, n int) string {
	b := make([]byte, n)
	for i := range b {
		b[i] = pickc(r, set)
	}
	return string(b)
}

// hexs returns n hex digits in the given case style: 0 lower, 1 upper, 2 mixed.
func hexs(r *vc.Rand, n, style int) string {
	s := rstr(r, hexLo, n)
	switch style {
	case 1:
		return strings.ToUpper(s)
	case 2:
		b := []byte(s)
		for i := range b {
			if r.Bool() {
				b[i] = strings.ToUpper(string(b[i]))[0]
			}
		}
		return string(b)
	}
	return s
}

// replaceAt replaces the byte at i.
func replaceAt(s string, i int, c string) string { return s[:i] + c + s[i+1:] }

func insertAt(s string, i int, c string) string { return s[:i] + c + s[i:] }

func deleteAt(s string, i int) string { return s[:i] + s[i+1:] }

// positions of bytes of s that belong to set.
func positions(s, set string) []int {
	var out []int
	for i := 0; i < len(s); i++ {
		if strings.IndexByte(set, s[i]) >= 0 {
			out = append(out, i)
		}
	}
	return out
}

func trunc(s string, n int) string {
	if len(s) > n {
		return s[:n] + "…"
	}
	return s
}
