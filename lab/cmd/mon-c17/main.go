// mon-c17: format and pattern validators (property C17), DESIGN.md §7.C17.
//
// Oracle, sharing no code with goa: every format case carries the verdict its
// CONSTRUCTION implies (built from the grammar => well formed; one named
// corruption that the grammar excludes => malformed); an independent recogniser
// written from the same RFC grammar double-checks the generator (disagreement
// => inconclusive, never a verdict). Pattern cases are judged against a fresh
// regexp.MustCompile(p).MatchString(v), which is what the statement names.
// Concurrent rounds run in child processes (a runtime "concurrent map" fatal
// error must not take the monitor down) under the race detector.
package main

import (
	"fmt"
	"os"
	"sort"
	"strings"
	"sync"

	"verif.local/lab/vc"
)

type witness struct {
	Kind    string     `json:"kind"` // format | relation | pattern | history | concurrent | race | fatal | cache
	Case    *fcase     `json:"case,omitempty"`
	Pattern *pcase     `json:"pattern_case,omitempty"`
	Value   string     `json:"value,omitempty"`
	Got     any        `json:"got,omitempty"`
	Round   *roundSpec `json:"round,omitempty"`
	Note    string     `json:"note,omitempty"`
}

// violate records a violation. The common runtime keeps at most 40 witnesses per run, so
// only the first occurrence of a key carries a witness (every key gets a replay file);
// all occurrences are counted and reported as "violation_occurrences" in the evidence.
var (
	occMu sync.Mutex
	occ   = map[string]int{}
)

func violate(run *vc.Run, key, what string, w any) {
	occMu.Lock()
	occ[key]++
	n := occ[key]
	occMu.Unlock()
	if n == 1 || run.IsKnown(key) {
		run.Violation(key, what, w)
	}
}

// ---------------------------------------------------------------- formats

// checkFormat judges one case. It returns the violation keys (empty = held).
func checkFormat(run *vc.Run, c fcase, verbose bool) []string {
	g := gens[c.Format]
	say := func(format string, a ...any) {
		if verbose {
			fmt.Printf(format+"\n", a...)
		}
	}
	say("format=%s class=%s value=%q", c.Format, c.Class, c.Value)
	if c.Valid {
		say(" construction: built from the grammar of the format => must be accepted")
	} else {
		say(" construction: valid instance with one corruption (%s) => must be rejected with error name invalid_format", c.Why)
	}
	if g != nil && g.ref != nil {
		ref := g.ref(c.Value)
		say(" independent recogniser says: %d (1 well formed, 0 malformed, -1 not judged)", ref)
		if ref == -1 || (ref == 1) != c.Valid {
			run.Inconclusive("generator and independent recogniser disagree: format=" + c.Format + " class=" + c.Class)
			say(" => inconclusive (generator/recogniser disagreement)")
			return nil
		}
	}
	got := callFormat(c.Format, c.Value)
	say(" goa: accepted=%v err_name=%q err_type=%q text=%q panic=%q", got.Accepted, got.ErrName, got.ErrType, trunc(got.ErrText, 200), got.Panic)
	var keys []string
	w := witness{Kind: "format", Case: &c, Got: got}
	switch {
	case got.Panic != "":
		k := "panic:" + got.Site
		violate(run, k, fmt.Sprintf("ValidateFormat(%q, %s) panicked: %s", c.Value, c.Format, got.Panic), w)
		keys = append(keys, k)
	case c.Valid && !got.Accepted:
		k := fmt.Sprintf("format=%s class=%s rejected", c.Format, c.Class)
		violate(run, k, fmt.Sprintf("well-formed %s %q rejected: %s", c.Format, c.Value, trunc(got.ErrText, 160)), w)
		keys = append(keys, k)
	case !c.Valid && got.Accepted:
		k := fmt.Sprintf("format=%s class=%s accepted", c.Format, c.Class)
		violate(run, k, fmt.Sprintf("malformed %s %q accepted (%s)", c.Format, c.Value, c.Why), w)
		keys = append(keys, k)
	}
	if !got.Accepted && got.Panic == "" && got.ErrName != "invalid_format" {
		k := fmt.Sprintf("format=%s wrong-error-name", c.Format)
		violate(run, k, fmt.Sprintf("rejection of %q carries name %q type %q, want invalid_format", c.Value, got.ErrName, got.ErrType), w)
		keys = append(keys, k)
	}
	if len(keys) == 0 {
		say(" => held")
	} else {
		say(" => VIOLATED %v", keys)
	}
	return keys
}

// checkRelation: ip accepted iff exactly one of ipv4/ipv6 accepted, never both. Needs no oracle.
func checkRelation(run *vc.Run, value string, verbose bool) []string {
	a4, a6, aip := callFormat("ipv4", value).Accepted, callFormat("ipv6", value).Accepted, callFormat("ip", value).Accepted
	if verbose {
		fmt.Printf("relation on %q: ipv4=%v ipv6=%v ip=%v\n", value, a4, a6, aip)
	}
	w := witness{Kind: "relation", Value: value, Got: map[string]bool{"ipv4": a4, "ipv6": a6, "ip": aip}}
	var keys []string
	switch {
	case a4 && a6:
		keys = append(keys, "relation: ipv4 and ipv6 both accept the same string")
	case aip && !a4 && !a6:
		keys = append(keys, "relation: ip accepts a string that neither ipv4 nor ipv6 accepts")
	case !aip && (a4 || a6):
		keys = append(keys, "relation: ip rejects a string that ipv4 or ipv6 accepts")
	}
	for _, k := range keys {
		violate(run, k, fmt.Sprintf("%q: ipv4=%v ipv6=%v ip=%v", value, a4, a6, aip), w)
	}
	return keys
}

func formatCase(run *vc.Run, fi int, f string, valid bool, i int) fcase {
	g := gens[f]
	if valid {
		r := run.Rand(17, uint64(fi), 0, uint64(i))
		cl, v := g.valid(r)
		return fcase{Format: f, Class: cl, Valid: true, Value: v}
	}
	r := run.Rand(17, uint64(fi), 1, uint64(i))
	cl := g.classes[i%len(g.classes)]
	v, why := g.invalid(r, cl)
	return fcase{Format: f, Class: cl, Value: v, Why: why}
}

func runFormats(run *vc.Run) {
	n := run.N(400, 10000)
	relSeen := map[string]bool{}
	for fi, f := range formats {
		for _, valid := range []bool{true, false} {
			for i := 0; i < n; i++ {
				c := formatCase(run, fi, f, valid, i)
				checkFormat(run, c, false)
				run.Eval(1)
				dir := "invalid"
				if valid {
					dir = "valid"
				}
				run.Distinct(f + "|" + dir + "|" + c.Value)
				run.Seen("format_classes", f+"|"+dir+"|"+c.Class)
				run.Count("format_cases_"+dir, 1)
				if i < 1 && fi%5 == 0 {
					run.Sample(c)
				}
				if !relSeen[c.Value] && len(relSeen) < 400000 {
					relSeen[c.Value] = true
					checkRelation(run, c.Value, false)
					run.Eval(1)
					run.Count("relation_cases", 1)
				}
			}
		}
	}
}

// ---------------------------------------------------------------- patterns, single-threaded

func checkPatternOnce(run *vc.Run, c pcase, path string, verbose bool) (verdict, []string) {
	got := callPattern(c.V, c.P)
	if verbose {
		fmt.Printf("pattern=%q value=%q (%s)\n oracle: regexp.MustCompile(p).MatchString(v) = %v\n goa (%s): accepted=%v err_name=%q panic=%q\n",
			c.P, c.V, c.How, c.Want, path, got.Accepted, got.ErrName, got.Panic)
	}
	w := witness{Kind: "pattern", Pattern: &c, Got: got, Note: path}
	var keys []string
	switch {
	case got.Panic != "":
		keys = append(keys, "panic:"+got.Site)
		violate(run, keys[0], fmt.Sprintf("ValidatePattern(%q,%q) panicked: %s", c.V, c.P, got.Panic), w)
	case got.Accepted != c.Want:
		keys = append(keys, "pattern: "+path+" verdict differs from regexp.MatchString")
		violate(run, keys[0], fmt.Sprintf("ValidatePattern(v=%q,p=%q) accepted=%v but MatchString=%v", c.V, c.P, got.Accepted, c.Want), w)
	case !got.Accepted && got.ErrName != "invalid_pattern":
		keys = append(keys, "pattern: wrong-error-name")
		violate(run, keys[0], fmt.Sprintf("mismatch reported with name %q type %q, want invalid_pattern", got.ErrName, got.ErrType), w)
	}
	return got, keys
}

func checkCacheInvariant(run *vc.Run, where string) {
	snap, ok := cacheSnapshot()
	if !ok {
		run.Inconclusive("cache invariant: hook VerifPatternCache not compiled in")
		return
	}
	run.Eval(1)
	run.Count("cache_entries_checked", len(snap))
	for k, s := range snap {
		if k != s {
			violate(run, "cache-invariant: cached regexp was not compiled from its key",
				fmt.Sprintf("at quiescent point (%s): key %q holds regexp %q", where, k, s), witness{Kind: "cache", Note: where, Value: k, Got: s})
		}
	}
}

func runPatterns(run *vc.Run) {
	np, nv := run.N(300, 7500), 20
	ps := buildPatterns(run.Seed, []uint64{1700}, np, nv)
	for _, d := range ps.samplerDisagreements {
		run.Inconclusive("pattern generator self-check failed: " + d.How)
	}
	run.Count("patterns", len(ps.pats))
	run.Count("pattern_values_matching", ps.matches)
	run.Count("pattern_values_non_matching", ps.nonMatches)
	// phase A: first use then cached use
	first := make([][]verdict, len(ps.pats))
	for i, cs := range ps.cases {
		first[i] = make([]verdict, len(cs))
		for j, c := range cs {
			path := "cached-path"
			if j == 0 {
				path = "first-use"
			}
			first[i][j], _ = checkPatternOnce(run, c, path, false)
			run.Eval(1)
			run.Distinct("pattern|" + c.P + "|" + c.V)
		}
		run.Seen("pattern_features", ps.pats[i].Feat)
		if i < 2 {
			run.Sample(map[string]any{"pattern": ps.pats[i].Src, "cases": cs[:3]})
		}
	}
	checkCacheInvariant(run, "after phase A")
	// phase B: fill the cache with other patterns, among them every value of phase A that is itself RE2
	// (a cache indexed by anything but the pattern text would now hold wrong entries)
	nb := 0
	seenV := map[string]bool{}
	for i, cs := range ps.cases {
		for _, c := range cs {
			if c.V == "" || seenV[c.V] || !isRE2(c.V) {
				continue
			}
			seenV[c.V] = true
			other := ps.pats[(i+1)%len(ps.pats)]
			for _, v := range []string{c.V, c.P, other.Sample(run.Rand(1701, uint64(nb)))} {
				want := mustMatch(c.V, v)
				checkPatternOnce(run, pcase{P: c.V, V: v, Want: want, How: "phase B: a phase-A value used as pattern"}, "first-use", false)
				run.Eval(1)
				nb++
			}
		}
	}
	extra := buildPatterns(run.Seed, []uint64{1702}, np/2, 4)
	for _, cs := range extra.cases {
		for j, c := range cs {
			path := "cached-path"
			if j == 0 {
				path = "first-use"
			}
			checkPatternOnce(run, c, path, false)
			run.Eval(1)
			nb++
		}
	}
	run.Count("history_interfering_calls", nb)
	// phase C: re-judge phase A in another order
	order := run.Rand(1703).Perm(len(ps.pats))
	for _, i := range order {
		cs := ps.cases[i]
		for _, j := range run.Rand(1704, uint64(i)).Perm(len(cs)) {
			c := cs[j]
			got := callPattern(c.V, c.P)
			run.Eval(1)
			run.Count("history_rejudged", 1)
			if got.Accepted != first[i][j].Accepted || got.ErrName != first[i][j].ErrName {
				violate(run, "pattern: verdict changed after other patterns were cached",
					fmt.Sprintf("ValidatePattern(v=%q,p=%q): first accepted=%v, after %d other calls accepted=%v (MatchString=%v)", c.V, c.P, first[i][j].Accepted, nb, got.Accepted, c.Want),
					witness{Kind: "history", Pattern: &c, Got: map[string]any{"before": first[i][j], "after": got}})
			} else if got.Accepted != c.Want {
				violate(run, "pattern: cached-path verdict differs from regexp.MatchString",
					fmt.Sprintf("ValidatePattern(v=%q,p=%q) accepted=%v but MatchString=%v", c.V, c.P, got.Accepted, c.Want),
					witness{Kind: "pattern", Pattern: &c, Got: got, Note: "phase C"})
			}
		}
	}
	checkCacheInvariant(run, "after phase C")
}

// ---------------------------------------------------------------- concurrent rounds

func roundList(run *vc.Run) []roundSpec {
	var out []roundSpec
	gs := []int{1, 2, 3, 4, 6, 8, 12, 16}
	reps, P, V, K := 1, 64, 10, 1500
	if run.Thorough() {
		gs = []int{1, 2, 3, 4, 5, 6, 7, 8, 9, 10, 11, 12, 13, 14, 15, 16}
		reps, P, V, K = 5, 200, 20, 6000
	}
	n := 0
	for rep := 0; rep < reps; rep++ {
		for _, g := range gs {
			out = append(out, roundSpec{Seed: run.Seed, Round: n, G: g, P: P, V: V, K: K})
			n++
		}
	}
	return out
}

func handleRound(run *vc.Run, sp roundSpec, res concResult, verbose bool) {
	w := witness{Kind: "concurrent", Round: &sp}
	if res.out == nil {
		if m := reFatal.FindStringSubmatch(res.stderr); m != nil {
			site := "unknown"
			if f := reGoaFrame.FindStringSubmatch(res.stderr); f != nil {
				site = f[1]
			}
			w.Kind, w.Note = "fatal", trunc(res.stderr, 2500)
			violate(run, "fatal: concurrent map access in "+site, fmt.Sprintf("child of round %d (G=%d) died: fatal error: %s", sp.Round, sp.G, m[1]), w)
			return
		}
		if strings.Contains(res.stderr, "panic:") {
			w.Kind, w.Note = "fatal", trunc(res.stderr, 2500)
			violate(run, "panic:"+vc.PanicSite(res.stderr, "goa/v3/", "/repo/"), fmt.Sprintf("child of round %d (G=%d) panicked", sp.Round, sp.G), w)
			return
		}
		run.Infra("concurrent round %d: %s: %s", sp.Round, res.problem, trunc(res.stderr, 300))
		return
	}
	o := res.out
	run.Eval(o.PatternOps + o.FormatOps)
	run.Count("concurrent_pattern_ops", o.PatternOps)
	run.Count("concurrent_format_ops", o.FormatOps)
	run.Count("concurrent_ops_expect_match", o.Matches)
	run.Count("concurrent_ops_expect_no_match", o.NonMatches)
	run.Count("concurrent_rounds", 1)
	run.Max("max_goroutines", sp.G)
	run.Seen("goroutine_counts", fmt.Sprint(sp.G))
	run.Distinct(fmt.Sprintf("round|%d|%d", sp.Round, sp.G))
	for _, d := range o.GenProblems {
		run.Inconclusive("pattern generator self-check failed: " + d.How)
	}
	if verbose {
		fmt.Printf("round %d G=%d: %d pattern ops (%d expect match, %d expect no match), %d format ops, %d mismatches, cache=%d entries hook=%v exit=%d\n",
			sp.Round, sp.G, o.PatternOps, o.Matches, o.NonMatches, o.FormatOps, o.NMismatch, o.CacheSize, o.Hook, res.exit)
	}
	for _, m := range o.Mismatches {
		w := witness{Kind: "concurrent", Round: &sp, Got: m}
		key := "pattern: concurrent verdict differs from regexp.MatchString"
		switch {
		case m.Problem == "panic":
			key = "panic:" + m.Got.Site
		case m.Kind == "format":
			key = "format=" + m.Format + " concurrent verdict differs from single-threaded verdict"
		case m.Problem == "wrong error name":
			key = "pattern: wrong-error-name"
		}
		violate(run, key, fmt.Sprintf("round %d G=%d goroutine %d op %d: %s (value %q pattern %q format %q)", sp.Round, sp.G, m.Goroutine, m.Op, m.Problem, m.Value, m.Pattern, m.Format), w)
		if verbose {
			fmt.Printf("  %s: %+v\n", key, m)
		}
	}
	if !o.Hook {
		run.Inconclusive("cache invariant: hook VerifPatternCache not compiled in")
	} else {
		run.Eval(1)
		run.Count("cache_entries_checked", o.CacheSize)
		for _, b := range o.CacheBad {
			violate(run, "cache-invariant: cached regexp was not compiled from its key", fmt.Sprintf("after round %d (G=%d): %s", sp.Round, sp.G, b), witness{Kind: "cache", Round: &sp, Note: b})
		}
	}
}

func reportRaces(run *vc.Run, dir string, pidRound map[int]roundSpec, verbose bool) {
	files, blocks, byKey := parseRaceLogs(dir)
	run.Count("race_log_files", files)
	run.Count("race_reports", blocks)
	run.Count("race_distinct_function_pairs", len(byKey))
	keys := make([]string, 0, len(byKey))
	for k := range byKey {
		keys = append(keys, k)
	}
	sort.Strings(keys)
	for _, k := range keys {
		r := byKey[k]
		w := witness{Kind: "race", Got: r}
		var pid int
		if _, err := fmt.Sscanf(r.File, "race.%d", &pid); err == nil {
			if sp, ok := pidRound[pid]; ok {
				w.Round = &sp
			}
		}
		violate(run, k, fmt.Sprintf("race detector: %d report(s) for this function pair; first: %s", r.Count, firstLines(r.Text, 12)), w)
		if verbose {
			fmt.Printf("%s (%d reports)\n%s\n", k, r.Count, r.Text)
		}
	}
}

func firstLines(s string, n int) string {
	ls := strings.Split(s, "\n")
	if len(ls) > n {
		ls = ls[:n]
	}
	return strings.Join(ls, "\n")
}

func runConcurrent(run *vc.Run, rounds []roundSpec, verbose bool) {
	if !raceEnabled {
		run.Infra("binary built without -race: data races cannot be observed")
	}
	dir := raceDir()
	pidRound := map[int]roundSpec{}
	for _, sp := range rounds {
		res := runRound(dir, sp)
		pidRound[res.pid] = sp
		handleRound(run, sp, res, verbose)
	}
	reportRaces(run, dir, pidRound, verbose)
}

// ---------------------------------------------------------------- main

func main() {
	if len(os.Args) >= 3 && os.Args[1] == "--conc-child" {
		runChild(os.Args[2])
		return
	}
	run := vc.New("C17")
	run.Rule("per format (14): N constructively valid instances (classes = structural features of the instance) and N single-point corruptions cycling through every named corruption class; every distinct string also goes through the ip/ipv4/ipv6 relation; P grammar-generated RE2 patterns x 20 values (samples matching by construction, one-edit mutants, pattern text, shared pool) judged first-use, cached, and again after the cache was filled with other patterns (incl. phase-A values used as patterns); concurrent rounds in child processes with 1..16 goroutines over overlapping windows of fresh patterns, every op carrying its expected verdict; race-detector logs parsed at the end. distinct = distinct (format,direction,string), (pattern,value), and rounds.")
	run.Assume(
		"valid instances stay inside the intersection of the named RFC and goa's doc comments: date/date-time = RFC 3339 full-date/date-time with upper-case T and Z, no leap second; uuid = the four spellings listed above validateUUID, RFC 4122 variant, versions 1-5, lower-case urn prefix; email = RFC 5322 addr-spec without CFWS/obs forms (name-addr such as `Name <a@b>` is neither generated nor used as a corruption); hostname = RFC 1035 §2.3.1 labels (letter first) — names with digit-first labels, trailing dot, and all-numeric TLDs are not judged; ipv4 without leading zeros; ipv6 per RFC 4291 §2.2 without zone; uri = RFC 3986 'URI' production (scheme required), no percent-encoding in host; mac = MAC-48/EUI-48/EUI-64 in the colon, hyphen and dotted forms (the 20-octet InfiniBand form the stdlib also takes is not judged); cidr without leading zeros in the length; json = RFC 8259 text in UTF-8, no lone surrogate escapes; rfc1123 = the fixed-length form 'Www, DD Mon YYYY HH:MM:SS zone' with zone GMT, a US zone name of RFC 822, or a numeric ±HHMM zone (RFC 1123 §5.2.14 recommends the numeric form); optional elements of the RFC 822 grammar (no weekday, 1-digit day, no seconds, UT, military zones, folding white space) and weekday/date mismatches are not judged either way",
		"pattern verdicts are compared with a fresh regexp.MustCompile(p).MatchString(v), as the statement names it; the matching-by-construction samples only cross-check the generator",
		"format verdicts under concurrency are compared with the single-threaded verdict on the same string (so known single-threaded findings are not reported twice)",
		"race reports are grouped by the innermost function outside the runtime and the standard library in each of the two conflicting accesses",
	)
	if run.Replay != "" {
		replay(run)
		finish(run)
	}
	runPatterns(run)
	runConcurrent(run, roundList(run), false)
	runFormats(run)
	finish(run)
}

func finish(run *vc.Run) {
	occMu.Lock()
	run.Extra("violation_occurrences", occ)
	occMu.Unlock()
	run.Floor(5000)
	run.Finish()
}

func mustMatch(p, v string) bool {
	re, err := compileFresh(p)
	if err != nil {
		return false
	}
	return re.MatchString(v)
}

func replay(run *vc.Run) {
	var w witness
	if err := run.LoadReplay(&w); err != nil {
		fmt.Println("replay:", err)
		run.Infra("cannot load replay file")
		return
	}
	fmt.Printf("replaying a %q witness\n", w.Kind)
	switch w.Kind {
	case "format":
		if w.Case == nil {
			run.Infra("witness has no case")
			return
		}
		checkFormat(run, *w.Case, true)
		run.Eval(1)
		checkRelation(run, w.Case.Value, true)
	case "relation":
		checkRelation(run, w.Value, true)
		run.Eval(1)
	case "pattern", "history":
		if w.Pattern == nil {
			run.Infra("witness has no pattern case")
			return
		}
		c := *w.Pattern
		c.Want = mustMatch(c.P, c.V)
		fmt.Println("fresh process: first use, then cached use, then after 200 unrelated patterns were cached")
		checkPatternOnce(run, c, "first-use", true)
		checkPatternOnce(run, c, "cached-path", true)
		other := buildPatterns(run.Seed, []uint64{1702}, 200, 2)
		for _, cs := range other.cases {
			for _, oc := range cs {
				callPattern(oc.V, oc.P)
			}
		}
		if isRE2(c.V) {
			callPattern(c.P, c.V)
		}
		checkPatternOnce(run, c, "cached-path", true)
		checkCacheInvariant(run, "replay")
		run.Eval(3)
	case "concurrent", "race", "fatal", "cache":
		if w.Round == nil {
			fmt.Println("witness carries no round; re-running the whole concurrent schedule list of the tier")
			runConcurrent(run, roundList(run), true)
			return
		}
		fmt.Printf("re-running round %+v five times (op lists are identical; the schedule is not reproducible, a race or a fatal error may need several attempts)\n", *w.Round)
		var rs []roundSpec
		for i := 0; i < 5; i++ {
			rs = append(rs, *w.Round)
		}
		runConcurrent(run, rs, true)
	default:
		run.Infra("unknown witness kind %q", w.Kind)
	}
}
