//go:build verif

package main

import goa "goa.design/goa/v3/pkg"

// cacheSnapshot returns the pattern cache (pattern text -> Regexp.String()) via
// the verif hook; ok=false when the hook is not compiled in.
func cacheSnapshot() (map[string]string, bool) { return goa.VerifPatternCache(), true }
